//! S-expression dump of the ucg AST (positions optional).
use ucglib::ast::*;

pub struct Dump {
    pub pos: bool,
}

fn q(s: &str) -> String {
    // JSON string quoting keeps the dump one-line and unambiguous
    serde_json::to_string(s).unwrap()
}

impl Dump {
    fn p(&self, pos: &Position) -> String {
        if self.pos {
            format!(" @{}:{}:{}", pos.line, pos.column, pos.offset)
        } else {
            String::new()
        }
    }

    pub fn op(k: &BinaryExprType) -> &'static str {
        match k {
            BinaryExprType::Add => "Add",
            BinaryExprType::Sub => "Sub",
            BinaryExprType::Mul => "Mul",
            BinaryExprType::Div => "Div",
            BinaryExprType::Mod => "Mod",
            BinaryExprType::AND => "AND",
            BinaryExprType::OR => "OR",
            BinaryExprType::Equal => "Equal",
            BinaryExprType::GT => "GT",
            BinaryExprType::LT => "LT",
            BinaryExprType::NotEqual => "NotEqual",
            BinaryExprType::GTEqual => "GTEqual",
            BinaryExprType::LTEqual => "LTEqual",
            BinaryExprType::REMatch => "REMatch",
            BinaryExprType::NotREMatch => "NotREMatch",
            BinaryExprType::IN => "IN",
            BinaryExprType::IS => "IS",
            BinaryExprType::DOT => "DOT",
        }
    }

    fn fields(&self, fl: &FieldList) -> String {
        let mut out = String::from("(");
        for (i, (tok, c, e)) in fl.iter().enumerate() {
            if i > 0 {
                out.push(' ');
            }
            out.push_str(&format!("(F {}{}", q(&tok.fragment), self.p(&tok.pos)));
            if let Some(c) = c {
                out.push_str(&format!(" (C {})", self.expr(c)));
            }
            out.push_str(&format!(" {})", self.expr(e)));
        }
        out.push(')');
        out
    }

    pub fn value(&self, v: &Value) -> String {
        match v {
            Value::Empty(p) => format!("(Empty{})", self.p(p)),
            Value::Boolean(b) => format!("(Bool {}{})", b.val, self.p(&b.pos)),
            Value::Int(i) => format!("(Int {}{})", i.val, self.p(&i.pos)),
            Value::Float(f) => format!("(Float {:?}{})", f.val, self.p(&f.pos)),
            Value::Str(s) => format!("(Str {}{})", q(&s.val), self.p(&s.pos)),
            Value::Symbol(s) => format!("(Sym {}{})", q(&s.val), self.p(&s.pos)),
            Value::Tuple(t) => format!("(Tuple{} {})", self.p(&t.pos), self.fields(&t.val)),
            Value::List(l) => format!("(List{} {})", self.p(&l.pos), self.exprs(&l.elems)),
        }
    }

    fn exprs(&self, es: &[Expression]) -> String {
        let v: Vec<String> = es.iter().map(|e| self.expr(e)).collect();
        format!("({})", v.join(" "))
    }

    fn opt(&self, e: &Option<Box<Expression>>) -> String {
        match e {
            Some(e) => self.expr(e),
            None => "_".to_string(),
        }
    }

    pub fn expr(&self, e: &Expression) -> String {
        match e {
            Expression::Simple(v) => self.value(v),
            Expression::Not(d) => format!("(Not{} {})", self.p(&d.pos), self.expr(&d.expr)),
            Expression::Binary(d) => format!(
                "(Bin {}{} {} {})",
                Self::op(&d.kind),
                self.p(&d.pos),
                self.expr(&d.left),
                self.expr(&d.right)
            ),
            Expression::Copy(d) => format!(
                "(Copy{} {} {})",
                self.p(&d.pos),
                self.value(&d.selector),
                self.fields(&d.fields)
            ),
            Expression::Range(d) => format!(
                "(Range{} {} {} {})",
                self.p(&d.pos),
                self.expr(&d.start),
                self.opt(&d.step),
                self.expr(&d.end)
            ),
            Expression::Grouped(e, p) => format!("(Group{} {})", self.p(p), self.expr(e)),
            Expression::Format(d) => format!(
                "(Format{} {} {})",
                self.p(&d.pos),
                q(&d.template),
                match &d.args {
                    FormatArgs::List(es) => format!("(L {})", self.exprs(es)),
                    FormatArgs::Single(e) => format!("(S {})", self.expr(e)),
                }
            ),
            Expression::Include(d) => format!(
                "(Include{} {} {})",
                self.p(&d.pos),
                q(&d.typ.fragment),
                q(&d.path.fragment)
            ),
            Expression::Import(d) => format!("(Import{} {})", self.p(&d.pos), q(&d.path.fragment)),
            Expression::Call(d) => format!(
                "(Call{} {} {})",
                self.p(&d.pos),
                self.value(&d.funcref),
                self.exprs(&d.arglist)
            ),
            Expression::Cast(d) => format!(
                "(Cast{} {} {})",
                self.p(&d.pos),
                match d.cast_type {
                    CastType::Int => "int",
                    CastType::Float => "float",
                    CastType::Str => "str",
                    CastType::Bool => "bool",
                },
                self.expr(&d.target)
            ),
            Expression::Func(d) => {
                let args: Vec<String> = d
                    .argdefs
                    .iter()
                    .map(|(n, c)| match c {
                        Some(c) => format!("({}{} {})", q(&n.val), self.p(&n.pos), self.expr(c)),
                        None => format!("({}{})", q(&n.val), self.p(&n.pos)),
                    })
                    .collect();
                format!(
                    "(Func{} ({}) {})",
                    self.p(&d.pos),
                    args.join(" "),
                    self.expr(&d.fields)
                )
            }
            Expression::Select(d) => format!(
                "(Select{} {} {} {})",
                self.p(&d.pos),
                self.expr(&d.val),
                self.opt(&d.default),
                self.fields(&d.tuple)
            ),
            Expression::FuncOp(d) => match d {
                FuncOpDef::Map(m) => format!(
                    "(Map{} {} {})",
                    self.p(&m.pos),
                    self.expr(&m.func),
                    self.expr(&m.target)
                ),
                FuncOpDef::Filter(m) => format!(
                    "(Filter{} {} {})",
                    self.p(&m.pos),
                    self.expr(&m.func),
                    self.expr(&m.target)
                ),
                FuncOpDef::Reduce(m) => format!(
                    "(Reduce{} {} {} {})",
                    self.p(&m.pos),
                    self.expr(&m.func),
                    self.expr(&m.acc),
                    self.expr(&m.target)
                ),
            },
            Expression::Module(d) => format!(
                "(Module{} {} {} {} {})",
                self.p(&d.pos),
                self.fields(&d.arg_set),
                self.opt(&d.out_expr),
                self.opt(&d.out_constraint),
                self.stmts(&d.statements)
            ),
            Expression::Fail(d) => format!("(Fail{} {})", self.p(&d.pos), self.expr(&d.message)),
            Expression::Debug(d) => format!("(Trace{} {})", self.p(&d.pos), self.expr(&d.expr)),
            Expression::Convert(d) => format!(
                "(Convert{} {} {})",
                self.p(&d.pos),
                q(&d.converter.fragment),
                self.expr(&d.target)
            ),
            Expression::Constraint(d) => {
                let arms: Vec<String> = d
                    .arms
                    .iter()
                    .map(|a| match a {
                        ConstraintArm::Range(r) => format!(
                            "(R{} {} {})",
                            self.p(&r.pos),
                            self.opt(&r.start),
                            self.opt(&r.end)
                        ),
                        ConstraintArm::Shape(e) => format!("(S {})", self.expr(e)),
                    })
                    .collect();
                format!("(Constraint{} {})", self.p(&d.pos), arms.join(" "))
            }
        }
    }

    pub fn stmt(&self, s: &Statement) -> String {
        match s {
            Statement::Expression(e) => format!("(Expr {})", self.expr(e)),
            Statement::Let(d) => format!(
                "(Let{} {} {} {})",
                self.p(&d.pos),
                q(&d.name.fragment),
                match &d.constraint {
                    Some(c) => self.expr(c),
                    None => "_".to_string(),
                },
                self.expr(&d.value)
            ),
            Statement::Constraint(d) => format!(
                "(ConstraintDef{} {} {})",
                self.p(&d.pos),
                q(&d.name.fragment),
                self.expr(&d.value)
            ),
            Statement::Assert(p, e) => format!("(Assert{} {})", self.p(p), self.expr(e)),
            Statement::Output(p, t, e) => {
                format!("(Out{} {} {})", self.p(p), q(&t.fragment), self.expr(e))
            }
        }
    }

    pub fn stmts(&self, ss: &[Statement]) -> String {
        let v: Vec<String> = ss.iter().map(|s| self.stmt(s)).collect();
        format!("({})", v.join(" "))
    }
}
