//! pvmprobe [--nostrict] [K=V ...]: for every file named on stdin (one path per line) prints
//!   (as pos-probe) FILE / AST / OPS, then the outcome of the real evaluation (FileBuilder::eval_string):
//!   EVAL ok | EVAL err <line>:<col>|- VIA <l>:<c>,... MSG <hex of the message> | EVAL panic <msg>
//! K=V arguments are the environment variables of the Environment (the `env` tuple).
//! pos-probe part: for every file named on stdin (one path per line) prints
//!   FILE <path>
//!   AST <positioned s-expression>      | PARSEERR <msg> | UNSUP <why>
//!   OPS <op>@<line>:<col> ...          | PANIC <msg>          (only when the file parses)
//! The AST is dumped AFTER the path rewriter that AST::translate runs first (it only changes
//! import/include path strings), template strings are split with the translator's own
//! template parsers (build/format.rs), so the dump is exactly what translate_expr walks.
use std::cell::RefCell;
use std::collections::BTreeMap;
use std::io::{BufRead, Write};
use std::rc::Rc;
use std::panic::{catch_unwind, AssertUnwindSafe};
use std::path::PathBuf;

use ucglib::ast::rewrite::Rewriter;
use ucglib::ast::walk::Walker;
use ucglib::ast::*;
use ucglib::build::format::{ExpressionTemplate, SimpleTemplate, TemplateParser};
use ucglib::build::opcode::translate::AST;
use ucglib::build::opcode::{Environment, Hook, Op, Primitive};
use ucglib::build::FileBuilder;
use ucglib::iter::OffsetStrIter;
use ucglib::parse::parse;

fn hx(s: &str) -> String {
    let mut o = String::from("x");
    for b in s.as_bytes() {
        o.push_str(&format!("{:02x}", b));
    }
    o
}

fn p(pos: &Position) -> String {
    format!("@{}:{}", pos.line, pos.column)
}

struct Unsup(String);
type R = Result<String, Unsup>;

fn op_name(k: &BinaryExprType) -> &'static str {
    match k {
        BinaryExprType::Add => "Add",
        BinaryExprType::Sub => "Sub",
        BinaryExprType::Mul => "Mul",
        BinaryExprType::Div => "Div",
        BinaryExprType::Mod => "Mod",
        BinaryExprType::AND => "AND",
        BinaryExprType::OR => "OR",
        BinaryExprType::Equal => "Equal",
        BinaryExprType::GT => "GT",
        BinaryExprType::LT => "LT",
        BinaryExprType::NotEqual => "NotEqual",
        BinaryExprType::GTEqual => "GTEqual",
        BinaryExprType::LTEqual => "LTEqual",
        BinaryExprType::REMatch => "REMatch",
        BinaryExprType::NotREMatch => "NotREMatch",
        BinaryExprType::IN => "IN",
        BinaryExprType::IS => "IS",
        BinaryExprType::DOT => "DOT",
    }
}

// field constraints are ignored by the translator (`_constraint`): dropped here as well
fn fields(fl: &FieldList) -> R {
    let mut v = Vec::new();
    for (tok, _c, e) in fl.iter() {
        v.push(format!("({} {} {})", p(&tok.pos), hx(&tok.fragment), expr(e)?));
    }
    Ok(format!("({})", v.join(" ")))
}

fn value(v: &Value) -> R {
    Ok(match v {
        Value::Empty(q) => format!("(null {})", p(q)),
        Value::Boolean(b) => format!("(bool {} {})", p(&b.pos), b.val),
        Value::Int(i) => format!("(int {} {})", p(&i.pos), i.val),
        Value::Float(f) => format!("(float {} {})", p(&f.pos), f.val.to_bits()),
        Value::Str(s) => format!("(str {} {})", p(&s.pos), hx(&s.val)),
        Value::Symbol(s) => format!("(sym {} {})", p(&s.pos), hx(&s.val)),
        Value::Tuple(t) => format!("(tuple {} {})", p(&t.pos), fields(&t.val)?),
        Value::List(l) => format!("(list {} {})", p(&l.pos), exprs(&l.elems)?),
    })
}

fn exprs(es: &[Expression]) -> R {
    let mut v = Vec::new();
    for e in es {
        v.push(expr(e)?);
    }
    Ok(format!("({})", v.join(" ")))
}

fn opt(e: &Option<Box<Expression>>) -> R {
    match e {
        Some(e) => expr(e),
        None => Ok("_".to_string()),
    }
}

fn parts(ps: &[TemplatePart]) -> R {
    let mut v = Vec::new();
    for part in ps {
        v.push(match part {
            TemplatePart::Str(cs) => {
                let s: String = cs.iter().collect();
                format!("(s {})", hx(&s))
            }
            TemplatePart::PlaceHolder(_) => "(hole)".to_string(),
            TemplatePart::Expression(e) => format!("(e {})", expr(e)?),
        });
    }
    Ok(format!("({})", v.join(" ")))
}

fn expr(e: &Expression) -> R {
    Ok(match e {
        Expression::Simple(v) => value(v)?,
        Expression::Not(d) => format!("(not {} {})", p(&d.pos), expr(&d.expr)?),
        Expression::Binary(d) => format!(
            "(bin {} {} {} {})",
            p(&d.pos),
            op_name(&d.kind),
            expr(&d.left)?,
            expr(&d.right)?
        ),
        Expression::Copy(d) => format!("(copy {} {} {})", p(&d.pos), value(&d.selector)?, fields(&d.fields)?),
        Expression::Range(d) => format!(
            "(range {} {} {} {})",
            p(&d.pos),
            expr(&d.start)?,
            opt(&d.step)?,
            expr(&d.end)?
        ),
        Expression::Grouped(e, q) => format!("(group {} {})", p(q), expr(e)?),
        Expression::Format(d) => match &d.args {
            FormatArgs::List(es) => {
                let ps = SimpleTemplate::new()
                    .parse(&d.template)
                    .map_err(|e| Unsup(format!("template error: {}", e)))?;
                format!("(fmtl {} {} {})", p(&d.pos), parts(&ps)?, exprs(es)?)
            }
            FormatArgs::Single(e) => {
                let ps = ExpressionTemplate::new()
                    .at(&d.pos)
                    .parse(&d.template)
                    .map_err(|e| Unsup(format!("template error: {}", e)))?;
                format!("(fmts {} {} {} {})", p(&d.pos), hx(&d.template), parts(&ps)?, expr(e)?)
            }
        },
        Expression::Include(d) => format!(
            "(include {} {} {} {} {})",
            p(&d.pos),
            p(&d.typ.pos),
            hx(&d.typ.fragment),
            p(&d.path.pos),
            hx(&d.path.fragment)
        ),
        Expression::Import(d) => format!("(import {} {} {})", p(&d.pos), p(&d.path.pos), hx(&d.path.fragment)),
        Expression::Call(d) => format!("(call {} {} {})", p(&d.pos), value(&d.funcref)?, exprs(&d.arglist)?),
        Expression::Cast(d) => format!(
            "(cast {} {} {})",
            p(&d.pos),
            match d.cast_type {
                CastType::Int => "int",
                CastType::Float => "float",
                CastType::Str => "str",
                CastType::Bool => "bool",
            },
            expr(&d.target)?
        ),
        Expression::Func(d) => {
            // parameter constraints are ignored by the translator
            let args: Vec<String> = d.argdefs.iter().map(|(n, _c)| format!("({} {})", p(&n.pos), hx(&n.val))).collect();
            format!("(func {} ({}) {})", p(&d.pos), args.join(" "), expr(&d.fields)?)
        }
        Expression::Select(d) => format!(
            "(select {} {} {} {})",
            p(&d.pos),
            expr(&d.val)?,
            opt(&d.default)?,
            fields(&d.tuple)?
        ),
        Expression::FuncOp(d) => match d {
            FuncOpDef::Map(m) => format!("(map {} {} {})", p(&m.pos), expr(&m.func)?, expr(&m.target)?),
            FuncOpDef::Filter(m) => format!("(filter {} {} {})", p(&m.pos), expr(&m.func)?, expr(&m.target)?),
            FuncOpDef::Reduce(m) => format!(
                "(reduce {} {} {} {})",
                p(&m.pos),
                expr(&m.func)?,
                expr(&m.acc)?,
                expr(&m.target)?
            ),
        },
        // the out constraint is ignored by the translator
        Expression::Module(d) => format!(
            "(module {} {} {} {})",
            p(&d.pos),
            fields(&d.arg_set)?,
            opt(&d.out_expr)?,
            stmts(&d.statements)?
        ),
        Expression::Fail(d) => format!("(fail {} {})", p(&d.pos), expr(&d.message)?),
        Expression::Debug(d) => format!("(trace {} {})", p(&d.pos), expr(&d.expr)?),
        Expression::Convert(d) => format!(
            "(convert {} {} {} {})",
            p(&d.pos),
            p(&d.converter.pos),
            hx(&d.converter.fragment),
            expr(&d.target)?
        ),
        Expression::Constraint(_) => return Err(Unsup("constraint expression".into())),
    })
}

fn stmt(s: &Statement) -> R {
    Ok(match s {
        Statement::Expression(e) => format!("(expr {})", expr(e)?),
        Statement::Let(d) => {
            if d.constraint.is_some() {
                return Err(Unsup("let with a constraint".into()));
            }
            format!("(let {} {} {} {})", p(&d.pos), p(&d.name.pos), hx(&d.name.fragment), expr(&d.value)?)
        }
        Statement::Constraint(_) => return Err(Unsup("constraint statement".into())),
        Statement::Assert(q, e) => format!("(assert {} {})", p(q), expr(e)?),
        Statement::Output(q, t, e) => format!("(out {} {} {} {})", p(q), p(&t.pos), hx(&t.fragment), expr(e)?),
    })
}

fn stmts(ss: &[Statement]) -> R {
    let mut v = Vec::new();
    for s in ss {
        v.push(stmt(s)?);
    }
    Ok(format!("({})", v.join(" ")))
}

fn op_text(op: &Op) -> String {
    match op {
        Op::Bind => "Bind".to_string(),
        Op::BindOver => "BindOver".to_string(),
        Op::Pop => "Pop".to_string(),
        Op::NewScope(j) => format!("NewScope:{}", j),
        Op::Add => "Add".into(),
        Op::Sub => "Sub".into(),
        Op::Div => "Div".into(),
        Op::Mul => "Mul".into(),
        Op::Mod => "Mod".into(),
        Op::Equal => "Equal".into(),
        Op::Gt => "Gt".into(),
        Op::Lt => "Lt".into(),
        Op::GtEq => "GtEq".into(),
        Op::LtEq => "LtEq".into(),
        Op::Not => "Not".into(),
        Op::Val(Primitive::Int(i)) => format!("Val:Int:{}", i),
        Op::Val(Primitive::Float(f)) => format!("Val:Float:{}", f.to_bits()),
        Op::Val(Primitive::Str(s)) => format!("Val:Str:{}", hx(s)),
        Op::Val(Primitive::Bool(b)) => format!("Val:Bool:{}", b),
        Op::Val(Primitive::Empty) => "Val:Empty".into(),
        Op::Cast(t) => format!(
            "Cast:{}",
            match t {
                CastType::Int => "int",
                CastType::Float => "float",
                CastType::Str => "str",
                CastType::Bool => "bool",
            }
        ),
        Op::Sym(s) => format!("Sym:{}", hx(s)),
        Op::DeRef(s) => format!("DeRef:{}", hx(s)),
        Op::InitTuple => "InitTuple".into(),
        Op::Field => "Field".into(),
        Op::InitList => "InitList".into(),
        Op::Element => "Element".into(),
        Op::Cp => "Cp".into(),
        Op::Bang => "Bang".into(),
        Op::Jump(j) => format!("Jump:{}", j),
        Op::JumpIfTrue(j) => format!("JumpIfTrue:{}", j),
        Op::JumpIfFalse(j) => format!("JumpIfFalse:{}", j),
        Op::SelectJump(j) => format!("SelectJump:{}", j),
        Op::And(j) => format!("And:{}", j),
        Op::Or(j) => format!("Or:{}", j),
        Op::Index => "Index".into(),
        Op::SafeIndex => "SafeIndex".into(),
        Op::Exist => "Exist".into(),
        Op::Noop => "Noop".into(),
        Op::InitThunk(j) => format!("InitThunk:{}", j),
        Op::Module(j) => format!("Module:{}", j),
        Op::Func(j) => format!("Func:{}", j),
        Op::Return => "Return".into(),
        Op::FCall => "FCall".into(),
        Op::Typ => "Typ".into(),
        Op::Runtime(h) => format!(
            "Runtime:{}",
            match h {
                Hook::Map => "Map",
                Hook::Include => "Include",
                Hook::Filter => "Filter",
                Hook::Reduce => "Reduce",
                Hook::Import => "Import",
                Hook::Out => "Out",
                Hook::Assert => "Assert",
                Hook::Convert => "Convert",
                Hook::Regex => "Regex",
                Hook::Range => "Range",
                Hook::Trace(_) => "Trace",
            }
        ),
        Op::Render => "Render".into(),
        Op::PushSelf => "PushSelf".into(),
        Op::PopSelf => "PopSelf".into(),
        Op::CheckConstraint => "CheckConstraint".into(),
        Op::BuildConstraint(_) => "BuildConstraint".into(),
    }
}

fn panic_msg(pl: Box<dyn std::any::Any + Send>) -> String {
    if let Some(s) = pl.downcast_ref::<&str>() {
        s.to_string()
    } else if let Some(s) = pl.downcast_ref::<String>() {
        s.clone()
    } else {
        "?".to_string()
    }
}


/// "msg at line: L column: C\nVIA: line: .. column: ..\n..." -> (primary, via list, message)
fn split_error(text: &str) -> (Option<(usize, usize)>, Vec<(usize, usize)>, String) {
    fn lc(s: &str) -> Option<(usize, usize)> {
        // "line: L column: C"
        let s = s.trim();
        let rest = s.strip_prefix("line: ")?;
        let mut it = rest.split(" column: ");
        let l = it.next()?.trim().parse::<usize>().ok()?;
        let c = it.next()?.trim().parse::<usize>().ok()?;
        Some((l, c))
    }
    let mut lines: Vec<&str> = text.split('\n').collect();
    let mut via = Vec::new();
    while lines.len() > 1 {
        let last = lines[lines.len() - 1];
        if let Some(rest) = last.strip_prefix("VIA: ") {
            if let Some(p) = lc(rest) {
                via.push(p);
                lines.pop();
                continue;
            }
        }
        break;
    }
    via.reverse();
    let head = lines.join("\n");
    match head.rfind(" at line: ") {
        Some(i) => {
            let p = lc(&head[i + 4..]);
            (p, via, head[..i].to_string())
        }
        None => (None, via, head),
    }
}

fn eval_line(src: &str, strict: bool, env: &RefCell<Environment<Vec<u8>, Vec<u8>>>) -> String {
    {
        let mut e = env.borrow_mut();
        e.out_lock.clear();
        e.val_cache.clear();
        e.assert_results = ucglib::build::AssertCollector::new();
        e.stdout.clear();
        e.stderr.clear();
    }
    let paths: Vec<PathBuf> = Vec::new();
    let mut b = FileBuilder::new(PathBuf::from("/nonexistent-wd"), &paths, env);
    b.set_strict(strict);
    match b.eval_string(src) {
        Ok(_) => "EVAL ok".to_string(),
        Err(e) => {
            let text = format!("{}", e);
            let (p, via, msg) = split_error(&text);
            let ps = match p {
                Some((l, c)) => format!("{}:{}", l, c),
                None => "-".to_string(),
            };
            let vs: Vec<String> = via.iter().map(|(l, c)| format!("{}:{}", l, c)).collect();
            format!("EVAL err {} VIA {} MSG {}", ps, vs.join(","), hx(&msg))
        }
    }
}

fn main() {
    std::panic::set_hook(Box::new(|_| {}));
    let root = PathBuf::from("/nonexistent-wd");
    let mut strict = true;
    let mut vars: BTreeMap<Rc<str>, Rc<str>> = BTreeMap::new();
    for a in std::env::args().skip(1) {
        if a == "--nostrict" {
            strict = false;
        } else if let Some(i) = a.find('=') {
            vars.insert(a[..i].into(), a[i + 1..].into());
        }
    }
    let mut env = RefCell::new(Environment::new_with_vars(Vec::new(), Vec::new(), vars.clone()));
    let stdin = std::io::stdin();
    let stdout = std::io::stdout();
    let mut out = std::io::BufWriter::new(stdout.lock());
    for line in stdin.lock().lines() {
        let path = match line {
            Ok(l) => l,
            Err(_) => break,
        };
        if path.is_empty() {
            continue;
        }
        writeln!(out, "FILE {}", path).unwrap();
        let src = match std::fs::read_to_string(&path) {
            Ok(s) => s,
            Err(e) => {
                writeln!(out, "PARSEERR cannot read: {}", e).unwrap();
                continue;
            }
        };
        let parsed = catch_unwind(AssertUnwindSafe(|| parse(OffsetStrIter::new(&src), None)));
        let mut ss = match parsed {
            Ok(Ok(ss)) => ss,
            Ok(Err(e)) => {
                writeln!(out, "PARSEERR {}", format!("{}", e).replace('\n', " | ")).unwrap();
                continue;
            }
            Err(pl) => {
                writeln!(out, "PARSEERR panic {}", panic_msg(pl).replace('\n', " | ")).unwrap();
                continue;
            }
        };
        {
            let mut rw = Rewriter::new(root.clone());
            rw.walk_statement_list(ss.iter_mut().collect());
        }
        match catch_unwind(AssertUnwindSafe(|| stmts(&ss))) {
            Ok(Ok(s)) => writeln!(out, "AST {}", s).unwrap(),
            Ok(Err(Unsup(why))) => writeln!(out, "UNSUP {}", why.replace('\n', " | ")).unwrap(),
            Err(pl) => writeln!(out, "UNSUP panic in dump {}", panic_msg(pl).replace('\n', " | ")).unwrap(),
        }
        let ss2 = ss.clone();
        match catch_unwind(AssertUnwindSafe(|| AST::translate(ss2, &root))) {
            Ok(om) => {
                assert_eq!(om.ops.len(), om.pos.len());
                let v: Vec<String> = om
                    .ops
                    .iter()
                    .zip(om.pos.iter())
                    .map(|(op, q)| format!("{}{}", op_text(op), p(q)))
                    .collect();
                writeln!(out, "OPS {}", v.join(" ")).unwrap();
            }
            Err(pl) => writeln!(out, "PANIC {}", panic_msg(pl).replace('\n', " | ")).unwrap(),
        }
        match catch_unwind(AssertUnwindSafe(|| eval_line(&src, strict, &env))) {
            Ok(s) => writeln!(out, "{}", s).unwrap(),
            Err(pl) => {
                writeln!(out, "EVAL panic {}", panic_msg(pl).replace('\n', " | ")).unwrap();
                // the RefCell may be left borrowed: start from a fresh environment
                env = RefCell::new(Environment::new_with_vars(Vec::new(), Vec::new(), vars.clone()));
            }
        }
    }
}
