//! ucg-harness: runs pieces of the real implementation (/repo, crate `ucglib`) on
//! cases read from stdin (one JSON value per line) and prints one JSON value per line.
//! Every case runs under catch_unwind; a panic is reported as {"panic": "..."}.
mod dump;

use std::cell::RefCell;
use std::collections::BTreeMap;
use std::io::{BufRead, Write};
use std::panic::{catch_unwind, AssertUnwindSafe};
use std::path::PathBuf;
use std::rc::Rc;

use serde_json::{json, Value as J};

use ucglib::ast::printer::AstPrinter;
use ucglib::ast::{Position, Statement, Token, TokenType};
use ucglib::build::opcode::Environment;
use ucglib::build::{FileBuilder, Val};
use ucglib::convert::{ConverterRegistry, ImporterRegistry};
use ucglib::iter::OffsetStrIter;
use ucglib::parse::parse;
use ucglib::tokenizer::{tokenize, CommentMap};

use dump::Dump;

fn tok_type(t: &TokenType) -> &'static str {
    match t {
        TokenType::EMPTY => "EMPTY",
        TokenType::BOOLEAN => "BOOLEAN",
        TokenType::END => "END",
        TokenType::WS => "WS",
        TokenType::COMMENT => "COMMENT",
        TokenType::QUOTED => "QUOTED",
        TokenType::PIPEQUOTE => "PIPEQUOTE",
        TokenType::DIGIT => "DIGIT",
        TokenType::BAREWORD => "BAREWORD",
        TokenType::PUNCT => "PUNCT",
    }
}

fn tok_json(t: &Token) -> J {
    json!([tok_type(&t.typ), t.fragment.as_ref(), t.pos.line, t.pos.column, t.pos.offset])
}

fn pos_json(p: &Position) -> J {
    json!([p.line, p.column, p.offset])
}

/// JSON encoding of a Val used on the wire:
/// null | true/false | {"i": "<decimal>"} | {"f": "<bits as u64 decimal>"} | {"s": str}
/// | {"l": [..]} | {"t": [[k, v], ..]} | {"e": [[k, v]..]} | {"c": null}
fn val_of_json(j: &J) -> Result<Val, String> {
    Ok(match j {
        J::Null => Val::Empty,
        J::Bool(b) => Val::Boolean(*b),
        J::Object(m) => {
            if let Some(i) = m.get("i") {
                Val::Int(i.as_str().ok_or("i")?.parse::<i64>().map_err(|e| e.to_string())?)
            } else if let Some(f) = m.get("f") {
                let bits = f.as_str().ok_or("f")?.parse::<u64>().map_err(|e| e.to_string())?;
                Val::Float(f64::from_bits(bits))
            } else if let Some(s) = m.get("s") {
                Val::Str(s.as_str().ok_or("s")?.into())
            } else if let Some(l) = m.get("l") {
                let mut v = Vec::new();
                for x in l.as_array().ok_or("l")? {
                    v.push(Rc::new(val_of_json(x)?));
                }
                Val::List(v)
            } else if let Some(t) = m.get("t") {
                let mut v = Vec::new();
                for x in t.as_array().ok_or("t")? {
                    let pair = x.as_array().ok_or("pair")?;
                    v.push((
                        pair[0].as_str().ok_or("key")?.into(),
                        Rc::new(val_of_json(&pair[1])?),
                    ));
                }
                Val::Tuple(v)
            } else if let Some(t) = m.get("e") {
                let mut v: Vec<(Rc<str>, Rc<str>)> = Vec::new();
                for x in t.as_array().ok_or("e")? {
                    let pair = x.as_array().ok_or("pair")?;
                    v.push((
                        pair[0].as_str().ok_or("key")?.into(),
                        pair[1].as_str().ok_or("val")?.into(),
                    ));
                }
                Val::Env(v)
            } else if m.contains_key("c") {
                Val::Constraint(ucglib::build::ir::ConstraintVal { arms: vec![] })
            } else {
                return Err("bad val object".into());
            }
        }
        _ => return Err("bad val".into()),
    })
}

fn json_of_val(v: &Val) -> J {
    match v {
        Val::Empty => J::Null,
        Val::Boolean(b) => J::Bool(*b),
        Val::Int(i) => json!({"i": i.to_string()}),
        Val::Float(f) => json!({"f": f.to_bits().to_string(), "txt": format!("{}", f)}),
        Val::Str(s) => json!({"s": s.as_ref()}),
        Val::List(l) => json!({"l": l.iter().map(|x| json_of_val(x)).collect::<Vec<_>>()}),
        Val::Tuple(t) => {
            json!({"t": t.iter().map(|(k, x)| json!([k.as_ref(), json_of_val(x)])).collect::<Vec<_>>()})
        }
        Val::Env(t) => {
            json!({"e": t.iter().map(|(k, x)| json!([k.as_ref(), x.as_ref()])).collect::<Vec<_>>()})
        }
        Val::Constraint(_) => json!({"c": null}),
    }
}

fn bytes_json(b: &[u8]) -> J {
    match std::str::from_utf8(b) {
        Ok(s) => json!({"utf8": s}),
        Err(_) => json!({"hex": b.iter().map(|x| format!("{:02x}", x)).collect::<String>()}),
    }
}

fn parse_text(src: &str) -> Result<Vec<Statement>, String> {
    parse(OffsetStrIter::new(src), None).map_err(|e| format!("{}", e))
}

fn new_env(vars: BTreeMap<Rc<str>, Rc<str>>) -> RefCell<Environment<Vec<u8>, Vec<u8>>> {
    RefCell::new(Environment::new_with_vars(Vec::new(), Vec::new(), vars))
}

thread_local! {
    static SHARED_ENV: RefCell<Environment<Vec<u8>, Vec<u8>>> = new_env(BTreeMap::new());
}

fn run_case(mode: &str, input: &J) -> J {
    match mode {
        // expression text -> AST shape of `let x = <text>;`
        "shape" => {
            let src = format!("let x = {};", input.as_str().unwrap_or(""));
            match parse_text(&src) {
                Ok(stmts) => {
                    if stmts.len() != 1 {
                        return json!({"err": "not one statement"});
                    }
                    match &stmts[0] {
                        Statement::Let(d) => json!({"ok": Dump { pos: false }.expr(&d.value)}),
                        _ => json!({"err": "not a let"}),
                    }
                }
                Err(e) => json!({"err": e}),
            }
        }
        // program text -> AST dump
        "ast" | "astpos" => {
            let src = input.as_str().unwrap_or("");
            match parse_text(src) {
                Ok(stmts) => json!({"ok": Dump { pos: mode == "astpos" }.stmts(&stmts)}),
                Err(e) => json!({"err": e}),
            }
        }
        // text -> tokens with positions
        "tokens" => {
            let src = input.as_str().unwrap_or("");
            match tokenize(OffsetStrIter::new(src), None) {
                Ok(toks) => json!({"ok": toks.iter().map(tok_json).collect::<Vec<_>>()}),
                Err(e) => json!({"err": format!("{}", e)}),
            }
        }
        // text -> tokens + comment map
        "tokens_cm" => {
            let src = input.as_str().unwrap_or("");
            let mut cm = CommentMap::new();
            match tokenize(OffsetStrIter::new(src), Some(&mut cm)) {
                Ok(toks) => {
                    let cmj: Vec<J> = cm
                        .iter()
                        .map(|(k, v)| json!([k, v.iter().map(tok_json).collect::<Vec<_>>()]))
                        .collect();
                    json!({"ok": toks.iter().map(tok_json).collect::<Vec<_>>(), "cm": cmj})
                }
                Err(e) => json!({"err": format!("{}", e)}),
            }
        }
        // {"conv": name, "val": val} -> bytes
        "convert" => {
            let name = input["conv"].as_str().unwrap_or("");
            let v = match val_of_json(&input["val"]) {
                Ok(v) => v,
                Err(e) => return json!({"bad_case": e}),
            };
            let reg = ConverterRegistry::make_registry();
            match reg.get_converter(name) {
                None => json!({"err": "no such converter"}),
                Some(c) => {
                    let mut buf: Vec<u8> = Vec::new();
                    match c.convert(Rc::new(v), &mut buf) {
                        Ok(()) => json!({"ok": bytes_json(&buf), "ext": c.file_ext()}),
                        Err(e) => json!({"err": format!("{}", e), "partial": bytes_json(&buf)}),
                    }
                }
            }
        }
        // {"imp": name, "hex": bytes} -> val
        "import" => {
            let name = input["imp"].as_str().unwrap_or("");
            let hex = input["hex"].as_str().unwrap_or("");
            let bytes: Vec<u8> = (0..hex.len() / 2)
                .map(|i| u8::from_str_radix(&hex[2 * i..2 * i + 2], 16).unwrap_or(0))
                .collect();
            let reg = ImporterRegistry::make_registry();
            match reg.get_importer(name) {
                None => json!({"err": "no such importer"}),
                Some(c) => match c.import(&bytes) {
                    Ok(v) => json!({"ok": json_of_val(&v)}),
                    Err(e) => json!({"err": format!("{}", e)}),
                },
            }
        }
        // registry listing
        "registry" => {
            let reg = ConverterRegistry::make_registry();
            let mut convs: Vec<(String, String)> = reg
                .get_converter_list()
                .iter()
                .map(|(k, c)| ((*k).clone(), c.file_ext()))
                .collect();
            convs.sort();
            let ireg = ImporterRegistry::make_registry();
            let mut imps: Vec<String> =
                ireg.get_importer_list().iter().map(|(k, _)| (*k).clone()).collect();
            imps.sort();
            json!({"converters": convs, "importers": imps})
        }
        // {"src": text, "strict": bool, "env": {..}} -> bindings (eval_string: no type checker)
        "eval" => {
            let src = input["src"].as_str().unwrap_or("");
            let strict = input["strict"].as_bool().unwrap_or(true);
            let mut vars: BTreeMap<Rc<str>, Rc<str>> = BTreeMap::new();
            if let Some(m) = input["env"].as_object() {
                for (k, v) in m {
                    vars.insert(k.as_str().into(), v.as_str().unwrap_or("").into());
                }
            }
            let paths: Vec<PathBuf> = Vec::new();
            if vars.is_empty() {
                // building an Environment translates the whole embedded std library (~0.2 s): share one per
                // process for programs that cannot observe it, resetting every piece of mutable state
                return SHARED_ENV.with(|env| {
                    {
                        let mut e = env.borrow_mut();
                        e.out_lock.clear();
                        e.val_cache.clear();
                        e.assert_results = ucglib::build::AssertCollector::new();
                        e.stdout.clear();
                        e.stderr.clear();
                    }
                    let mut b = FileBuilder::new(PathBuf::from("/nonexistent-wd"), &paths, env);
                    b.set_strict(strict);
                    match b.eval_string(src) {
                        Ok(v) => json!({"ok": json_of_val(&v)}),
                        Err(e) => json!({"err": format!("{}", e)}),
                    }
                });
            }
            let env = new_env(vars);
            let mut b = FileBuilder::new(PathBuf::from("/nonexistent-wd"), &paths, &env);
            b.set_strict(strict);
            match b.eval_string(src) {
                Ok(v) => json!({"ok": json_of_val(&v)}),
                Err(e) => json!({"err": format!("{}", e)}),
            }
        }
        // program text -> formatted text (ucg fmt path: parse with comment map, print)
        "fmt" => {
            let src = input.as_str().unwrap_or("");
            let mut cm = CommentMap::new();
            match parse(OffsetStrIter::new(src), Some(&mut cm)) {
                Ok(stmts) => {
                    let mut buf: Vec<u8> = Vec::new();
                    let res = {
                        let mut p = AstPrinter::new(2, &mut buf).with_comment_map(&cm);
                        p.render(&stmts)
                    };
                    match res {
                        Ok(()) => json!({"ok": bytes_json(&buf)}),
                        Err(e) => json!({"err": format!("io: {}", e)}),
                    }
                }
                Err(e) => json!({"err": format!("{}", e)}),
            }
        }
        // program text -> the real translator's opcode sequence in a canonical text form
        "ops" => {
            use ucglib::build::opcode::{Hook, Op, Primitive};
            let src = input.as_str().unwrap_or("");
            let stmts = match parse_text(src) {
                Ok(s) => s,
                Err(e) => return json!({"err": e}),
            };
            let ops = ucglib::build::opcode::translate::AST::translate(stmts, &PathBuf::from("/nonexistent-wd"));
            fn hx(s: &str) -> String {
                let mut o = String::from("x");
                for b in s.as_bytes() {
                    o.push_str(&format!("{:02x}", b));
                }
                o
            }
            let v: Vec<String> = ops.ops.iter().map(|op| match op {
                Op::Bind => "Bind".to_string(), Op::BindOver => "BindOver".to_string(), Op::Pop => "Pop".to_string(),
                Op::NewScope(j) => format!("NewScope:{}", j),
                Op::Add => "Add".into(), Op::Sub => "Sub".into(), Op::Div => "Div".into(), Op::Mul => "Mul".into(), Op::Mod => "Mod".into(),
                Op::Equal => "Equal".into(), Op::Gt => "Gt".into(), Op::Lt => "Lt".into(), Op::GtEq => "GtEq".into(), Op::LtEq => "LtEq".into(),
                Op::Not => "Not".into(),
                Op::Val(Primitive::Int(i)) => format!("Val:Int:{}", i),
                Op::Val(Primitive::Float(f)) => format!("Val:Float:{}", f.to_bits()),
                Op::Val(Primitive::Str(s)) => format!("Val:Str:{}", hx(s)),
                Op::Val(Primitive::Bool(b)) => format!("Val:Bool:{}", b),
                Op::Val(Primitive::Empty) => "Val:Empty".into(),
                Op::Cast(t) => format!("Cast:{}", t),
                Op::Sym(s) => format!("Sym:{}", hx(s)), Op::DeRef(s) => format!("DeRef:{}", hx(s)),
                Op::InitTuple => "InitTuple".into(), Op::Field => "Field".into(), Op::InitList => "InitList".into(),
                Op::Element => "Element".into(), Op::Cp => "Cp".into(), Op::Bang => "Bang".into(),
                Op::Jump(j) => format!("Jump:{}", j), Op::JumpIfTrue(j) => format!("JumpIfTrue:{}", j),
                Op::JumpIfFalse(j) => format!("JumpIfFalse:{}", j), Op::SelectJump(j) => format!("SelectJump:{}", j),
                Op::And(j) => format!("And:{}", j), Op::Or(j) => format!("Or:{}", j),
                Op::Index => "Index".into(), Op::SafeIndex => "SafeIndex".into(), Op::Exist => "Exist".into(), Op::Noop => "Noop".into(),
                Op::InitThunk(j) => format!("InitThunk:{}", j), Op::Module(j) => format!("Module:{}", j), Op::Func(j) => format!("Func:{}", j),
                Op::Return => "Return".into(), Op::FCall => "FCall".into(), Op::Typ => "Typ".into(),
                Op::Runtime(h) => format!("Runtime:{}", match h {
                    Hook::Map => "Map", Hook::Include => "Include", Hook::Filter => "Filter", Hook::Reduce => "Reduce",
                    Hook::Import => "Import", Hook::Out => "Out", Hook::Assert => "Assert", Hook::Convert => "Convert",
                    Hook::Regex => "Regex", Hook::Range => "Range", Hook::Trace(_) => "Trace" }),
                Op::Render => "Render".into(), Op::PushSelf => "PushSelf".into(), Op::PopSelf => "PopSelf".into(),
                Op::CheckConstraint => "CheckConstraint".into(), Op::BuildConstraint(_) => "BuildConstraint".into(),
            }).collect();
            json!({"ok": v.join(" ")})
        }
        // text -> outcome of every stage, each under its own catch_unwind
        "stages" => {
            let src = input.as_str().unwrap_or("").to_string();
            fn stage<F: FnOnce() -> std::result::Result<String, String> + std::panic::UnwindSafe>(f: F) -> J {
                match catch_unwind(f) {
                    Ok(Ok(s)) => json!({"ok": s}),
                    Ok(Err(e)) => json!({"err": e}),
                    Err(p) => {
                        let msg = if let Some(s) = p.downcast_ref::<&str>() { s.to_string() }
                                  else if let Some(s) = p.downcast_ref::<String>() { s.clone() } else { "?".to_string() };
                        json!({"panic": msg})
                    }
                }
            }
            let s1 = src.clone();
            let tokens = stage(move || tokenize(OffsetStrIter::new(&s1), None).map(|t| t.len().to_string()).map_err(|e| format!("{}", e)));
            let s2 = src.clone();
            let parsed = stage(move || parse_text(&s2).map(|st| st.len().to_string()));
            let s3 = src.clone();
            let checked = stage(move || {
                use ucglib::ast::walk::Walker;
                let mut stmts = parse_text(&s3)?;
                let mut checker = ucglib::ast::typecheck::Checker::new();
                checker.walk_statement_list(stmts.iter_mut().collect());
                checker.result().map(|m| m.len().to_string()).map_err(|e| format!("{}", e))
            });
            let s4 = src.clone();
            let translated = stage(move || {
                let stmts = parse_text(&s4)?;
                let ops = ucglib::build::opcode::translate::AST::translate(stmts, &PathBuf::from("/nonexistent-wd"));
                Ok(ops.ops.len().to_string())
            });
            let s5 = src.clone();
            let evaled = stage(AssertUnwindSafe(move || {
                let paths: Vec<PathBuf> = Vec::new();
                let v = SHARED_ENV.with(|env| {
                    // a panic in an earlier case may have left the RefCell borrowed: replace the environment then
                    if env.try_borrow_mut().is_err() {
                        return Err("shared environment poisoned".to_string());
                    }
                    {
                        let mut e = env.borrow_mut();
                        e.out_lock.clear();
                        e.val_cache.clear();
                        e.assert_results = ucglib::build::AssertCollector::new();
                        e.stdout.clear();
                        e.stderr.clear();
                    }
                    let mut b = FileBuilder::new(PathBuf::from("/nonexistent-wd"), &paths, env);
                    b.set_strict(true);
                    b.eval_string(&s5).map_err(|e| format!("{}", e))
                })?;
                // every converter on the result
                let reg = ConverterRegistry::make_registry();
                let mut names: Vec<String> = reg.get_converter_list().iter().map(|(k, _)| (*k).clone()).collect();
                names.sort();
                for n in names {
                    let mut buf: Vec<u8> = Vec::new();
                    let _ = reg.get_converter(&n).unwrap().convert(v.clone(), &mut buf);
                }
                Ok("built".to_string())
            }));
            let s6 = src.clone();
            let formatted = stage(move || {
                let mut cm = CommentMap::new();
                let stmts = parse(OffsetStrIter::new(&s6), Some(&mut cm)).map_err(|e| format!("{}", e))?;
                let mut buf: Vec<u8> = Vec::new();
                let mut p = AstPrinter::new(2, &mut buf).with_comment_map(&cm);
                p.render(&stmts).map_err(|e| format!("io {}", e))?;
                Ok("formatted".to_string())
            });
            json!({"tokenize": tokens, "parse": parsed, "check": checked, "translate": translated, "eval": evaled, "fmt": formatted})
        }
        // path text -> normalized
        "normalize" => {
            let p = input.as_str().unwrap_or("");
            let n = ucglib::path::normalize(PathBuf::from(p));
            json!({"ok": n.to_string_lossy()})
        }
        _ => json!({"bad_mode": mode}),
    }
}

fn main() {
    let args: Vec<String> = std::env::args().collect();
    if args.len() < 2 {
        eprintln!("usage: ucg-harness <mode>  (cases on stdin, one JSON value per line)");
        std::process::exit(2);
    }
    let mode = args[1].clone();
    // keep panic messages out of stderr noise
    std::panic::set_hook(Box::new(|_| {}));
    let stdin = std::io::stdin();
    let stdout = std::io::stdout();
    let mut out = std::io::BufWriter::new(stdout.lock());
    for line in stdin.lock().lines() {
        let line = match line {
            Ok(l) => l,
            Err(_) => break,
        };
        if line.is_empty() {
            continue;
        }
        let input: J = match serde_json::from_str(&line) {
            Ok(j) => j,
            Err(e) => {
                writeln!(out, "{}", json!({"bad_case": e.to_string()})).unwrap();
                out.flush().unwrap();
                continue;
            }
        };
        let res = catch_unwind(AssertUnwindSafe(|| run_case(&mode, &input)));
        let j = match res {
            Ok(j) => j,
            Err(p) => {
                let msg = if let Some(s) = p.downcast_ref::<&str>() {
                    s.to_string()
                } else if let Some(s) = p.downcast_ref::<String>() {
                    s.clone()
                } else {
                    "?".to_string()
                };
                json!({"panic": msg})
            }
        };
        writeln!(out, "{}", j).unwrap();
        // one line per case, visible at once: a crash of the process then loses only the case it crashed on
        out.flush().unwrap();
    }
    let _ = pos_json(&Position::new(0, 0, 0));
}
