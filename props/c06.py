"""C06 -- a `::` constraint on a binding admits exactly the conforming values."""
import json
import os
import re
import shutil
import struct

import common as C

PID = "C06"
THEOREM_FILE = os.path.join(C.COQ, "theories", "props", "C06_Props.v")
FLOATS = [0.0, 0.5, 1.0, 1.5, 2.5, 10.0, 100.25]
STRS = ["", "a", "b", "active", "x y"]
NAMES = ["a", "b", "c", "d"]


def theorem_names():
    if not os.path.exists(THEOREM_FILE):
        return []
    src = C.strip_comments(open(THEOREM_FILE).read())
    return re.findall(r"^\s*(?:Theorem|Corollary)\s+([A-Za-z0-9_']+)", src, re.M)


def fbits(f):
    return struct.unpack(">Q", struct.pack(">d", f))[0]


def sx(v):
    t = v[0]
    if t == "null":
        return "(null)"
    if t == "bool":
        return "(bool %d)" % (1 if v[1] else 0)
    if t == "int":
        return "(int %d)" % v[1]
    if t == "float":
        return "(float %d)" % fbits(v[1])
    if t == "str":
        return "(str %s)" % C.hexs(v[1])
    if t == "list":
        return "(list %s)" % " ".join(sx(x) for x in v[1])
    if t == "tuple":
        return "(tuple %s)" % " ".join("(%s %s)" % (C.hexs(k), sx(x)) for k, x in v[1])
    raise ValueError(v)


def ucg(v):
    t = v[0]
    if t == "null":
        return "NULL"
    if t == "bool":
        return "true" if v[1] else "false"
    if t == "int":
        return str(v[1]) if v[1] >= 0 else "(0 - %d)" % (-v[1])
    if t == "float":
        f = v[1]
        return repr(f) if f >= 0 and not (f == 0 and str(f).startswith("-")) else "(0.0 - %r)" % (-f)
    if t == "str":
        return '"%s"' % v[1]
    if t == "list":
        return "[" + ", ".join(ucg(x) for x in v[1]) + "]"
    if t == "tuple":
        return "{" + ", ".join("%s = %s" % (k, ucg(x)) for k, x in v[1]) + "}"
    raise ValueError(v)


def gen_prim(r):
    k = r.randrange(6)
    if k == 0:
        return ("null",)
    if k == 1:
        return ("bool", r.random() < .5)
    if k == 2:
        return ("int", r.choice([0, 1, 2, 5, 7, 80, 443, 8080, -1, -5, 65535]))
    if k == 3:
        return ("float", r.choice(FLOATS + [-1.5]))
    return ("str", r.choice(STRS))


def gen_value(r, depth):
    if depth == 0 or r.random() < .35:
        return gen_prim(r)
    if r.random() < .5:
        return ("list", [gen_value(r, depth - 1) for _ in range(r.randrange(0, 4))])
    ks = r.sample(NAMES, r.randrange(0, 4))
    return ("tuple", [(k, gen_value(r, depth - 1)) for k in ks])


def mutate(r, v, depth):
    """a value related to v: same shape, sub/superset of fields, one component retyped ..."""
    t = v[0]
    c = r.random()
    if c < .15:
        return gen_value(r, depth)
    if t in ("null", "bool", "int", "float", "str"):
        if c < .75:
            if t == "int":
                return ("int", r.choice([0, 3, 9, -2]))
            if t == "float":
                return ("float", r.choice(FLOATS))
            if t == "str":
                return ("str", r.choice(STRS))
            if t == "bool":
                return ("bool", r.random() < .5)
        return gen_prim(r)
    if t == "list":
        items = [mutate(r, x, depth - 1) for x in v[1] if r.random() < .8]
        if r.random() < .3 and depth > 0:
            items.append(gen_value(r, depth - 1))
        if r.random() < .3 and items:
            items.append(mutate(r, r.choice(items), max(depth - 1, 0)))
        r.shuffle(items)
        return ("list", items)
    fs = [(k, mutate(r, x, depth - 1)) for k, x in v[1] if r.random() < .8]
    if r.random() < .3:
        free = [n for n in NAMES if n not in [k for k, _ in fs]]
        if free:
            fs.append((r.choice(free), gen_value(r, max(depth - 1, 0))))
    if r.random() < .3:
        r.shuffle(fs)
    return ("tuple", fs)


def gen_range(r):
    if r.random() < .6:
        lo = r.choice([0, 1, 5, -5, 10])
        hi = lo + r.choice([0, 1, 4, 100, -1])
        lo, hi = ("int", lo), ("int", hi)
    else:
        lo = r.choice([0.0, 0.5, -1.5, 1.0])
        hi = lo + r.choice([0.0, 0.5, 1.0, 99.0])
        lo, hi = ("float", lo), ("float", hi)
    k = r.random()
    if k < .2:
        return ("range", lo, None)
    if k < .4:
        return ("range", None, hi)
    if k < .45:   # ill-typed / mixed bounds (outside the constraint grammar of the property)
        return ("range", lo, r.choice([("float", 2.5), ("int", 7), ("str", "a")]))
    return ("range", lo, hi)


def boundary_values(arm):
    out = []
    for bnd in (arm[1], arm[2]):
        if bnd is None:
            continue
        if bnd[0] == "int":
            out += [("int", bnd[1] - 1), bnd, ("int", bnd[1] + 1), ("float", float(bnd[1]))]
        elif bnd[0] == "float":
            out += [("float", bnd[1] - 0.5), bnd, ("float", bnd[1] + 0.5), ("int", int(bnd[1]))]
    return out


def gen_case(r):
    k = r.random()
    if k < .45:
        ex = gen_value(r, r.randrange(0, 4))
        v = mutate(r, ex, 3) if r.random() < .8 else gen_value(r, 3)
        if r.random() < .5:
            ex, v = v, ex
        return ("exemplar", ex), v
    if k < .6:
        arm = gen_range(r)
        cands = boundary_values(arm) + [gen_prim(r)]
        return ("alt", [arm]), r.choice(cands)
    n = r.randrange(2, 5)
    arms = []
    for _ in range(n):
        arms.append(gen_range(r) if r.random() < .35 else ("exact", gen_value(r, r.randrange(0, 3))))
    cands = [gen_value(r, 2)]
    for a in arms:
        if a[0] == "range":
            cands += boundary_values(a)
        else:
            cands += [a[1], a[1], mutate(r, a[1], 2)]
    return ("alt", arms), r.choice(cands)


def sx_opt(v):
    return "_" if v is None else sx(v)


def sx_c(c):
    if c[0] == "exemplar":
        return "(exemplar %s)" % sx(c[1])
    return "(alt %s)" % " ".join("(range %s %s)" % (sx_opt(a[1]), sx_opt(a[2])) if a[0] == "range" else "(exact %s)" % sx(a[1]) for a in c[1])


def ucg_c(c):
    if c[0] == "exemplar":
        return ucg(c[1])

    def arm(a):
        if a[0] == "exact":
            return ucg(a[1])
        return "in %s..%s" % ("" if a[1] is None else ucg(a[1]), "" if a[2] is None else ucg(a[2]))
    return " | ".join(arm(a) for a in c[1])


def computed(r, v):
    """the same value written as a computation (the property speaks of literal or computed values):
    (text, prelude, statically precise?)"""
    t = v[0]
    k = r.random()
    if k < 0.3:
        return "idf(%s)" % ucg(v), "let idf = func (q) => q;\n", False       # the checker knows nothing about the result
    if k < 0.5:
        return "{v = %s}.v" % ucg(v), "", True
    if k < 0.65:
        return '(select ("a") => {a = %s})' % ucg(v), "", True
    if t == "int" and v[1] >= 1:
        return "(%d + 1)" % (v[1] - 1), "", True
    if t == "str" and v[1]:
        return '("%s" + "%s")' % (v[1][:1], v[1][1:]), "", True
    if t == "bool":
        return "(not %s)" % ("false" if v[1] else "true"), "", True
    if t == "float":
        return "(%s + 0.0)" % ucg(v), "", True
    return "[%s].0" % ucg(v), "", True


def run(tier, seed):
    thms = theorem_names()
    ck = C.Check(PID, tier, seed, "proof" if thms else "exploration")
    cov = ck.coverage
    broken = []
    if thms:
        pr = C.prove(ck, ["theories/props/C06_Props.vo"], "props.C06_Props", thms)
        if not pr["ok"]:
            broken.append({"obligations": "C06_Props", "built": pr["built"], "audit": pr["audit"],
                           "assumptions": pr["assumptions"], "log": pr["log_tail"][-1500:]})
    ok, msg = C.cargo_build()
    if not ok:
        raise RuntimeError("cargo build of /repo failed:\n" + msg[-2000:])
    okm, mmsg = C.build_model_runner()
    if not okm:
        broken.append({"extraction": mmsg[-1500:]})
    rng = ck.rng
    n = 1500 if tier == "quick" else 15000
    cases = [gen_case(rng) for _ in range(n)]
    # the binary on every pair: inline, behind a constraint name, behind a let-bound exemplar, and with a computed value
    root = os.path.join(C.scratch_root(), "c06-%d" % os.getpid())
    shutil.rmtree(root, ignore_errors=True)
    os.makedirs(root)
    jobs, meta = [], []
    comp_info = {}

    def add(i, kind, text):
        p = "%d_%s.ucg" % (i, kind)
        open(os.path.join(root, p), "w").write(text)
        jobs.append(([C.UCG_BIN, "build", p], root, None))
        meta.append((i, kind, text))
    for i, (c, v) in enumerate(cases):
        add(i, "inline", "let x :: %s = %s;\n" % (ucg_c(c), ucg(v)))
        add(i, "named", "constraint cn = %s;\nlet x :: cn = %s;\n" % (ucg_c(c), ucg(v)))
        if c[0] == "exemplar":
            add(i, "letnamed", "let cn = %s;\nlet x :: cn = %s;\n" % (ucg_c(c), ucg(v)))
        cv, pre, precise = computed(rng, v)
        comp_info[i] = (cv, precise)
        add(i, "computed", pre + "let x :: %s = %s;\n" % (ucg_c(c), cv))
    # verdicts: the checker followed by the evaluator, in process (what `ucg build` does for a file); a sample also through the binary
    st = C.harness("stages", [m[2] for m in meta])
    sample = sorted(rng.sample(range(len(jobs)), min(len(jobs), 160 if tier == "quick" else 1500)))
    bin_res = dict(zip(sample, C.run_many([jobs[k] for k in sample])))
    shutil.rmtree(root, ignore_errors=True)
    real = {}
    diag_missing = []
    disagree_bin = []
    for k, ((i, kind, text), r) in enumerate(zip(meta, st)):
        chk, ev = r.get("check", {}), r.get("eval", {})
        if "err" in r.get("parse", {}) or "panic" in chk or "panic" in ev:
            real[(i, kind)] = ("P", text, json.dumps(r)[:300])
            continue
        okb = "ok" in chk and "ok" in ev
        err = chk.get("err") or ev.get("err") or ""
        real[(i, kind)] = ("1" if okb else "0", text, err)
        if not okb and not err.strip():
            diag_missing.append(text)
        if k in bin_res:
            rc, out, e2 = bin_res[k]
            if (rc == 0) != okb:
                disagree_bin.append({"source": text, "why": "`ucg build` %s but checker+evaluator in process %s" %
                                     ("succeeds" if rc == 0 else "fails: " + e2[-200:], "succeed" if okb else "fail: " + err[:200])})
            if rc != 0 and not e2.strip():
                diag_missing.append(text)
    # the model
    mpair = C.model("shape_pair", ["(%s %s %s)" % (sx_c(c), sx(v), C.hexs("cn")) for c, v in cases]) if okm else None
    mlet = C.model("shape_letnamed", ["(%s %s %s)" % (sx(c[1]) if c[0] == "exemplar" else "(null)", sx(v), C.hexs("cn")) for c, v in cases]) if okm else None
    bad, corr = [], []
    stats = {"accept": 0, "reject": 0, "in_grammar": 0, "parse_skipped": 0, "computed": 0}
    for i, (c, v) in enumerate(cases):
        ri, rn = real[(i, "inline")], real[(i, "named")]
        src = ri[1]
        if ri[0] == "P" or rn[0] == "P":
            stats["parse_skipped"] += 1
            continue
        stats["accept" if ri[0] == "1" else "reject"] += 1
        f = mpair[i].split() if mpair else None
        gram = f is not None and len(f) in (6, 7) and f[5] == "1"
        if f is not None and (len(f) not in (6, 7)):
            corr.append({"source": src, "why": "model runner: " + mpair[i][:200]})
            f = None
        # ---- the property, on the real builds
        if rn[0] != ri[0]:
            bad.append({"source": rn[1], "why": "behind a constraint name the binding %s, inline it %s" %
                        ("builds" if rn[0] == "1" else "is rejected", "builds" if ri[0] == "1" else "is rejected"), "inline": src})
        if c[0] == "exemplar":
            rl = real[(i, "letnamed")]
            if rl[0] not in ("P", ri[0]):
                bad.append({"source": rl[1], "why": "behind a let-bound exemplar the binding %s, inline it %s" %
                            ("builds" if rl[0] == "1" else "is rejected", "builds" if ri[0] == "1" else "is rejected"), "inline": src})
        if (i, "computed") in real:
            rcv = real[(i, "computed")]
            stats["computed"] += 1
            if rcv[0] not in ("P", ri[0]):
                if False:
                    stats["known_static_only"] = stats.get("known_static_only", 0) + 1
                else:
                    bad.append({"source": rcv[1], "why": "with the value written as a computation the binding %s, as a literal it %s" %
                                ("builds" if rcv[0] == "1" else "is rejected", "builds" if ri[0] == "1" else "is rejected"), "literal": src})
        if f is not None:
            acc, accp, accn, conf, confs = f[:5]
            rt_ok = f[6] if len(f) > 6 else None
            if gram:
                stats["in_grammar"] += 1
                if conf != ri[0]:
                    bad.append({"source": src, "why": "the value %s the constraint (specification `conforms`) but the build %s it" %
                                ("conforms to" if conf == "1" else "does not conform to", "accepts" if ri[0] == "1" else "rejects")})
            # ---- correspondence: the model of checker + VM gives the verdict of the real build
            if accp != ri[0] or acc != accp:
                corr.append({"source": src, "why": "model build_accepts_prog=%s build_accepts=%s, real build=%s" % (accp, acc, ri[0]),
                             "correspondence": "shape/Shape.v build_accepts_prog vs ucg build"})
            if accn != rn[0]:
                corr.append({"source": rn[1], "why": "model build_accepts_named=%s, real build=%s" % (accn, rn[0]),
                             "correspondence": "shape/Shape.v build_accepts_named vs ucg build"})
            if c[0] == "exemplar" and mlet and real[(i, "letnamed")][0] != "P" and mlet[i] != real[(i, "letnamed")][0]:
                corr.append({"source": real[(i, "letnamed")][1], "why": "model build_accepts_let_named=%s, real build=%s" % (mlet[i], real[(i, "letnamed")][0]),
                             "correspondence": "shape/Shape.v build_accepts_let_named vs ucg build"})
    if stats.get("known_static_only"):
        ck.known_finding("C06-exemplar-static-only", "%d bindings whose value does not conform to the exemplar built, because the value came out of a "
                         "function with an untyped parameter" % stats["known_static_only"])
    bad += disagree_bin[:5]
    for t in diag_missing[:3]:
        bad.append({"source": t, "why": "a rejected binding stopped the build without a diagnostic"})
    cov["evaluations"] = len(jobs)
    cov["distinct_nontrivial"] = len(set(m[2] for m in meta))
    cov["rule"] = ("pairs (constraint, value): primitive, tuple and list exemplars nested to depth 3 with related values (same shape, sub/superset of "
                   "fields, one component retyped, shuffled), int and float ranges closed / half-open with boundary values lo-1, lo, hi, hi+1 and the "
                   "other numeric type, alternations of 2..4 literals and ranges; each pair built inline, behind a `constraint` name, behind a "
                   "let-bound exemplar and with the value written as a computation; verdicts compared with each other, with the specification "
                   "`conforms` (inside the property's grammar) and with the Coq model of checker + VM")
    cov["outcomes"] = stats
    cov["samples"] = [meta[0][2], meta[5][2]]
    cov["traces_validated_against_impl"] = len(jobs)
    ck.assumptions = ["NULL conforms to every exemplar (docs/typechecking: NULL is compatible with any constraint), but not to a range",
                      "the property's grammar: literal arms; range bounds numeric and of one type; recursive constraints and a constraint name used as "
                      "one arm of a larger alternation are outside it"]
    if bad:
        r0 = min(bad, key=lambda r: len(r["source"]))
        by = {}
        for b_ in bad:
            by[b_["why"][:70]] = by.get(b_["why"][:70], 0) + 1
        ck.violation({"kind": "a constraint does not admit exactly the conforming values", "failing": r0, "more": len(bad) - 1, "by_kind": by,
                      "correspondence_breaks": corr[:3], "broken": broken})
    elif corr:
        r0 = min(corr, key=lambda r: len(r["source"]))
        ck.violation({"kind": "the model of the checker no longer corresponds to the build; no pair was found on which the build contradicts the property",
                      "failing": r0, "more": len(corr) - 1, "broken": broken}, nofail=True)
    elif broken:
        ck.violation({"kind": "proof obligation no longer checks", "broken": broken, "theorems": thms}, nofail=True)
    return ck.finish()


def replay(path):
    r = json.load(open(path))
    f = r.get("failing")
    if not f:
        print(json.dumps(r.get("broken"))[:2000])
        return 1
    C.cargo_build()
    d = os.path.join(C.scratch_root(), "c06-replay")
    shutil.rmtree(d, ignore_errors=True)
    os.makedirs(d)
    open(os.path.join(d, "t.ucg"), "w").write(f["source"])
    print(f["source"])
    print(C.run_many([([C.UCG_BIN, "build", "t.ucg"], d, None)])[0])
    print("recorded:", f["why"])
    shutil.rmtree(d, ignore_errors=True)
    return 1
