"""C08 -- shell-facing output delivers every value as one unaltered word."""
import itertools
import json
import os
import shutil
import subprocess

import common as C
import sx
import t_shell as T5
import values as V

PID = "C08"
THEOREMS = ["source_chains_are_escapers", "source_sq_is_esc_sq", "source_dq_is_esc_dq", "sq_word", "sq_words",
            "dq_value", "env_fields", "flags_words", "exec_script", "env_legacy_refuted"]
ALPHABET = ["'", '"', "\\", "$", "`", " ", "\n", "*", "a"]

# placements: how a string is embedded into the converter's input
PLACEMENTS = ["env_value", "flag_value", "flag_list_item", "flag_list_nested", "exec_command", "exec_arg", "exec_env_value"]


def embed(pl, s):
    """-> (converter, value)"""
    S = ("s", s)
    if pl == "env_value":
        return "env", ("t", [("A", ("s", "x")), ("V", S), ("Z", ("i", 7))])
    if pl == "flag_value":
        return "flags", ("t", [("first", ("i", 1)), ("val", S), ("z", ("b", True))])
    if pl == "flag_list_item":
        return "flags", ("t", [("item", ("l", [("s", "p"), S, ("i", 3)])), ("z", ("s", "end"))])
    if pl == "flag_list_nested":
        # a list flag whose list also holds a list and a tuple: those items have no flag form and are left out entirely
        return "flags", ("t", [("item", ("l", [("s", "p"), ("l", [("s", "x"), ("s", "y")]), S, ("t", [("k", ("s", "v"))]), ("i", 3)])),
                               ("z", ("s", "end"))])
    if pl == "exec_command":
        return "exec", ("t", [("command", S), ("args", ("l", [("s", "arg1")]))])
    if pl == "exec_arg":
        return "exec", ("t", [("command", ("s", "cmd")), ("args", ("l", [("s", "one"), S, ("t", [("flag", S)])]))])
    if pl == "exec_env_value":
        return "exec", ("t", [("command", ("s", "cmd")), ("env", ("t", [("E1", ("s", "x")), ("EV", S), ("E3", ("s", "z"))])),
                              ("args", ("l", [("s", "a")]))])
    raise ValueError(pl)


def expected_words(pl, s):
    """what a POSIX shell must see (the property), independent of model and implementation"""
    if pl == "env_value":
        return {"vars": [("A", "x"), ("V", s), ("Z", "7")]}
    if pl == "flag_value":
        return {"words": ["--first", "1", "--val", s, "-z", "true"]}
    if pl == "flag_list_item":
        return {"words": ["--item", "p", "--item", s, "--item", "3", "-z", "end"]}
    if pl == "flag_list_nested":
        return {"words": ["--item", "p", "--item", s, "--item", "3", "-z", "end"]}
    if pl == "exec_command":
        return {"vars": [], "words": [s, "arg1"]}
    if pl == "exec_arg":
        return {"vars": [], "words": ["cmd", "one", s, "--flag", s]}
    if pl == "exec_env_value":
        return {"vars": [("E1", "x"), ("EV", s), ("E3", "z")], "words": ["cmd", "a"]}


def sh_quote_py(s):
    return "'" + s.replace("'", "'\\''") + "'"


def run_shell(shell, script, timeout=120):
    try:
        p = subprocess.run([shell], input=script.encode("utf-8", "surrogatepass"), capture_output=True, timeout=timeout)
        return p.returncode, p.stdout, p.stderr
    except subprocess.TimeoutExpired:
        return 124, b"", b"TIMEOUT"


def shell_read_batch(shell, items, workdir):
    """items: list of (kind, output_text, varnames). Returns list of dict(vars=[..], words=[..]) or None.
    Each item is evaluated in its own subshell; results are NUL separated, items separated by \\x01."""
    parts = []
    for i, (kind, text, names) in enumerate(items):
        f = os.path.join(workdir, "o%d" % i)
        if kind == "env":
            open(f, "wb").write(text.encode("utf-8"))
            body = ". %s; " % sh_quote_py(f) + "printf '%s\\0' " + " ".join('"${%s-<unset>}"' % n for n in names)
        elif kind == "flags":
            open(f, "wb").write(("set -- " + text + "\nfor a in \"$@\"; do printf '%s\\0' \"$a\"; done\n").encode("utf-8"))
            body = ". %s" % sh_quote_py(f)
        else:  # exec: run the script with `exec` shadowed by a function that prints its words
            # the words are announced by their count, so that no value can be mistaken for a marker
            pre = ("exec() { printf 'W\\0%s\\0' \"$#\"; for a in \"$@\"; do printf '%s\\0' \"$a\"; done; "
                   + ("printf '%s\\0' " + " ".join('"${%s-<unset>}"' % n for n in names) + "; " if names else "") + "}\n")
            open(f, "wb").write((pre + text + "\n").encode("utf-8"))
            body = "bash %s" % sh_quote_py(f)
        parts.append("( %s ) 2>/dev/null; printf '\\0@@ITEM-END@@\\0'" % body)
    rc, out, err = run_shell(shell, "\n".join(parts) + "\n")
    chunks = out.split(b"\0@@ITEM-END@@\0")
    res = []
    for i, (kind, text, names) in enumerate(items):
        if i >= len(chunks) - 1 and not (i == len(chunks) - 1 and chunks[i] != b""):
            res.append(None)
            continue
        raw = chunks[i]
        if raw.endswith(b"\0"):
            raw = raw[:-1]
            fields = raw.split(b"\0")
        elif raw == b"":
            fields = []
        else:
            fields = raw.split(b"\0")
        try:
            fields = [x.decode("utf-8") for x in fields]
        except UnicodeDecodeError:
            res.append(None)
            continue
        if kind == "env":
            res.append({"vars": list(zip(names, fields))})
        elif kind == "flags":
            res.append({"words": fields})
        else:
            if len(fields) < 2 or fields[0] != "W" or not fields[1].isdigit():
                res.append(None)
                continue
            argc = int(fields[1])
            res.append({"words": fields[2:2 + argc], "vars": list(zip(names, fields[2 + argc:]))})
    return res


def run(tier, seed):
    ck = C.Check(PID, tier, seed, "proof")
    cov = ck.coverage
    tr = T5.generate(C.REPO, C.GEN, C.write_if_changed)
    cov["translator"] = tr["status"]
    cov["tie"] = "generated"
    if tr["status"] != "generated":
        cov["tie"] = "behavioural-fallback"
        C.write_if_changed(os.path.join(C.GEN, "ShellChains.v"), open(os.path.join(C.COQ, "snapshots", "ShellChains.v")).read())
    pr = C.prove(ck, ["theories/props/C08_Props.vo"], "props.C08_Props", THEOREMS)
    broken = []
    if not pr["ok"]:
        broken.append({"obligations": "C08_Props", "built": pr["built"], "audit": pr["audit"],
                       "assumptions": pr["assumptions"], "log": pr["log_tail"][-1500:]})
    if cov["tie"] != "generated":
        broken.append({"translator": tr["status"],
                       "note": "escape functions are no longer a chain of .replace calls; falling back to the exhaustive behavioural sweep"})
    ok, msg = C.cargo_build()
    if not ok:
        raise RuntimeError("cargo build of /repo failed:\n" + msg[-2000:])
    okm, msg = C.build_model_runner()
    if not okm:
        broken.append({"extraction": msg[-1500:]})
    maxlen = 4 if tier == "quick" else 5
    shell_maxlen = 3 if tier == "quick" else 5
    strings = [""]
    for n in range(1, maxlen + 1):
        strings.extend("".join(t) for t in itertools.product(ALPHABET, repeat=n))
    strings_set = set(strings)
    g = V.ValGen(ck.rng)
    nrand = 1500 if tier == "quick" else 20000
    rand_strings = []
    while len(rand_strings) < nrand:
        s = "".join(g.rand_str() for _ in range(ck.rng.randint(1, 3)))[:40]
        if "\0" not in s:
            rand_strings.append(s)
    cases = []   # (placement, string, conv, value)
    for pl in PLACEMENTS:
        for s in strings + rand_strings:
            conv, v = embed(pl, s)
            cases.append((pl, s, conv, v))
    # tuples mixing scalar / NULL / list / tuple fields in every order up to 5 fields (env + flags)
    kinds = {"s": ("s", "it's $x"), "i": ("i", 5), "n": ("e",), "l": ("l", [("i", 1), ("s", "q")]), "t": ("t", [("in", ("i", 1))])}
    mixes = []
    for n in range(1, 6):
        for combo in itertools.product("sinlt", repeat=n):
            if tier == "quick" and n == 5 and ck.rng.random() > 0.15:
                continue
            mixes.append(combo)
    for combo in mixes:
        flds = [("F%d" % i, kinds[k]) for i, k in enumerate(combo)]
        cases.append(("env_mix", combo, "env", ("t", flds)))
        cases.append(("flags_mix", combo, "flags", ("t", flds)))
    impl = C.harness("convert", [{"conv": c[2], "val": V.to_wire(c[3])} for c in cases])
    # ---- model vs implementation (bytes) ----
    disagreements = []
    if okm:
        by_conv = {"env": [], "flags": [], "exec": []}
        for i, c in enumerate(cases):
            by_conv[c[2]].append(i)
        for conv, idxs in by_conv.items():
            mres = C.model(conv + "_emit", [V.to_sexp(cases[i][3]) for i in idxs])
            for i, m in zip(idxs, mres):
                r = impl[i]
                got = r.get("ok", {}).get("utf8")
                if m == "err":
                    if "err" not in r:
                        disagreements.append({"case": [cases[i][0], cases[i][1]], "model": "err", "impl": r})
                elif m.startswith("x"):
                    if got is None or got.encode("utf-8") != C.unhex(m):
                        disagreements.append({"case": [cases[i][0], cases[i][1]], "model": C.unhex(m).decode("utf-8", "replace"),
                                              "impl": r})
                else:
                    disagreements.append({"case": [cases[i][0], cases[i][1]], "model": m, "impl": r})
    # ---- the property itself: real shells read the implementation's output ----
    real = []
    work = os.path.join(C.scratch_root(), "c08-%d" % os.getpid())
    shutil.rmtree(work, ignore_errors=True)
    os.makedirs(work)
    items = []
    for i, c in enumerate(cases):
        r = impl[i]
        if c[0] in ("env_mix", "flags_mix"):
            flds = c[3][1]
            scal = [(k, v) for k, v in flds if v[0] in ("s", "i")]
            if c[2] == "env":
                exp = {"vars": [(k, v[1] if v[0] == "s" else str(v[1])) for k, v in scal] +
                               [(k, "<unset>") for k, v in flds if v[0] not in ("s", "i")]}
                names = [k for k, _ in exp["vars"]]
                kind = "env"
            else:
                w = []
                for k, v in flds:
                    if v[0] == "s":
                        w += ["--" + k, v[1]]
                    elif v[0] == "i":
                        w += ["--" + k, str(v[1])]
                    elif v[0] == "e":
                        w += ["--" + k]
                    elif v[0] == "l":
                        for it in v[1]:
                            w += ["--" + k, it[1] if it[0] == "s" else str(it[1])]
                exp = {"words": w}
                names = []
                kind = "flags"
        else:
            exp = expected_words(c[0], c[1])
            names = [k for k, _ in exp.get("vars", [])]
            kind = {"env": "env", "flags": "flags", "exec": "exec"}[c[2]]
        if "ok" not in r or "utf8" not in r["ok"]:
            real.append({"placement": c[0], "string": c[1], "value": V.to_wire(c[3]), "converter": c[2],
                         "why": "converter failed or produced non UTF-8: %r" % (r,)})
            continue
        if isinstance(c[1], str) and c[1] in strings_set and len(c[1]) > shell_maxlen:
            continue            # quick tier: the longest exhaustive strings are compared with the model only
        items.append((i, kind, r["ok"]["utf8"], names, exp))
    # batches across worker threads
    B = 400
    batches = [items[k:k + B] for k in range(0, len(items), B)]
    from concurrent.futures import ThreadPoolExecutor

    def do_batch(arg):
        bi, batch = arg
        d = os.path.join(work, "b%d" % bi)
        os.makedirs(d, exist_ok=True)
        out = {}
        for shell in (["sh", "bash"] if True else ["bash"]):
            sub = [(k, t, n) for (_, k, t, n, _) in batch]
            out[shell] = shell_read_batch("/bin/sh" if shell == "sh" else "bash", sub, d)
        return out
    with ThreadPoolExecutor(max_workers=C.NPROC) as ex:
        results = list(ex.map(do_batch, list(enumerate(batches))))
    shell_evals = 0
    for batch, resd in zip(batches, results):
        for shell, resl in resd.items():
            for (i, kind, text, names, exp), got in zip(batch, resl):
                shell_evals += 1
                c = cases[i]
                if got is None:
                    real.append({"placement": c[0], "string": c[1], "converter": c[2], "shell": shell, "value": V.to_wire(c[3]),
                                 "output": text, "why": "the shell could not read the output as one command"})
                    continue
                okw = ("words" not in exp) or got.get("words") == exp["words"]
                okv = ("vars" not in exp) or [tuple(x) for x in got.get("vars", [])] == [tuple(x) for x in exp["vars"]]
                if not (okw and okv):
                    real.append({"placement": c[0], "string": c[1], "converter": c[2], "shell": shell, "value": V.to_wire(c[3]),
                                 "output": text, "shell_saw": got, "expected": exp, "why": "a value did not arrive as one unaltered word"})
    shutil.rmtree(work, ignore_errors=True)
    cov["evaluations"] = len(cases)
    cov["shell_evaluations"] = shell_evals
    cov["distinct_nontrivial"] = len(set((c[0], str(c[1])) for c in cases if c[1] != ""))
    cov["rule"] = ("all strings of length <= %d over {' \" \\ $ ` space newline * a} plus %d seeded random Unicode strings, each in 6 placements "
                   "(env value, flag value, list-flag item, exec command, exec arg incl. nested flags tuple, exec env value); tuples mixing "
                   "string/int/NULL/list/tuple fields in every order up to 5 fields; every output read back by /bin/sh (dash) and bash" % (maxlen, nrand))
    cov["exhaustive"] = True
    cov["exhaustive_string_length"] = maxlen
    cov["samples"] = [{"placement": cases[5][0], "string": cases[5][1]}, {"placement": cases[-1][0], "fields": "".join(cases[-1][1])}]
    cov["traces_validated_against_impl"] = len(cases)
    cov["disagreements_model_vs_impl"] = len(disagreements)
    ck.assumptions = [
        "the POSIX reader sh_words/sh_items is a model of the shell; it is validated here by having dash and bash read the same outputs",
        "field/flag/variable NAMES are assumed to be plain identifiers (hypotheses name_ok / flags_ok of the theorems); names are not escaped by the converters",
        "floats enter as Rust Display text (abstract fl_text)",
    ]
    if real:
        real.sort(key=lambda r: len(str(r.get("string", ""))))
        ck.violation({"kind": "a shell did not receive a value as one unaltered word", "failing": real[0], "more": len(real) - 1,
                      "broken": broken, "model_disagreements": disagreements[:3]})
    elif broken or disagreements:
        ck.violation({"kind": "proof obligation or correspondence no longer checks", "broken": broken,
                      "model_disagreements": disagreements[:5], "theorems": THEOREMS}, nofail=True)
    return ck.finish()


def replay(path):
    r = json.load(open(path))
    f = r.get("failing")
    if not f:
        print("no failing input; broken:", json.dumps(r.get("broken"))[:2000])
        return 1
    C.cargo_build()
    out = C.harness("convert", [{"conv": f["converter"], "val": f["value"]}])[0]
    print("converter:", f["converter"], "value:", json.dumps(f["value"], ensure_ascii=False))
    print("output:", json.dumps(out, ensure_ascii=False))
    print("recorded:", f["why"], f.get("shell_saw"), "expected", f.get("expected"))
    return 1
