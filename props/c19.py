"""C19 -- standard-library list, tuple and string helpers compute what they document."""
import json
import os
import re
import shutil

import common as C
import decoders as D
import values as V

PID = "C19"
THEOREM_FILE = os.path.join(C.COQ, "theories", "props", "C19_Props.v")


def theorem_names():
    if not os.path.exists(THEOREM_FILE):
        return []
    src = C.strip_comments(open(THEOREM_FILE).read())
    return re.findall(r"^\s*(?:Theorem|Corollary)\s+([A-Za-z0-9_']+)", src, re.M)


def lit(v):
    """ucg source of a python value"""
    if v is None:
        return "NULL"
    if isinstance(v, bool):
        return "true" if v else "false"
    if isinstance(v, int):
        return str(v) if v >= 0 else "(0 - %d)" % (-v)
    if isinstance(v, float):
        r = repr(v)
        return r if v >= 0 else "(0.0 - %s)" % repr(-v)
    if isinstance(v, str):
        return V.ucg_str(v)
    if isinstance(v, list):
        return "[" + ", ".join(lit(x) for x in v) + "]"
    if isinstance(v, dict):
        return "{" + ", ".join("%s = %s" % (V.ucg_str(k), lit(x)) for k, x in v.items()) + "}"
    raise ValueError(v)


def render(v):
    """how a value is rendered inside a format string (str_join uses it)"""
    if v is None:
        return "NULL"
    if isinstance(v, bool):
        return "true" if v else "false"
    if isinstance(v, int):
        return str(v)
    if isinstance(v, str):
        return v
    raise ValueError(v)


def base_type(v):
    if v is None:
        return "null"
    if isinstance(v, bool):
        return "bool"
    if isinstance(v, int):
        return "int"
    if isinstance(v, float):
        return "float"
    if isinstance(v, str):
        return "str"
    if isinstance(v, list):
        return "list"
    return "tuple"


def shaped(val, shape, partial=True):
    """reference for schema.shaped (doc comment in std/schema.ucg)"""
    bt = base_type(val)
    if bt in ("str", "int", "float", "bool", "null"):
        return bt == base_type(shape)
    if bt == "tuple":
        if base_type(shape) != "tuple":
            return False
        for k, sv in shape.items():
            if k not in val or not shaped(val[k], sv, partial):      # partial matching reaches nested tuples (doc comment)
                return False
        for k, vv in val.items():
            if k in shape:
                if not shaped(vv, shape[k], partial):
                    return False
            elif not partial:
                return False
        return True
    if bt == "list":
        if base_type(shape) != "list":
            return False
        if shape == []:
            return True
        return all(any(shaped(x, t, False) for t in shape) for x in val)
    return False


def rand_scalar(rng, allow_null=True):
    k = rng.random()
    if k < 0.35:
        return rng.randint(-5, 50)
    if k < 0.7:
        return rng.choice(["", "a", "b c", "é", "x,y", "42", "日本", " ", "line\nbreak", "q\"q"])
    if k < 0.8:
        return rng.random() < 0.5
    if k < 0.88 and allow_null:
        return None
    return rng.choice([0.5, 1.5, 2.0])


def rand_list(rng, maxlen=12, nested=True):
    out = []
    for _ in range(rng.randint(0, maxlen)):
        if nested and rng.random() < 0.15:
            out.append(rng.choice([[1, 2], {"k": 1}, []]))
        else:
            out.append(rand_scalar(rng))
    return out


def rand_tuple(rng, maxf=8):
    keys = rng.sample(["a", "b", "c", "d", "name", "x y", "é", "k1", "k2", "val"], rng.randint(0, maxf))
    return {k: (None if rng.random() < 0.25 else rand_scalar(rng, False)) for k in keys}


def rand_string(rng, unicode_ok=True):
    n = rng.randint(0, 20)
    alpha = "ab,;: -_1" + ("é日😀" if unicode_ok else "")
    return "".join(rng.choice(alpha) for _ in range(n))


def cases(rng, n):
    """(helper description, ucg expression, expected python value or ('error',))"""
    out = []
    for _ in range(n):
        l = rand_list(rng)
        out.append(("lists.len", "lists.len(%s)" % lit(l), len(l)))
        out.append(("lists.reverse", "lists.reverse(%s)" % lit(l), l[::-1]))
        out.append(("lists.reverse.involution", "lists.reverse(lists.reverse(%s))" % lit(l), l))
        out.append(("lists.head", "lists.head(%s)" % lit(l), l[:1]))
        out.append(("lists.tail", "lists.tail(%s)" % lit(l), l[1:]))
        st, sp = rng.randint(-3, 5), rng.randint(1, 4)
        out.append(("lists.enumerate", "lists.enumerate{start=%s, step=%d, list=%s}" % (lit(st), sp, lit(l)),
                    [[st + i * sp, x] for i, x in enumerate(l)]))
        out.append(("lists.enumerate.default", "lists.enumerate{list=%s}" % lit(l), [[i, x] for i, x in enumerate(l)]))
        l2 = rand_list(rng)
        out.append(("lists.zip", "lists.zip{list1=%s, list2=%s}" % (lit(l), lit(l2)), [[a, bb] for a, bb in zip(l, l2)]))
        if l:
            a = rng.randint(0, len(l) - 1)
            z = rng.randint(a, len(l) - 1)
            out.append(("lists.slice", "lists.slice{start=%d, end=%d, list=%s}" % (a, z, lit(l)), l[a:z + 1]))
            out.append(("lists.slice.to_end", "lists.slice{start=%d, list=%s}" % (a, lit(l)), l[a:]))
        sl = [x for x in l if isinstance(x, (str, int)) and not isinstance(x, bool)] or []
        sep = rng.choice([",", " ", "", "--", "é"])
        out.append(("lists.str_join", "lists.str_join{sep=%s, list=%s}" % (lit(sep), lit(sl)), sep.join(render(x) for x in sl)))
        t = rand_tuple(rng)
        out.append(("tuples.fields", "tuples.fields{tpl=%s}" % lit(t), list(t.keys())))
        out.append(("tuples.values", "tuples.values{tpl=%s}" % lit(t), list(t.values())))
        out.append(("tuples.iter", "tuples.iter{tpl=%s}" % lit(t), [[k, v] for k, v in t.items()]))
        out.append(("tuples.strip_nulls", "tuples.strip_nulls{tpl=%s}" % lit(t), {k: v for k, v in t.items() if v is not None}))
        want = rng.sample(["a", "b", "c", "name", "zz", "é"], rng.randint(0, 3))
        out.append(("tuples.has_fields", "tuples.has_fields{tpl=%s, fields=%s}" % (lit(t), lit(want)), all(k in t for k in want)))
        s = rand_string(rng)
        out.append(("strings.len", "strings.wrap(%s).len" % lit(s), len(s)))
        out.append(("strings.chars", "strings.wrap(%s).chars" % lit(s), list(s)))
        sep = rng.choice([",", ";", " ", "ab", ", ", "-_-", "é"])
        out.append(("strings.split_on", "strings.wrap(%s).split_on{on=%s}" % (lit(s), lit(sep)), s.split(sep)))
        out.append(("strings.split_join", "lists.str_join{sep=%s, list=strings.wrap(%s).split_on{on=%s}}" % (lit(sep), lit(s), lit(sep)), s))
        idx = rng.randint(0, len(s) + 1)
        out.append(("strings.split_at", "strings.wrap(%s).split_at(%d)" % (lit(s), idx), {"left": s[:idx], "right": s[idx:]}))
        if s:
            a = rng.randint(0, len(s) - 1)
            z = rng.randint(a, len(s) - 1)
            out.append(("strings.substr", "strings.wrap(%s).substr{start=%d, end=%d}.str" % (lit(s), a, z), s[a:z + 1]))
        digits = "".join(rng.choice("0123456789") for _ in range(rng.randint(1, 6)))
        tailtxt = rng.choice(["", "abc", " 1", "x9"])
        out.append(("strings.parse_int", "strings.wrap(%s).parse_int().unwrap()" % lit(digits + tailtxt), int(digits)))
        nodigits = rng.choice(["", "abc", "-5", " 12", "x9", "é1"])
        out.append(("strings.parse_int", "strings.wrap(%s).parse_int().unwrap()" % lit(nodigits), None))
        # partial matching at depth: the value has extra fields inside a nested tuple
        inner = rand_tuple(rng, 3)
        extra = dict(inner)
        extra["zz_extra"] = rand_scalar(rng, False)
        out.append(("schema.shaped", "schema.shaped{val=%s, shape=%s, partial=true}" % (lit({"n": extra, "k": 1}), lit({"n": inner})),
                    shaped({"n": extra, "k": 1}, {"n": inner}, True)))
        out.append(("schema.shaped", "schema.shaped{val=%s, shape=%s, partial=false}" % (lit({"n": extra}), lit({"n": inner})),
                    shaped({"n": extra}, {"n": inner}, False)))
        v = rand_scalar(rng)
        out.append(("functional.maybe.unwrap", "f.maybe{val=%s}.unwrap()" % lit(v), v))
        out.append(("functional.maybe.is_null", "f.maybe{val=%s}.is_null()" % lit(v), v is None))
        out.append(("functional.maybe.do", "f.maybe{val=%s}.do(func (x) => [x]).unwrap()" % lit(v), None if v is None else [v]))
        out.append(("functional.maybe.or", "f.maybe{val=%s}.or(func () => \"dflt\").unwrap()" % lit(v), "dflt" if v is None else v))
        anyv = rng.choice([rand_scalar(rng), rand_list(rng, 3), rand_tuple(rng, 3)])
        out.append(("schema.base_type_of", "schema.base_type_of(%s)" % lit(anyv), base_type(anyv)))
        val = rng.choice([rand_tuple(rng, 4), rand_list(rng, 4, False), rand_scalar(rng)])
        shape = rng.choice([rand_tuple(rng, 4), rand_list(rng, 3, False), rand_scalar(rng), val])
        if isinstance(shape, dict) and isinstance(val, dict) and rng.random() < 0.5:
            shape = {k: v for k, v in list(val.items())[:rng.randint(0, len(val))]}
        partial = rng.random() < 0.5
        out.append(("schema.shaped", "schema.shaped{val=%s, shape=%s, partial=%s}" % (lit(val), lit(shape), lit(partial)),
                    shaped(val, shape, partial)))
        types = [rng.choice([rand_scalar(rng), rand_tuple(rng, 2)]) for _ in range(rng.randint(0, 3))]
        out.append(("schema.any", "schema.any{val=%s, types=%s}" % (lit(val), lit(types)), any(shaped(val, t, False) for t in types)))
        out.append(("schema.all", "schema.all{val=%s, types=%s}" % (lit(val), lit(types)), all(shaped(val, t, True) for t in types)))
    return out


PRELUDE = ('let lists = import "std/lists.ucg";\nlet tuples = import "std/tuples.ucg";\nlet strings = import "std/strings.ucg";\n'
           'let f = import "std/functional.ucg";\nlet schema = import "std/schema.ucg";\n')


def run(tier, seed):
    thms = theorem_names()
    ck = C.Check(PID, tier, seed, "proof" if thms else "exploration")
    cov = ck.coverage
    broken = []
    if thms:
        import t_std
        tr = t_std.generate(C.REPO, C.GEN, C.write_if_changed)
        cov["translator"] = tr["status"]
        if tr["status"] != "generated":
            broken.append({"translator": tr["status"]})
        pr = C.prove(ck, ["theories/props/C19_Props.vo"], "props.C19_Props", thms)
        if not pr["ok"]:
            broken.append({"obligations": "C19_Props", "built": pr["built"], "audit": pr["audit"],
                           "assumptions": pr["assumptions"], "log": pr["log_tail"][-1500:]})
    ok, msg = C.cargo_build()
    if not ok:
        raise RuntimeError("cargo build of /repo failed:\n" + msg[-2000:])
    rng = ck.rng
    n = 40 if tier == "quick" else 500
    cs = cases(rng, n)
    # the edge proved in Coq (enumerate_last_index_overflow_refuted): only the index AFTER the last element overflows
    cs.append(("enumerate@i64max", 'lists.enumerate{start=9223372036854775807, step=1, list=["a"]}', [[9223372036854775807, "a"]]))
    root = os.path.join(C.scratch_root(), "c19-%d" % os.getpid())
    shutil.rmtree(root, ignore_errors=True)
    os.makedirs(root)
    jobs = []
    for i, (name, expr, want) in enumerate(cs):
        d = os.path.join(root, "c%d" % i)
        os.makedirs(d)
        open(os.path.join(d, "t.ucg"), "w").write(PRELUDE + "out yaml {r = %s};\n" % expr)
        jobs.append(([C.UCG_BIN, "build", "t.ucg"], d, None))
    results = C.run_many(jobs)
    real = []
    per = {}
    for i, ((name, expr, want), (rc, out, err)) in enumerate(zip(cs, results)):
        per.setdefault(name, [0, 0])
        per[name][0] += 1
        if rc != 0 and name == "enumerate@i64max" and "overflow" in err and ck.is_known("C19-enumerate-last-index"):
            ck.known_finding("C19-enumerate-last-index", "lists.enumerate fails when start + len*step overflows although every index of the result fits (%s)" % expr)
            continue
        if rc != 0:
            real.append({"helper": name, "call": expr, "why": "build failed: " + err[-300:], "expected": want})
            per[name][1] += 1
            continue
        got = D.yaml_load(open(os.path.join(root, "c%d" % i, "t.yaml"), encoding="utf-8").read())["r"]
        if not V.same_data(got, want):
            real.append({"helper": name, "call": expr, "why": "result differs from the reference definition", "got": got, "expected": want})
            per[name][1] += 1
    shutil.rmtree(root, ignore_errors=True)
    cov["evaluations"] = len(cs)
    cov["distinct_nontrivial"] = len(set(e for _, e, _ in cs))
    cov["rule"] = ("every helper called through import \"std/...\" in a built file on seeded random lists (0..12 items, mixed types), tuples (0..8 "
                   "fields incl. NULL values), ASCII and Unicode strings (0..20 chars), separators of length 1..3, in-range and boundary index "
                   "pairs; results read from `out yaml` and compared with python reference definitions; distinct = distinct calls")
    cov["per_helper"] = {k: {"calls": v[0], "failures": v[1]} for k, v in sorted(per.items())}
    cov["samples"] = [cs[0][1], cs[7][1], cs[20][1]]
    cov["traces_validated_against_impl"] = len(cs)
    ck.assumptions = ["reference definitions are the python functions in props/c19.py (written from the doc comments in std/*.ucg)",
                      "Coq theorems (when present) are about the ASTs of std/*.ucg regenerated by the real parser (gen/StdLib.v)"]
    if real:
        r0 = min(real, key=lambda r: len(r["call"]))
        ck.violation({"kind": "a standard-library helper does not compute its reference definition", "failing": r0, "more": len(real) - 1,
                      "by_helper": {k: v[1] for k, v in per.items() if v[1]}, "broken": broken})
    elif broken:
        ck.violation({"kind": "proof obligation no longer checks", "broken": broken, "theorems": thms}, nofail=True)
    return ck.finish()


def replay(path):
    r = json.load(open(path))
    print(json.dumps(r.get("failing"), indent=1, ensure_ascii=False)[:3000])
    return 1
