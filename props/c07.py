"""C07 -- the static checker never rejects a program that evaluates successfully."""
import json
import os
import re

import common as C
import programs as P

PID = "C07"
THEOREM_FILE = os.path.join(C.COQ, "theories", "props", "C07_Props.v")

# the constructs the property names, each as a small program (they must evaluate and must pass the checker)
NAMED = [
    'let r = map(func (k, v) => [k, v], {a = 1});',
    'let r = map(func (c) => c, "abc");',
    'let r = filter(func (c) => true, "abc");',
    'let r = filter(func (k, v) => v > 1, {a = 1, b = 2});',
    'let r = reduce(func (acc, c) => acc + c, "", "abc");',
    'let r = reduce(func (acc, k, v) => acc + v, 0, {a = 1});',
    'let t = {f = func (x) => x}; let r = t.f(1);',
    'let t = {inner = {f = func (x) => x + 1}}; let r = t.inner.f(1) + 1;',
    'let l = [{a = 1}]; let m = [l.0]; let r = m.0.a;',
    'let l = [[1]]; let m = [l.0]; let n = m.0; let r = n.0 + 1;',
    'let t = {a = {b = {c = [1, 2, 3]}}}; let r = t.a.b.c.1 + 1;',
    'let r = (select ("x", 1) => {a = "s"}) + 1;',
    'let a = 1; let f = func (a) => a + "s"; let r = f("x");',
    'let f = func (a) => a; let a = "s"; let r = f(1); let z = a + "t";',
    'let b0 = {a = 1}; let x = b0{a = NULL}; let y = x{a = "s"}; let z = y.a + "t";',
    'let m = module {v = 1} => (r) { let r = mod.v + 1; }; let r = m{v = 2} + 1;',
    'let m = module {v = 1} => { let w = mod.v + 1; }; let r = m{}.w + 1;',
    'let r = map(func (x) => x, [[1]].0);',
    'let r = filter(func (x) => true, select (true) => {"true" = [1], "false" = []});',
    'let r = not ([select (true) => {"true" = true, "false" = false}].0);',
    'let it = func (it, m) => 0.25; let n = it(1, it(2, it(3, 0.0)));',
    'let s = "a" + map(func (c) => c, map(func (c) => c, "xy"));',
    'let r = "@ and @" % (1, "x"); let q = "@{item.a}" % {a = 1};',
    'let r = 0:2:10; let c = int("12") + 1; let d = str(1) + "x";',
    'let s = "x" + filter(func (c) => true, map(func (c) => c, "ab"));',
    'let f = func (t) => filter(func (c) => true, t); let s = f("ab") + "x";',
    'let v3 = {a = 1} == {b = 2}; let v4 = {a = 1, b = 2} != {a = 1, c = 3}; let v5 = [1, 2] == ["a"]; let v6 = {n = {x = 1}} == {n = {y = 1}};',
    'let v = [1, "a"] == [1.5]; let w = {a = [1]} != {a = ["x"]}; let x = [] == [1]; let y = {} == {a = 1};',
]
# a caller's binding named like a parameter of a function with several untyped parameters (the parameters' inferred shapes refer to
# one another): checking the call must leave the caller's binding alone - every parameter position, binding before / after the
# definition, called directly / through a field, two functions with the names swapped
NAMED += [
    'let b = "s"; let add = func (a, b) => a + b; let r = add(1, 2); let msg = b + "x";',
    'let a = "s"; let add = func (a, b) => a + b; let r = add(1, 2); let msg = a + "x";',
    'let add = func (a, b) => a + b; let b = "s"; let r = add(1, 2); let msg = b + "x";',
    'let c = "s"; let f = func (a, b, c) => a + b + c; let r = f(1, 2, 3); let z = c + "x";',
    'let b = "s"; let lt = func (a, b) => a < b; let r = lt(1, 2); let z = b + "x";',
    'let b = 1; let cat = func (a, b) => a + b; let r = cat("x", "y"); let z = b + 1;',
    'let b = "s"; let t = {f = func (a, b) => a + b}; let r = t.f(1, 2); let z = b + "x";',
    'let y = "s"; let f = func (x, y) => x * y; let g = func (y, x) => y - x; let r = f(2, 3) + g(5, 1); let z = y + "x";',
]
# selectors through the elements of a list literal whose elements have different shapes (one a sub-shape of the other), followed by a
# selection that only the wider element supports: every order, directly / under a field / under a nested list
for _A, _B, _acc in [("{x = 1}", '{x = 1, y = "s"}', ".y"), ("{}", '{a = "v"}', ".a"), ("[1]", '[1, "s"]', ".1"),
                     ("{n = {}}", '{n = {z = "q"}}', ".n.z")]:
    for _first, _second, _ib in ((_A, _B, 1), (_B, _A, 0)):
        NAMED.append('let l = [%s, %s]; let r = (l.%d)%s + "x";' % (_first, _second, _ib, _acc))
        NAMED.append('let l = [{p = %s}, {p = %s}]; let r = l.%d.p%s + "x";' % (_first, _second, _ib, _acc))
        NAMED.append('let l = [[%s], [%s]]; let r = ((l.%d).0)%s + "x";' % (_first, _second, _ib, _acc))
        NAMED.append('let l = [{p = %s}, {p = %s}, {p = %s}]; let r = l.%d.p%s + "x";' % (_first, _first, _second, 2 if _ib == 1 else 0, _acc))
# a copy whose override replaces a nested tuple / list by a structurally wider one, then a selection of the part only the override has
NAMED.append('let base = {opts = {port = 80}, name = "n"}; let d = base{opts = {port = 8080, host = "localhost"}}; let r = d.opts.host + "x";')
NAMED.append('let base = {tags = ["a"]}; let d = base{tags = ["a", 1]}; let r = (d.tags).1 + 1;')
NAMED.append('let base = {o = {}}; let d = base{o = {k = {z = 1}}}; let e = d{o = {k = {z = 1, w = "s"}}}; let r = e.o.k.w + "x";')
NAMED.append('let m = module {cfg = {a = 1}} => (r) { let r = mod.cfg; }; let v = m{cfg = {a = 2, b = "s"}}; let r = v.a + 1;')
KNOWN_WITNESSES = {
    "C07-list-shapes": ['let r = [1] + ["a"];', 'let r = filter(func(x) => false, [1]) + filter(func(x) => false, ["a"]);'],
    "C07-and-or-rhs": ["let x = true && 5;", 'let x = false || "s";', "let n = false && (not 5);"],
    "C07-select-merge": ['let r = (select ("y", 0) => {x = {a = 1}, y = {a = 1, b = "s"}}).b;'],
    "C07-inferred-tuple-closed": ['let f = func(t) => t.a + t.b; let r = f({a=1,b=2});'],
    "C07-reduce-tuple-growth": ['let r = reduce(func(acc,x) => acc{b=x}, {a=0}, [1,2]).b;'],
    "C07-module-default-shape": ['let m = module {t = {a=1}} => { let r = mod.t; }; let i = m{t = {b=3}};'],
    "C07-dead-branch-narrowing": ['let f = func(x) => select (x is "int", "s") => {"true" = x + 1}; let r = f("a");'],
}


def theorem_names():
    if not os.path.exists(THEOREM_FILE):
        return []
    src = C.strip_comments(open(THEOREM_FILE).read())
    return re.findall(r"^\s*(?:Theorem|Corollary)\s+([A-Za-z0-9_']+)", src, re.M)


def classify(text, err):
    """the listed known classes, by the checker's verdict and the construct it points at"""
    m = re.search(r"line: (\d+) column: (\d+)", err)
    if "Incompatible List Shapes" in err or ("No narrowed candidate is compatible with" in err and "list" in err.lower()):
        return "C07-list-shapes"
    if "Expected boolean but got" in err and m:
        # the operand the checker points at must be the right operand of && / ||
        ls = text.split("\n")
        ln, col = int(m.group(1)), int(m.group(2))
        if ln <= len(ls) and re.search(r"(&&|\|\|)\s*\(*$", ls[ln - 1][:col - 1]):
            return "C07-and-or-rhs"
    return None


def run(tier, seed):
    thms = theorem_names()
    ck = C.Check(PID, tier, seed, "proof" if thms else "exploration")
    cov = ck.coverage
    broken = []
    if thms:
        pr = C.prove(ck, ["theories/props/C07_Props.vo"], "props.C07_Props", thms)
        if not pr["ok"]:
            broken.append({"obligations": "C07_Props", "built": pr["built"], "audit": pr["audit"],
                           "assumptions": pr["assumptions"], "log": pr["log_tail"][-1500:]})
    ok, msg = C.cargo_build()
    if not ok:
        raise RuntimeError("cargo build of /repo failed:\n" + msg[-2000:])
    rng = ck.rng
    n = 2500 if tier == "quick" else 40000
    progs = []
    asts = {}
    for i in range(n):
        p, _ = P.gen_program(rng, rng.randint(1, 8), max_depth=4, p_bad=0.0)
        progs.append(("generated", P.prog_text(p)))
        asts[len(progs) - 1] = p
    # comparisons of values of the same kind but different structure (they evaluate to true / false)
    import values as V
    g = V.ValGen(rng)
    for i in range(300 if tier == "quick" else 3000):
        def nofloat(v):
            return ("i", 7) if v[0] in ("f", "c") else (("l", [nofloat(x) for x in v[1]]) if v[0] == "l" else
                                                           (("t", [(k, nofloat(x)) for k, x in v[1]]) if v[0] == "t" else v))
        a = nofloat(g.tuple(2) if rng.random() < 0.5 else ("l", [g.value(1) for _ in range(rng.randint(0, 3))]))
        b_ = nofloat(g.tuple(2) if rng.random() < 0.5 else ("l", [g.value(1) for _ in range(rng.randint(0, 3))]))
        try:
            ta, tb = V.to_ucg(a), V.to_ucg(b_)
        except ValueError:
            continue
        op = rng.choice(["==", "!=", "==", "in"])
        progs.append(("comparison", "let r = %s %s %s;\n" % (ta, op, tb)))
    progs += [("named", t.replace("; ", ";\n") + "\n") for t in NAMED]
    for k, ws in KNOWN_WITNESSES.items():
        progs += [("witness:" + k, w + "\n") for w in ws]
    res = C.harness("stages", [t for _, t in progs])
    real = []
    stats = {"evaluate": 0, "rejected_known": {}, "named_constructs": len(NAMED)}
    okm, mmsg = C.build_model_runner()
    if not okm:
        broken.append({"extraction": mmsg[-1500:]})
    for idx, ((kind, text), r) in enumerate(zip(progs, res)):
        ev, chk = r.get("eval", {}), r.get("check", {})
        if "panic" in chk or "panic" in ev:
            real.append({"source": text, "why": "panic: %r" % (chk.get("panic") or ev.get("panic"))})
            continue
        if "ok" not in ev:
            if kind == "named":
                real.append({"source": text, "why": "a construct the reference documents does not evaluate: " + str(ev.get("err"))[:200]})
            continue
        stats["evaluate"] += 1
        if "err" in chk:
            cls = classify(text, chk["err"])
            if cls is None and "No candidate type has field" in chk["err"] and "select" in text:
                cls = "C07-select-merge"
            if kind.startswith("witness:"):
                cls = kind.split(":", 1)[1]
            elif okm and idx in asts and cls != "C07-select-merge":
                # the list-shape and &&/|| classes must be recognised by the classifier proved about the witnesses
                # (shape/Shape.v known_c07 / known_c07_wide); the checker words its complaint about list shapes in several ways
                mo = C.model("shape_c07", ["(%s)" % " ".join(P.stmt_sexp(x) for x in asts[idx])])[0].split()
                if len(mo) == 4:
                    if cls and mo[1] != "1":
                        cls = None
                    elif cls is None and mo[0] == "1" and re.search(r"list|List", chk["err"]):
                        cls = "C07-list-shapes"
            if cls and ck.is_known(cls):
                stats["rejected_known"][cls] = stats["rejected_known"].get(cls, 0) + 1
                continue
            real.append({"source": text, "why": "the program evaluates but the static checker rejects it: " + chk["err"][:300], "class": cls})
    # the same through the binary for the named constructs (the checker of a file build has a working directory and a shape cache)
    import shutil
    root = os.path.join(C.scratch_root(), "c07-%d" % os.getpid())
    shutil.rmtree(root, ignore_errors=True)
    os.makedirs(root)
    jobs = []
    for i, t in enumerate(NAMED):
        open(os.path.join(root, "n%d.ucg" % i), "w").write(t.replace("; ", ";\n") + "\n")
        jobs.append(([C.UCG_BIN, "build", "n%d.ucg" % i], root, None))
    for t, (rc, out, err) in zip(NAMED, C.run_many(jobs)):
        if rc != 0:
            real.append({"source": t, "why": "`ucg build` rejects a construct the reference documents: " + err[-300:]})
    shutil.rmtree(root, ignore_errors=True)
    for k, cnt in sorted(stats["rejected_known"].items()):
        ck.known_finding(k, "%d evaluating programs rejected by the checker this run" % cnt)
    cov["evaluations"] = len(progs)
    cov["distinct_nontrivial"] = len(set(t for _, t in progs))
    cov["rule"] = ("programs of the C01 generator (typed, first-order: literals, let-bound names, all operators, tuple/list literals, selectors, copy, "
                   "select, calls of let-bound functions, modules, map/filter/reduce over lists, tuples and strings, format, range, casts) that "
                   "evaluate to completion without the checker, each given to the checker; plus one program per construct the property names, "
                   "also built through the binary; plus the witnesses of the listed known classes")
    cov["outcomes"] = stats
    cov["samples"] = [progs[0][1][:500]]
    cov["traces_validated_against_impl"] = len(progs)
    ck.assumptions = ["'evaluates without static checking' = FileBuilder::eval_string; 'the checker' = Checker::walk_statement_list as get_ops_for_path runs it",
                      "that a built program produces the same values as the evaluation is C01's subject (K2/K3), not repeated here"]
    if real:
        r0 = min(real, key=lambda r: len(r["source"]))
        by = {}
        for r in real:
            k = re.sub(r" at .*", "", r["why"])[:90]
            by[k] = by.get(k, 0) + 1
        ck.violation({"kind": "the checker rejects a program that evaluates", "failing": r0, "more": len(real) - 1, "by_kind": by, "broken": broken})
    elif broken:
        ck.violation({"kind": "proof obligation no longer checks", "broken": broken, "theorems": thms}, nofail=True)
    return ck.finish()


def replay(path):
    r = json.load(open(path))
    f = r.get("failing")
    if not f:
        print(json.dumps(r.get("broken"))[:2000])
        return 1
    C.cargo_build()
    print(f["source"])
    print(json.dumps(C.harness("stages", [f["source"]])[0], indent=1)[:1500])
    print("recorded:", f["why"])
    return 1
