"""C18 -- `env` exposes the process environment, nothing else, and cannot be shadowed."""
import json
import os
import shutil

import common as C
import programs as P
import semrun as S
import values as V

PID = "C18"
THEOREMS = ["env_lookup", "env_unset_no_leak", "env_not_bindable", "env_not_a_parameter", "env_field_is_field", "env_is_reserved_in_the_sources"]


def rand_name(rng):
    alpha = "ABCDEFGHIJKLMNOPQRSTUVWXYZabcdefghijklmnopqrstuvwxyz_"
    first = alpha + ("0123456789" if rng.random() < 0.1 else "")
    n = rng.choice(first) + "".join(rng.choice(alpha + "0123456789") for _ in range(rng.randint(0, 10)))
    return n


def sel(name):
    """selector text for a variable name: a bareword when the name is one, a quoted selector otherwise"""
    import re
    if re.fullmatch(r"[A-Za-z][A-Za-z0-9_]*", name) and not name.startswith(("true", "false", "NULL")) and name not in P.KEYWORDS:
        return "env." + name
    return 'env."%s"' % name


CONTEXTS = ["plain", "let_stmt", "let_stmt", "func", "module_out", "module_body", "fmt_expr", "map_cb", "nested_module", "select_arm", "reduce_cb"]


def wrap(kind, R, tag):
    """an env read R placed in an evaluation context -> (statements before, expression, value -> expected JSON)"""
    ident = lambda v: v
    if kind == "plain":
        return [], R, ident
    if kind == "let_stmt":
        # a statement of its own (several such statements read different variables one after the other)
        return [("let", "r" + tag, R)], ("sym", "r" + tag), ident
    if kind == "func":
        return [("let", "f" + tag, ("func", ["x"], R))], ("call", ("sym", "f" + tag), [("int", 1)]), ident
    if kind == "module_out":
        return [("let", "m" + tag, ("module", [], R, [("let", "q", ("int", 1))]))], ("copy", ("sym", "m" + tag), []), ident
    if kind == "module_body":
        return ([("let", "m" + tag, ("module", [], None, [("let", "r", R)]))],
                ("bin", "DOT", ("copy", ("sym", "m" + tag), []), ("sym", "r")), ident)
    if kind == "nested_module":
        inner = ("module", [], R, [("let", "q", ("int", 1))])
        return ([("let", "m" + tag, ("module", [], None, [("let", "inner", inner), ("let", "r", ("copy", ("sym", "inner"), []))]))],
                ("bin", "DOT", ("copy", ("sym", "m" + tag), []), ("sym", "r")), ident)
    if kind == "fmt_expr":
        return [], ("fmts", [("s", "v="), ("e", R)], ("int", 1)), (lambda v: "v=" + ("NULL" if v is None else v))
    if kind == "map_cb":
        return [], ("map", ("func", ["x"], R), ("list", [("int", 1), ("int", 2)])), (lambda v: [v, v])
    if kind == "reduce_cb":
        return [], ("reduce", ("func", ["acc", "x"], R), ("int", 0), ("list", [("int", 1)])), ident
    if kind == "select_arm":
        return [], ("select", ("str", "a"), None, [("a", R)]), ident
    raise ValueError(kind)


def run(tier, seed):
    ck = C.Check(PID, tier, seed, "proof")
    cov = ck.coverage
    import sys
    sys.path.insert(0, os.path.join(C.VERIF, "translate"))
    import t_reserved as T10
    tr10 = T10.generate(C.REPO, C.GEN, C.write_if_changed)
    cov["translator_reserved"] = tr10["status"]
    broken = []
    if tr10["status"] != "generated":
        C.write_if_changed(os.path.join(C.GEN, "Reserved.v"), open(os.path.join(C.COQ, "snapshots", "Reserved.v")).read())
        broken.append({"translator": tr10["status"]})
    pr = C.prove(ck, ["theories/props/C18_Props.vo"], "props.C18_Props", THEOREMS)
    if not pr["ok"]:
        broken.append({"obligations": "C18_Props", "built": pr["built"], "audit": pr["audit"],
                       "assumptions": pr["assumptions"], "log": pr["log_tail"][-1500:]})
    ok, msg = C.cargo_build()
    if not ok:
        raise RuntimeError("cargo build of /repo failed:\n" + msg[-2000:])
    okm, msg = C.build_model_runner()
    if not okm:
        broken.append({"extraction": msg[-1500:]})
    rng = ck.rng
    g = V.ValGen(rng)
    n = 150 if tier == "quick" else 2000
    root = os.path.join(C.scratch_root(), "c18-%d" % os.getpid())
    shutil.rmtree(root, ignore_errors=True)
    os.makedirs(root)
    jobs, meta = [], []
    model_cases = []
    ctx_stats = {}
    for i in range(n):
        nvars = rng.randint(0, 20)
        envd = {}
        for _ in range(nvars):
            v = g.rand_str().replace("\0", "")
            envd[rand_name(rng)] = v
        secret = "hunter2-%08x" % rng.getrandbits(32)
        envd["SECRET_TOKEN"] = secret
        envd.pop("env", None)
        names = [k for k in envd if k != "SECRET_TOKEN"]
        read = rng.sample(names, min(len(names), rng.randint(0, 4)))
        unset = None
        if rng.random() < 0.5:
            unset = rand_name(rng) + "_UNSET"
            while unset in envd:
                unset += "X"
        strict = rng.random() < 0.6
        def key(k):
            return ("sym", k) if sel(k).startswith("env.") and not sel(k).startswith('env."') else ("str", k)
        pre, exprs, want_of = [], [], []
        for j, k in enumerate(read + ([unset] if unset else [])):
            R = ("bin", "DOT", ("sym", "env"), key(k))
            ctxk = rng.choice(CONTEXTS)
            st, e, w = wrap(ctxk, R, "h%d_%d" % (i, j))
            pre += st
            exprs.append(("u" if k == unset else "v%d" % j, e))
            want_of.append((("u" if k == unset else "v%d" % j), k, w))
            ctx_stats[ctxk] = ctx_stats.get(ctxk, 0) + 1
        if len(read) >= 2:
            # two different variables read in one expression
            k1, k2 = read[0], read[1]
            exprs.append(("cat", ("bin", "Add", ("bin", "DOT", ("sym", "env"), key(k1)), ("bin", "DOT", ("sym", "env"), key(k2)))))
            want_of.append(("cat", k1, (lambda v, _o=envd[k2]: v + _o)))
            ctx_stats["two_in_one_expression"] = ctx_stats.get("two_in_one_expression", 0) + 1
        src = "".join(P.stmt_text(x) + "\n" for x in pre)
        src += "out json {%s};\n" % ", ".join(["%s = %s" % (n, P.to_text(e)) for n, e in exprs] + ["f = {env = 5}.env"])
        d = os.path.join(root, "c%d" % i)
        os.makedirs(d)
        open(os.path.join(d, "e.ucg"), "w").write(src)
        penv = {k: v for k, v in envd.items()}
        argv = [C.UCG_BIN] + ([] if strict else ["--no-strict"]) + ["build", "e.ucg"]
        jobs.append((argv, d, penv))
        meta.append((d, src, envd, want_of, unset, strict, secret))
        # the same reads through the definitional semantics
        prog = list(pre) + [("let", n, e) for n, e in exprs]
        model_cases.append((prog, sorted(envd.items()), strict))
    # binding env is an error
    bind_cases = ["let env = 1;\n", "let f = func (env) => env;\nlet r = f(1);\n", "let m = map(func (env) => env, [1]);\n"]
    for bi, src in enumerate(bind_cases):
        d = os.path.join(root, "b%d" % bi)
        os.makedirs(d)
        open(os.path.join(d, "e.ucg"), "w").write(src)
        jobs.append(([C.UCG_BIN, "build", "e.ucg"], d, {"A": "1"}))
        meta.append((d, src, {"A": "1"}, [], "__bind__", True, "zzzz-not-present"))
    results = C.run_many(jobs)
    real = []
    for (d, src, envd, read, unset, strict, secret), (rc, out, err) in zip(meta, results):
        base = {"source": src, "environment": envd, "strict": strict}
        if unset == "__bind__":
            if rc == 0:
                real.append(dict(base, why="`env` was accepted as a binding name"))
            continue
        if secret in err or secret in out:
            real.append(dict(base, why="the diagnostic discloses the value of an unrelated variable", stderr=err[-600:]))
            continue
        readnames = [k for _, k, _ in read]
        others = [v for k, v in envd.items() if k not in readnames and len(v) >= 6 and v.strip()]
        leaked = [v for v in others if v in err]
        if leaked:
            real.append(dict(base, why="the diagnostic discloses the value of an unrelated variable", stderr=err[-600:]))
            continue
        if unset and strict:
            if rc == 0:
                real.append(dict(base, why="an unset variable did not fail the strict build"))
            elif unset not in err:
                real.append(dict(base, why="the diagnostic does not name the unset variable", stderr=err[-400:]))
            continue
        if rc != 0:
            real.append(dict(base, why="build failed: " + err[-300:]))
            continue
        got = json.load(open(os.path.join(d, "e.json")))
        want = {n: w(envd.get(k)) for n, k, w in read}
        want["f"] = 5
        if not V.same_data(got, want):
            real.append(dict(base, why="env values differ", got=got, want=want))
    shutil.rmtree(root, ignore_errors=True)
    # model vs implementation (library level, same environments)
    disagreements = 0
    if okm:
        texts = [P.prog_text(p) for p, _, _ in model_cases]
        impl = [S.impl_outcome(r) for r in C.harness("eval", [{"src": t, "strict": st, "env": dict(e)} for t, (p, e, st) in zip(texts, model_cases)])]
        mdl = [S.model_outcome(m) for m in C.model("sem", [P.prog_sexp(p, strict=st, env=e) for p, e, st in model_cases])]
        for t, i, m, (p, e, st) in zip(texts, impl, mdl, model_cases):
            if not p:
                continue
            w = S.compare(i, m)
            if w:
                disagreements += 1
                real.append({"source": t, "environment": dict(e), "strict": st, "why": w, "build": i, "semantics": m})
    cov["evaluations"] = len(jobs) + len(model_cases)
    cov["distinct_nontrivial"] = len(set(m[1] for m in meta))
    cov["rule"] = ("random process environments of 0..20 variables (names [A-Za-z_][A-Za-z0-9_]*, values arbitrary Unicode without NUL) plus a planted "
                   "secret, passed to the real `ucg` process (exact environment, nothing inherited); programs read set and unset names at top level, in function bodies, module bodies and out-expressions, nested modules, expression-format strings, map/reduce callbacks and select arms, strict "
                   "and --no-strict, plus a tuple field named env; binding env by let / parameter; the same reads through the definitional semantics")
    cov["generator_distribution"] = ctx_stats
    cov["samples"] = [meta[0][1], meta[1][1]]
    cov["traces_validated_against_impl"] = len(jobs)
    cov["disagreements_model_vs_impl"] = disagreements
    ck.assumptions = ["how the OS hands the environment to the process is outside the model",
                      "theorems are on the definitional semantics; C01 ties it to the compiled form"]
    if real:
        r0 = min(real, key=lambda r: len(json.dumps(r, default=str)))
        ck.violation({"kind": "env does not expose exactly the process environment", "failing": r0, "more": len(real) - 1, "broken": broken})
    elif broken:
        ck.violation({"kind": "proof obligation no longer checks", "broken": broken, "theorems": THEOREMS}, nofail=True)
    return ck.finish()


def replay(path):
    r = json.load(open(path))
    print(json.dumps(r.get("failing"), indent=1, ensure_ascii=False)[:3000])
    return 1
