"""C14 -- `out` writes one artifact: right name, same bytes as `convert`, all or nothing."""
import json
import os
import shutil

import common as C
import sx

PID = "C14"
THEOREMS = ["out_eq_convert", "second_out_err", "two_outs_fail", "out_atomic", "create_before_convert_refuted"]

# (prelude statements, expression) ; chosen so that every converter meets convertible and inconvertible values
VALUES = [
    ("", '{a = 1, b = "two"}'),
    ("", '{a = NULL}'),
    ("", 'NULL'),
    ("", '[1, 2]'),
    ("", '"str"'),
    ("", '1'),
    ("", '{x = {y = [1.5, true]}, z = "é \\" q"}'),
    ("", '{command = "echo", args = ["hi", {flag = 1}], env = {A = "b"}}'),
    ("", '{args = ["x"]}'),
    ("", '{command = 1}'),
    ("", '{root = {name = "top", attrs = {id = "1"}, children = ["text", {name = "c"}]}}'),
    ("", '{root = 1}'),
    ("", '{root = {name = "a", text = "b"}}'),
    ("", '{noroot = 1}'),
    ("", '[{a = 1}, {b = 2}]'),
    ("", '{a = [NULL]}'),
    ("constraint cc = in 1..5;\n", 'cc'),
    ("constraint cc = in 1..5;\n", '{a = cc}'),
    ("", '{f = 1.0 / 0.0}'),
    ("", '{}'),
    ("", '[]'),
]


def listing(d):
    out = {}
    for n in sorted(os.listdir(d)):
        p = os.path.join(d, n)
        if os.path.isfile(p):
            out[n] = open(p, "rb").read()
    return out


def run(tier, seed):
    ck = C.Check(PID, tier, seed, "proof")
    cov = ck.coverage
    pr = C.prove(ck, ["theories/props/C14_Props.vo"], "props.C14_Props", THEOREMS)
    broken = []
    if not pr["ok"]:
        broken.append({"obligations": "C14_Props", "built": pr["built"], "audit": pr["audit"],
                       "assumptions": pr["assumptions"], "log": pr["log_tail"][-1500:]})
    ok, msg = C.cargo_build()
    if not ok:
        raise RuntimeError("cargo build of /repo failed:\n" + msg[-2000:])
    okm, msg = C.build_model_runner()
    if not okm:
        broken.append({"extraction": msg[-1500:]})
    reg = C.harness("registry", [None])[0]
    convs = dict(reg["converters"])          # name -> ext
    names = sorted(convs) + ["nosuch"]
    # what `convert <fmt> <value>` evaluates to, for every (fmt, value)
    ev_cases = []
    for f in names:
        for pre, e in VALUES:
            ev_cases.append({"src": "%slet s = convert %s %s;" % (pre, f, e), "strict": True})
    ev = C.harness("eval", ev_cases)
    conv = {}
    i = 0
    for f in names:
        for vi, _ in enumerate(VALUES):
            r = ev[i]
            i += 1
            if "ok" in r:
                s = None
                for k, v in r["ok"]["t"]:
                    if k == "s":
                        s = v["s"]
                conv[(f, vi)] = s.encode("utf-8") if s is not None else None
            else:
                conv[(f, vi)] = None
    # cases: (outs=[(fmt, value index)], preexisting?)
    cases = []
    for f in names:
        for vi in range(len(VALUES)):
            for pre in (False, True):
                cases.append(([(f, vi)], pre))
    for vi in (0, 3):
        cases.append(([], False))
        cases.append(([], True))
    pairs = [(a, bb) for a in names for bb in names]
    if tier == "quick":
        pairs = ck.rng.sample(pairs, 24)
    for a, bb in pairs:
        for pre in (False, True):
            cases.append(([(a, 0), (bb, 7 if bb == "exec" else 0)], pre))
    root = os.path.join(C.scratch_root(), "c14-%d" % os.getpid())
    shutil.rmtree(root, ignore_errors=True)
    jobs, meta, mlines = [], [], []
    for ci, (outs, pre) in enumerate(cases):
        d = os.path.join(root, "c%d" % ci)
        os.makedirs(d)
        src = ""
        for f, vi in outs:
            if VALUES[vi][0] and VALUES[vi][0] not in src:
                src += VALUES[vi][0]
        between = ["", "", "let fb = func (x) => x + 1;\nlet rb = fb(1);\n", "let mb = module {p = 1} => { let q = mod.p; };\nlet ib = mb{};\n",
                   "let lb = map(func (x) => x, [1, 2]);\n", "let sb = \"v=@{item}\" % 1;\n", "let gb = reduce(func (acc, x) => acc + x, 0, [1, 2]);\n"]
        for oi, (f, vi) in enumerate(outs):
            if oi > 0:
                # what runs between two out statements (nested evaluations of this file's own code) must not matter
                src += between[(ci + oi) % len(between)]
            src += "out %s %s;\n" % (f, VALUES[vi][1])
        if not outs:
            src += "let x = 1;\n"
        open(os.path.join(d, "art.ucg"), "w").write(src)
        exts = sorted(set(convs.values()))
        before = {}
        if pre:
            for e in exts:
                # longer than anything the build writes (an artifact opened without truncation keeps a tail of it) for every
                # second case, shorter otherwise
                open(os.path.join(d, "art." + e), "wb").write(b"OLD " + e.encode() + (b"\n" + b"# stale line\n" * 400 if (ci // 2) % 2 == 0 else b""))
        before = listing(d)
        jobs.append(([C.UCG_BIN, "build", "art.ucg"], d, None))
        meta.append((d, outs, pre, before, src))
        # model input
        srcp = os.path.join(d, "art.ucg")
        prel = " ".join("(%s %s)" % (C.hexs(os.path.join(d, n)), C.hexs(c)) for n, c in before.items())
        outl = " ".join("(%s %s)" % (C.hexs(convs[f]) if f in convs else "none",
                                     C.hexs(conv[(f, vi)]) if conv.get((f, vi)) is not None else "none")
                        for f, vi in outs)
        probes = " ".join(C.hexs(os.path.join(d, "art." + e)) for e in exts + ["ucg"])
        mlines.append("((%s) %s (%s) (%s))" % (prel, C.hexs(srcp), outl, probes))
    results = C.run_many(jobs)
    mouts = C.model("out", mlines) if okm else [None] * len(cases)
    real, disagreements = [], []
    stats = {"convertible": 0, "inconvertible": 0, "two_outs": 0, "no_out": 0, "with_preexisting": 0}
    exts = sorted(set(convs.values()))
    for (d, outs, pre, before, src), (rc, out, err), mo in zip(meta, results, mouts):
        after = listing(d)
        stats["with_preexisting"] += 1 if pre else 0
        # ---- the property itself ----
        expect = dict(before)
        want_fail = False
        if len(outs) == 0:
            stats["no_out"] += 1
        elif len(outs) >= 2:
            stats["two_outs"] += 1
            want_fail = True
            f, vi = outs[0]
            if f in convs and conv.get((f, vi)) is not None:
                expect["art." + convs[f]] = conv[(f, vi)]
        else:
            f, vi = outs[0]
            if f in convs and conv.get((f, vi)) is not None:
                stats["convertible"] += 1
                expect["art." + convs[f]] = conv[(f, vi)]
            else:
                stats["inconvertible"] += 1
                want_fail = True
        problem = None
        if (rc != 0) != want_fail:
            problem = "exit status %d, expected %s" % (rc, "failure" if want_fail else "success")
        elif after != expect:
            diff = sorted(set(k for k in set(after) | set(expect) if after.get(k) != expect.get(k)))
            problem = "files differ: " + ", ".join(
                "%s: got %s expected %s" % (k, repr(after[k][:60]) if k in after else "<absent>",
                                            repr(expect[k][:60]) if k in expect else "<absent>") for k in diff)
        if problem:
            real.append({"source": src, "preexisting": sorted(before) if pre else [], "problem": problem,
                         "stderr": err[-300:], "file": "art.ucg"})
        # ---- model vs implementation ----
        if mo is not None:
            x = sx.parse(mo)
            res = x[0]
            mfiles = {}
            for e, c in zip(exts + ["ucg"], x[1]):
                if c != "none":
                    mfiles["art." + e] = C.unhex(c)
            if (res == "ok") != (rc == 0) or mfiles != after:
                disagreements.append({"source": src, "model": [res, {k: v.decode("utf-8", "replace")[:80] for k, v in mfiles.items()}],
                                      "impl": [rc, {k: v.decode("utf-8", "replace")[:80] for k, v in after.items()}]})
    shutil.rmtree(root, ignore_errors=True)
    cov["evaluations"] = len(cases)
    cov["distinct_nontrivial"] = len(set((tuple(o), p) for _, o, p, _, _ in meta if o))
    cov["rule"] = ("every registered converter (+ an unknown name) x %d value expressions x with/without pre-existing artifacts, "
                   "files with 0 and 2 out statements (with plain statements, function calls, module instantiations, callbacks or format expressions between the two); non-trivial = at least one out statement" % len(VALUES))
    cov["generator_distribution"] = stats
    cov["converters"] = convs
    cov["samples"] = [meta[0][4], meta[len(meta) // 2][4], meta[-1][4]]
    cov["traces_validated_against_impl"] = len(cases)
    cov["disagreements_model_vs_impl"] = len(disagreements)
    cov["exhaustive"] = tier == "thorough"
    ck.assumptions = [
        "converters are an abstract function in the model; its value on each (format, value) is read from the implementation's "
        "`convert` expression, which is what the property relates `out` to",
        "real file-system failure modes (disk full, permissions, partial writes) are not modelled",
    ]
    if real:
        real.sort(key=lambda r: len(r["source"]))
        ck.violation({"kind": "artifact name/content/atomicity differs from the property", "failing": real[0],
                      "more": len(real) - 1, "broken": broken})
    elif broken or disagreements:
        ck.violation({"kind": "proof obligation or correspondence no longer checks", "broken": broken,
                      "model_disagreements": disagreements[:5], "theorems": THEOREMS}, nofail=True)
    return ck.finish()


def replay(path):
    r = json.load(open(path))
    f = r.get("failing")
    if not f:
        print("no failing input; broken:", json.dumps(r.get("broken"))[:2000])
        return 1
    C.cargo_build()
    d = os.path.join(C.scratch_root(), "c14-replay")
    shutil.rmtree(d, ignore_errors=True)
    os.makedirs(d)
    open(os.path.join(d, "art.ucg"), "w").write(f["source"])
    for n in f["preexisting"]:
        if n != "art.ucg":
            open(os.path.join(d, n), "w").write("OLD " + n.split(".")[-1])
    rc, out, err = C.sh([C.UCG_BIN, "build", "art.ucg"], cwd=d)
    print("exit", rc, err[-400:])
    for n, c in listing(d).items():
        print(n, repr(c[:100]))
    print("recorded problem:", f["problem"])
    return 1
