"""C16 -- a file builds the same alone, in any batch, in any order, any number of times."""
import itertools
import json
import os
import re
import shutil
import subprocess
from concurrent.futures import ThreadPoolExecutor

import common as C

PID = "C16"
THEOREM_FILE = os.path.join(C.COQ, "theories", "props", "C16_Props.v")
OUT_KINDS = [("json", "json"), ("yaml", "yaml"), ("toml", "toml"), ("env", "env"), ("flags", "txt")]
SPELL = ["%s", "./%s", "sub/../%s", "./sub/.././%s"]


def theorem_names():
    if not os.path.exists(THEOREM_FILE):
        return []
    src = C.strip_comments(open(THEOREM_FILE).read())
    return re.findall(r"^\s*(?:Theorem|Corollary)\s+([A-Za-z0-9_']+)", src, re.M)


def gen_project(rng, pi):
    """a project: files f0..fn-1 (+ sub/ directory exists); file i may import only files j < i (a DAG) unless a cycle is planted.
    returns dict name -> {text, imports, outs, fail, kind}, and the list of files named on the command line"""
    n = rng.randint(2, 6)
    files = {}
    names = []
    for i in range(n):
        sub = rng.random() < 0.25
        name = ("sub/" if sub else "") + "f%d.ucg" % i
        kind = rng.choices(["entry", "lib", "both", "fail_run", "fail_static", "fail_parse", "fail_after_out", "imports_missing"],
                           [30, 22, 22, 8, 5, 5, 6, 3])[0]
        imports = []
        if names:
            for j in rng.sample(range(len(names)), min(len(names), rng.choice([0, 1, 1, 2, 3]))):
                imports.append(names[j])
        lines = ['let marker = TRACE "EVAL:%s";' % name]
        fields = ['me = "%s"' % name, "k = %d" % rng.randint(0, 99)]
        rels = []
        for q, imp in enumerate(imports):
            # path relative to this file's directory
            rel = os.path.relpath(imp, os.path.dirname(name) or ".")
            if not rel.startswith(".") and rng.random() < 0.6 and not sub:
                rel = rng.choice(SPELL) % rel
            rels.append(rel)
            lines.append('let i%d = import "%s";' % (q, rel))
            fields.append("d%d = i%d.shared.k" % (q, q))
            if rng.random() < 0.4:
                fields.append('n%d = i%d.shared.me' % (q, q))
        lines.append("let shared = {%s};" % ", ".join(fields[:2] + [f for f in fields[2:] if f.startswith("d")]))
        if rng.random() < 0.3:
            # a function and a module exported to importers (shape inference sees them)
            lines.append("let twice = func (x) => x + x;")
            lines.append("let mk = module {v = 1} => { let w = mod.v + shared.k; };")
        outs = 0
        if kind in ("entry", "both", "fail_after_out"):
            ok, ext = rng.choice(OUT_KINDS)
            val = "{%s}" % ", ".join(fields)
            if ok == "toml":
                val = "{%s}" % ", ".join(fields)
            lines.append("out %s %s;" % (ok, val))
            outs = 1
            if rng.random() < 0.06:
                lines.append("out json {second = true};")      # a second out statement: an error alone as well
                outs = 2
        fail = None
        if kind in ("fail_run", "fail_after_out"):
            fail = "run"
            lines.append('let g = func (x) => int(x);\nlet boom = g("x12");')
        elif kind == "fail_static":
            fail = "static"
            lines.append('let boom = 1 + "s";')
        elif kind == "fail_parse":
            fail = "parse"
            lines.append("let boom = {a = 1;")
        abs_imports = [os.path.join(os.path.dirname(name), r) for r in rels]
        if kind == "imports_missing":
            lines.insert(1, 'let gone = import "nowhere.ucg";')
            abs_imports.insert(0, os.path.join(os.path.dirname(name), "nowhere.ucg"))
        files[name] = {"text": "\n".join(lines) + "\n", "imports": imports, "raw_imports": abs_imports, "outs": outs, "fail": fail, "kind": kind}
        names.append(name)
    if rng.random() < 0.2:
        # an import that is only reachable statically (inside a function that is never called): the link step still looks at it
        libs = [nm for nm in names if files[nm]["kind"] in ("lib", "both", "entry")]
        broken = [nm for nm in names if files[nm]["fail"] in ("parse", "static")]
        if libs:
            L = rng.choice(libs)
            B = None
            if broken and rng.random() < 0.7:
                B = rng.choice(broken)
                rel = os.path.relpath(B, os.path.dirname(L) or ".")
            else:
                rel = "not_there.ucg"
            if files[L]["text"].count(rel) == 0 and L != B:
                files[L]["text"] += 'let lazy = func () => import "%s";\n' % rel
                files[L]["dead_import"] = rel
    if rng.random() < 0.12 and len(names) >= 2:
        # plant a cycle: an early file imports a later one (which may or may not lead back to it)
        a, b = sorted(rng.sample(range(len(names)), 2))
        fa = files[names[a]]
        rel = os.path.relpath(names[b], os.path.dirname(names[a]) or ".")
        ls = fa["text"].split("\n")
        ls.insert(1, 'let back = import "%s";' % rel)
        fa["text"] = "\n".join(ls)
        fa["raw_imports"].insert(0, os.path.join(os.path.dirname(names[a]), rel))
        fa["imports"].insert(0, names[b])
    # which files are named on the command line: all entries/both/failing, sometimes libs too
    built = [nm for nm in names if files[nm]["kind"] != "lib" or rng.random() < 0.3]
    if len(built) < 2:
        built = names[:]
    if rng.random() < 0.1:
        built.append(rng.choice(built))        # the same file named twice
    return files, built


def snapshot(d):
    """all non-source files under d -> bytes"""
    res = {}
    for root, _, fs in os.walk(d):
        for f in fs:
            if f.endswith(".ucg"):
                continue
            p = os.path.join(root, f)
            res[os.path.relpath(p, d)] = open(p, "rb").read()
    return res


def clean(d):
    for root, _, fs in os.walk(d):
        for f in fs:
            if not f.endswith(".ucg"):
                os.unlink(os.path.join(root, f))


def ucg(d, args):
    try:
        # one stream: "Building <file>" (stdout, line buffered) is followed by that file's diagnostics (stderr, unbuffered)
        p = subprocess.run([C.UCG_BIN] + args, cwd=d, env=C.ENV, stdout=subprocess.PIPE, stderr=subprocess.STDOUT, timeout=60)
        o = p.stdout.decode("utf-8", "replace")
        return p.returncode, o, o
    except subprocess.TimeoutExpired:
        return 124, "", "TIMEOUT"


def failed_files(d, err):
    """file -> diagnostic text, for the files of an invocation that printed anything after their "Building <file>" line"""
    res = {}
    cur = None
    for line in err.split("\n"):
        m = re.match(r"^Building (.*)$", line)
        if m:
            cur = os.path.normpath(m.group(1))
            continue
        if line.startswith("TRACE: "):
            continue
        if cur is not None and line.strip() and line.strip() != "Build results in no artifacts.":
            res[cur] = (res.get(cur, "") + "\n" + line).strip()
    return res


def run_project(job):
    d, files, built, perms, tier = job
    os.makedirs(os.path.join(d, "sub"), exist_ok=True)
    for nm, f in files.items():
        open(os.path.join(d, nm), "w").write(f["text"])
    alone = {}
    runs = 0
    obs = []        # what every invocation did, for the comparison with the model

    def observe(args, rc, err):
        ff = failed_files(d, err)
        obs.append({"files": list(args), "rc": rc, "status": [os.path.normpath(a) not in ff for a in args],
                    "evals": re.findall(r'^TRACE: "EVAL:([^"\s]+)" = ', err, re.M),
                    "written": sorted(os.path.splitext(k)[0] + ".ucg" for k in snapshot(d))})
    for nm in sorted(set(built)):
        clean(d)
        rc, out, err = ucg(d, ["build", nm])
        runs += 1
        observe([nm], rc, err)
        alone[nm] = {"ok": rc == 0, "artifacts": snapshot(d), "err": failed_files(d, err).get(os.path.normpath(nm), err.strip())}
        if rc not in (0, 1):
            return {"why": "`ucg build %s` ended with status %d" % (nm, rc), "stderr": err[-600:], "order": [nm]}, runs
    # what a batch must leave behind: the union of what the stand-alone builds of its files leave behind
    def expected(fs):
        res = {}
        for nm in fs:
            for k, v in alone[nm]["artifacts"].items():
                if k in res and res[k] != v:
                    raise RuntimeError("generator: two stand-alone builds disagree on " + k)
                res[k] = v
        return res
    msg_diffs = 0
    for perm in perms:
        clean(d)
        expect_art = expected(perm)
        for rep in (1, 2):
            rc, out, err = ucg(d, ["build"] + list(perm))
            runs += 1
            if rep == 1:
                observe(perm, rc, err)
            if rc not in (0, 1):
                return {"why": "`ucg build %s` ended with status %d" % (" ".join(perm), rc), "stderr": err[-600:], "order": list(perm), "run": rep}, runs
            ff = failed_files(d, err)
            started = set(os.path.normpath(m) for m in re.findall(r"^Building (.*)$", err, re.M))
            for nm in perm:
                if os.path.normpath(nm) not in started:
                    return {"why": "%s was not built at all in the batch" % nm, "order": list(perm), "run": rep, "batch_stderr": err[-800:]}, runs
                okb = os.path.normpath(nm) not in ff
                if okb != alone[nm]["ok"]:
                    return {"why": "%s %s alone but %s in the batch" % (nm, "builds" if alone[nm]["ok"] else "fails",
                                                                        "builds" if okb else "fails"),
                            "order": list(perm), "run": rep, "batch_stderr": err[-800:], "alone_stderr": alone[nm]["err"][-400:]}, runs
                if not okb and ff[os.path.normpath(nm)] != alone[nm]["err"]:
                    msg_diffs += 1
            want_rc = 0 if all(alone[nm]["ok"] for nm in perm) else 1
            if rc != want_rc:
                return {"why": "exit status %d, expected %d" % (rc, want_rc), "order": list(perm), "run": rep, "batch_stderr": err[-600:]}, runs
            got = snapshot(d)
            if got != expect_art:
                diff = sorted(set(got) ^ set(expect_art)) + sorted(k for k in got if k in expect_art and got[k] != expect_art[k])
                k = diff[0]
                return {"why": "artifact %s differs from the stand-alone builds" % k, "order": list(perm), "run": rep,
                        "batch": got.get(k, b"<absent>").decode("utf-8", "replace")[:400],
                        "alone": expect_art.get(k, b"<absent>").decode("utf-8", "replace")[:400], "batch_stderr": err[-400:]}, runs
    # the same batches with the files spelled differently on the command line (./, a redundant sub/../, ../ from a subdirectory,
    # absolute): the spelling of a name must not change what the batch does
    for kind, cwd, sp in (("dot", d, lambda nm: "./" + nm), ("redundant", d, lambda nm: "sub/../" + nm),
                          ("dotdot", os.path.join(d, "sub"), lambda nm: "../" + nm), ("absolute", d, lambda nm: os.path.join(d, nm))):
        for perm in list(perms)[:(2 if tier == "quick" else 6)]:
            clean(d)
            expect_art = expected(perm)
            args = [sp(nm) for nm in perm]
            rc, out, err = ucg(cwd, ["build"] + args)
            runs += 1
            if rc not in (0, 1):
                return {"why": "`ucg build %s` ended with status %d" % (" ".join(args), rc), "stderr": err[-600:], "order": args, "spelling": kind}, runs
            ff = failed_files(cwd, err)
            for nm, a in zip(perm, args):
                okb = os.path.normpath(a) not in ff
                if okb != alone[nm]["ok"]:
                    return {"why": "%s %s alone but %s in the batch when spelled %s" % (nm, "builds" if alone[nm]["ok"] else "fails",
                                                                                       "builds" if okb else "fails", a),
                            "order": args, "spelling": kind, "cwd": os.path.relpath(cwd, d), "batch_stderr": err[-800:]}, runs
            got = snapshot(d)
            if got != expect_art:
                diff = sorted(set(got) ^ set(expect_art)) + sorted(k for k in got if k in expect_art and got[k] != expect_art[k])
                return {"why": "artifact %s differs from the stand-alone builds when the files are spelled %s" % (diff[0], kind),
                        "order": args, "spelling": kind, "batch_stderr": err[-400:]}, runs
    # recursive directory build: every file of the project, in directory order
    clean(d)
    rc, out, err = ucg(d, ["build", "-r", "."])
    runs += 1
    if rc not in (0, 1):
        return {"why": "`ucg build -r .` ended with status %d" % rc, "stderr": err[-600:], "order": ["-r", "."]}, runs
    ff = failed_files(d, err)
    for nm in built:
        if (os.path.normpath(nm) not in ff) != alone[nm]["ok"]:
            return {"why": "%s %s alone but not in `ucg build -r .`" % (nm, "builds" if alone[nm]["ok"] else "fails"),
                    "order": ["-r", "."], "batch_stderr": err[-800:]}, runs
    got = snapshot(d)
    for k, v in expected(built).items():
        if got.get(k) != v:
            return {"why": "artifact %s of `ucg build -r .` differs from the stand-alone build" % k, "order": ["-r", "."],
                    "batch": got.get(k, b"<absent>").decode("utf-8", "replace")[:400], "alone": v.decode("utf-8", "replace")[:400]}, runs
    return {"msg_diffs": msg_diffs, "obs": obs}, runs


def run(tier, seed):
    thms = theorem_names()
    ck = C.Check(PID, tier, seed, "proof" if thms else "exploration")
    cov = ck.coverage
    broken = []
    if thms:
        pr = C.prove(ck, ["theories/props/C16_Props.vo"], "props.C16_Props", thms)
        if not pr["ok"]:
            broken.append({"obligations": "C16_Props", "built": pr["built"], "audit": pr["audit"],
                           "assumptions": pr["assumptions"], "log": pr["log_tail"][-1500:]})
    ok, msg = C.cargo_build()
    if not ok:
        raise RuntimeError("cargo build of /repo failed:\n" + msg[-2000:])
    rng = ck.rng
    nproj = 40 if tier == "quick" else 400
    root = os.path.join(C.scratch_root(), "c16-%d" % os.getpid())
    shutil.rmtree(root, ignore_errors=True)
    jobs = []
    kinds = {}
    for pi in range(nproj):
        files, built = gen_project(rng, pi)
        for f in files.values():
            kinds[f["kind"]] = kinds.get(f["kind"], 0) + 1
        if len(built) <= 4:
            perms = sorted(set(itertools.permutations(built)))
        else:
            perms = [tuple(built), tuple(reversed(built))]
            for _ in range(10 if tier == "quick" else 40):
                p = built[:]
                rng.shuffle(p)
                perms.append(tuple(p))
            perms = sorted(set(perms))
        # also every proper sub-batch of two files (a batch is any set of files, not only the full list)
        if len(set(built)) > 2:
            for a, b in itertools.permutations(sorted(set(built)), 2):
                if rng.random() < (0.3 if tier == "quick" else 1.0):
                    perms.append((a, b))
        jobs.append((os.path.join(root, "p%d" % pi), files, built, perms, tier))
    with ThreadPoolExecutor(max_workers=C.NPROC) as ex:
        results = list(ex.map(run_project, jobs))
    real = []
    total_runs = 0
    msg_diffs = 0
    for (d, files, built, perms, _), (res, runs) in zip(jobs, results):
        total_runs += runs
        if "why" in res:
            real.append(dict(res, files={k: v["text"] for k, v in files.items()}, built=built))
        else:
            msg_diffs += res.get("msg_diffs", 0)
    shutil.rmtree(root, ignore_errors=True)
    # ---- the Coq model of one invocation (env/Batch.v, extracted) on the same projects and file lists
    okm, mmsg = C.build_model_runner()
    model_cases = 0
    if not okm:
        broken.append({"extraction": mmsg[-1500:]})
    else:
        lines, meta = [], []
        for (d, files, built, perms, _), (res, runs) in zip(jobs, results):
            if "obs" not in res or any(f["fail"] in ("static", "parse") or f.get("dead_import") for f in files.values()):
                continue
            proj = "(" + " ".join("(%s (%s) %d %d)" % (C.hexs(os.path.join(d, nm)), " ".join(C.hexs(os.path.join(d, i)) for i in f["raw_imports"]),
                                                       f["outs"], 1 if f["fail"] else 0) for nm, f in files.items()) + ")"
            for o in res["obs"]:
                lines.append("(0 %s (%s))" % (proj, " ".join(C.hexs(os.path.join(d, a)) for a in o["files"])))
                meta.append((d, files, o))
        outs = C.model("batch", lines) if lines else []
        model_cases = len(lines)
        import sx
        for (d, files, o), out in zip(meta, outs):
            try:
                t = sx.parse(out)
                m_rc = int(t[0])
                m_status = [x == "ok" for x in t[1]]
                m_evals = [os.path.relpath(C.unhex(x).decode("utf-8"), d) for x in t[2]]
                m_written = sorted(set(os.path.relpath(C.unhex(x).decode("utf-8"), d) for x in t[3]))
            except Exception as e:
                real.append({"why": "model runner: %r on %r" % (e, out[:200]), "order": o["files"], "files": {k: v["text"] for k, v in files.items()}})
                continue
            diffs = []
            if m_rc != o["rc"]:
                diffs.append("exit status %d, model %d" % (o["rc"], m_rc))
            if m_status != o["status"]:
                diffs.append("per-file success %r, model %r (%r)" % (o["status"], m_status, t[1]))
            if m_evals != [os.path.normpath(e) for e in o["evals"]]:
                diffs.append("evaluation sequence %r, model %r" % (o["evals"], m_evals))
            if m_written != [os.path.normpath(w) for w in o["written"]]:
                diffs.append("artifacts written for %r, model %r" % (o["written"], m_written))
            if diffs:
                real.append({"why": "the model of the invocation and the binary disagree: " + "; ".join(diffs), "order": o["files"],
                             "files": {k: v["text"] for k, v in files.items()}, "built": o["files"], "correspondence": "env/Batch.v batch vs ucg build"})
    cov["model_invocations_compared"] = model_cases
    cov["evaluations"] = total_runs
    cov["distinct_nontrivial"] = nproj
    cov["rule"] = ("generated projects of 2..6 files (entry files with out json/yaml/toml/env/flags, shared libraries, files that are both built "
                   "and imported, files failing at parse / type-check / run time, before or after their out statement; imports reachable only statically (in a function never called) of broken or missing files; imports spelled with "
                   "./ and sub/../; sometimes a file named twice); each file built alone in a fresh process; then `ucg build f1 .. fn` in every "
                   "order up to 4 files (random orders beyond), every 2-file sub-batch, each invocation run twice, and `ucg build -r .`; per-file "
                   "success/failure, exit status and every artifact's bytes must equal the stand-alone builds")
    cov["generator_distribution"] = kinds
    cov["diagnostic_text_differences_not_counted"] = msg_diffs
    cov["samples"] = [json.dumps({k: v["text"] for k, v in jobs[0][1].items()})[:1500]]
    cov["traces_validated_against_impl"] = total_runs
    ck.assumptions = ["artifacts are compared per path after the whole invocation; the diagnostic text of a failing file is not part of the property "
                      "(differences are counted in the evidence only)", "files are not modified while the invocation runs"]
    if real:
        r0 = min(real, key=lambda r: len(json.dumps(r, default=str)))
        ck.violation({"kind": "a file builds differently in a batch than alone", "failing": r0, "more": len(real) - 1, "broken": broken})
    elif broken:
        ck.violation({"kind": "proof obligation no longer checks", "broken": broken, "theorems": thms}, nofail=True)
    return ck.finish()


def replay(path):
    r = json.load(open(path))
    f = r.get("failing")
    if not f:
        print(json.dumps(r.get("broken"))[:2000])
        return 1
    C.cargo_build()
    d = os.path.join(C.scratch_root(), "c16-replay")
    shutil.rmtree(d, ignore_errors=True)
    os.makedirs(os.path.join(d, "sub"))
    for nm, t in f["files"].items():
        open(os.path.join(d, nm), "w").write(t)
    print("recorded:", f["why"], "order:", f["order"])
    for nm in f["order"]:
        if nm.endswith(".ucg"):
            clean(d)
            print("alone", nm, ucg(d, ["build", nm]))
    clean(d)
    print("batch", ucg(d, ["build"] + f["order"]))
    print(sorted(snapshot(d)))
    shutil.rmtree(d, ignore_errors=True)
    return 1
