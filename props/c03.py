"""C03 -- JSON, YAML and TOML output decodes back to the value that was output."""
import json
import math
import os
import re

import common as C
import decoders as D
import values as V

PID = "C03"
THEOREMS = ["json_text_roundtrip", "to_json_lossless", "json_output_decodes", "to_json_error_iff", "int_text_value",
            "toml_string_roundtrip", "toml_key_roundtrip", "toml_int_roundtrip", "toml_float_text", "to_toml_error_iff", "toml_output_no_panic",
            "toml_doc_roundtrip", "toml_good_total", "toml_mixed_array_refuted", "toml_nested_table_array_alters",
            "YamlP.to_yaml_error_iff", "YamlP.yaml_output_error_iff", "YamlP.yaml_emit_total", "YamlP.null_bool_quoted", "YamlP.yaml_int_roundtrip",
            "YamlP.yaml_scalar_kinds", "YamlP.yaml_float_nonfinite", "YamlP.yaml_string_roundtrip_ascii", "YamlP.yaml_ident_roundtrip",
            "YamlP.yaml_doc_roundtrip_partial", "YamlP.yaml_doc_roundtrip_list_partial", "YamlP.yaml_number_overflow_refuted",
            "YamlP.yaml_ls_string_refuted"]
CONVS = ["json", "yaml", "toml", "yamlmulti"]


def nonfinite(v):
    return v[0] == "f" and (math.isnan(v[1]) or math.isinf(v[1]))


def must_fail(conv, v):
    """values the target format cannot represent"""
    if V.contains(v, lambda x: x[0] == "c"):
        return True
    if conv == "json":
        return V.contains(v, nonfinite)
    if conv == "toml":
        return v[0] != "t" or V.contains(v, lambda x: x[0] == "e")
    return False


def decode(conv, text):
    if conv == "json":
        return D.json_load(text)
    if conv == "yaml":
        return D.yaml_load(text)
    if conv == "toml":
        return D.toml_load(text)
    if conv == "yamlmulti":
        return D.yaml_load_all(text)


def expected_data(conv, v):
    if conv == "yamlmulti":
        return [V.canon_py(x) for x in v[1]] if v[0] == "l" else [V.canon_py(v)]
    return V.canon_py(v)


def known_json_int(v):
    """KNOWN C03-json-int-beyond-2p53: an integer whose value does not survive i64 -> f64"""
    return V.contains(v, lambda x: x[0] == "i" and abs(x[1]) > (1 << 53) and int(float(x[1])) != x[1])


def yaml_number_like_overflow(s):
    """KNOWN C03-yaml-number-like-string: a STRING that a YAML 1.2 core-schema reader resolves as a number although the writer's own
    number parser (serde_yaml: u64/i64/u128/i128, then f64 accepted only when finite) does not, so that it is left unquoted"""
    try:
        d = D.yaml_load(s)
    except Exception:
        return False
    if isinstance(d, bool) or d is None:
        return False
    if isinstance(d, float):
        return math.isinf(d) and re.fullmatch(r"[-+]?\.(inf|Inf|INF)", s) is None
    if isinstance(d, int):
        return d > (1 << 128) - 1 or d < -(1 << 127)
    return False


def known_yaml_number_string(v):
    def walk(x):
        if x[0] == "s":
            return yaml_number_like_overflow(x[1])
        if x[0] == "l":
            return any(walk(y) for y in x[1])
        if x[0] == "t":
            return any(yaml_number_like_overflow(k) or walk(y) for k, y in x[1])
        return False
    return walk(v)


def has_ls_ps(v):
    def chk(t):
        return "\u2028" in t or "\u2029" in t

    def walk(x):
        if x[0] == "s":
            return chk(x[1])
        if x[0] == "l":
            return any(walk(y) for y in x[1])
        if x[0] == "t":
            return any(chk(k) or walk(y) for k, y in x[1])
        return False
    return walk(v)


def mixed_array(x):
    return x[0] == "l" and any(e[0] == "t" for e in x[1]) and any(e[0] != "t" for e in x[1])


def known_toml_mixed(v, parent_is_list=False):
    """KNOWN C03-toml-mixed-array: a list with a tuple element that is mixed or nested directly in a list"""
    if v[0] == "l":
        has_t = any(e[0] == "t" for e in v[1])
        if has_t and (parent_is_list or any(e[0] != "t" for e in v[1])):
            return True
        return any(known_toml_mixed(e, True) for e in v[1])
    if v[0] == "t":
        return any(known_toml_mixed(e, False) for _, e in v[1])
    return False


def shrink(conv, v, fails):
    """smallest sub-value (by size) that still fails"""
    best = v
    for s in V.subvalues(v):
        if V.size(s) < V.size(best):
            cand = s if conv != "toml" or s[0] == "t" else ("t", [("k", s)])
            if fails(cand):
                best = cand
    return best


SIGNIFICANT = ["1979-05-27", "07:32:00", "1979-05-27T07:32:00Z", "1979-05-27 07:32:00z", "2020-01-01T00:00:00.5+01:00",
               "1979-05-27T07:32:00", "12:30", "190:20:30", "true", "false", "True", "TRUE", "null", "Null", "~", "yes", "no", "on", "off",
               "y", "n", "1", "-1", "+1", "1.5", "1e3", "1E-3", "0x1F", "0o17", "017", "0b11", "1_000", ".inf", "-.inf", ".nan", ".NaN",
               "inf", "-inf", "nan", "", " ", " lead", "trail ", "- a", "-", "a: b", "a:", ": a", "#c", "a #c", "'q'", '"dq"', "---", "...",
               "|", ">", "|-", "[1]", "{a}", "[", "]", "{", "}", ",", "!!str x", "!x", "&a", "*a", "@x", "`x", "%x", "?", "? a", "<<", "=",
               "a\nb", "a\tb", "\\", "a\\nb", "\u00e9", "é", "\x7f",
               # numbers only for a reader: beyond what the writer's own number parser accepts
               "1e999", "-1e999", "1.5e400", "1" + "0" * 310, "0x1" + "0" * 32, "0x" + "f" * 40, "0o" + "7" * 50, "1e308", "1e309", "0x" + "f" * 32,
               # characters that are line breaks for YAML 1.1 tools only
               "a\u2028b", "\u2029x", "k\u2028", "two\u2028\u2028gaps", "nel\u0085x"]


def run(tier, seed):
    ck = C.Check(PID, tier, seed, "proof")
    cov = ck.coverage
    pr = C.prove(ck, ["theories/props/C03_Props.vo"], "props.C03_Props", THEOREMS)
    broken = []
    if not pr["ok"]:
        broken.append({"obligations": "C03_Props", "built": pr["built"], "audit": pr["audit"],
                       "assumptions": pr["assumptions"], "log": pr["log_tail"][-1500:]})
    ok, msg = C.cargo_build()
    if not ok:
        raise RuntimeError("cargo build of /repo failed:\n" + msg[-2000:])
    okm, msg = C.build_model_runner()
    if not okm:
        broken.append({"extraction": msg[-1500:]})
    n = 3000 if tier == "quick" else 40000
    g = V.ValGen(ck.rng, allow_constraint=True)
    vals = []
    for i in range(n):
        d = ck.rng.choice([0, 1, 2, 3, 4, 5])
        v = g.value(d) if ck.rng.random() < 0.6 else g.tuple(max(d, 1))
        vals.append(v)
    # strings that a format would read as something else if written bare (dates, numbers, booleans, nulls, indicators): as a
    # field value, a list element, nested, and as a field name
    for sp in SIGNIFICANT:
        sv = ("s", sp)
        vals.append(("t", [("k", sv)]))
        vals.append(("t", [("l", ("l", [sv, ("s", "x")])), ("n", ("t", [("in", sv)]))]))
        if sp:
            vals.append(("t", [(sp, ("i", 1))]))
    stats = {"depth": {}, "with_float": 0, "with_null": 0, "with_constraint": 0, "nonfinite": 0, "tuple_root": 0}
    for v in vals:
        stats["depth"][str(V.depth(v))] = stats["depth"].get(str(V.depth(v)), 0) + 1
        stats["with_float"] += V.contains(v, lambda x: x[0] == "f")
        stats["with_null"] += V.contains(v, lambda x: x[0] == "e")
        stats["with_constraint"] += V.contains(v, lambda x: x[0] == "c")
        stats["nonfinite"] += V.contains(v, nonfinite)
        stats["tuple_root"] += v[0] == "t"
    real, disagreements = [], []
    outcomes = {c: {"ok": 0, "err": 0} for c in CONVS}

    def impl_convert(conv, vs):
        return C.harness("convert", [{"conv": conv, "val": V.to_wire(v)} for v in vs])

    def check_one(conv, v, r):
        """None if the property holds for this output, else a description"""
        if "panic" in r or "crash" in r:
            return "converter panicked: %r" % (r,)
        want_err = must_fail(conv, v)
        if "err" in r:
            return None if want_err else "unexpected error: %s" % r["err"]
        if want_err:
            return "unrepresentable value was written instead of reported: %r" % (r["ok"],)
        text = r["ok"].get("utf8")
        if text is None:
            return "output is not UTF-8"
        try:
            got = decode(conv, text)
        except Exception as e:  # decoder rejects the text
            return "independent decoder rejects the output: %s" % (str(e)[:200],)
        if not V.same_data(got, expected_data(conv, v)):
            return "decoded data differs"
        return None

    known_seen = 0
    for conv in CONVS:
        res = impl_convert(conv, vals)
        for v, r in zip(vals, res):
            outcomes[conv]["ok" if "ok" in r else "err"] += 1
            why = check_one(conv, v, r)
            if why:
                if conv == "json" and why == "decoded data differs" and known_json_int(v) and ck.is_known("C03-json-int-beyond-2p53"):
                    # is the loss explained by the listed class alone?  replace those ints and re-check
                    def fix(x):
                        if x[0] == "i" and abs(x[1]) > (1 << 53) and int(float(x[1])) != x[1]:
                            return ("i", 0)
                        if x[0] == "l":
                            return ("l", [fix(y) for y in x[1]])
                        if x[0] == "t":
                            return ("t", [(k, fix(y)) for k, y in x[1]])
                        return x
                    v2 = fix(v)
                    r2 = impl_convert(conv, [v2])[0]
                    if check_one(conv, v2, r2) is None:
                        known_seen += 1
                        ck.known_finding("C03-json-int-beyond-2p53",
                                         "out json of an integer beyond 2^53 whose f64 image differs (e.g. 9007199254740993)")
                        continue
                if conv in ("yaml", "yamlmulti") and why == "decoded data differs" and known_yaml_number_string(v) \
                        and ck.is_known("C03-yaml-number-like-string"):
                    # explained by the listed class alone?  make those strings unmistakable strings and re-check
                    def fixs(x):
                        if x[0] == "s" and yaml_number_like_overflow(x[1]):
                            return ("s", "s" + x[1])
                        if x[0] == "l":
                            return ("l", [fixs(y) for y in x[1]])
                        if x[0] == "t":
                            return ("t", [(("s" + k) if yaml_number_like_overflow(k) else k, fixs(y)) for k, y in x[1]])
                        return x
                    v2 = fixs(v)
                    if check_one(conv, v2, impl_convert(conv, [v2])[0]) is None:
                        known_seen += 1
                        ck.known_finding("C03-yaml-number-like-string", "out yaml of a string that reads as a number beyond the writer's own "
                                         "number parser is left unquoted (e.g. \"1e999\" is read back as the float inf)")
                        continue
                if conv == "toml" and known_toml_mixed(v) and ck.is_known("C03-toml-mixed-array") and not must_fail(conv, v):
                    known_seen += 1
                    ck.known_finding("C03-toml-mixed-array", "out toml of a list mixing tuples and other values (e.g. {a = [1, {b = 2}]})")
                    continue
                real.append({"converter": conv, "value": V.to_wire(v), "output": r, "why": why})
        if conv == "json" and okm:
            mres = C.model("json_out", [V.to_sexp(v) for v in vals])
            unsup = 0
            for v, r, m in zip(vals, res, mres):
                if m.startswith("ok "):
                    want = C.unhex(m[3:])
                    got = r.get("ok", {}).get("utf8")
                    if got is None or got.encode("utf-8") != want:
                        disagreements.append({"converter": "json", "value": V.to_wire(v), "impl": r,
                                              "model": want.decode("utf-8", "replace")})
                elif m == "err":
                    if "err" not in r:
                        disagreements.append({"converter": "json", "value": V.to_wire(v), "impl": r, "model": "err"})
                elif m == "unsupported":
                    unsup += 1
                else:
                    disagreements.append({"converter": "json", "value": V.to_wire(v), "impl": r, "model": m})
            cov["json_model_unsupported"] = unsup
        if conv == "toml" and okm:
            # the TOML model (converter + toml-rs pretty serializer re-modelled): same bytes, same success/failure; its reader's verdict
            # on its own output must agree with the independent python decoder's verdict on the real output
            sx = [V.to_sexp(v) for v in vals]
            unsup_hex = C.hexs("UNSUPPORTED")
            keep = [i for i, x in enumerate(sx) if unsup_hex not in x]
            mo = dict(zip(keep, C.model("toml_out", [sx[i] for i in keep])))
            mr = dict(zip(keep, C.model("toml_rt", [sx[i] for i in keep])))
            tstats = {"compared": len(keep), "unsupported_float_text": len(vals) - len(keep), "ok": 0, "err": 0, "model_rt_ok": 0, "model_rt_not": 0}
            for i in keep:
                v, r, m = vals[i], res[i], mo[i]
                if m.startswith("ok "):
                    tstats["ok"] += 1
                    want = C.unhex(m[3:])
                    got = r.get("ok", {}).get("utf8")
                    if got is None or got.encode("utf-8") != want:
                        disagreements.append({"converter": "toml", "value": V.to_wire(v), "impl": r, "model": want.decode("utf-8", "replace")})
                        continue
                    # the model's own reader against the property's oracle (python tomllib on the real bytes)
                    rt_ok = mr[i] == "rt="
                    tstats["model_rt_ok" if rt_ok else "model_rt_not"] += 1
                    oracle_ok = check_one(conv, v, r) is None
                    if rt_ok != oracle_ok:
                        disagreements.append({"converter": "toml", "value": V.to_wire(v), "impl": r, "model_reader": mr[i],
                                              "independent_decoder_agrees_with_value": oracle_ok,
                                              "why": "the model's TOML reader and the independent decoder disagree on whether the output holds the value"})
                elif m.startswith("err "):
                    tstats["err"] += 1
                    if "err" not in r:
                        disagreements.append({"converter": "toml", "value": V.to_wire(v), "impl": r, "model": m})
                else:
                    disagreements.append({"converter": "toml", "value": V.to_wire(v), "impl": r, "model": m})
            cov["toml_model"] = tstats
        if conv == "yaml" and okm:
            # the YAML model (converter + serde_yaml serializer + libyaml emitter re-modelled): same bytes, same success/failure; its strict
            # YAML 1.2 reader against the independent decoder: differences must lie in the listed classes
            sx = [V.to_sexp(v) for v in vals]
            unsup_hex = C.hexs("UNSUPPORTED")
            keep = [i for i, x in enumerate(sx) if unsup_hex not in x]
            mo = dict(zip(keep, C.model("yaml_out", [sx[i] for i in keep])))
            mr = dict(zip(keep, C.model("yaml_rt", [sx[i] for i in keep])))
            ystats = {"compared": len(keep), "unsupported_float_text": len(vals) - len(keep), "ok": 0, "err": 0, "model_rt_ok": 0,
                      "model_rt_not": 0, "ls_ps": 0, "root_block_indicator": 0, "number_like_string": 0}
            for i in keep:
                v, r, m = vals[i], res[i], mo[i]
                if m.startswith("ok "):
                    ystats["ok"] += 1
                    want = C.unhex(m[3:])
                    got = r.get("ok", {}).get("utf8")
                    if got is None or got.encode("utf-8") != want:
                        disagreements.append({"converter": "yaml", "value": V.to_wire(v), "impl": r, "model": want.decode("utf-8", "replace")})
                        continue
                    rt_ok = mr[i] == "rt="
                    ystats["model_rt_ok" if rt_ok else "model_rt_not"] += 1
                    oracle_ok = check_one(conv, v, r) is None
                    if rt_ok == oracle_ok:
                        continue
                    if oracle_ok and has_ls_ps(v):
                        # U+2028 / U+2029 are line breaks for the YAML 1.1 emitter (and for the python decoder), ordinary characters for a
                        # YAML 1.2 reader: the strict reader sees the indentation the emitter adds after them
                        ystats["ls_ps"] += 1
                        if ck.is_known("C03-yaml-ls-ps"):
                            known_seen += 1
                            ck.known_finding("C03-yaml-ls-ps", "out yaml of a string holding U+2028 / U+2029 outside double quotes: a YAML 1.2 "
                                             "reader reads extra spaces after them (the YAML 1.1 based decoder does not)")
                            continue
                    if oracle_ok and v[0] == "s" and "\n" in v[1] and v[1][:1] in (" ", "\n"):
                        ystats["root_block_indicator"] += 1       # `|2-` at the root: the strict reader counts the indicator from -1 (reader strictness)
                        continue
                    disagreements.append({"converter": "yaml", "value": V.to_wire(v), "impl": r, "model_reader": mr[i],
                                          "independent_decoder_agrees_with_value": oracle_ok,
                                          "why": "the model's YAML reader and the independent decoder disagree on whether the output holds the value"})
                elif m.startswith("err "):
                    ystats["err"] += 1
                    if "err" not in r:
                        disagreements.append({"converter": "yaml", "value": V.to_wire(v), "impl": r, "model": m})
                else:
                    disagreements.append({"converter": "yaml", "value": V.to_wire(v), "impl": r, "model": m})
            cov["yaml_model"] = ystats
    cov["evaluations"] = n * len(CONVS)
    cov["distinct_nontrivial"] = len(set(json.dumps(V.to_wire(v), sort_keys=True) for v in vals if V.size(v) > 1))
    cov["rule"] = ("seeded value trees to depth 5 (NULL, bools, ints incl. +-2^53+-1 and i64 extremes, finite and non-finite floats, "
                   "strings over arbitrary Unicode incl. format-significant ones, keys needing quoting, nested empties, constraint "
                   "values), each through json, yaml, toml and yamlmulti; non-trivial = composite value; distinct by structure")
    cov["generator_distribution"] = stats
    cov["outcomes"] = outcomes
    cov["samples"] = [V.to_wire(vals[0]), V.to_wire(vals[1]), V.to_wire(vals[2])]
    cov["traces_validated_against_impl"] = n * len(CONVS)
    cov["disagreements_model_vs_impl"] = len(disagreements)
    cov["known_finding_hits"] = known_seen
    ck.assumptions = [
        "JSON is proved end to end on the model (printer+parser+mapping); the model's bytes are compared with the implementation's",
        "finite floats enter the model as decimal text computed independently by python (positional range only; others are compared after decoding)",
        "TOML is proved end to end on a model that re-implements the third-party serializer (toml-rs 0.5.11 value.rs/ser.rs as reached by to_string_pretty) byte for byte; "
        "the tie is the byte comparison on every value; the model's TOML reader is cross-checked against tomllib",
        "YAML: the writer (converter + serde_yaml 0.9.34 serializer + libyaml emitter) is re-modelled byte for byte (tie: byte comparison on every value); "
        "proved: errors, integers, null/bool, non-finite floats, ASCII single-line strings and keys, flat documents; nested documents, non-ASCII and "
        "multi-line strings are decided by PyYAML (YAML 1.2 core resolvers) on the real output",
    ]
    if real:
        # shrink the first failure to its smallest failing sub-value
        r0 = real[0]
        conv = r0["converter"]
        v0 = V.from_wire(r0["value"])

        def fails(x):
            rr = impl_convert(conv, [x])[0]
            w = check_one(conv, x, rr)
            if w and conv == "json" and known_json_int(x) and ck.is_known("C03-json-int-beyond-2p53"):
                return False
            if w and conv == "toml" and known_toml_mixed(x) and ck.is_known("C03-toml-mixed-array"):
                return False
            return w is not None
        sm = shrink(conv, v0, fails)
        rr = impl_convert(conv, [sm])[0]
        ck.violation({"kind": "output does not decode back to the value / unrepresentable value not reported",
                      "failing": {"converter": conv, "value": V.to_wire(sm), "output": rr, "why": check_one(conv, sm, rr)},
                      "original": r0, "more": len(real) - 1, "broken": broken,
                      "by_converter": {c: len([x for x in real if x["converter"] == c]) for c in CONVS}})
    elif broken or disagreements:
        ck.violation({"kind": "proof obligation or correspondence no longer checks", "broken": broken,
                      "model_disagreements": disagreements[:5], "theorems": THEOREMS}, nofail=True)
    return ck.finish()


def replay(path):
    r = json.load(open(path))
    f = r.get("failing")
    if not f:
        print("no failing input; broken:", json.dumps(r.get("broken"))[:2000])
        return 1
    C.cargo_build()
    out = C.harness("convert", [{"conv": f["converter"], "val": f["value"]}])[0]
    print("converter:", f["converter"])
    print("value:", json.dumps(f["value"], ensure_ascii=False))
    print("output:", json.dumps(out, ensure_ascii=False))
    print("recorded:", f["why"])
    return 1
