"""C15 -- included data files decode to the data they contain."""
import base64
import json
import math
import os
import shutil

import common as C
import decoders as D
import sx
import values as V

PID = "C15"
THEOREMS = ["from_json_spec", "json_reimport", "b64_roundtrip", "b64_decode_strict", "b64_alphabet",
            "b64_variants_differ_only_62_63", "b64_length"]


def py_data(v):
    """python data of a generated value (floats finite only)"""
    return V.canon_py(v)


def toml_dump(d, prefix=""):
    """a small TOML writer for the generated subset (tables, arrays of scalars / inline tables, scalars)"""
    def scalar(x):
        if isinstance(x, bool):
            return "true" if x else "false"
        if isinstance(x, int):
            return str(x)
        if isinstance(x, float):
            if math.isnan(x):
                return "nan"
            if math.isinf(x):
                return "inf" if x > 0 else "-inf"
            r = repr(x)
            return r if ("." in r or "e" in r or "n" in r) else r + ".0"
        if isinstance(x, str):
            return json.dumps(x, ensure_ascii=False).replace("\x7f", "\\u007f")
        if isinstance(x, list):
            return "[" + ", ".join(scalar(y) for y in x) + "]"
        if isinstance(x, dict):
            return "{" + ", ".join("%s = %s" % (key(k), scalar(y)) for k, y in x.items()) + "}"
        raise ValueError(x)

    def key(k):
        return json.dumps(k, ensure_ascii=False).replace("\x7f", "\\u007f")
    lines = []
    tables = []
    for k, v in d.items():
        if isinstance(v, dict):
            tables.append((k, v))
        else:
            lines.append("%s = %s" % (key(k), scalar(v)))
    out = "\n".join(lines) + ("\n" if lines else "")
    for k, v in tables:
        name = prefix + key(k)
        out += "\n[%s]\n" % name + toml_dump(v, name + ".")
    return out


def strip_null(v):
    """TOML has no null: generate values without it"""
    if v[0] == "e":
        return ("s", "nil")
    if v[0] == "l":
        return ("l", [strip_null(x) for x in v[1]])
    if v[0] == "t":
        return ("t", [(k, strip_null(x)) for k, x in v[1]])
    return v


def finite(v):
    if v[0] == "f" and (math.isnan(v[1]) or math.isinf(v[1])):
        return ("f", 1.5)
    if v[0] == "l":
        return ("l", [finite(x) for x in v[1]])
    if v[0] == "t":
        return ("t", [(k, finite(x)) for k, x in v[1]])
    if v[0] == "c":
        return ("i", 1)
    return v


def typed_same(got, want):
    """same data AND integers as integers, other numbers as floats"""
    if isinstance(want, bool) or want is None or isinstance(want, str):
        return got == want and type(got) == type(want)
    if isinstance(want, int):
        return isinstance(got, int) and not isinstance(got, bool) and got == want
    if isinstance(want, float):
        if not isinstance(got, float):
            return False
        return (math.isnan(got) and math.isnan(want)) or got == want
    if isinstance(want, list):
        return isinstance(got, list) and len(got) == len(want) and all(typed_same(a, bb) for a, bb in zip(got, want))
    if isinstance(want, dict):
        return isinstance(got, dict) and set(got) == set(want) and all(typed_same(got[k], want[k]) for k in want)
    return False


def val_to_py(w):
    """harness Val JSON -> python data with int/float distinction kept"""
    import struct
    if w is None:
        return None
    if isinstance(w, bool):
        return w
    if "i" in w:
        return int(w["i"])
    if "f" in w:
        return struct.unpack("<d", struct.pack("<Q", int(w["f"])))[0]
    if "s" in w:
        return w["s"]
    if "l" in w:
        return [val_to_py(x) for x in w["l"]]
    if "t" in w:
        return {k: val_to_py(x) for k, x in w["t"]}
    raise ValueError(w)


def model_val_to_py(x):
    t = x[0]
    if t == "e":
        return None
    if t == "b":
        return x[1] == "1"
    if t == "i":
        return int(x[1])
    if t == "f":
        return float(C.unhex(x[1]).decode())
    if t == "s":
        return C.unhex(x[1]).decode("utf-8", "replace")
    if t == "l":
        return [model_val_to_py(y) for y in x[1:]]
    if t == "t":
        return {C.unhex(y[0]).decode("utf-8", "replace"): model_val_to_py(y[1]) for y in x[1:]}
    raise ValueError(x)


def run(tier, seed):
    ck = C.Check(PID, tier, seed, "proof")
    cov = ck.coverage
    pr = C.prove(ck, ["theories/props/C15_Props.vo"], "props.C15_Props", THEOREMS)
    broken = []
    if not pr["ok"]:
        broken.append({"obligations": "C15_Props", "built": pr["built"], "audit": pr["audit"],
                       "assumptions": pr["assumptions"], "log": pr["log_tail"][-1500:]})
    ok, msg = C.cargo_build()
    if not ok:
        raise RuntimeError("cargo build of /repo failed:\n" + msg[-2000:])
    okm, msg = C.build_model_runner()
    if not okm:
        broken.append({"extraction": msg[-1500:]})
    rng = ck.rng
    n = 1500 if tier == "quick" else 20000
    g = V.ValGen(rng, keys=[k for k in V.KEY_POOL], allow_constraint=False)
    real, disagreements = [], []
    stats = {"json": 0, "yaml": 0, "toml": 0, "b64": 0, "malformed": 0}
    # ---------------- JSON ----------------
    vals = [finite(g.value(rng.choice([0, 1, 2, 3, 4]))) for _ in range(n)]
    docs = []
    for v in vals:
        d = py_data(v)
        text = json.dumps(d, ensure_ascii=rng.random() < 0.3, indent=rng.choice([None, 1, 2]),
                          separators=rng.choice([None, (",", ":")]))
        docs.append((d, text))
    # integer / float literal forms written by hand
    # (`-0` and integers outside i64 are left out: decoders legitimately differ there -- python keeps big integers, ucg has i64
    #  only and reads them as floats, which the Coq theorem from_json_int_iff states precisely)
    for lit in ["0", "1", "-1", "9223372036854775807", "-9223372036854775808", "1.0", "1e2", "1E2", "1.5e-3", "0.1", "-0.0", "2e0",
                "4611686018427387904", "-4611686018427387905", "123456789012345678"]:
        docs.append(([json.loads(lit)], "[" + lit + "]"))
    imp = C.harness("import", [{"imp": "json", "hex": t.encode("utf-8").hex()} for _, t in docs])
    mres = C.model("json_in", [C.hexs(t) for _, t in docs]) if okm else [None] * len(docs)
    for (d, text), r, m in zip(docs, imp, mres):
        stats["json"] += 1
        if "ok" not in r:
            real.append({"type": "json", "file": text, "why": "well-formed document rejected: %s" % r.get("err")})
            continue
        got = val_to_py(r["ok"])
        if not typed_same(got, d):
            real.append({"type": "json", "file": text, "why": "decoded value differs from python's json decoder", "got": repr(got)[:300],
                         "want": repr(d)[:300]})
        if m is not None:
            if not m.startswith("ok "):
                disagreements.append({"type": "json", "file": text, "model": m, "impl": r})
            else:
                mv = model_val_to_py(sx.parse(m[3:]))
                if not typed_same(got, mv):
                    disagreements.append({"type": "json", "file": text, "model": repr(mv)[:300], "impl": repr(got)[:300]})
    # ---------------- YAML ----------------
    import yaml
    ydocs = []
    for v in vals[:n // 2]:
        d = py_data(v)
        text = yaml.safe_dump(d, default_flow_style=rng.choice([True, False, None]), allow_unicode=rng.random() < 0.7, width=1000)
        # restrict to constructs on which decoders agree: re-read with the 1.2 core loader must give the same data
        try:
            if not typed_same(D.yaml_load(text), d):
                continue
        except Exception:
            continue
        ydocs.append((d, text))
    yimp = C.harness("import", [{"imp": "yaml", "hex": t.encode("utf-8").hex()} for _, t in ydocs])
    for (d, text), r in zip(ydocs, yimp):
        stats["yaml"] += 1
        if "ok" not in r:
            real.append({"type": "yaml", "file": text, "why": "well-formed document rejected: %s" % r.get("err")})
            continue
        got = val_to_py(r["ok"])
        if not typed_same(got, d):
            real.append({"type": "yaml", "file": text, "why": "decoded value differs from the independent YAML decoder",
                         "got": repr(got)[:300], "want": repr(d)[:300]})
    # ---------------- TOML ----------------
    tdocs = []
    for v in vals[:n // 2]:
        v = strip_null(v)
        if v[0] != "t":
            v = ("t", [("k", v)])
        d = py_data(v)
        try:
            text = toml_dump(d)
            if not typed_same(D.toml_load(text), d):
                continue
        except Exception:
            continue
        tdocs.append((d, text))
    timp = C.harness("import", [{"imp": "toml", "hex": t.encode("utf-8").hex()} for _, t in tdocs])
    for (d, text), r in zip(tdocs, timp):
        stats["toml"] += 1
        if "ok" not in r:
            real.append({"type": "toml", "file": text, "why": "well-formed document rejected: %s" % r.get("err")})
            continue
        got = val_to_py(r["ok"])
        if not typed_same(got, d):
            real.append({"type": "toml", "file": text, "why": "decoded value differs from tomllib", "got": repr(got)[:300],
                         "want": repr(d)[:300]})
    # ---------------- base64 (arbitrary bytes) ----------------
    blobs = [b"", b"f", b"fo", b"foo", bytes(range(256)), b"\xff\xfe\xfd\xfc\xfb\xfa"]
    for _ in range(n // 3):
        blobs.append(bytes(rng.randint(0, 255) for _ in range(rng.randint(0, 80))))
    # sizes around buffer/block boundaries (the encoding must not depend on how the input is chunked)
    for size in [255, 256, 257, 511, 512, 513, 767, 768, 1023, 1024, 1025, 1535, 1536, 2047, 2048, 2049, 3000, 4095, 4096, 4097, 5000,
                 8191, 8192, 8193, 10000, 16385, 65537]:
        blobs.append(bytes(rng.randint(0, 255) for _ in range(size)))
    for url in (False, True):
        name = "b64urlsafe" if url else "b64"
        bimp = C.harness("import", [{"imp": name, "hex": bb.hex()} for bb in blobs])
        bm = C.model("b64", ["(%d x%s)" % (1 if url else 0, bb.hex()) for bb in blobs]) if okm else [None] * len(blobs)
        for bb, r, m in zip(blobs, bimp, bm):
            stats["b64"] += 1
            want = (base64.urlsafe_b64encode if url else base64.b64encode)(bb).decode()
            got = r.get("ok", {}).get("s") if isinstance(r.get("ok"), dict) else None
            if got != want:
                real.append({"type": name, "file_hex": bb.hex(), "why": "not the %s base64 encoding" % ("URL-safe" if url else "standard"),
                             "got": got, "want": want})
            if m is not None and C.unhex(m).decode() != (got or ""):
                disagreements.append({"type": name, "file_hex": bb.hex(), "model": C.unhex(m).decode(), "impl": got})
    # ---------------- through the language: include in a built file, malformed input, unknown types ----------------
    root = os.path.join(C.scratch_root(), "c15-%d" % os.getpid())
    shutil.rmtree(root, ignore_errors=True)
    os.makedirs(root)
    jobs, meta = [], []

    def case(name, files, src, expect):
        d = os.path.join(root, name)
        os.makedirs(d)
        for fn, content in files.items():
            open(os.path.join(d, fn), "wb").write(content if isinstance(content, bytes) else content.encode("utf-8"))
        open(os.path.join(d, "main.ucg"), "w").write(src)
        jobs.append(([C.UCG_BIN, "build", "main.ucg"], d, None))
        meta.append((name, d, src, files, expect))
    k = 0
    for (d0, text) in docs[:40]:
        if isinstance(d0, dict) or isinstance(d0, list):
            case("j%d" % k, {"data.json": text}, 'let v = include json "./data.json";\nout yaml {v = v};\n', ("yaml", {"v": d0}))
            k += 1
    for (d0, text) in ydocs[:25]:
        case("y%d" % k, {"data.yaml": text}, 'let v = include yaml "./data.yaml";\nout yaml {v = v};\n', ("yaml", {"v": d0}))
        k += 1
    for (d0, text) in tdocs[:25]:
        case("t%d" % k, {"data.toml": text}, 'let v = include toml "./data.toml";\nout yaml {v = v};\n', ("yaml", {"v": d0}))
        k += 1
    for s in ["", "plain text\n", "é 日本 \U0001F600\n", "line1\nline2", "tab\there \"q\" \\ back"]:
        case("s%d" % k, {"data.txt": s}, 'let v = include str "./data.txt";\nout json {v = v};\n', ("json", {"v": s}))
        k += 1
    for bb in blobs[:12]:
        case("b%d" % k, {"data.bin": bb}, 'let v = include b64 "./data.bin";\nlet u = include b64urlsafe "./data.bin";\nout json {v = v, u = u};\n',
             ("json", {"v": base64.b64encode(bb).decode(), "u": base64.urlsafe_b64encode(bb).decode()}))
        k += 1
    # malformed / truncated / corrupted input and unknown types are build errors
    bad = [("json", '{"a": 1'), ("json", '{"a": }'), ("json", "[1, 2,]"), ("json", '{"a": 1} x'), ("json", ""), ("json", "nul"),
           ("yaml", "a: [1, 2"), ("yaml", "a: b: c: d"), ("yaml", "- a\n b: 1\n  - c"), ("yaml", "\t- x: {"),
           ("toml", "a = "), ("toml", "a = 1\na = 2"), ("toml", "[t\nx = 1"), ("toml", "a = [1, "), ("toml", "= 1")]
    # files that are not UTF-8 text are malformed for every text-based type (the string would not be the file's text)
    for raw in [b"caf\xe9 ol\xe9\n", b"\xff\xfe", b"ab\xe2\x82", b"\xc0\xaf", b"\xed\xa0\x80", b"ok \xf0\x9f\x98", b"\x80"]:
        bad.append(("str", raw))
        bad.append(("json", b'{"a": "' + raw.replace(b"\n", b"") + b'"}'))
        bad.append(("yaml", b'a: "' + raw.replace(b"\n", b"") + b'"\n'))
        bad.append(("toml", b'a = "' + raw.replace(b"\n", b"") + b'"\n'))
    for (d0, text) in docs[:20]:
        if len(text) > 6 and isinstance(d0, (dict, list)) and d0:
            cut = text[:rng.randint(1, len(text) - 1)]
            try:
                json.loads(cut)
            except ValueError:
                bad.append(("json", cut))
    for ty, text in bad:
        case("m%d" % k, {"data.x": text}, 'let v = include %s "./data.x";\nout json {v = v};\n' % ty, ("error", None))
        k += 1
        stats["malformed"] += 1
    for ty in ["xml", "nosuch", "jsonx", "JSON", "env"]:
        case("u%d" % k, {"data.x": "{}"}, 'let v = include %s "./data.x";\nout json {v = v};\n' % ty, ("error", None))
        k += 1
    results = C.run_many(jobs)
    for (name, d, src, files, expect), (rc, out, err) in zip(meta, results):
        kind, want = expect
        if kind == "error":
            if rc == 0:
                real.append({"type": "include", "source": src, "files": {k2: (v2 if isinstance(v2, str) else v2.hex()) for k2, v2 in files.items()},
                             "why": "malformed input or unknown include type did not fail the build"})
            continue
        if rc != 0:
            real.append({"type": "include", "source": src, "files": {k2: (v2 if isinstance(v2, str) else v2.hex()) for k2, v2 in files.items()},
                         "why": "build failed: " + err[-300:]})
            continue
        art = os.path.join(d, "main." + kind)
        text = open(art, encoding="utf-8").read()
        got = D.yaml_load(text) if kind == "yaml" else D.json_load(text)
        okk = typed_same(got, want) if kind == "yaml" else V.same_data(got, want)
        if not okk:
            real.append({"type": "include", "source": src, "files": {k2: (v2 if isinstance(v2, str) else v2.hex()) for k2, v2 in files.items()},
                         "why": "the included value differs from the file's data", "got": repr(got)[:300], "want": repr(want)[:300]})
    shutil.rmtree(root, ignore_errors=True)
    cov["evaluations"] = len(docs) + len(ydocs) + len(tdocs) + 2 * len(blobs) + len(jobs)
    cov["distinct_nontrivial"] = len(set(t for _, t in docs)) + len(set(t for _, t in ydocs)) + len(set(t for _, t in tdocs)) + len(set(blobs))
    cov["rule"] = ("documents written independently of ucg (python json.dumps with random formatting + hand-written number forms; yaml.safe_dump; "
                   "a small TOML writer) restricted to constructs on which the independent decoders agree; arbitrary bytes for b64; decoded "
                   "through the ImporterRegistry and, for a sample, through `include` in a built file rendered with out yaml (keeps the "
                   "int/float distinction); truncated/corrupted documents and unknown include types must fail the build")
    cov["generator_distribution"] = stats
    cov["samples"] = [docs[0][1][:200], (ydocs[0][1][:200] if ydocs else ""), (tdocs[0][1][:200] if tdocs else "")]
    cov["traces_validated_against_impl"] = cov["evaluations"]
    cov["disagreements_model_vs_impl"] = len(disagreements)
    ck.assumptions = [
        "serde_json / serde_yaml / toml decoders and the base64 crate are third party; JSON and base64 are modelled and proved, YAML/TOML are "
        "compared with PyYAML (1.2 core resolvers) and tomllib only",
        "floats are compared numerically; the model carries float literals as text",
    ]
    if real:
        r0 = min(real, key=lambda r: len(json.dumps(r)))
        ck.violation({"kind": "an included file does not decode to the data it contains", "failing": r0, "more": len(real) - 1,
                      "by_type": {t: len([r for r in real if r["type"] == t]) for t in set(r["type"] for r in real)}, "broken": broken})
    elif broken or disagreements:
        ck.violation({"kind": "proof obligation or correspondence no longer checks", "broken": broken,
                      "model_disagreements": disagreements[:5], "theorems": THEOREMS}, nofail=True)
    return ck.finish()


def replay(path):
    r = json.load(open(path))
    print(json.dumps(r.get("failing"), indent=1, ensure_ascii=False)[:3000])
    return 1
