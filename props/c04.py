"""C04 -- no input makes the compiler crash or hang (crash stream + totality theorems)."""
import glob
import json
import os
import re

import common as C
import programs as P

PID = "C04"
THEOREMS = ["climb_total", "arith_in_range", "range_elements_in_range", "translate_no_bug", "lex_total"]
STAGES = ["tokenize", "parse", "check", "translate", "eval", "fmt"]

TOKEN_RE = re.compile(r'"(?:\\.|[^"\\])*"|//[^\n]*|[A-Za-z_][A-Za-z0-9_-]*|\d+|==|=>|>=|<=|!=|!~|&&|\|\||%%|::|\.\.|\s+|.', re.S)


def tokens_of(text):
    return TOKEN_RE.findall(text)


def mutate(rng, toks, vocab):
    toks = list(toks)
    real = [i for i, t in enumerate(toks) if not t.isspace()]
    if not real:
        return "".join(toks)
    for _ in range(rng.choice([1, 1, 1, 2, 3])):
        i = rng.choice(real)
        k = rng.random()
        if k < 0.25:
            toks[i] = ""
        elif k < 0.45:
            toks[i] = toks[i] + " " + toks[i]
        elif k < 0.65:
            j = rng.choice(real)
            toks[i], toks[j] = toks[j], toks[i]
        else:
            toks[i] = rng.choice(vocab)
    return "".join(toks)


VOCAB = ["let", "=", ";", "(", ")", "{", "}", "[", "]", ",", ".", "+", "-", "*", "/", "%%", "%", "==", "!=", ">=", "<=", "<", ">",
         "&&", "||", "~", "!~", "in", "is", "not", "func", "=>", "select", "module", "map", "filter", "reduce", "import", "include",
         "fail", "TRACE", "assert", "out", "convert", "constraint", "::", "..", ":", "|", "NULL", "true", "false", "self", "env", "mod",
         "1", "0", "9223372036854775807", "1.5", '"s"', '"@"', '"@{item}"', '""', "x", "int", "str", "float", "bool", "json", "//c\n", "\n"]

EDGE = [
    "let x = 1 / 0;", "let x = 1 %% 0;", "let x = 9223372036854775807 + 1;", "let x = (0 - 9223372036854775807 - 1) / (0 - 1);",
    "let x = (0 - 9223372036854775807 - 1) %% (0 - 1);", "let x = 9223372036854775807 * 2;", "let x = 0 - 9223372036854775807 - 2;",
    'let x = "" % (1);', 'let x = "@ @" % (1);', 'let x = "@" % (1, 2);', 'let x = "" % 1;', 'let x = "@{" % 1;', 'let x = "@{item" % 1;',
    'let x = "@{}" % 1;', 'let x = "@{1 +}" % 1;',
    "let x = int([1]);", "let x = int({a=1});", "let x = float(NULL);", "let x = bool(func() => 1);", 'let x = int("9223372036854775808");',
    "let x = 9223372036854775806:9223372036854775807;", "let x = 1:0:5;", "let x = 5:(0-1):1;",
    "let x = map(func(a, b) => a, [1]);", "let x = reduce(func(a) => a, 0, [1]);", "let x = filter(func() => true, [1]);",
    "let x = map(func(a) => a, {k=1});", "let x = reduce(func(a, b, c, d) => a, 0, {k=1});",
    "let f = func(a) => a; let x = f();", "let f = func() => 1; let x = f(1, 2);", "let x = 1(2);", "let x = {a=1}.b.c;", "let x = [1].5;",
    "let x = [1].(0 - 1);", "let x = select (1) => {a = 1};", "let x = select (NULL, 2) => {a = 1};", "let x = not 1;", "let x = fail 1;",
    "let x = fail fail \"a\";", "let x = {a=1}{a=\"s\"};", "let x = 1{a=2};", "let x = self;", "let x = self.a;", "let x = {a = self};",
    "let m = module{a=1} => { let b = mod.a; }; let x = m{a=\"s\"};", "let m = module{} => (fail \"x\") {}; let x = m{};",
    "let m = module{a=1} => (mod) {}; let x = m{}.this;", "let x = (func(a) => a)(1);", "let x = {a = 1, a = \"s\"};",
    "let x = 1 is 2;", "let x = 1 in 2;", "let x = \"a\" ~ \"(\";", "let x = 1 ~ \"a\";", "let x = [1] == 1;", "let x = {a=1} == [1];",
    "let x = (func() => 1) == (func() => 1);", "let x = TRACE TRACE 1;", "let x = convert nosuch 1;", "let x = convert json (func() => 1);",
    "let x = include nosuch \"f\";", "let x = import \"/nonexistent.ucg\";", "let x = include str \"/nonexistent\";",
    "out json 1; out json 2;", "assert 1;", "assert {ok = 1};", "let env = 1;", "let x = env;", "let x = env.NOPE_NOT_SET;",
    "constraint a = 1 | a; let v :: a = 2;", "constraint a = a; let v :: a = 2;", "let x :: in 1..5 = 9;", "let x :: in 5..1 = 3;",
    "constraint c = in ..; let x :: c = 1;", "let f = func(a :: 1) => a; let y = f(\"s\");", "let x :: {a = 1} = {a = \"s\"};",
    "let x = \"\\", "let x = \"abc", "let x = 1.;", "let x = .5;", "let x = 1..2;", "let x = 1.2.3;", "let", ";", "}", "let x = {;", "let x = [1,;",
    "let x = ((((((((((1))))))))));", "let x = [[[[[[[[[[1]]]]]]]]]];", "let x = " + "(" * 40 + "1" + ")" * 40 + ";",
    "let x = " + "[" * 60 + "]" * 60 + ";", "let x = " + "{a=" * 50 + "1" + "}" * 50 + ";",
    "\ufeff let x = 1;", "let x\u00a0= 1;", "let x = \"\u0000\";", "let é = 1;", "let x = 1 // c", "//", "/", "let x = 1 /", "let x = 1 % 2;",
]


UNI = ["\u00e9", "\u20ac", "\u65e5\u672c", "\U0001F600", "e\u0301", "\u2028", "\u00df\u20ac\U0001F600x", "\u00a0", "\ufeff"]
UNI_TEMPLATES = [
    'let x = "\u00a7@{item.a}" % {a = 1};', 'let x = "a @{item.a} \u00a7 @{item.a}" % {a = 1};', 'let x = "@{item.a + \\"\u00a7\\"}" % {a = "s"};',
    'let x = "@{\u00a7}" % 1;', 'let x = "@{item}\u00a7" % 1;', 'let x = "\u00a7@{" % 1;', 'let x = "\u00a7@{item" % 1;', 'let x = "\u00a7 @ \u00a7" % (1);',
    'let x = "\u00a7@" % ("\u00a7");', 'let x = "\u00a7 @ @" % (1);', 'let x = {"\u00a7" = 1}."\u00a7";', 'let x = select ("\u00a7") => {"\u00a7" = 1};',
    'let x = select ("\u00a7") => {a = 1};', 'let x = "\u00a7" ~ "\u00a7";', 'let x = "a" ~ "[\u00a7";', 'let x = "a\u00a7b" in {"a\u00a7b" = 1};',
    '// \u00a7 comment\nlet x = 1; // \u00a7', 'let x = fail "\u00a7 @{item}" % 1;', 'assert {ok = false, desc = "\u00a7"};',
    'out json {"\u00a7" = "\u00a7"};', 'let x = "\u00a7\\n@{item}" % 1;', 'let x = int("\u00a7");', 'let x = "\u00a7" + "\u00a7"; let y = x.0;',
    'let x = include str "\u00a7";', 'let x = import "\u00a7.ucg";', 'let x = convert json "\u00a7";', 'let x = TRACE "\u00a7";',
    'let f = func (a) => "\u00a7@{a}" % 1; let y = f(1);', 'let m = module {a = "\u00a7"} => (r) { let r = "@{mod.a}\u00a7" % 1; }; let y = m{};',
    'let x = map(func (c) => c + "\u00a7", "a\u00a7b");', 'let x = reduce(func (a, c) => a + c, "", "\u00a7\u00a7");', 'let x = "\u00a7".1;',
    'let x = "\u00a7@{item.\u00a7}" % {a = 1};', 'let \u00a7 = 1;', 'let x = 1 \u00a7 2;', 'let x = "\u00a7', 'let x = {a\u00a7 = 1};',
]


COMMENT_TEMPLATES = [
    "let l = map(func (x) => x + 1,\n  // the list\n  [1, 2, 3]);\n", "let l = filter(func (x) => x > 1,\n  // the list\n  [1, 2, 3]);\n",
    "let l = reduce(func (a, x) => a + x,\n  // start\n  0,\n  [1, 2, 3]);\n", "let l = reduce(func (a, x) => a + x, 0,\n  // the list\n  [1, 2, 3]);\n",
    "let l = map(\n  // f\n  func (x) => x,\n  // l\n  [1]);\n", "let l = [1,\n  // two\n  2];\n", "let t = {a = 1,\n  // b\n  b = 2};\n",
    "let f = func (a,\n  // b\n  b) => a;\n", "let c = f(1,\n  // two\n  2);\n", "let s = select (\"a\",\n  // d\n  1) => {\n  // arm\n  a = 1,\n};\n",
    "let m = module {\n  // p\n  p = 1,\n} => (\n  // out\n  r) {\n  // body\n  let r = 1;\n};\n", "let c = t{\n  // o\n  a = 2};\n",
    "let x = (\n  // in parens\n  1 + 2);\n", "let x = 1 +\n  // rhs\n  2;\n", "let s = \"@ @\" % (1,\n  // two\n  2);\n",
    "let r = 0:\n  // step\n  2:10;\n", "let n = not\n  // c\n  true;\n", "let k = filter(func (x) => map(func (y) => y,\n // inner\n [x]),\n // outer\n [1]);\n",
    "assert {\n  // c\n  ok = true, desc = \"d\"};\n", "out json\n  // c\n  {a = 1};\n", "let i = import\n  // c\n  \"std/lists.ucg\";\n",
]


def interesting(rs):
    """the stage outcomes that break the property"""
    bad = []
    if "crash" in rs or "panic" in rs:
        return [("process", rs)]
    for st in STAGES:
        r = rs.get(st, {})
        if "panic" in r:
            bad.append((st, r["panic"]))
    return bad


def excluded(text):
    """outside the property's quantifier: nesting deeper than 64, module self-recursion, huge ranges"""
    depth = mx = 0
    for ch in text:
        if ch in "([{":
            depth += 1
            mx = max(mx, depth)
        elif ch in ")]}":
            depth -= 1
    if mx > 64:
        return True
    if re.search(r"\bthis\b|\bpkg\b", text):
        return True
    for m in re.finditer(r"\d{7,}", text):
        # a large number next to a range colon may be a range longer than 10^6
        a, z = max(0, m.start() - 12), min(len(text), m.end() + 12)
        if ":" in text[a:z]:
            return True
    return False


def nest_depth(text):
    depth = mx = 0
    for ch in text:
        if ch in "([{":
            depth += 1
            mx = max(mx, depth)
        elif ch in ")]}":
            depth = max(0, depth - 1)
    return mx


def known_class(ck, stage, msg, text):
    """-> finding id if this panic is a listed known finding"""
    for k in ck.known:
        pat = k.get("match", {})
        if pat.get("stage") in (None, stage) and pat.get("panic_regex") and re.search(pat["panic_regex"], str(msg)) \
                and (not pat.get("input_regex") or re.search(pat["input_regex"], text)):
            return k["id"]
    return None


def run(tier, seed):
    ck = C.Check(PID, tier, seed, "exploration")
    cov = ck.coverage
    pr = C.prove(ck, ["theories/props/C04_Props.vo"], "props.C04_Props", THEOREMS)
    broken = []
    if not pr["ok"]:
        broken.append({"obligations": "C04_Props", "built": pr["built"], "audit": pr["audit"],
                       "assumptions": pr["assumptions"], "log": pr["log_tail"][-1500:]})
    ok, msg = C.cargo_build()
    if not ok:
        raise RuntimeError("cargo build of /repo failed:\n" + msg[-2000:])
    rng = ck.rng
    inputs = []
    kinds = {}

    def add(kind, text):
        if len(text.encode("utf-8", "replace")) > 4096 or excluded(text):
            kinds["excluded"] = kinds.get("excluded", 0) + 1
            return
        inputs.append((kind, text))
        kinds[kind] = kinds.get(kind, 0) + 1
    for t in EDGE:
        add("edge", t)
    # arithmetic on i64 extremes: every operator and ranges over a pool of extreme operands (all combinations)
    ext = [0, 1, 2, -1, 9223372036854775807, 9223372036854775806, -9223372036854775807, -9223372036854775808, 4611686018427387904]

    def lit(n):
        if n >= 0:
            return str(n)
        if n == -9223372036854775808:
            return "(0 - 9223372036854775807 - 1)"
        return "(0 - %d)" % (-n)
    for a in ext:
        for bb in ext:
            for o in ["+", "-", "*", "/", "%%"]:
                add("arith_extremes", "let x = %s %s %s;" % (lit(a), o, lit(bb)))
            for st in [None, 1, 2, 9223372036854775807, 4611686018427387904, 0, -1]:
                step = 1 if st is None else st
                n_el = 0 if (bb < a or step <= 0) else (bb - a) // step + 1
                if n_el > 1000000:
                    continue
                # length computed exactly above, so the textual "huge range" heuristic of excluded() is bypassed
                inputs.append(("range_extremes", "let x = %s:%s%s;" % (lit(a), "" if st is None else lit(st) + ":", lit(bb))))
                kinds["range_extremes"] = kinds.get("range_extremes", 0) + 1
    # non-ASCII text at every place a string, comment or name is re-read by a second scanner (format templates, @{...}
    # expressions, quoted field names, select keys, regular expressions, paths)
    for u in UNI:
        for t in UNI_TEMPLATES:
            add("unicode_literals", t.replace("\u00a7", u))
    # comments at every argument / element boundary (the formatter re-attaches them): fixed shapes, then generated programs with a
    # comment line after random commas and opening brackets
    for t in COMMENT_TEMPLATES:
        add("comments_in_expressions", t)
    for _ in range(300 if tier == "quick" else 4000):
        toks = tokens_of(P.prog_text(P.gen_program(rng, rng.randint(1, 4), max_depth=rng.randint(2, 4), p_bad=0.0)[0]))
        out = []
        for tk in toks:
            out.append(tk)
            if tk in (",", "(", "[", "{", "=>") and rng.random() < 0.3:
                out.append(" // c%d\n" % rng.randint(0, 9))
        add("comments_in_expressions", "".join(out))
    corpus_dir = os.path.join(C.VERIF, "corpus", PID)
    for f in sorted(glob.glob(os.path.join(corpus_dir, "*.ucg"))):
        add("corpus", open(f, encoding="utf-8", errors="replace").read())
    # shipped .ucg files and the fuzz corpus, as they are and token-mutated
    shipped = []
    for pat in ("std/**/*.ucg", "integration_tests/**/*.ucg", "examples/**/*.ucg", "example_errors/**/*.ucg", "fuzz/corpus/**/*"):
        for f in glob.glob(os.path.join(C.REPO, pat), recursive=True):
            if os.path.isfile(f):
                try:
                    shipped.append(open(f, encoding="utf-8").read())
                except (UnicodeDecodeError, OSError):
                    pass
    for t in shipped:
        add("shipped", t)
    nmut = 1500 if tier == "quick" else 30000
    for _ in range(nmut):
        if shipped and rng.random() < 0.4:
            base = rng.choice(shipped)
        else:
            base = P.prog_text(P.gen_program(rng, rng.randint(1, 6), max_depth=rng.randint(2, 5), p_bad=0.05)[0])
        toks = tokens_of(base)
        if len(toks) > 400:
            s = rng.randint(0, len(toks) - 400)
            toks = toks[s:s + 400]
        add("mutated", mutate(rng, toks, VOCAB))
    nrand = 500 if tier == "quick" else 10000
    for _ in range(nrand):
        n = rng.randint(0, 200 if rng.random() < 0.9 else 3000)
        k = rng.random()
        if k < 0.5:
            s = "".join(rng.choice(VOCAB + [" ", " ", "\n"]) + rng.choice(["", " "]) for _ in range(n // 3))
        elif k < 0.8:
            s = "".join(chr(rng.choice([rng.randint(32, 126), rng.randint(0xA0, 0x2FF), 10, 9, 34, 92, 64, 0x85, 0x2028, 0x1F600]))
                        for _ in range(n))
        else:
            s = bytes(rng.randint(0, 255) for _ in range(n)).decode("utf-8", "replace")
        add("random", s)
    # valid generated programs (arithmetic edge pools are part of the generator)
    for _ in range(800 if tier == "quick" else 10000):
        add("generated", P.prog_text(P.gen_program(rng, rng.randint(1, 8), max_depth=rng.randint(2, 6), p_bad=0.08)[0]))
    # deeply nested inputs are slow to parse (known finding C04-exponential-nesting): run them one by one under a short limit
    deep = [(k, t) for k, t in inputs if nest_depth(t) >= 8]
    inputs = [(k, t) for k, t in inputs if nest_depth(t) < 8]
    res = C.harness("stages", [t for _, t in inputs], timeout=600)
    real = []
    known_hits = 0
    deep_jobs = [([C.HARNESS, "stages"], None, None)] * 0
    import subprocess
    from concurrent.futures import ThreadPoolExecutor

    def run_deep(item):
        kind, text = item
        try:
            p = subprocess.run([C.HARNESS, "stages"], input=(json.dumps(text) + "\n").encode(), capture_output=True, timeout=8, env=C.ENV)
            out = p.stdout.decode("utf-8", "replace").strip()
            return json.loads(out) if out and p.returncode == 0 else {"crash": p.returncode}
        except subprocess.TimeoutExpired:
            return {"timeout": True}
    with ThreadPoolExecutor(max_workers=C.NPROC) as ex:
        deep_res = list(ex.map(run_deep, deep[:200]))
    kinds["deep_nesting"] = len(deep[:200])
    for (kind, text), rs in zip(deep[:200], deep_res):
        if rs.get("timeout"):
            if ck.is_known("C04-exponential-nesting"):
                known_hits += 1
                ck.known_finding("C04-exponential-nesting", "parsing an input nested %d levels deep exceeds the time limit" % nest_depth(text))
            else:
                real.append({"kind": kind, "stage": "process", "panic": "timeout (8 s)", "source": text})
        else:
            inputs.append((kind, text))
            res.append(rs)
    stage_stats = {st: {"ok": 0, "err": 0, "panic": 0} for st in STAGES}
    for (kind, text), rs in zip(inputs, res):
        for st in STAGES:
            r = rs.get(st, {}) if isinstance(rs, dict) else {}
            for key in ("ok", "err", "panic"):
                if key in r:
                    stage_stats[st][key] += 1
        for st, m in interesting(rs):
            kid = known_class(ck, st, m, text)
            if kid:
                known_hits += 1
                ck.known_finding(kid, "panic in stage %s" % st)
                continue
            real.append({"kind": kind, "stage": st, "panic": m if isinstance(m, str) else json.dumps(m)[:300], "source": text})
    cov["evaluations"] = len(inputs)
    cov["distinct_nontrivial"] = len(set(t for _, t in inputs if t.strip()))
    cov["rule"] = ("edge-case programs (arithmetic, formats, casts, ranges, arities), every shipped .ucg file and fuzz corpus entry, "
                   "token-level mutations (delete/duplicate/swap/replace) of shipped and generated programs, random token soup / UTF-8 / "
                   "byte soup up to 4 KiB, generated programs; each through tokenize, parse, type check, translate, evaluate (+ every "
                   "converter on the result) and format, each stage under catch_unwind in a child process; excluded as the property says: "
                   "nesting > 64, mod.this/pkg recursion, ranges that may exceed 10^6; distinct = distinct non-blank texts")
    cov["generator_distribution"] = kinds
    cov["stage_outcomes"] = stage_stats
    cov["samples"] = [inputs[0][1], inputs[len(EDGE) + 3][1][:200], inputs[-1][1][:200]]
    cov["known_finding_hits"] = known_hits
    ck.assumptions = [
        "totality/no-overflow theorems cover the modelled stages only (precedence climber, definitional arithmetic and ranges); the parser "
        "combinators, type checker, printer, converters and third-party crates are exercised by the crash stream, not proved",
        "a stack overflow or abort shows up as a dead child process and is reported as a crash",
    ]
    if real:
        r0 = min(real, key=lambda r: len(r["source"]))
        ck.violation({"kind": "a stage panicked / the process died instead of reporting a diagnostic", "failing": r0,
                      "more": len(real) - 1, "by_stage": {st: len([r for r in real if r["stage"] == st]) for st in STAGES + ["process"]},
                      "broken": broken})
    elif broken:
        ck.violation({"kind": "proof obligation no longer checks", "broken": broken, "theorems": THEOREMS}, nofail=True)
    return ck.finish()


def replay(path):
    r = json.load(open(path))
    f = r.get("failing")
    if not f:
        print("no failing input; broken:", json.dumps(r.get("broken"))[:2000])
        return 1
    C.cargo_build()
    print(f["source"])
    print(json.dumps(C.harness("stages", [f["source"]])[0], indent=1)[:3000])
    return 1
