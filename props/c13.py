"""C13 -- `ucg test` reports a file as passing exactly when all its assertions hold."""
import itertools
import json
import os
import re
import shutil

import common as C
import sx

PID = "C13"
THEOREMS = ["verdict_exact", "pass_iff_builds_and_all_ok", "malformed_is_failure", "verdict_order_indep",
            "exit_status", "log_once", "log_lists_each_assert_once", "shared_collector_refuted"]

# (source of the asserted value, model kind) ; `f` is the identity function so that the static checker
# does not see the shape and the malformed value reaches the assert hook at run time
MALFORMED = [
    ('f({ok = "x", desc = "D"})', ("m", 1)),      # ok not a boolean
    ('f({desc = "D"})', ("m", 1)),                # ok missing
    ('f({ok = true})', ("m", 2)),                 # desc missing
    ('f({ok = true, desc = 1})', ("m", 2)),       # desc not a string
    ('f(1)', ("m", 3)),                           # not a tuple: int
    ('f([1])', ("m", 3)),                         # not a tuple: list
    ('f(NULL)', ("m", 3)),                        # not a tuple: NULL
]
TAG_RE = [(1, "TYPE FAIL - Expected Boolean field ok"), (2, "TYPE FAIL - Expected String field desc"),
          (3, "TYPE FAIL - Expected tuple with ok and desc fields")]


def place(rng, stmt, tag):
    """the assert statement as it is, or inside a module body that is instantiated directly, through a function call, or from a
    map / reduce callback (each instantiation evaluates the assertion once)"""
    k = rng.random()
    if k < 0.55:
        return [stmt]
    mod = "let am%s = module {d = 1} => {\n  let f = func(x) => x;\n  %s\n};" % (tag, stmt)
    if k < 0.7:
        return [mod, "let ai%s = am%s{};" % (tag, tag)]
    if k < 0.85:
        return [mod, "let ac%s = func (v) => am%s{d = v};" % (tag, tag), "let ai%s = ac%s(2);" % (tag, tag)]
    if k < 0.93:
        return [mod, "let ai%s = map(func (v) => am%s{d = v}, [3]);" % (tag, tag)]
    return [mod, "let ai%s = reduce(func (acc, v) => am%s{d = v}, 0, [4]);" % (tag, tag)]


def gen_file(rng, idx, nmax):
    """returns (source text, model asserts [(kind...)], build_err)"""
    n = rng.randint(0, nmax)
    lines = ["let f = func(x) => x;"]
    asserts = []
    err_at = None
    r = rng.random()
    static_err = False
    if r < 0.12:
        err_at = rng.randint(0, n)          # run-time error after err_at assertions
    elif r < 0.18:
        static_err = True                    # rejected before anything is evaluated
    for i in range(n):
        if err_at == i:
            lines.append('let boom%d = select ("nope") => { a = 1 };' % i)
            break
        k = rng.random()
        if rng.random() < 0.5:
            # descriptions repeat within and across files (a log must list each assertion, not each text)
            desc = rng.choice(["same", "value is in range", "x", "é"])
        else:
            desc = "f%d a%d %s" % (idx, i, rng.choice(["x", "it's", 'q"q', "a - OK: b", "é", "$HOME"]))
        dsrc = '"' + desc.replace("\\", "\\\\").replace('"', '\\"') + '"'
        if k < 0.45:
            form = rng.random()
            if form < 0.5:
                lines += place(rng, 'assert {ok = 1 == 1, desc = %s};' % dsrc, "%d_%d" % (idx, i))
            elif form < 0.8:
                lines += place(rng, 'assert {desc = %s, ok = true, extra = 1};' % dsrc, "%d_%d" % (idx, i))
            else:
                lines += place(rng, 'assert f({ok = true, desc = %s});' % dsrc, "%d_%d" % (idx, i))
            asserts.append(("w", desc, True))
        elif k < 0.7:
            lines += place(rng, 'assert {ok = 1 == 2, desc = %s};' % dsrc, "%d_%d" % (idx, i))
            asserts.append(("w", desc, False))
        else:
            src, kind = rng.choice(MALFORMED)
            lines += place(rng, "assert %s;" % src.replace('"D"', dsrc), "%d_%d" % (idx, i))
            asserts.append(kind)
    else:
        if err_at == n:
            lines.append('let boom = select ("nope") => { a = 1 };')
    if static_err:
        lines.append('let bad = 1 + "a";')
        asserts = []
    return "\n".join(lines) + "\n", asserts, (err_at is not None or static_err)


def model_line(files):
    out = []
    for name, asserts, be in files:
        al = []
        for a in asserts:
            if a[0] == "w":
                al.append("(w %s %d)" % (C.hexs(a[1]), 1 if a[2] else 0))
            else:
                al.append("(m %d)" % a[1])
        out.append("(%s %d (%s))" % (C.hexs(name), 1 if be else 0, " ".join(al)))
    return "(" + " ".join(out) + ")"


LOG_RE = re.compile(r"^(\d+) - (OK|NOT OK): (.*)$")


def parse_stdout(out, names):
    """-> {name: (verdict or None, [loglines], results_verdict)}"""
    res = {}
    cur = None
    for line in out.split("\n"):
        m = re.match(r"^Validating (.*)$", line)
        if m:
            cur = m.group(1)
            res[cur] = {"file_line": None, "log": [], "results": None}
            continue
        m = re.match(r"^File (.*) (Pass|Fail)$", line)
        if m and m.group(1) in res:
            res[m.group(1)]["file_line"] = m.group(2)
            continue
        m = re.match(r"^(.*) - (PASS|FAIL)$", line)
        if m and m.group(1) in res and not LOG_RE.match(line):
            res[m.group(1)]["results"] = m.group(2)
            continue
        m = LOG_RE.match(line)
        if m and cur is not None:
            idx, okw, what = int(m.group(1)), m.group(2), m.group(3)
            tag = None
            for t, pfx in TAG_RE:
                if what.startswith(pfx):
                    tag = t
            res[cur]["log"].append((idx, okw == "OK", ("m", tag) if tag else ("w", what)))
    return res


def expected_from_model(line_out, files):
    x = sx.parse(line_out)
    exit_code = int(x[0])
    reps = []
    for rep in x[1]:
        log = []
        for idx, ok, kind in rep[1]:
            if kind[0] == "w":
                log.append((int(idx), ok == "1", ("w", C.unhex(kind[1]).decode("utf-8"))))
            else:
                log.append((int(idx), ok == "1", ("m", int(kind[1]))))
        reps.append((rep[0], log))
    return exit_code, reps


def run(tier, seed):
    ck = C.Check(PID, tier, seed, "proof")
    cov = ck.coverage
    pr = C.prove(ck, ["theories/props/C13_Props.vo"], "props.C13_Props", THEOREMS)
    broken = []
    if not pr["ok"]:
        broken.append({"obligations": "C13_Props", "built": pr["built"], "audit": pr["audit"],
                       "assumptions": pr["assumptions"], "log": pr["log_tail"][-1500:]})
    ok, msg = C.cargo_build()
    if not ok:
        raise RuntimeError("cargo build of /repo failed:\n" + msg[-2000:])
    okm, msg = C.build_model_runner()
    if not okm:
        broken.append({"extraction": msg[-1500:]})
    nproj = 60 if tier == "quick" else 600
    root = os.path.join(C.scratch_root(), "c13-%d" % os.getpid())
    shutil.rmtree(root, ignore_errors=True)
    os.makedirs(root)
    jobs = []
    meta = []
    kinds = {"true": 0, "false": 0, "malformed": 0, "build_err": 0, "files": 0}
    for p in range(nproj):
        d = os.path.join(root, "p%d" % p)
        os.makedirs(d)
        nfiles = ck.rng.randint(1, 4)
        files = []
        for i in range(nfiles):
            src, asserts, be = gen_file(ck.rng, i, 8 if p % 3 else 3)
            name = "t%d_test.ucg" % i
            open(os.path.join(d, name), "w").write(src)
            files.append((name, asserts, be))
            kinds["files"] += 1
            kinds["build_err"] += 1 if be else 0
            for a in asserts:
                kinds["malformed" if a[0] == "m" else ("true" if a[2] else "false")] += 1
        perms = list(itertools.permutations(range(nfiles)))
        if tier == "quick" and len(perms) > 6:
            perms = ck.rng.sample(perms, 6)
        for perm in perms:
            order = [files[i] for i in perm]
            jobs.append(([C.UCG_BIN, "test"] + [f[0] for f in order], d, None))
            meta.append((d, order))
    results = C.run_many(jobs)
    mlines = [model_line(order) for _, order in meta]
    mouts = C.model("testrun", mlines) if okm else [None] * len(meta)
    disagreements = []
    real = []
    distinct = set()
    for (d, order), (rc, out, err), mo in zip(meta, results, mouts):
        distinct.add(model_line(order))
        got = parse_stdout(out, [f[0] for f in order])
        # --- the property itself, from the generator's knowledge of each file ---
        any_fail = False
        for name, asserts, be in order:
            should_pass = (not be) and all(a[0] == "w" and a[2] for a in asserts)
            any_fail = any_fail or not should_pass
            g = got.get(name, {"file_line": None, "log": [], "results": None})
            reported_pass = (g["results"] == "PASS")
            want_log = [] if be else [(i, (a[0] == "w" and a[2]), (a if a[0] == "m" else ("w", a[1])))
                                      for i, a in enumerate(asserts)]
            if reported_pass != should_pass:
                real.append({"dir": d, "order": [f[0] for f in order], "file": name,
                             "expected_verdict": "PASS" if should_pass else "FAIL", "reported": g["results"],
                             "sources": {f[0]: open(os.path.join(d, f[0])).read() for f in order},
                             "what": "verdict"})
            elif g["log"] != want_log:
                real.append({"dir": d, "order": [f[0] for f in order], "file": name,
                             "expected_log": want_log, "reported_log": g["log"],
                             "sources": {f[0]: open(os.path.join(d, f[0])).read() for f in order},
                             "what": "log"})
        if (rc != 0) != any_fail:
            real.append({"dir": d, "order": [f[0] for f in order], "what": "exit status", "rc": rc,
                         "expected_nonzero": any_fail,
                         "sources": {f[0]: open(os.path.join(d, f[0])).read() for f in order}})
        # --- model vs implementation ---
        if mo is not None:
            ecode, reps = expected_from_model(mo, order)
            for (name, _, _), (v, log) in zip(order, reps):
                g = got.get(name, {"file_line": None, "log": [], "results": None})
                if (g["results"] == "PASS") != (v == "Pass") or g["log"] != log:
                    disagreements.append({"dir": d, "order": [f[0] for f in order], "file": name,
                                          "model": [v, log], "impl": g})
            if (rc != 0) != (ecode != 0):
                disagreements.append({"dir": d, "order": [f[0] for f in order], "model_exit": ecode, "impl_exit": rc})
    cov["evaluations"] = len(jobs)
    cov["distinct_nontrivial"] = len(distinct)
    cov["rule"] = ("generated *_test.ucg files with 0..8 assertions (true / false / 7 malformed shapes routed through an identity "
                   "function / run-time or static build error), 1..4 files per invocation, every order (quick: <=6 orders); "
                   "distinct = distinct (file list, order) histories")
    cov["generator_distribution"] = kinds
    cov["samples"] = [{"order": [f[0] for f in meta[0][1]], "first_file": open(os.path.join(meta[0][0], meta[0][1][0][0])).read()}]
    cov["traces_validated_against_impl"] = len(jobs)
    cov["disagreements_model_vs_impl"] = len(disagreements)
    ck.assumptions = [
        "the per-file build is abstracted to the list of values its assert statements evaluate (+ build error flag); "
        "the generator knows that list by construction",
        "asserts inside imported files and `ucg test -r` directory order (OS readdir) are not modelled",
        "process exit status and stdout are observed from the real `ucg test` binary built from /repo",
    ]
    shutil.rmtree(root, ignore_errors=True)
    if real:
        real.sort(key=lambda r: len(json.dumps(r.get("sources", ""))))
        ck.violation({"kind": "ucg test verdict/log/exit status differs from the assertions of the file",
                      "failing": real[0], "more": len(real) - 1, "broken": broken,
                      "replay_hint": "write the sources into a directory and run: ucg test " + " ".join(real[0]["order"])})
    elif broken or disagreements:
        ck.violation({"kind": "proof obligation or correspondence no longer checks", "broken": broken,
                      "model_disagreements": disagreements[:5], "theorems": THEOREMS}, nofail=True)
    return ck.finish()


def replay(path):
    r = json.load(open(path))
    f = r.get("failing")
    if not f:
        print("no failing input; broken:", json.dumps(r.get("broken"))[:2000])
        return 1
    C.cargo_build()
    d = os.path.join(C.scratch_root(), "c13-replay")
    shutil.rmtree(d, ignore_errors=True)
    os.makedirs(d)
    for n, s in f["sources"].items():
        open(os.path.join(d, n), "w").write(s)
    rc, out, err = C.sh([C.UCG_BIN, "test"] + f["order"], cwd=d)
    print(out)
    print(err)
    print("exit", rc, "| expectation:", {k: v for k, v in f.items() if k not in ("sources",)})
    return 1
