"""C11 -- tokens carry their exact text and location; layout does not matter."""
import glob
import itertools
import json
import os

import common as C
import sx
import t_vocab as T2

PID = "C11"
THEOREMS = ["lex_total", "string_decode", "decode_spec", "positions_exact", "longest_operator", "pairs_exhaustive",
            "layout_irrelevant", "relayout", "tokens_tile_the_source", "comment_is_a_token", "comment_after_keyword_kept",
            "filtered_stream_independent_of_keyword_lookahead"]
MULTI = ["==", "=>", ">=", "<=", "..", "::", "&&", "||", "%%", "!=", "!~"]
SAMPLES = ["x", "foo-bar", "a1", "index", "lets", "1", "42", '"s"', '""', '"a b"', "true", "false", "NULL",
           "in-flight", "out-dir", "not_x", "as1", "is-", "map-reduce"]


def model_tokens(m):
    if not m.startswith("ok "):
        return None
    out = []
    for t in sx.parse(m[3:]):
        out.append([t[0], C.unhex(t[1]).decode("utf-8", "replace"), int(t[2]), int(t[3]), int(t[4])])
    return out


def impl_tokens(r):
    return r.get("ok") if isinstance(r, dict) else None


def encode_str(v, rng=None):
    """a source literal for the string value v, using every escape form at random"""
    out = ['"']
    for ch in v:
        if ch == "\\":
            out.append("\\\\")
        elif ch == '"':
            out.append('\\"')
        elif ch == "\n" and (rng is None or rng.random() < 0.5):
            out.append("\\n")
        elif ch == "\t" and (rng is None or rng.random() < 0.5):
            out.append("\\t")
        elif ch == "\r" and (rng is None or rng.random() < 0.5):
            out.append("\\r")
        elif rng is not None and rng.random() < 0.08 and ch not in "nrt":
            out.append("\\" + ch)       # `\c` stands for c (any character, non-ASCII included)
        else:
            out.append(ch)
    out.append('"')
    return "".join(out)


def expected_positions(src, toks):
    """the property: every token starts where it says (bytes), line/col derived from the newlines before it"""
    bs = src.encode("utf-8")
    problems = []
    last = -1
    for t in toks:
        typ, frag, line, col, off = t
        if off < last:
            problems.append("offsets not increasing at %r" % (t,))
        last = off
        if off > len(bs):
            problems.append("offset beyond the source: %r" % (t,))
            continue
        before = bs[:off]
        want_line = 1 + before.count(b"\n")
        want_col = 1 + (len(before) - (before.rfind(b"\n") + 1))
        if (line, col) != (want_line, want_col):
            problems.append("token %r reports %d:%d but starts at %d:%d" % (t, line, col, want_line, want_col))
        fb = frag.encode("utf-8")
        if typ in ("BAREWORD", "DIGIT", "PUNCT", "BOOLEAN", "EMPTY"):
            if bs[off:off + len(fb)] != fb:
                problems.append("token text %r is not at offset %d" % (frag, off))
        elif typ == "QUOTED":
            if bs[off:off + 1] != b'"':
                problems.append("string token does not start at a quote: %r" % (t,))
    return problems


class Layout:
    def __init__(self, rng):
        self.rng = rng

    def sep(self, required, after_slash=False):
        """after `/` a separator must not start with a comment (`/` + `//` reads as a comment): valid layouts exclude it"""
        out = self._sep(required)
        if after_slash and out.startswith("//"):
            out = " " + out
        return out

    def _sep(self, required):
        r = self.rng
        parts = []
        n = r.choice([0, 1, 1, 1, 2, 3]) if not required else r.choice([1, 1, 2, 3])
        for _ in range(n):
            k = r.random()
            if k < 0.5:
                parts.append(" " * r.randint(1, 3))
            elif k < 0.65:
                parts.append("\t")
            elif k < 0.8:
                parts.append("\n")
            elif k < 0.9:
                parts.append("\r\n")
            else:
                parts.append("// " + r.choice(["c", "let x = 1;", "é", '"', "@", ""]) + "\n")
        return "".join(parts)


def needs_sep(a, b):
    """conservative: tokens that could merge or re-split when glued"""
    (ta, fa), (tb, fb) = a, b
    wordish = lambda t, f: t in ("BAREWORD", "DIGIT", "BOOLEAN", "EMPTY")
    if wordish(ta, fa) and wordish(tb, fb):
        return True
    if ta == "PUNCT" and tb == "PUNCT":
        return True         # operators may merge into longer ones or into a comment
    if ta == "PUNCT" and fa == "/" :
        return True
    if wordish(ta, fa) and tb == "PUNCT" and fb in ("-",):
        return True         # `-` is a symbol character
    if ta in ("BOOLEAN", "EMPTY") or tb in ("BOOLEAN", "EMPTY"):
        return True
    return False


def src_of(tok, rng=None):
    t, f = tok
    return encode_str(f, rng) if t == "QUOTED" else f


def run(tier, seed):
    ck = C.Check(PID, tier, seed, "proof")
    cov = ck.coverage
    tr = T2.generate(C.REPO, C.GEN, C.write_if_changed)
    cov["translator"] = tr["status"]
    cov["tie"] = "generated" if tr["status"] == "generated" else "behavioural-fallback"
    broken = []
    if tr["status"] != "generated":
        C.write_if_changed(os.path.join(C.GEN, "LexVocab.v"), open(os.path.join(C.COQ, "snapshots", "LexVocab.v")).read())
        broken.append({"translator": tr["status"]})
    pr = C.prove(ck, ["theories/props/C11_Props.vo"], "props.C11_Props", THEOREMS)
    if not pr["ok"]:
        broken.append({"obligations": "C11_Props", "built": pr["built"], "audit": pr["audit"],
                       "assumptions": pr["assumptions"], "log": pr["log_tail"][-1500:]})
    ok, msg = C.cargo_build()
    if not ok:
        raise RuntimeError("cargo build of /repo failed:\n" + msg[-2000:])
    okm, msg = C.build_model_runner()
    if not okm:
        broken.append({"extraction": msg[-1500:]})
    rng = ck.rng
    rows = tr.get("rows") or []
    lits = []
    for r in rows:
        if r.startswith("RText"):
            lits.append(r.split(" ", 2)[2].strip('"').replace('""', '"'))
    if not lits:
        lits = [",", "}", "{", "(", ")", "..", ".", "&&", "||", "|", "+", "-", "*", "/", "%%", "%", "==", "!=", "~", "!~", ">=", "<=", ">",
                "<", "=>", "=", ";", "::", ":", "[", "]", "true", "false", "NULL", "in", "is", "not", "let", "out", "select", "func", "map"]
    vocab = lits + SAMPLES
    sources = []       # (kind, text)
    seps = ["", " ", "\n", " // c\n", "\r\n"]
    for a, bb in itertools.product(vocab, repeat=2):
        for s in seps:
            sources.append(("pair", a + s + bb))
    trip = list(itertools.product(vocab, repeat=3))
    if tier == "quick":
        trip = rng.sample(trip, 20000)
    for a, bb, c in trip:
        s1, s2 = (rng.choice(seps), rng.choice(seps)) if tier == "quick" else ("", "")
        sources.append(("triple", a + s1 + bb + s2 + c))
        if tier != "quick":
            sources.append(("triple", a + " " + bb + "\n" + c))
    # the input ends inside a comment (no line ending after it), after blanks, or after a lone CR: the END token's position
    tails = ["//", "// c", " // é€ x", "\n// c", "\r\n  //c", "\n\n//", "// a // b", " ", "\t", "\n  ", "\r\n", "\n//\n//x"]
    for a in vocab + ["let x = 1;", "let s = \"é\";\nlet y = s;"]:
        for t in tails:
            sources.append(("tail", a + t))
    for t in tails:
        sources.append(("tail", t))
    for o in MULTI:
        for c in range(1, 128):
            sources.append(("longest", o + chr(c) + " x"))
    # string literals over arbitrary Unicode with every escape form
    import values as V
    g = V.ValGen(rng)
    strings = []
    for _ in range(3000 if tier == "quick" else 40000):
        v = g.rand_str() if rng.random() < 0.7 else "".join(g.rand_str() for _ in range(3))
        strings.append(v)
        sources.append(("string", "let s = " + encode_str(v, rng) + ";"))
    # token sequences with two random layouts each
    lay = Layout(rng)
    pool = [("BAREWORD", w) for w in ["x", "foo", "let", "in", "is", "not", "select", "a-b", "index", "in-flight", "as-of", "not-before",
                                        "out-dir", "let-x", "fail_x", "func1", "TRACE-x", "import-map"]] + \
           [("DIGIT", d) for d in ["0", "1", "42"]] + [("PUNCT", p) for p in lits if not p[0].isalpha() and p != "NULL"] + \
           [("BOOLEAN", "true"), ("BOOLEAN", "false"), ("EMPTY", "NULL"), ("QUOTED", "s"), ("QUOTED", "é\n\"q\\"), ("QUOTED", "")]
    seqs = []
    for _ in range(2500 if tier == "quick" else 40000):
        ts = [rng.choice(pool) for _ in range(rng.randint(1, 40))]
        texts = []
        for _k in range(2):
            parts = [lay.sep(False)]
            for i, t in enumerate(ts):
                parts.append(src_of(t, rng if t[0] == "QUOTED" else None))
                req = i + 1 < len(ts) and needs_sep(t, ts[i + 1])
                # keywords need a following blank or comment to be recognised as such; keep one always
                parts.append(lay.sep(req or t[0] == "BAREWORD" or i + 1 == len(ts), after_slash=(t == ("PUNCT", "/"))))
            texts.append("".join(parts))
        seqs.append((ts, texts))
        sources.append(("layout", texts[0]))
        sources.append(("layout", texts[1]))
    for f in sorted(glob.glob(os.path.join(C.REPO, "**/*.ucg"), recursive=True)):
        try:
            sources.append(("file", open(f, encoding="utf-8").read()))
        except (UnicodeDecodeError, OSError):
            pass
    texts = [s for _, s in sources]
    impl = C.harness("tokens", texts)
    mdl = C.model("lex", [C.hexs(s) for s in texts]) if okm else [None] * len(texts)
    disagreements, real = [], []
    kinds = {}
    idx = {}
    for i, ((kind, s), r, m) in enumerate(zip(sources, impl, mdl)):
        kinds[kind] = kinds.get(kind, 0) + 1
        idx[s] = i
        it = impl_tokens(r)
        if "panic" in r or "crash" in r:
            real.append({"source": s, "why": "tokenizer panicked: %r" % (r,)})
            continue
        if m is not None:
            mt = model_tokens(m)
            if mt != it:
                disagreements.append({"source": s, "model": mt, "impl": it})
        if it is not None:
            probs = expected_positions(s, it)
            if probs:
                real.append({"source": s, "why": probs[0], "tokens": it})
    # property: string values
    base = sum(1 for k, _ in sources if k in ("pair", "triple", "longest"))
    si = 0
    for i, (kind, s) in enumerate(sources):
        if kind != "string":
            continue
        v = strings[si]
        si += 1
        it = impl_tokens(impl[i])
        if it is None or len(it) < 4 or it[3][0] != "QUOTED" or it[3][1] != v:
            real.append({"source": s, "why": "string literal value differs from its source text with the escapes decoded",
                         "expected_value": v, "tokens": it})
    # property: longest operator
    for i, (kind, s) in enumerate(sources):
        if kind != "longest":
            continue
        it = impl_tokens(impl[i])
        o = s[:2]
        if it is None:
            continue          # the following byte may be an illegal character: a diagnostic, fine
        if it[0][1] != o or it[0][0] != "PUNCT":
            real.append({"source": s, "why": "adjacent characters did not form the longest operator %s" % o, "tokens": it})
    # property: layout does not matter
    for ts, tx in seqs:
        a, bb = impl_tokens(impl[idx[tx[0]]]), impl_tokens(impl[idx[tx[1]]])
        sa = None if a is None else [(t[0], t[1]) for t in a]
        sb = None if bb is None else [(t[0], t[1]) for t in bb]
        if sa != sb:
            real.append({"source": tx[0], "other_layout": tx[1], "why": "two layouts of the same tokens lex differently",
                         "tokens": sa, "tokens_other": sb})
        elif sa is not None and sa[:-1] != [(t, f) for t, f in ts]:
            real.append({"source": tx[0], "why": "the token sequence is not the one that was laid out",
                         "tokens": sa, "laid_out": ts})
    cov["evaluations"] = len(sources)
    cov["distinct_nontrivial"] = len(set(texts))
    cov["rule"] = ("all pairs of vocabulary tokens (every literal of the recogniser table + sample words/numbers/strings) with 5 separators "
                   "(exhaustive), triples (thorough: all, glued and separated; quick: 20000 sampled), each multi-character operator "
                   "followed by every ASCII byte, string literals over arbitrary Unicode with every escape form, token sequences <= 40 "
                   "under two random layouts (blanks, tabs, LF, CRLF, comments), every .ucg file; distinct = distinct texts")
    cov["generator_distribution"] = kinds
    cov["vocabulary"] = len(vocab)
    cov["exhaustive"] = True
    cov["samples"] = [sources[7][1], sources[-1][1][:120], seqs[0][1][0][:200]]
    cov["traces_validated_against_impl"] = len(sources)
    cov["disagreements_model_vs_impl"] = len(disagreements)
    ck.assumptions = [
        "columns and offsets are in bytes (what the iterator counts); the theorem says so",
        "the model is byte-level; inputs that are not valid UTF-8 cannot reach the real tokenizer (&str)",
        "the recogniser table is regenerated from src/tokenizer/mod.rs on every run; the special recognisers (strings, digits, barewords, "
        "comments, whitespace) are modelled by hand and tied by this correspondence",
    ]
    if real:
        r0 = min(real, key=lambda r: len(r["source"]))
        ck.violation({"kind": "token text/position/layout independence violated", "failing": r0, "more": len(real) - 1,
                      "broken": broken, "model_disagreements": disagreements[:3]})
    elif broken or disagreements:
        ck.violation({"kind": "proof obligation or correspondence no longer checks", "broken": broken,
                      "model_disagreements": disagreements[:5], "theorems": THEOREMS}, nofail=True)
    return ck.finish()


def replay(path):
    r = json.load(open(path))
    f = r.get("failing")
    if not f:
        print("no failing input; broken:", json.dumps(r.get("broken"))[:2000])
        return 1
    C.cargo_build()
    print(repr(f["source"]))
    print(C.harness("tokens", [f["source"]])[0])
    print("recorded:", f["why"])
    return 1
