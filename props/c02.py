"""C02 -- operator chains group by the published precedence table (DESIGN 5/C02)."""
import itertools
import json
import os

import common as C
import prec as T1
import sx

PID = "C02"
OPS = T1.OPS
TOK = {"Add": "+", "Sub": "-", "Mul": "*", "Div": "/", "Mod": "%%", "AND": "&&", "OR": "||", "Equal": "==",
       "GT": ">", "LT": "<", "NotEqual": "!=", "GTEqual": ">=", "LTEqual": "<=", "REMatch": "~",
       "NotREMatch": "!~", "IN": "in", "IS": "is", "DOT": "."}
THEOREMS = ["code_table_is_reference", "all_ops_complete", "climb_total", "climb_sound", "wf_unique",
            "shape_operand_independent", "climb_example", "parser_trees_respect_the_table"]

# closed compound operands (never extend to the right); dumps are taken from the implementation itself
COMPOUND = ['[1, 2]', '{a = 1}', 'f(x)', 't{a = 1}', 'select (c, 1) => {a = 2}', 'map(f, l)',
            'filter(f, l)', 'reduce(f, 0, l)', '"s"', 'true', 'NULL', 'int(x)', '(y)', '[]', '{}',
            'f(x + 1, y * 2)']


def fill(shape, leaves):
    """model shape with `_` leaves -> implementation dump with operand dumps filled in, in order"""
    it = iter(leaves)

    def go(s):
        if s == "_":
            return next(it)
        return "(Bin %s %s %s)" % (s[0], go(s[1]), go(s[2]))
    return go(shape)


def chain_text(operands, ops):
    out = [operands[0]]
    for o, a in zip(ops, operands[1:]):
        out.append(TOK[o])
        out.append(a)
    return " ".join(out)


class Gen:
    """random chains with parenthesised sub-chains and compound operands"""

    def __init__(self, rng, dumps):
        self.rng = rng
        self.dumps = dumps  # operand text -> impl dump

    def chain(self, depth, maxlen):
        n = self.rng.randint(1, maxlen)
        ops = [self.rng.choice(OPS) for _ in range(n)]
        operands = []
        for i in range(n + 1):
            r = self.rng.random()
            if depth > 0 and r < 0.2:
                operands.append(("group", self.chain(depth - 1, 4)))
            elif r < 0.45:
                operands.append(("text", self.rng.choice(COMPOUND)))
            else:
                operands.append(("text", "v%d" % self.rng.randint(0, 9)))
        return (operands, ops)

    def text(self, ch):
        operands, ops = ch
        strs = []
        for kind, x in operands:
            strs.append(x if kind == "text" else "(" + self.text(x) + ")")
        return chain_text(strs, ops)

    def chains_in(self, ch, acc):
        acc.append(tuple(ch[1]))
        for kind, x in ch[0]:
            if kind == "group":
                self.chains_in(x, acc)


def expected(ch, shapes, dumps):
    operands, ops = ch
    leaves = []
    for kind, x in operands:
        if kind == "text":
            leaves.append(dumps[x])
        else:
            leaves.append("(Group %s)" % expected(x, shapes, dumps))
    return fill(shapes[tuple(ops)], leaves)


def run(tier, seed):
    ck = C.Check(PID, tier, seed, "proof")
    cov = ck.coverage
    # 1. translate
    tr = T1.generate(C.REPO, C.GEN, C.write_if_changed)
    cov["translator"] = {"code": tr["code_status"], "doc": tr["doc_status"]}
    tie = "generated"
    for name, key in (("PrecTable.v", "code_status"), ("DocPrecTable.v", "doc_status")):
        if tr[key] != "generated":
            tie = "behavioural-fallback"
            C.write_if_changed(os.path.join(C.GEN, name), open(os.path.join(C.COQ, "snapshots", name)).read())
    cov["tie"] = tie
    # 2. prove
    pr = C.prove(ck, ["theories/props/C02_Props.vo"], "props.C02_Props", THEOREMS)
    broken = []
    if not pr["ok"]:
        broken.append({"obligations": "C02_Props", "built": pr["built"], "audit": pr["audit"],
                       "assumptions": pr["assumptions"], "log": pr["log_tail"][-1500:]})
    # 3. build implementation and model
    ok, msg = C.cargo_build()
    if not ok:
        C.log(msg)
        raise RuntimeError("cargo build of /repo failed: the tree does not compile")
    okm, msg = C.build_model_runner()
    if not okm:
        # the model cannot even be extracted (e.g. a generated table does not type-check)
        broken.append({"extraction": msg[-1500:]})
    # 4. exhaustive chains of 1..4 operators over simple operands
    maxn = 4
    chains = []
    for n in range(1, maxn + 1):
        chains.extend(itertools.product(OPS, repeat=n))
    texts = [chain_text(["a%d" % i for i in range(len(c) + 1)], c) for c in chains]
    impl = C.harness("shape", texts)
    lines = ["(" + " ".join(c) + ")" for c in chains]
    mdl = C.model("climb", lines) if okm else [None] * len(chains)
    spec = C.model("spec", lines) if okm else [None] * len(chains)
    disagreements = []
    real = []
    evaluations = 0
    shapes_seen = set()
    for c, t, r, m, s in zip(chains, texts, impl, mdl, spec):
        evaluations += 1
        leaves = ['(Sym "a%d")' % i for i in range(len(c) + 1)]
        got = r.get("ok")
        if m is not None:
            shapes_seen.add(m)
            want = fill(sx.parse(m), leaves)
            if got != want:
                disagreements.append({"chain": t, "impl": r, "model": want})
        if s is not None and s != "none":
            wspec = fill(sx.parse(s), leaves)
            if got != wspec:
                real.append({"input": "let x = %s;" % t, "chain": t, "impl": r, "reference_grouping": wspec})
        elif s is None and got is None:
            real.append({"input": "let x = %s;" % t, "chain": t, "impl": r})
    cov["exhaustive_chains"] = len(chains)
    cov["exhaustive"] = True
    cov["distinct_shapes"] = len(shapes_seen)
    # 5. random long chains with parentheses and compound operands
    nrand = 20000 if tier == "quick" else 200000
    dres = C.harness("shape", COMPOUND + ["v%d" % i for i in range(10)])
    dumps = {}
    for t, r in zip(COMPOUND + ["v%d" % i for i in range(10)], dres):
        if "ok" not in r:
            raise RuntimeError("operand %r does not parse alone: %r" % (t, r))
        dumps[t] = r["ok"]
    g = Gen(ck.rng, dumps)
    rch = [g.chain(2, 10) for _ in range(nrand)]
    rtexts = [g.text(c) for c in rch]
    need = []
    for c in rch:
        g.chains_in(c, need)
    need = sorted(set(need))
    nlines = ["(" + " ".join(c) + ")" for c in need]
    if okm:
        mshapes = dict(zip(need, [sx.parse(x) for x in C.model("climb", nlines)]))
        sshapes = dict(zip(need, [sx.parse(x) for x in C.model("spec", nlines)]))
        rimpl = C.harness("shape", rtexts)
        lens = {}
        for c, t, r in zip(rch, rtexts, rimpl):
            evaluations += 1
            lens[len(c[1])] = lens.get(len(c[1]), 0) + 1
            got = r.get("ok")
            want = expected(c, mshapes, dumps)
            if got != want:
                disagreements.append({"chain": t, "impl": r, "model": want})
            wspec = expected(c, sshapes, dumps)
            if got != wspec:
                real.append({"input": "let x = %s;" % t, "chain": t, "impl": r, "reference_grouping": wspec})
        cov["random_chains"] = nrand
        cov["random_length_histogram"] = {str(k): v for k, v in sorted(lens.items())}
        cov["distinct_operator_sequences_random"] = len(need)
    cov["evaluations"] = evaluations
    cov["distinct_nontrivial"] = len(set(texts)) + len(set(rtexts))
    cov["rule"] = ("all operator sequences of length 1..4 over 18 operators between symbol operands (exhaustive) "
                   "plus seeded random chains up to 10 operators with parenthesised sub-chains (depth<=2) and closed "
                   "compound operands; distinct = distinct source texts; every chain has >=1 operator")
    cov["samples"] = [texts[0], texts[400], texts[-1]] + rtexts[:3]
    cov["traces_validated_against_impl"] = evaluations
    cov["disagreements_model_vs_impl"] = len(disagreements)
    ck.assumptions = [
        "the model (prec/Climb.v) abstracts operand parsing: operands are atoms; tokenisation of operators belongs to C11",
        "open prefix forms (not, fail, TRACE, convert, func =>, format %) are excluded as non-first operands (grammar, see DESIGN C02)",
        "tie: T1 translator regenerates both tables from /repo on every run; algorithm tied by exhaustive correspondence",
    ]
    # 6. decide
    if real:
        real.sort(key=lambda r: len(r["chain"]))
        ck.violation({"kind": "grouping differs from the reference table", "failing": real[0],
                      "more": len(real) - 1, "broken": broken, "model_disagreements": disagreements[:3]})
    elif broken or disagreements:
        ck.violation({"kind": "proof obligation or correspondence no longer checks",
                      "broken": broken, "model_disagreements": disagreements[:5],
                      "theorems": THEOREMS}, nofail=True)
    return ck.finish()


def replay(path):
    r = json.load(open(path))
    f = r.get("failing")
    if not f:
        print("replay names a broken obligation/correspondence, no failing input:", json.dumps(r.get("broken"))[:2000])
        return 1
    C.cargo_build()
    got = C.harness("shape", [f["chain"]])[0]
    print("input:", f["input"])
    print("implementation groups as:", got)
    print("reference table groups as:", f.get("reference_grouping"))
    return 0 if got.get("ok") == f.get("reference_grouping") else 1
