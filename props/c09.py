"""C09 -- imports resolve against the importing file, run once, and cycles are errors."""
import json
import os
import re
import shutil

import common as C
import t_walk as T4

PID = "C09"
THEOREMS = ["walker_covers_all_children", "rewrite_reaches_every_node", "join_normalize", "normalize_equiv_iff", "normalize_idem",
            "each_file_evaluated_once", "every_importer_sees_same_value", "import_spelling_irrelevant", "import_cycle_reported",
            "import_always_terminates", "acyclic_project_builds"]

# syntactic positions an import can sit in: template with {IMP} = an expression evaluating to an int
POSITIONS = {
    "top": "let r = {IMP};",
    "binary": "let r = 0 + {IMP} * 1;",
    "group": "let r = ({IMP});",
    "tuple_field": "let r = {a = {IMP}}.a;",
    "list_elem": "let r = [0, {IMP}].1;",
    "func_body": "let f = func (x) => x + {IMP};\nlet r = f(0);",
    "call_arg": "let f = func (x) => x;\nlet r = f({IMP});",
    "map_callback": "let r = map(func (x) => x + {IMP}, [0]).0;",
    "filter_callback": "let r = filter(func (x) => ({IMP}) == x, [0, {IMP}]).0;",
    "reduce_callback": "let r = reduce(func (acc, x) => acc + x + {IMP}, 0, [0]);",
    "reduce_acc": "let r = reduce(func (acc, x) => acc + x, {IMP}, [0]);",
    "map_target": "let r = map(func (x) => x, [{IMP}]).0;",
    "select_arm": "let r = select (true, 0) => { true = {IMP} };",
    "select_default": "let r = select (\"zz\", {IMP}) => { a = 0 };",
    "select_value": "let r = select (({IMP}) == ({IMP}), 0) => { true = {IMP} };",
    "format_list_arg": "let r = int(\"@\" % ({IMP}));",
    "format_single_arg": "let r = int(\"@{item}\" % {w = {IMP}}.w);",
    "copy_override": "let base = {a = 0};\nlet r = base{a = {IMP}}.a;",
    "module_body": "let m = module {p = 0} => { let inner = {IMP}; };\nlet r = m{}.inner;",
    "module_out_expr": "let m = module {p = 0} => ({IMP}) { let unused = 1; };\nlet r = m{};",
    "module_param_default": "let m = module {p = {IMP}} => { let inner = mod.p; };\nlet r = m{}.inner;",
    "range_bound": "let r = (({IMP}):({IMP})).0;",
    "cast_target": "let r = int({IMP});",
    "not_operand": "let r = select (not (({IMP}) == 0 - 1), 0) => { true = {IMP} };",
    "trace_operand": "let r = TRACE {IMP};",
    "nested_func_in_module": "let m = module {p = 0} => { let g = func (x) => x + {IMP}; let inner = g(0); };\nlet r = m{}.inner;",
}
FAIL_POSITION = "let r = select (false, 0) => { false = fail \"marker:@:\" % ({IMP}) };"


def spell(rng, frm_dir, to_path, root):
    """a relative spelling of to_path as seen from frm_dir, with ./, ../ and redundant segments"""
    rel = os.path.relpath(to_path, frm_dir)
    parts = rel.split("/")
    out = []
    k = rng.random()
    if k < 0.5 or parts[0] != "..":
        out.append(".")
    for p in parts:
        out.append(p)
        r = rng.random()
        if p not in ("..", ".") and p != parts[-1]:
            if r < 0.15:
                out += ["..", p]
            elif r < 0.25:
                out += ["."]
    return "/".join(out)


def make_project(rng, root, nfiles, cyclic):
    """returns (files: name->dict, entry name)"""
    dirs = ["", "lib", "lib/deep", "app", "app/sub"]
    names = []
    for i in range(nfiles):
        d = rng.choice(dirs)
        names.append(os.path.join(d, "f%d.ucg" % i) if d else "f%d.ucg" % i)
    files = {}
    # random DAG: file i may import files with larger index
    for i, n in enumerate(names):
        later = names[i + 1:]
        k = rng.randint(0, min(3, len(later)))
        deps = rng.sample(later, k)
        files[n] = {"deps": deps, "value": 100 + i}
    entry = names[0]
    if not files[entry]["deps"] and len(names) > 1:
        files[entry]["deps"] = [names[1]]
    back = None
    if cyclic and len(names) >= 2:
        # add a back edge from something reachable to an ancestor
        reach = [entry]
        seen = set()
        while reach:
            x = reach.pop()
            if x in seen:
                continue
            seen.add(x)
            reach += files[x]["deps"]
        cands = [x for x in seen if x != entry] or [entry]
        src = rng.choice(cands)
        files[src]["deps"] = files[src]["deps"] + [entry]
        back = (src, entry)
    return files, entry, back


def write_project(rng, root, files, positions):
    texts = {}
    for n, info in files.items():
        d = os.path.dirname(os.path.join(root, n))
        os.makedirs(d, exist_ok=True)
        lines = ['let marker = TRACE "EVAL:%s";' % n, "let v = %d;" % info["value"]]
        total = "v"
        for j, dep in enumerate(info["deps"]):
            sp = spell(rng, d, os.path.join(root, dep), root)
            pos = rng.choice(positions)
            imp = '(import "%s").total' % sp
            code = POSITIONS[pos].replace("{IMP}", imp)
            # rename the bindings of the snippet so several snippets can coexist
            code = re.sub(r"\b(r|f|m|base)\b", lambda mm: "%s%d" % (mm.group(1), j), code)
            lines.append("// position: %s" % pos)
            lines.append(code)
            total += " + r%d" % j
            info.setdefault("positions", []).append(pos)
        lines.append("let total = %s;" % total)
        text = "\n".join(lines) + "\n"
        texts[n] = text
        open(os.path.join(root, n), "w").write(text)
    return texts


def expected_total(files, n, memo=None):
    memo = {} if memo is None else memo
    if n in memo:
        return memo[n]
    t = files[n]["value"]
    for dep, pos in zip(files[n]["deps"], files[n].get("positions", [])):
        mult = {"select_value": 1, "filter_callback": 1, "range_bound": 1, "not_operand": 1}.get(pos, 1)
        t += expected_total(files, dep, memo) * mult
    memo[n] = t
    return t


def run(tier, seed):
    ck = C.Check(PID, tier, seed, "proof")
    cov = ck.coverage
    tr = T4.generate(C.REPO, C.GEN, C.write_if_changed)
    cov["translator"] = tr["status"]
    broken = []
    if tr["status"] != "generated":
        snap = os.path.join(C.COQ, "snapshots", "WalkTable.v")
        C.write_if_changed(os.path.join(C.GEN, "WalkTable.v"), open(snap).read())
        broken.append({"translator": tr["status"]})
    pr = C.prove(ck, ["theories/props/C09_Props.vo"], "props.C09_Props", THEOREMS)
    if not pr["ok"]:
        broken.append({"obligations": "C09_Props", "built": pr["built"], "audit": pr["audit"],
                       "assumptions": pr["assumptions"], "log": pr["log_tail"][-1500:],
                       "walk_table_gaps": [(n, sorted(set(k) - set(w))) for n, k, w in tr.get("rows", []) if set(k) - set(w)]})
    ok, msg = C.cargo_build()
    if not ok:
        raise RuntimeError("cargo build of /repo failed:\n" + msg[-2000:])
    rng = ck.rng
    root = os.path.join(C.scratch_root(), "c09-%d" % os.getpid())
    shutil.rmtree(root, ignore_errors=True)
    os.makedirs(root)
    jobs, meta = [], []
    posnames = sorted(POSITIONS)
    nproj = 60 if tier == "quick" else 600
    stats = {"projects": 0, "cyclic": 0, "positions": {}, "cwds": {}}
    # 1. every syntactic position once, in a two-file project built from three working directories
    singles = [(p,) for p in posnames] + [("__fail__",)]
    for pi in range(len(singles) + nproj):
        proot = os.path.join(root, "p%d" % pi)
        os.makedirs(proot)
        if pi < len(singles):
            pos = singles[pi][0]
            files = {"app/main.ucg": {"deps": ["lib/dep.ucg"], "value": 1}, "lib/dep.ucg": {"deps": [], "value": 41}}
            entry, back, cyc = "app/main.ucg", None, False
            if pos == "__fail__":
                os.makedirs(os.path.join(proot, "app"))
                os.makedirs(os.path.join(proot, "lib"))
                open(os.path.join(proot, "lib/dep.ucg"), "w").write("let total = 41;\n")
                open(os.path.join(proot, "app/main.ucg"), "w").write(
                    FAIL_POSITION.replace("{IMP}", '(import "./../lib/./dep.ucg").total') + "\nlet total = r;\n")
                texts = None
                files["app/main.ucg"]["positions"] = ["fail_message"]
            else:
                texts = write_project(rng, proot, files, [pos])
        else:
            cyc = rng.random() < 0.3
            files, entry, back = make_project(rng, proot, rng.randint(2, 8), cyc)
            texts = write_project(rng, proot, files, posnames)
            pos = None
        stats["projects"] += 1
        stats["cyclic"] += 1 if cyc else 0
        for info in files.values():
            for p in info.get("positions", []):
                stats["positions"][p] = stats["positions"].get(p, 0) + 1
        # an output statement so that the result is observable
        ep = os.path.join(proot, entry)
        open(ep, "a").write("out json {total = total};\n")
        edir = os.path.dirname(ep)
        sub = os.path.join(edir, "cwdsub")
        os.makedirs(sub, exist_ok=True)
        other = os.path.join(root, "elsewhere%d" % pi)
        os.makedirs(other, exist_ok=True)
        cwds = [("file_dir", edir, os.path.basename(ep)), ("project_root", proot, entry),
                ("subdir_of_file_dir", sub, "../" + os.path.basename(ep)), ("elsewhere_abs", other, ep),
                ("elsewhere_rel", other, os.path.relpath(ep, other))]
        if tier == "quick" and pi >= len(singles):
            cwds = rng.sample(cwds, 3)
        for cname, cwd, arg in cwds:
            jobs.append(([C.UCG_BIN, "build", arg], cwd, None))
            meta.append((pi, proot, files, entry, back, cyc, cname, arg, pos))
            stats["cwds"][cname] = stats["cwds"].get(cname, 0) + 1
    # 3. imports written directly as the value of a top-level let (the form the type checker resolves before evaluation), through
    #    two levels and with the same file name in two directories
    for si, (stexts, sentry, swant) in enumerate(STATIC_PROJECTS):
        proot = os.path.join(root, "s%d" % si)
        for n, t in stexts.items():
            os.makedirs(os.path.dirname(os.path.join(proot, n)), exist_ok=True)
            open(os.path.join(proot, n), "w").write(t)
        stats["projects"] += 1
        stats["positions"]["top_level_let"] = stats["positions"].get("top_level_let", 0) + 1
        ep = os.path.join(proot, sentry)
        edir = os.path.dirname(ep)
        other = os.path.join(root, "selsewhere%d" % si)
        os.makedirs(other, exist_ok=True)
        os.makedirs(os.path.join(edir, "cwdsub"), exist_ok=True)
        for cname, cwd, arg in [("file_dir", edir, os.path.basename(ep)), ("project_root", proot, sentry),
                                ("subdir_of_file_dir", os.path.join(edir, "cwdsub"), "../" + os.path.basename(ep)),
                                ("elsewhere_abs", other, ep), ("elsewhere_rel", other, os.path.relpath(ep, other))]:
            jobs.append(([C.UCG_BIN, "build", arg], cwd, None))
            meta.append((si, proot, {n: {} for n in stexts}, sentry, swant, False, cname, arg, "__static__"))
            stats["cwds"][cname] = stats["cwds"].get(cname, 0) + 1
    results = C.run_many(jobs)
    real = []
    for (pi, proot, files, entry, back, cyc, cname, arg, pos), (rc, out, err) in zip(meta, results):
        def srcs():
            return {n: open(os.path.join(proot, n)).read() for n in files}
        base = {"project": srcs(), "cwd": cname, "command": "ucg build " + arg, "entry": entry}
        if rc not in (0, 1):
            real.append(dict(base, why="the build crashed (exit status %d) instead of ending with a result or a diagnostic" % rc,
                             stderr=err[-400:]))
            continue
        if pos == "__fail__":
            if rc == 0 or "marker:41:" not in err:
                real.append(dict(base, why="import inside a fail message was not resolved against the importing file", stderr=err[-400:]))
            continue
        if cyc:
            if rc == 0 or not re.search(r"[Cc]ycle", err):
                real.append(dict(base, why="an import cycle did not end with an import-cycle diagnostic (rc=%d)" % rc, stderr=err[-400:]))
            continue
        if rc != 0:
            real.append(dict(base, why="an acyclic project failed to build", stderr=err[-400:]))
            continue
        art = os.path.splitext(os.path.join(proot, entry))[0] + ".json"
        try:
            got = json.load(open(art))["total"]
        except (OSError, ValueError, KeyError) as e:
            real.append(dict(base, why="no artifact: %s" % e))
            continue
        want = back if pos == "__static__" else expected_total(files, entry)
        if got != want:
            real.append(dict(base, why="imports resolved to other files: total %r, expected %r" % (got, want)))
            continue
        evals = re.findall(r"^TRACE: \"EVAL:([^\"\s]+)\" = ", err, re.M)
        for n in set(evals):
            if evals.count(n) > 1:
                real.append(dict(base, why="file %s was evaluated %d times in one build" % (n, evals.count(n))))
                break
    shutil.rmtree(root, ignore_errors=True)
    cov["evaluations"] = len(jobs)
    cov["distinct_nontrivial"] = stats["projects"]
    cov["rule"] = ("one two-file project per syntactic position of an import (%d positions incl. fail message) plus seeded random project trees "
                   "of 2..8 files in nested directories (30%% with an import cycle), imports spelled with ./, ../ and redundant segments at "
                   "random positions, each built from several working directories (file's directory, project root, a subdirectory of the "
                   "file's directory with a ../ argument, an unrelated directory with absolute and relative arguments); evaluations are "
                   "counted through a TRACE marker in every file; distinct = projects" % (len(POSITIONS) + 1))
    cov["generator_distribution"] = stats
    cov["samples"] = [POSITIONS["map_callback"], POSITIONS["module_out_expr"]]
    cov["traces_validated_against_impl"] = len(jobs)
    ck.assumptions = [
        "the walker table is regenerated from src/ast/walk.rs and src/ast/mod.rs on every run; the behavioural sweep over every position "
        "re-establishes the tie if the translator cannot read the source",
        "symlinks, case-insensitive file systems and a changing cwd are not modelled",
    ]
    if real:
        r0 = min(real, key=lambda r: len(json.dumps(r["project"])))
        ck.violation({"kind": "an import did not resolve against the importing file / was evaluated twice / a cycle was not reported",
                      "failing": r0, "more": len(real) - 1, "broken": broken})
    elif broken:
        ck.violation({"kind": "proof obligation or translator no longer checks", "broken": broken, "theorems": THEOREMS}, nofail=True)
    return ck.finish()


# projects whose imports are the direct value of a top-level let, two levels deep, with one file name in two directories
STATIC_PROJECTS = [
    # the entry file has the same name as the file imported at depth two from another directory: no cycle
    ({"c.ucg": 'let b = import "sub/b.ucg";\nlet total = b.total + 1;\nout json {total = total};\n',
      "sub/b.ucg": 'let c = import "c.ucg";\nlet total = c.v + 10;\n',
      "sub/c.ucg": 'let v = 5;\n'}, "c.ucg", 16),
    # two files of one name export a field of different types; the nested import means the one next to its importer
    ({"main.ucg": 'let b = import "sub/b.ucg";\nlet total = b.name + "x";\nout json {total = total};\n',
      "sub/b.ucg": 'let c = import "c.ucg";\nlet name = c.name + "";\n',
      "sub/c.ucg": 'let name = "s";\n',
      "c.ucg": 'let name = 1;\n'}, "main.ucg", "sx"),
    ({"app/main.ucg": 'let b = import "../lib/b.ucg";\nlet c = import "c.ucg";\nlet total = b.total + c.n;\nout json {total = total};\n',
      "app/c.ucg": 'let n = 100;\n',
      "lib/b.ucg": 'let c = import "./c.ucg";\nlet d = import "../lib/deep/c.ucg";\nlet total = c.n.k + d.n;\n',
      "lib/c.ucg": 'let n = {k = 7};\n',
      "lib/deep/c.ucg": 'let e = import "../../app/c.ucg";\nlet n = e.n + 1;\n'}, "app/main.ucg", 208),
]


def replay(path):
    r = json.load(open(path))
    f = r.get("failing")
    if not f:
        print("no failing input; broken:", json.dumps(r.get("broken"))[:2000])
        return 1
    print(json.dumps(f, indent=1)[:4000])
    return 1
