"""C01 -- compiled evaluation equals the language's definitional semantics."""
import json
import os

import common as C
import programs as P
import semrun as S

PID = "C01"
THEOREMS = []     # filled from props/C01_Props.v when present (see THEOREM_FILE)
THEOREM_FILE = os.path.join(C.COQ, "theories", "props", "C01_Props.v")


def theorem_names():
    import re
    if not os.path.exists(THEOREM_FILE):
        return []
    src = C.strip_comments(open(THEOREM_FILE).read())
    return re.findall(r"^\s*(?:Theorem|Corollary)\s+([A-Za-z0-9_']+)", src, re.M)


def _self(f):
    return ("bin", "DOT", ("sym", "self"), ("sym", f))


_BASE = ("let", "base", ("tuple", [("greeting", ("str", "hi")), ("n", ("int", 2)), ("inner", ("tuple", [("k", ("int", 5))]))]))
TARGETED = [
    # `self` read inside the @{...} of an expression format, inside a callback, a select and a nested copy, all in a copy override
    [_BASE, ("let", "t", ("copy", ("sym", "base"), [("msg", ("fmts", [("e", _self("greeting")), ("s", " there "), ("e", ("sym", "item"))], ("str", "bob")))]))],
    [_BASE, ("let", "t", ("copy", ("sym", "base"), [("l", ("map", ("func", ["x"], ("bin", "Add", ("sym", "x"), _self("n"))), ("list", [("int", 1), ("int", 2)])))]))],
    [_BASE, ("let", "t", ("copy", ("sym", "base"), [("s", ("select", ("str", "a"), ("int", 0), [("a", _self("n"))]))]))],
    [_BASE, ("let", "t", ("copy", ("sym", "base"), [("inner", ("copy", _self("inner"), [("k2", ("bin", "Add", _self("k"), ("int", 1)))]))]))],
    [_BASE, ("let", "t", ("copy", ("sym", "base"), [("m", ("fmts", [("s", "<"), ("e", ("fmts", [("e", _self("n"))], ("int", 0))), ("s", ">")], ("int", 1)))]))],
    [_BASE, ("let", "f", ("func", ["b"], ("copy", ("sym", "b"), [("n2", ("bin", "Mul", _self("n"), ("int", 2)))]))), ("let", "t", ("call", ("sym", "f"), [("sym", "base")]))],
]

# filter / map callbacks answering with every kind of value (not only booleans) over every kind of collection: what is kept must
# be the same for lists, tuples and strings
_COLLS = [("str", "abc"), ("str", ""), ("list", [("int", 1), ("int", 0), ("str", "x")]), ("tuple", [("a", ("int", 1)), ("b", ("str", "s"))])]
_ANSWERS = [lambda x: ("sym", x), lambda x: ("int", 0), lambda x: ("int", 7), lambda x: ("null",), lambda x: ("bool", True), lambda x: ("bool", False),
            lambda x: ("str", ""), lambda x: ("str", "false"), lambda x: ("list", []), lambda x: ("list", [("sym", x)]),
            lambda x: ("bin", "Equal", ("sym", x), ("str", "b")), lambda x: ("tuple", [("k", ("sym", x))]), lambda x: ("float", 0.0)]
for _c in _COLLS:
    for _a in _ANSWERS:
        _ps = ["k", "v"] if _c[0] == "tuple" else ["c"]
        TARGETED.append([("let", "r", ("filter", ("func", _ps, _a(_ps[-1])), _c))])


def gen_batch(rng, n, max_depth):
    progs, counts = [], {}
    for _ in range(n):
        p, c = P.gen_program(rng, rng.randint(1, 12), max_depth=rng.randint(2, max_depth))
        progs.append(p)
        for k, v in c.items():
            counts[k] = counts.get(k, 0) + v
    return progs, counts


def run(tier, seed):
    ck = C.Check(PID, tier, seed, "proof")
    cov = ck.coverage
    thms = theorem_names()
    broken = []
    if thms:
        pr = C.prove(ck, ["theories/props/C01_Props.vo"], "props.C01_Props", thms)
        if not pr["ok"]:
            broken.append({"obligations": "C01_Props", "built": pr["built"], "audit": pr["audit"],
                           "assumptions": pr["assumptions"], "log": pr["log_tail"][-1500:]})
    ok, msg = C.cargo_build()
    if not ok:
        raise RuntimeError("cargo build of /repo failed:\n" + msg[-2000:])
    okm, msg = C.build_model_runner()
    if not okm:
        broken.append({"extraction": msg[-1500:]})
        raise RuntimeError("model runner does not build:\n" + msg[-1500:])
    n = 4000 if tier == "quick" else 20000
    progs, counts = gen_batch(ck.rng, n, 6 if tier == "quick" else 7)
    progs = TARGETED + progs       # constructs nested in a way the generator reaches rarely
    # corpus of earlier disagreements runs first
    texts = [P.prog_text(p) for p in progs]
    impl = S.run_impl(texts)
    model = S.run_model(progs)
    # K1: the model translator emits the real translator's opcode sequence; K2: the VM model behaves like the build
    sexps = [P.prog_sexp(p) for p in progs]
    real_ops = C.harness("ops", texts)
    model_ops = C.model("ops", sexps)
    vm_model = [S.model_outcome(m.replace("bug", "bug", 1)) if not m.startswith("bug") else ("bug", None) for m in C.model("vm", sexps)]
    k1_bad, k2_bad, k1_cmp, in_frag = [], [], 0, 0
    for t, ro, mo, vm, i in zip(texts, real_ops, model_ops, vm_model, impl):
        frag, _, mtext = mo.partition(" ")
        in_frag += frag == "frag"
        if "ok" in ro and "TRACE" not in t:       # the TRACE text operand is a placeholder in the model
            k1_cmp += 1
            if ro["ok"].strip() != mtext.strip():
                k1_bad.append({"source": t, "real_ops": ro["ok"], "model_ops": mtext})
        if vm[0] == "bug":
            k2_bad.append({"source": t, "vm_model": "Bug outcome", "build": i[0]})
        else:
            w = S.compare(i, vm)
            if w and w != "generated text does not parse":
                k2_bad.append({"source": t, "why": w, "vm_model": vm[0], "build": i[0]})
    outcomes = {"ok": 0, "err": 0, "unsup": 0, "fuel": 0}
    real = []
    gen_problems = []
    for p, t, i, m in zip(progs, texts, impl, model):
        outcomes[m[0]] = outcomes.get(m[0], 0) + 1
        why = S.compare(i, m)
        if why is None:
            continue
        if why == "generated text does not parse":
            gen_problems.append({"text": t, "err": i[1][-300:]})
            continue
        real.append({"program": p, "text": t, "why": why, "impl": i, "model": m})
    # the one point where sem/Sem.v follows the implementation against the reference ("&& and || require the expressions on each
    # side to be boolean"): probed on the real evaluator on every run
    probes = ["let x = true && 5;\n", 'let x = false || "s";\n', "let x = true && (1 + 1);\n"]
    pr_res = S.run_impl(probes)
    lenient = [t for t, r in zip(probes, pr_res) if r[0] == "ok"]
    if lenient:
        what = ("the evaluator returns a non-boolean right operand of && / || as it is (%s evaluates), the reference requires a boolean"
                % lenient[0].strip())
        if ck.is_known("C01-and-or-rhs"):
            ck.known_finding("C01-and-or-rhs", what)
        else:
            real.append({"program": None, "text": lenient[0], "why": what, "impl": pr_res[0], "model": ("err", None)})
    cov["programs"] = n
    cov["evaluations"] = n
    cov["distinct_nontrivial"] = len(set(t for t, m in zip(texts, model) if m[0] in ("ok", "err")))
    cov["rule"] = ("seeded typed generator over the expression language (depth<=%d, 1..12 statements, ill-typed/failing sub-terms "
                   "injected), printed with minimal parentheses; non-trivial = the semantics gives a verdict (Ok or Err), i.e. the "
                   "program stays inside the modelled fragment" % (6 if tier == "quick" else 7))
    cov["model_outcomes"] = outcomes
    cov["construct_counts"] = dict(sorted(counts.items()))
    cov["generator_text_rejected_by_parser"] = len(gen_problems)
    cov["samples"] = texts[:3]
    cov["traces_validated_against_impl"] = n
    cov["disagreements_checked"] = len(real)
    cov["k1_opcode_sequences_compared"] = k1_cmp
    cov["k1_opcode_disagreements"] = len(k1_bad)
    cov["k2_vm_model_disagreements"] = len(k2_bad)
    cov["programs_in_proved_fragment"] = in_frag
    ck.assumptions = [
        "the definitional semantics sem/Sem.v was written from the language reference; where the reference is silent the file says which choice it makes",
        "floats: Flocq binary64 in the runner only; float text, float %, regex, import/include/convert/out are outside the model (Unsup, counted not compared)",
        "functions and modules are compared after lowering to NULL (as the build's own result does)",
        "the theorems are about the model translator/VM (vm/*.v); K1 compares the model translator's opcode sequence with the real one "
        "and K2 the VM model's outcome with the build on every generated program",
    ]
    if len(gen_problems) > n // 50:
        broken.append({"generator": "more than 2%% of the generated texts do not parse", "example": gen_problems[0]})
    if real:
        r0 = min(real, key=lambda r: len(r["text"]))

        def still_fails(cand):
            t = P.prog_text(cand)
            i = S.run_impl([t])[0]
            m = S.run_model([cand])[0]
            w = S.compare(i, m)
            return w is not None and w != "generated text does not parse"
        small = S.shrink_program(r0["program"], still_fails)
        t = P.prog_text(small)
        i = S.run_impl([t])[0]
        m = S.run_model([small])[0]
        ck.violation({"kind": "the build binds different values (or a different success/failure) than the definitional semantics",
                      "failing": {"source": t, "build": i, "semantics": m, "why": S.compare(i, m)},
                      "original": {"source": r0["text"], "why": r0["why"]}, "more": len(real) - 1, "broken": broken})
    elif broken or k1_bad or k2_bad:
        ck.violation({"kind": "proof obligation or correspondence no longer checks", "broken": broken, "theorems": thms,
                      "translator_model_disagreements": k1_bad[:3], "vm_model_disagreements": k2_bad[:3]}, nofail=True)
    return ck.finish()


def replay(path):
    r = json.load(open(path))
    f = r.get("failing")
    if not f:
        print("no failing input; broken:", json.dumps(r.get("broken"))[:2000])
        return 1
    C.cargo_build()
    print(f["source"])
    print("build now says:", S.run_impl([f["source"]])[0])
    print("semantics said:", f["semantics"], "|", f["why"])
    return 1
