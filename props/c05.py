"""C05 -- formatting a file never changes its meaning or loses its comments."""
import json
import os
import re

import common as C
import programs as P
import c11

PID = "C05"
THEOREM_FILE = os.path.join(C.COQ, "theories", "props", "C05_Props.v")
COMMENT_TEXTS = ["", " ", "x", " note", "  indented text", " é ☃", " // nested", " trailing   ", "TODO: x = 1;", ' "quoted" ', " let x = 1;", "\t tab"]
LITERALS = [
    "let f0 = 1.0;", "let f1 = 3.0 + 0.5;", "let f2 = 100000000000000000000.0;", "let f3 = 1" + "0" * 300 + ".0;",
    "let f4 = 0.000000000000000000000000000001;", "let f5 = 0." + "0" * 320 + "1;", "let f6 = 123456789.125;", "let f7 = 9007199254740993.0;",
    "let f8 = 0.1;", "let f9 = 2.5e0;"[:0] or "let f9 = 1.5;", "let r0 = 0:10;", "let r1 = 0:2:10;", "let r2 = 10:0 - 1:0;"[:0] or "let r2 = 1:3:20;",
    'let s0 = "tab\\there";', 'let s1 = "quote \\" and \\\\ backslash";', 'let s2 = "line\\nbreak";', 'let s3 = "é ☃ 日本 😀";', 'let s4 = "";',
    'let s5 = "a\nliteral newline";', 'let s6 = "Host: x\\r\\nAccept: y\\r\\n";', 'let s7 = "cr\\ralone and \\n\\r swapped";',
    'let s8 = "raw\r\ncrlf inside";', 'let t0 = {"quoted name" = 1, plain = 2, "with-dash" = 3, "k1" = 4};', "let i0 = 9223372036854775807;",
    'let e0 = "@ and \\@ and @{1 + 1}" % (1);', "let n0 = NULL;", "let b0 = true && false || not true;",
    # field names that are literals, keywords, numbers, empty or need quoting, in every place a field name is written
    'let q0 = {"NULL" = 1, "true" = 2, "false" = 3, "let" = 4, "in" = 5, "self" = 6, "1" = 7, "a b" = 8, "" = 9, "NULLABLE" = 10, "trueish" = 11, "not" = 12};',
    'let q1 = {a = 1}{"NULL" = 2, "select" = 3};', 'let q2 = select ("NULL", 0) => {"NULL" = 1, "true" = 2, "is" = 3};',
    'let q3 = module {"NULL" = 1, "func" = 2} => { let x = 1; };', 'let q4 = {"NULL" = {"NULL" = [{"false" = 1}]}};', 'let q5 = {"env" = 1, "mod" = 2, "out" = 3};',
]


def theorem_names():
    if not os.path.exists(THEOREM_FILE):
        return []
    src = C.strip_comments(open(THEOREM_FILE).read())
    return re.findall(r"^\s*(?:Theorem|Corollary)\s+([A-Za-z0-9_']+)", src, re.M)


def scan_comments(text):
    """the comments of a source text, by an independent scanner: // outside string literals up to the line end"""
    out = []
    i, n = 0, len(text)
    while i < n:
        c = text[i]
        if c == '"':
            i += 1
            while i < n and text[i] != '"':
                i += 2 if text[i] == "\\" else 1
            i += 1
        elif c == "/" and text[i:i + 2] == "//":
            j = text.find("\n", i)
            j = n if j < 0 else j
            out.append(text[i + 2:j].rstrip("\r"))
            i = j
        else:
            i += 1
    return out


def norm_comment(t):
    return t.strip()


def layout(rng, toks, profile):
    """re-render a token list with random separators; returns (text, comments inserted in order)"""
    out = []
    comments = []
    depth = 0
    prev = None
    for k, tok in enumerate(toks):
        t, f = tok
        if prev is not None:
            at_stmt_start = depth == 0 and prev == ("PUNCT", ";")
            need = c11.needs_sep(prev, tok)
            choices = [" ", " ", "\n", "\n  ", "  ", "\n\n", "\t"] + ([] if need else ["", ""])
            sep = rng.choice(choices)
            want_comment = rng.random() < (0.25 if at_stmt_start else (0.06 if profile == "anywhere" else 0.0))
            if profile == "none":
                want_comment = False
            if want_comment:
                if at_stmt_start or profile != "anywhere":
                    # comment lines of their own between statements
                    lines = []
                    for _ in range(rng.choice([1, 1, 2, 3])):
                        c = rng.choice(COMMENT_TEXTS)
                        lines.append("//" + c)
                        comments.append(c)
                    sep = "\n" + "\n".join(lines) + "\n"
                else:
                    c = rng.choice(COMMENT_TEXTS)
                    comments.append(c)
                    sep = rng.choice(["", " ", "\n  "]) + "//" + c + "\n" + rng.choice(["", "  "])
            out.append(sep)
        if f in ("(", "[", "{"):
            depth += 1
        elif f in (")", "]", "}"):
            depth -= 1
        # trailing comma before a closing bracket of a list / tuple
        if t == "PUNCT" and f in ("]", "}") and prev is not None and prev[1] not in ("[", "{", ",", ";") and rng.random() < 0.3:
            out.append(",")
        out.append(c11.src_of(tok, rng) if t == "QUOTED" and "\n" not in f else (json_str(f) if t == "QUOTED" else f))
        prev = tok
    text = "".join(out)
    if profile != "none" and rng.random() < 0.5:
        c = rng.choice(COMMENT_TEXTS)
        text = "//" + c + "\n" + text
        comments.insert(0, c)
    return text + "\n", comments


def json_str(s):
    return '"' + s.replace("\\", "\\\\").replace('"', '\\"') + '"'


def quote_fields(rng, text):
    """quote some plain tuple field names"""
    def rep(m):
        return m.group(1) + '"' + m.group(2) + '"' + m.group(3) if rng.random() < 0.3 else m.group(0)
    return re.sub(r"([{,]\s*)([a-z_][a-z0-9_]*)(\s*=[^=>])", rep, text)


def run(tier, seed):
    thms = theorem_names()
    ck = C.Check(PID, tier, seed, "proof" if thms else "exploration")
    cov = ck.coverage
    broken = []
    if thms:
        pr = C.prove(ck, ["theories/props/C05_Props.vo"], "props.C05_Props", thms)
        if not pr["ok"]:
            broken.append({"obligations": "C05_Props", "built": pr["built"], "audit": pr["audit"],
                           "assumptions": pr["assumptions"], "log": pr["log_tail"][-1500:]})
    ok, msg = C.cargo_build()
    if not ok:
        raise RuntimeError("cargo build of /repo failed:\n" + msg[-2000:])
    rng = ck.rng
    n = 250 if tier == "quick" else 4000
    canon = []
    model_progs = []
    for i in range(n):
        prog, _ = P.gen_program(rng, rng.randint(1, 7), max_depth=4, p_bad=0.0)
        t = P.prog_text(prog)
        model_progs.append((prog, t))
        if rng.random() < 0.5:
            t += "\n".join(rng.sample(LITERALS, rng.randint(1, 4))) + "\n"
        canon.append(t)
    canon += [l + "\n" for l in LITERALS]
    # a float literal beyond the range of f64: either rejected by the parser or formatted to something that means the same
    canon += ["let big = 1" + "0" * 400 + ".0;\n", "let big = {v = 17976931348623157" + "0" * 300 + ".0};\n"]
    toks = C.harness("tokens", canon)
    asts = C.harness("ast", canon)
    cases = []        # (text, comments or None, profile, canonical ast)
    skipped = 0
    for t, tk, a in zip(canon, toks, asts):
        if "ok" not in tk or "ok" not in a:
            skipped += 1
            continue
        tl = [(x[0], x[1]) for x in tk["ok"] if x[0] != "END"]
        cases.append((t, [], "none", a["ok"]))          # the text as the generator wrote it (escape sequences as escapes)
        for profile in ("none", "between", "anywhere"):
            text, comments = layout(rng, tl, profile)
            if rng.random() < 0.4:
                text = quote_fields(rng, text)
            cases.append((text, comments, profile, a["ok"]))
    # every .ucg file of the repository
    files = []
    for root, _, fs in os.walk(C.REPO):
        if "/target" in root or "/.git" in root:
            continue
        for f in fs:
            if f.endswith(".ucg"):
                p = os.path.join(root, f)
                try:
                    files.append((p, open(p, encoding="utf-8").read()))
                except UnicodeDecodeError:
                    pass
    for p, t in sorted(files):
        cases.append((t, None, "file:" + os.path.relpath(p, C.REPO), None))
    texts = [c[0] for c in cases]
    ast_in = C.harness("ast", texts)
    fmt1 = C.harness("fmt", texts)
    outs = [(r["ok"].get("utf8") if "ok" in r else None) for r in fmt1]
    idx2 = [i for i, o in enumerate(outs) if o is not None]
    ast_out = dict(zip(idx2, C.harness("ast", [outs[i] for i in idx2])))
    fmt2 = dict(zip(idx2, C.harness("fmt", [outs[i] for i in idx2])))
    real = []
    stats = {"layouts_discarded": 0, "checked": 0, "fixed_point_checked": 0, "files": 0, "files_fixed_point": 0}
    for i, (text, comments, profile, cast) in enumerate(cases):
        a_in = ast_in[i]
        base = {"source": text, "profile": profile}
        if "ok" not in a_in or (cast is not None and a_in["ok"] != cast):
            if profile.startswith("file:") and "ok" not in a_in:
                continue            # files that are not meant to parse (error examples)
            stats["layouts_discarded"] += 1          # the random layout is not a layout of the program (e.g. a trailing comma in the wrong place)
            continue
        stats["checked"] += 1
        if outs[i] is None:
            real.append(dict(base, why="the formatter failed on a program that parses: %r" % (fmt1[i],)))
            continue
        out = outs[i]
        a_out = ast_out[i]
        if "ok" not in a_out:
            real.append(dict(base, why="the formatted text does not parse: " + str(a_out.get("err"))[:200], formatted=out))
            continue
        if a_out["ok"] != a_in["ok"]:
            real.append(dict(base, why="the formatted text parses to a different program", formatted=out,
                             ast_before=a_in["ok"][:600], ast_after=a_out["ok"][:600]))
            continue
        want = [norm_comment(c) for c in (comments if comments is not None else scan_comments(text))]
        got = [norm_comment(c) for c in scan_comments(out)]
        if got != want:
            real.append(dict(base, why="the comments of the formatted text differ from the original's (text or order)", formatted=out,
                             comments_before=want, comments_after=got))
            continue
        own_lines = profile in ("none", "between") or (profile.startswith("file:") and comments_between_statements(text))
        if profile.startswith("file:"):
            stats["files"] += 1
        if own_lines:
            stats["fixed_point_checked"] += 1
            again = fmt2[i]
            again_t = again["ok"].get("utf8") if "ok" in again else None
            if again_t != out:
                real.append(dict(base, why="formatting the formatted text changes it again", formatted=out, formatted_twice=again_t))
                continue
            if profile.startswith("file:"):
                stats["files_fixed_point"] += 1
    # ---- correspondence with the Coq model (print/Print.v, extracted): the printer byte for byte on comment-free programs,
    # and the tokenizer's comment map on the laid-out texts
    corr = []
    okm, mmsg = C.build_model_runner()
    npp = ncm = 0
    if not okm:
        broken.append({"extraction": mmsg[-1500:]})
    else:
        sub = [(p, t) for p, t in model_progs if "%" not in t]          # template text is canonicalised by the model: compared separately
        mo = C.model("print_pp", ["(2 (%s))" % " ".join(P.stmt_sexp(x) for x in p) for p, _ in sub])
        ro = C.harness("fmt", [t for _, t in sub])
        for (p, t), m, r in zip(sub, mo, ro):
            if "ok" not in r or not m.startswith("x"):
                continue
            npp += 1
            if C.unhex(m).decode("utf-8", "replace") != r["ok"].get("utf8"):
                corr.append({"source": t, "why": "the printer model and AstPrinter write different text", "model": C.unhex(m).decode("utf-8", "replace")[:400],
                             "printer": (r["ok"].get("utf8") or "")[:400], "correspondence": "print/Print.v pp_stmts vs AstPrinter::render"})
        cm_texts = [c[0] for c in cases if c[1]][: (300 if tier == "quick" else 3000)]
        mcm = C.model("print_cmap", [C.hexs(t) for t in cm_texts])
        rcm = C.harness("tokens_cm", cm_texts)
        import sx
        for t, m, r in zip(cm_texts, mcm, rcm):
            if "cm" not in r or m == "err" or m.startswith("error"):
                continue
            ncm += 1
            want = [[k, [f[1] for f in grp]] for k, grp in r["cm"]]
            got = [[int(g[0]), [C.unhex(f).decode("utf-8", "replace") for f in g[1]]] for g in sx.parse(m)]
            if got != want:
                corr.append({"source": t, "why": "the comment map of the model differs from the tokenizer's", "model": got, "tokenizer": want,
                             "correspondence": "print/Print.v comment_map_of vs tokenize(.., Some(map))"})
    # ---- the parser model (parse/Parse.v, extracted) against the real parser: accept/reject and the position-free AST on the
    # laid-out texts; and the executable conclusions of the round-trip theorems on the generated programs
    npar = nrt = in_thm = 0
    if okm:
        import struct

        def norm_floats(dump, bits):
            def rep(m):
                try:
                    v = struct.unpack(">d", struct.pack(">Q", int(m.group(1))))[0] if bits else float(m.group(1))
                except (ValueError, struct.error, OverflowError):
                    return m.group(0)
                return "(Float %r)" % v
            return re.sub(r"\(Float ([^()\s]+)\)", rep, dump)
        ptexts = [c[0] for c in cases if not c[2].startswith("file:")][: (600 if tier == "quick" else 6000)]
        pm = C.model("parse_src", [C.hexs(t) for t in ptexts])
        pr2 = C.harness("ast", ptexts)
        for t, m, r in zip(ptexts, pm, pr2):
            if m in ("unsup", "fuel") or m.startswith("error"):
                if m != "unsup":
                    corr.append({"source": t, "why": "parser model: " + m[:100]})
                continue
            npar += 1
            if ("ok" in r) != m.startswith("ok "):
                corr.append({"source": t, "why": "the parser model %s the text, the real parser %s it" %
                             ("accepts" if m.startswith("ok ") else "rejects", "accepts" if "ok" in r else "rejects"),
                             "correspondence": "parse/Parse.v parse_src vs ucglib::parse::parse"})
            elif "ok" in r and norm_floats(m[3:], True) != norm_floats(r["ok"], False):
                corr.append({"source": t, "why": "the parser model and the real parser build different trees", "model": m[3:400], "parser": r["ok"][:400],
                             "correspondence": "parse/Parse.v parse_src vs ucglib::parse::parse"})
        rt = C.model("parse_rt", ["(2 (%s))" % " ".join(P.stmt_sexp(x) for x in p) for p, _ in model_progs])
        for (p, t), flags in zip(model_progs, rt):
            f = flags.split()
            if len(f) not in (6, 8):
                continue
            nrt += 1
            if len(f) == 8:
                in_thm += f[0] == "1" and f[6] == "1"
            if f[0] == "1" and (len(f) == 6 or f[6] == "1") and not (f[2] == f[3] == f[4] == "1" and (len(f) == 6 or f[7] == "1")):
                corr.append({"source": t, "why": "a program inside the round-trip theorems' side condition (prog_ok) does not round-trip in the "
                                                 "extracted model: tokens=%s lex-of-print=%s print-lex-parse=%s" % (f[2], f[3], f[4])})
    cov["model_parses_compared"] = npar
    cov["model_roundtrips_checked"] = nrt
    cov["generated_programs_inside_the_roundtrip_theorems"] = in_thm
    cov["model_printer_outputs_compared"] = npp
    cov["model_comment_maps_compared"] = ncm
    cov["evaluations"] = len(cases)
    cov["distinct_nontrivial"] = len(set(texts))
    cov["rule"] = ("programs of the C01 generator plus a pool of literal forms (floats with zero fraction, very large/small floats, ranges with a step, "
                   "escapes, non-ASCII text, quoted field names), each re-laid-out at token level three ways (no comments / comment lines of their "
                   "own between statements / comments anywhere incl. glued to keywords and operands; random blanks, line breaks, indentation, "
                   "trailing commas, quoted field names; blank and whitespace-only comments); plus every .ucg file of the repository. AST equality "
                   "(positions and quoting ignored) before/after, comment texts in order by an independent scanner, fixed point where the "
                   "property claims it")
    cov["outcomes"] = stats
    cov["generated_canonical_skipped"] = skipped
    cov["samples"] = [cases[1][0][:500], cases[2][0][:500]]
    cov["traces_validated_against_impl"] = stats["checked"]
    ck.assumptions = ["comment texts are compared after trimming blanks at both ends (the formatter writes '// text')",
                      "the fixed-point clause is checked for layouts whose comments are lines of their own between top-level statements, and for repository "
                      "files whose comments all start a line outside brackets"]
    if real:
        r0 = min(real, key=lambda r: len(r["source"]))
        by = {}
        for r in real:
            by[r["why"][:70]] = by.get(r["why"][:70], 0) + 1
        ck.violation({"kind": "ucg fmt changed a program or its comments", "failing": r0, "more": len(real) - 1, "by_kind": by, "broken": broken})
    elif corr:
        r0 = min(corr, key=lambda r: len(r["source"]))
        ck.violation({"kind": "the printer model no longer corresponds to the printer; no input was found on which ucg fmt contradicts the property",
                      "failing": r0, "more": len(corr) - 1, "broken": broken}, nofail=True)
    elif broken:
        ck.violation({"kind": "proof obligation no longer checks", "broken": broken, "theorems": thms}, nofail=True)
    return ck.finish()


def comments_between_statements(text):
    """every comment of the file starts a line and sits outside brackets"""
    depth = 0
    i, n = 0, len(text)
    line_start = True
    while i < n:
        c = text[i]
        if c == '"':
            i += 1
            while i < n and text[i] != '"':
                i += 2 if text[i] == "\\" else 1
            i += 1
            line_start = False
            continue
        if text[i:i + 2] == "//":
            if depth != 0 or not line_start:
                return False
            j = text.find("\n", i)
            i = n if j < 0 else j
            continue
        if c in "([{":
            depth += 1
        elif c in ")]}":
            depth -= 1
        if c == "\n":
            line_start = True
        elif c not in " \t\r":
            line_start = False
        i += 1
    return True


def replay(path):
    r = json.load(open(path))
    f = r.get("failing")
    if not f:
        print(json.dumps(r.get("broken"))[:2000])
        return 1
    C.cargo_build()
    print(f["source"])
    print(C.harness("fmt", [f["source"]])[0])
    print("recorded:", f["why"])
    return 1
