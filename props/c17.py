"""C17 -- syntax and evaluation errors point at the statement that causes them."""
import json
import os
import re

import common as C
import programs as P

PID = "C17"
THEOREM_FILE = os.path.join(C.COQ, "theories", "props", "C17_Props.v")

# every kind in several forms: literal operands, operands bound in an earlier statement, and operands that are the
# result of calling a function defined in an earlier statement (the prelude below)
FAULTS = {
    "unknown_name": ["undefined_name_zz", "(iv + undefined_name_zz)", "strf(undefined_name_zz)", "tv.a + undefined_zz.b"],
    "type_mismatch": ['(1 + "s")', "(1 + strf(1))", "(strf(1) + 1)", "(iv + sv)", "(sv + iv)", "not strf(1)", "(strf(1) && true)",
                      "(iv == sv)", "(1 < sv)", "iv(1)", "([1] + intf(1))", "(1 in iv)", 'tv{a = "s"}', "(intf(2) * strf(1))",
                      "(1 + rec.s)", "(iv + rec.l.0)", "not rec.s", "(rec.s && true)", "(rec.n + rec.s)", "tv{a = rec.s}", "rec.n(1)"],
    "missing_field": ["{a = 1}.nope", "tupf(1).nope", "tv.nope", "tv.(sv)", "tupf(1).a.b"],
    "missing_index": ["[1, 2].7", "lv.7", "lstf(1).5", "lv.(iv)"],
    "unhandled_select": ['select ("zz") => {a = 1}', "select (strf(1)) => {a = 1}", "select (sv) => {a = 1, b = 2}"],
    "failed_cast": ['int("x12")', "int(strf(1))", "int(sv)", "float(sv)", "float(strf(1))", "int(rec.s)", "float(rec.l.0)"],
    "fail_expr": ['(fail "boom")', "(fail sv)", '(fail "x @" % (iv))', "(fail strf(1))"],
}
PRELUDE = ['let strf = func (x) => "s";', "let intf = func (x) => x + 1;", "let tupf = func (x) => {a = x};",
           "let lstf = func (x) => [x, x];", 'let sv = "x12";', "let iv = 7;", "let tv = {a = 1};", "let lv = [1, 2];",
           'let rec = {s = "x12", n = 3, l = ["b", 2], f = func (x) => x};']
NESTINGS = ["top", "tuple_field", "list_elem", "call_arg", "select_arm", "func_body", "template_expr", "module_body", "module_out",
            "module_result", "field_func_body", "same_name_before", "map_callback", "map_tuple_callback", "filter_callback", "reduce_callback"]
SYNTAX = [("=", ""), (";", ""), ("(", ""), (")", ""), ("{", ""), ("}", ")"), ("=", "=="), (",", ";")]


TEMPLATE_TEXTS = [
    'let a = 1;\n\n\nlet x = "@{item}" % 1;\n',
    'let a = 1;\nlet b = 2;\n\n// c\nlet x = "v: @{item.a} and @{ item.a + 1 } end" % {a = 1};\nlet y = 3;\n',
    'let t = {a = 1};\nlet x = "first line\nsecond @{item.a} line\nthird @{item.a} x" % t;\nlet z = 1;\n',
    'let t = {a = 1};\nlet x = "q\\"uote @{item.a} back\\\\slash @{item.a}" % t;\n',
    'let t = {a = 1};\nlet x = "\u00e9t\u00e9 \u65e5\u672c @{item.a} z @{item.a}" % t;\n',
    'let f = func (t) => "in func @{t.a + item}" % 1;\nlet m = module {a = 1} => (r) {\n  let r = "m @{mod.a + item}" % 2;\n};\n',
    'let l = [\n  "a @{item}" % 1,\n  "b\n @{item}" % 2,\n  select ("x", "d @{item}" % 3) => { x = "e @{item}" % 4 },\n];\n',
]


def theorem_names():
    if not os.path.exists(THEOREM_FILE):
        return []
    src = C.strip_comments(open(THEOREM_FILE).read())
    return re.findall(r"^\s*(?:Theorem|Corollary)\s+([A-Za-z0-9_']+)", src, re.M)


def multiline(stmt_text, rng):
    """lay a statement out over several lines (line breaks after commas / opening brackets outside strings)"""
    out = []
    instr = False
    depth = 0
    i = 0
    while i < len(stmt_text):
        ch = stmt_text[i]
        out.append(ch)
        if ch == '"' and (i == 0 or stmt_text[i - 1] != "\\"):
            instr = not instr
        if not instr:
            if ch in "([{":
                depth += 1
                if rng.random() < 0.4:
                    out.append("\n" + "  " * depth)
            elif ch in ")]}":
                depth -= 1
            elif ch == "," and rng.random() < 0.6:
                out.append("\n" + "  " * depth)
        i += 1
    return "".join(out).replace("\n  " * 1 + " ", "\n  ")


def filler(rng, idx):
    k = rng.random()
    if k < 0.3:
        return "let ok%d = {name = \"n%d\", port = %d, tags = [\"a\", \"b\"]};" % (idx, idx, rng.randint(1, 9999))
    if k < 0.5:
        return "let ok%d = [%s];" % (idx, ", ".join(str(rng.randint(0, 99)) for _ in range(rng.randint(1, 5))))
    if k < 0.7:
        return "let ok%d = %d + %d * 2;" % (idx, rng.randint(0, 9), rng.randint(0, 9))
    if k < 0.85:
        return "let ok%d = select (\"a\", 0) => {a = %d, b = 2};" % (idx, rng.randint(0, 9))
    return "let ok%d = \"v=@\" %% (%d);" % (idx, rng.randint(0, 9))


def fault_statements(kind, nesting, tag):
    """-> (statements defining the fault, index of the statement whose span must contain the primary position,
           index of the calling statement for func_body or None)"""
    F = kind
    if nesting == "top":
        return ["let bad%s = %s;" % (tag, F)], 0, None
    if nesting == "tuple_field":
        return ["let bad%s = {first = 1, second = %s, third = 3};" % (tag, F)], 0, None
    if nesting == "list_elem":
        return ["let bad%s = [1, %s, 3];" % (tag, F)], 0, None
    if nesting == "call_arg":
        return ["let idf%s = func (x) => x;" % tag, "let bad%s = idf%s(%s);" % (tag, tag, F)], 1, None
    if nesting == "select_arm":
        return ["let bad%s = select (\"a\", 0) => {a = %s, b = 2};" % (tag, F)], 0, None
    if nesting == "template_expr":
        # the fault sits inside @{...} of a format string (re-tokenized by the template parser)
        return ["let bad%s = \"pre @{%s} post\" %% tv;" % (tag, F.replace('"', '\\"'))], 0, None
    if nesting == "module_result":
        # the faulty operand is the value a module's out expression produced: the fault is where it is USED
        use = "int(mr%s{})" % tag if "int(" in F or "float(" in F else "(mr%s{} + 1)" % tag
        return ["let mr%s = module {} => (v) {\n  let v = \"x12\";\n};" % tag, "let bad%s = %s;" % (tag, use)], 1, None
    if nesting == "module_body":
        # the fault is in the body of a module defined here and instantiated two statements later
        return ["let m%s = module {p = 1} => {\n  let inner = %s;\n};" % (tag, F), "let keep%s = 1;" % tag, "let bad%s = m%s{};" % (tag, tag)], 0, 2
    if nesting == "module_out":
        # ... in the out expression of the module
        return ["let m%s = module {p = 1} => ([mod.p, %s]) {\n  let inner = 1;\n};" % (tag, F), "let keep%s = 1;" % tag,
                "let bad%s = m%s{};" % (tag, tag)], 0, 2
    if nesting == "func_body":
        return ["let g%s = func (x) => [x, %s];" % (tag, F), "let keep%s = 1;" % tag, "let bad%s = g%s(1);" % (tag, tag)], 0, 2
    if nesting == "same_name_before":
        # the statement before the faulty one refers to the same name as the faulty operand, and to nothing else
        m = re.search(r"\b(sv|iv|tv|lv|rec|strf|intf|tupf|lstf)\b", F)
        if m:
            return ["let pre%s = %s;" % (tag, m.group(1)), "let bad%s = %s;" % (tag, F)], 1, None
        return ["let bad%s = %s;" % (tag, F)], 0, None
    if nesting == "field_func_body":
        # the faulty function is stored in a tuple field and called through a selector two statements later
        return ["let h%s = {k = 1, f = func (x) => [x, %s]};" % (tag, F), "let keep%s = 1;" % tag, "let bad%s = h%s.f(1);" % (tag, tag)], 0, 2
    if nesting in ("map_callback", "filter_callback", "reduce_callback", "map_tuple_callback"):
        # the fault is in the body of a function used as the callback of map/filter/reduce over a collection written in an
        # earlier statement: the calling statement (not the collection's) is on the path to the fault
        coll = "{a = 1, b = 2}" if nesting == "map_tuple_callback" else "[1, 2, 3]"
        params = {"map_callback": "(x)", "filter_callback": "(x)", "reduce_callback": "(acc, x)", "map_tuple_callback": "(k, v)"}[nesting]
        call = {"map_callback": "map(cb%s, items%s)", "filter_callback": "filter(cb%s, items%s)",
                "reduce_callback": "reduce(cb%s, 0, items%s)", "map_tuple_callback": "map(cb%s, items%s)"}[nesting] % (tag, tag)
        return ["let items%s = %s;" % (tag, coll), "let cb%s = func %s => [1, %s];" % (tag, params, F), "let keep%s = 1;" % tag,
                "let bad%s = %s;" % (tag, call)], 1, 3
    raise ValueError(nesting)


def build_program(rng, n, k, fault):
    """n filler statements with the fault statements inserted at position k; returns (text, spans, fault_idx, call_idx)"""
    stmts = [filler(rng, i) for i in range(n)]
    fstmts, fi, ci = fault
    stmts = PRELUDE + stmts[:k] + fstmts + stmts[k:]
    fault_idx = len(PRELUDE) + k + fi
    call_idx = None if ci is None else len(PRELUDE) + k + ci
    lines = []
    spans = []
    for s in stmts:
        t = multiline(s, rng)
        if s in PRELUDE and "=>" in s:
            t = s.replace("=> ", "=>\n  ")     # the body of a helper function sits on a line of its own
        if rng.random() < 0.3:
            lines.append("// a comment line")
        start = len(lines) + 1
        tl = t.split("\n")
        lines.extend(tl)
        spans.append((start, len(lines)))
        if rng.random() < 0.3:
            lines.append("")
    return "\n".join(lines) + "\n", spans, fault_idx, call_idx


POS_RE = re.compile(r"line: (\d+) column: (\d+)")


def positions(err):
    """(primary (line, col), [via lines])"""
    via = []
    primary = None
    for line in err.split("\n"):
        m = POS_RE.findall(line)
        if not m:
            continue
        if line.strip().startswith("VIA"):
            via += [int(a) for a, _ in m]
        else:
            primary = (int(m[-1][0]), int(m[-1][1]))     # the innermost cause is reported last
    return primary, via


def run(tier, seed):
    thms = theorem_names()
    ck = C.Check(PID, tier, seed, "proof" if thms else "exploration")
    cov = ck.coverage
    broken = []
    if thms:
        pr = C.prove(ck, ["theories/props/C17_Props.vo"], "props.C17_Props", thms)
        if not pr["ok"]:
            broken.append({"obligations": "C17_Props", "built": pr["built"], "audit": pr["audit"],
                           "assumptions": pr["assumptions"], "log": pr["log_tail"][-1500:]})
    ok, msg = C.cargo_build()
    if not ok:
        raise RuntimeError("cargo build of /repo failed:\n" + msg[-2000:])
    rng = ck.rng
    cases = []
    reps = 1 if tier == "quick" else 6
    tagn = 0
    for kind in FAULTS:
      for form in FAULTS[kind]:
        for nesting in NESTINGS:
            for _ in range(reps):
                n = rng.randint(2, 9)
                for k in ([rng.choice([0, n // 2, n])] if tier == "quick" else range(0, n + 1)):
                    tagn += 1
                    fault = fault_statements(form, nesting, str(tagn))
                    st = rng.getstate()
                    text, spans, fi, ci = build_program(rng, n, k, fault)
                    cases.append({"kind": kind, "form": form, "nesting": nesting, "text": text, "spans": spans, "fault": fi, "call": ci, "extra": 0})
                    # the same program with 1..3 unrelated statements inserted before: positions move by the lines added
                    extra = rng.randint(1, 3)
                    pre = "".join("let pre%d_%d = %d;\n" % (tagn, j, j) for j in range(extra))
                    cases.append({"kind": kind, "form": form, "nesting": nesting, "text": pre + text,
                                  "spans": [(a + extra, bb + extra) for a, bb in spans], "fault": fi, "call": ci, "extra": extra,
                                  "base": len(cases) - 1})
    # syntax faults: replace one token of a valid multi-statement program
    for _ in range(60 if tier == "quick" else 600):
        n = rng.randint(3, 8)
        text, spans, _, _ = build_program(rng, n, 0, ([], 0, None))
        k = rng.randrange(len(spans))
        ls = text.split("\n")
        a, bb = spans[k]
        old, new = rng.choice(SYNTAX)
        seg = "\n".join(ls[a - 1:bb])
        idxs = [m.start() for m in re.finditer(re.escape(old), seg) if seg[:m.start()].count('"') % 2 == 0]
        if not idxs:
            continue
        i = rng.choice(idxs)
        seg2 = seg[:i] + new + seg[i + len(old):]
        text2 = "\n".join(ls[:a - 1] + seg2.split("\n") + ls[bb:])
        cases.append({"kind": "syntax", "nesting": "token:%s->%s" % (old, new or "(deleted)"), "text": text2, "spans": spans,
                      "fault": k, "call": None, "extra": 0})
    res = C.harness("eval", [{"src": c["text"], "strict": True} for c in cases])
    real = []
    stats = {}
    for c, r in zip(cases, res):
        key = c["kind"] + "/" + c["nesting"].split(":")[0]
        stats[key] = stats.get(key, 0) + 1
        if "panic" in r or "crash" in r:
            real.append({"source": c["text"], "why": "panic instead of a diagnostic: %r" % (r,), "kind": c["kind"], "form": c.get("form"), "nesting": c["nesting"]})
            continue
        if "ok" in r:
            if c["kind"] == "syntax":
                continue        # the replacement happened to yield another valid program
            real.append({"source": c["text"], "why": "the fault did not produce a diagnostic", "kind": c["kind"], "form": c.get("form"), "nesting": c["nesting"]})
            continue
        primary, via = positions(r["err"])
        c["primary"] = primary
        a, bb = c["spans"][c["fault"]]
        if primary is None:
            real.append({"source": c["text"], "why": "the diagnostic carries no position", "diagnostic": r["err"][-400:],
                         "kind": c["kind"], "form": c.get("form"), "nesting": c["nesting"]})
            continue
        inside = a <= primary[0] <= bb
        if c["kind"] == "syntax":
            # a syntax error may legitimately be noticed at the first token after the statement; never before it or further on
            nxt = c["spans"][c["fault"] + 1][0] if c["fault"] + 1 < len(c["spans"]) else bb + 2
            inside = a <= primary[0] <= max(bb, nxt)
        if not inside:
            real.append({"source": c["text"], "why": "primary position line %d is outside the faulty statement (lines %d-%d)" % (primary[0], a, bb),
                         "diagnostic": r["err"][-500:], "kind": c["kind"], "form": c.get("form"), "nesting": c["nesting"]})
            continue
        if c["call"] is not None:
            ca, cb = c["spans"][c["call"]]
            if not any(ca <= v <= cb for v in via):
                real.append({"source": c["text"], "why": "the calling statement (lines %d-%d) is not listed in the diagnostic" % (ca, cb),
                             "diagnostic": r["err"][-500:], "kind": c["kind"], "form": c.get("form"), "nesting": c["nesting"]})
                continue
        if c["extra"]:
            base = cases[c["base"]]
            bp = base.get("primary")
            if bp is not None and (primary[0] - c["extra"], primary[1]) != bp:
                real.append({"source": c["text"], "why": "position moved by something else than the %d lines added before: %r vs %r"
                             % (c["extra"], bp, primary), "kind": c["kind"], "form": c.get("form"), "nesting": c["nesting"]})
    # ---- correspondence of the positioned translator (pos/PTranslate.v, extracted) with translate.rs: the real parser's
    # positioned AST goes through the model, the (op, line, column) lists must be equal
    corr = []
    ncmp = ntriples = 0
    okm, mmsg = C.build_model_runner()
    probe_bin = os.path.join(C.TARGET, "debug", "posprobe")
    if not okm:
        broken.append({"extraction": mmsg[-1500:]})
    elif not os.path.exists(probe_bin):
        note = os.path.join(C.CACHE, "posprobe.err")
        broken.append({"correspondence": "pos/PTranslate.v vs translate.rs: the positioned-AST probe no longer builds against /repo",
                       "log": open(note).read()[-1200:] if os.path.exists(note) else ""})
    else:
        import shutil
        import subprocess
        import programs as P2
        root = os.path.join(C.scratch_root(), "c17-%d" % os.getpid())
        shutil.rmtree(root, ignore_errors=True)
        os.makedirs(root)
        texts = [c["text"] for c in cases if c["kind"] != "syntax"][: (150 if tier == "quick" else 1500)]
        for _ in range(250 if tier == "quick" else 4000):
            pr_, _c = P2.gen_program(rng, rng.randint(1, 6), max_depth=4, p_bad=0.0)
            t = P2.prog_text(pr_).replace(", ", ",\n  ")
            if rng.random() < 0.5:
                t = "\n" * rng.randint(1, 4) + t
            texts.append(t)
        texts += TEMPLATE_TEXTS
        paths = []
        for i, t in enumerate(texts):
            pth = os.path.join(root, "p%d.ucg" % i)
            open(pth, "w").write(t)
            paths.append(pth)
        pp = subprocess.run([os.path.join(C.TARGET, "debug", "posprobe")], input="\n".join(paths) + "\n", capture_output=True, text=True,
                            env=C.ENV, timeout=1200)
        blocks = {}
        cur = None
        for line in pp.stdout.split("\n"):
            if line.startswith("FILE "):
                cur = line[5:]
                blocks[cur] = {}
            elif cur and " " in line:
                k, _, v = line.partition(" ")
                blocks[cur][k] = v
        todo = [(pth, t, blocks.get(pth, {})) for pth, t in zip(paths, texts)]
        todo = [(pth, t, b_) for pth, t, b_ in todo if "AST" in b_ and "OPS" in b_]
        mo = C.model("pos", ["AST " + b_["AST"] for _, _, b_ in todo])
        for (pth, t, b_), m in zip(todo, mo):
            parts = dict(x.split(" ", 1) for x in m.split("\t") if " " in x)
            if "MOPS" not in parts:
                corr.append({"source": t, "why": "positioned model: " + m[:200]})
                continue
            ncmp += 1
            real_ops = [o for o in b_["OPS"].split(" ") if o]
            model_ops = [o for o in parts["MOPS"].split(" ") if o]
            ntriples += len(real_ops)
            mask = lambda o: re.sub(r"^Val:Str:x[0-9a-f]*@", "Val:Str:*@", o)
            trace_ph = "Val:Str:x" + "<expr>".encode().hex()
            same = len(real_ops) == len(model_ops) and all(a == b2 or (b2.startswith(trace_ph) and mask(a) == mask(b2))
                                                             for a, b2 in zip(real_ops, model_ops))
            if not same:
                k = next((j for j, (a, b2) in enumerate(zip(real_ops, model_ops)) if a != b2 and not b2.startswith(trace_ph)), min(len(real_ops), len(model_ops)))
                corr.append({"source": t, "why": "the positioned translator model and translate.rs differ at op %d: real %s, model %s"
                             % (k, real_ops[k:k + 2], model_ops[k:k + 2]), "correspondence": "pos/PTranslate.v ptranslate vs AST::translate positions"})
            elif parts.get("MERASE") != "ok" or "placed=1" not in parts.get("MTPL", ""):
                corr.append({"source": t, "why": "model self-check failed: %s / %s" % (parts.get("MERASE"), parts.get("MTPL"))})
        shutil.rmtree(root, ignore_errors=True)
    # ---- correspondence of the positioned VM (pos/PVm.v, extracted) with the real evaluator: outcome, primary position and the
    # whole VIA list on the fault-injected programs and on fault-free generated programs
    nvm = 0
    vm_probe = os.path.join(C.TARGET, "debug", "pvmprobe")
    if okm and not os.path.exists(vm_probe):
        note = os.path.join(C.CACHE, "pvmprobe.err")
        broken.append({"correspondence": "pos/PVm.v vs vm.rs: the probe no longer builds against /repo",
                       "log": open(note).read()[-1200:] if os.path.exists(note) else ""})
    elif okm:
        import shutil
        import subprocess
        root = os.path.join(C.scratch_root(), "c17vm-%d" % os.getpid())
        shutil.rmtree(root, ignore_errors=True)
        os.makedirs(root)
        vtexts = [c["text"] for c in cases if c["kind"] != "syntax" and not c["extra"]][: (400 if tier == "quick" else 4000)]
        vtexts += TEMPLATE_TEXTS
        paths = []
        for i, t in enumerate(vtexts):
            pth = os.path.join(root, "v%d.ucg" % i)
            open(pth, "w").write(t)
            paths.append(pth)
        pp = subprocess.run([vm_probe], input="\n".join(paths) + "\n", capture_output=True, text=True, env=C.ENV, timeout=1800)
        blocks, cur = {}, None
        for line in pp.stdout.split("\n"):
            if line.startswith("FILE "):
                cur = line[5:]
                blocks[cur] = {}
            elif cur and " " in line:
                k, _, v = line.partition(" ")
                blocks[cur][k] = v
        todo = [(t, blocks.get(pth, {})) for pth, t in zip(paths, vtexts)]
        todo = [(t, b_) for t, b_ in todo if "AST" in b_ and "EVAL" in b_]
        mo = C.model("pvm", ["AST " + b_["AST"] for _, b_ in todo])
        for (t, b_), m in zip(todo, mo):
            parts = dict(x.split(" ", 1) for x in m.split("\t") if " " in x)
            me = parts.get("MEVAL")
            if me is None:
                corr.append({"source": t, "why": "positioned VM model: " + m[:200]})
                continue
            if re.search(r"(^|KIND )(unsup|fuel)\b", me) and not me.startswith(("ok", "err")):
                continue                      # outside the model / out of fuel: abstains
            nvm += 1
            real_e = re.sub(r" MSG .*$", "", b_["EVAL"])
            model_e = re.sub(r" KIND .*$", "", me)
            if real_e != model_e:
                corr.append({"source": t, "why": "the positioned VM model and the evaluator report differently: real `%s`, model `%s`" % (real_e, me),
                             "correspondence": "pos/PVm.v pvm_prog vs FileBuilder::eval_string (outcome, primary position, VIA list)"})
            elif parts.get("MERASED") != "ok":
                corr.append({"source": t, "why": "model self-check failed: erasure " + str(parts.get("MERASED"))})
        shutil.rmtree(root, ignore_errors=True)
    cov["positioned_evaluations_compared"] = nvm
    cov["positioned_translations_compared"] = ncmp
    cov["op_position_triples_compared"] = ntriples
    # a listed finding: an escape that becomes a line feed inside a template moves the positions of later @{...} expressions down
    esc = 'let tv = {a = 1};\nlet bad = "nl\\nescape @{tv.nope}" % tv;\nlet after = 2;\n'
    er = C.harness("eval", [{"src": esc, "strict": True}])[0]
    pe, _v = positions(er.get("err", ""))
    if pe is not None and pe[0] != 2:
        if ck.is_known("C17-template-escape-newline"):
            ck.known_finding("C17-template-escape-newline", "a fault inside @{...} after a \\n escape in the same format string is reported on line %d, the statement is on line 2" % pe[0])
        else:
            real.append({"source": esc, "why": "primary position line %d is outside the faulty statement (line 2)" % pe[0], "kind": "template_escape", "nesting": "template_expr"})
    cov["evaluations"] = len(cases)
    cov["distinct_nontrivial"] = len(set(c["text"] for c in cases))
    cov["rule"] = ("valid multi-line programs of 3..12 statements with exactly one fault (unknown name, run-time type mismatch, missing field, "
                   "missing index, unhandled select case, failed cast, fail expression) at every statement position (quick: one of first/middle/last per form), every kind in several forms (literal operand, operand bound earlier, operand returned by a function defined earlier) "
                   "and nesting position (top, tuple field, list element, call argument, select arm, function body called later, inside @{...} of a format string, module body / module out expression instantiated later, use of a module's result), each also "
                   "with 1..3 statements inserted before; syntax faults by replacing one token; the span table comes from the generator")
    cov["generator_distribution"] = stats
    cov["samples"] = [cases[0]["text"], cases[-1]["text"]]
    cov["traces_validated_against_impl"] = len(cases)
    ck.assumptions = ["evaluation through FileBuilder::eval_string (no file name in positions); spans are line ranges known to the generator",
                      "a syntax diagnostic may point at the first token after the faulty statement (where the parser notices the fault)"]
    if real:
        r0 = min(real, key=lambda r: len(r["source"]))
        by = {}
        for r in real:
            by[r["kind"] + "/" + r["nesting"]] = by.get(r["kind"] + "/" + r["nesting"], 0) + 1
        ck.violation({"kind": "a diagnostic does not point at the statement that causes it", "failing": r0, "more": len(real) - 1,
                      "by_kind": by, "broken": broken})
    elif corr:
        r0 = min(corr, key=lambda r: len(r["source"]))
        ck.violation({"kind": "the positioned translator model no longer corresponds to translate.rs; no program was found whose diagnostic "
                              "points outside the faulty statement", "failing": r0, "more": len(corr) - 1, "broken": broken}, nofail=True)
    elif broken:
        ck.violation({"kind": "proof obligation no longer checks", "broken": broken, "theorems": thms}, nofail=True)
    return ck.finish()


def replay(path):
    r = json.load(open(path))
    f = r.get("failing")
    if not f:
        print(json.dumps(r.get("broken"))[:2000])
        return 1
    C.cargo_build()
    print(f["source"])
    print(C.harness("eval", [{"src": f["source"], "strict": True}])[0])
    print("recorded:", f["why"])
    return 1
