"""C12 -- XML output is well-formed and mirrors the document the program described."""
import json
import os
import re
import xml.parsers.expat as expat

import common as C
import values as V

PID = "C12"
THEOREMS = ["converter_writes_described_tree", "error_iff_inexpressible", "written_characters_are_xml_chars", "escapes_are_inverted",
            "wellformed_tree_reads_back", "document_reads_back", "converted_document_has_one_root_element", "document_reads_back_wf", "indentation_adds_only_blank_text",
            "reads_back_modulo_indentation", "cr_in_text_refuted", "tab_in_attribute_refuted", "ns_uri_unescaped_refuted"]

NAMES = ["a", "b", "c", "item", "p:x", "q:y", "x-1", "_u", "A.b", "é", "n"]
BADNAMES = ["", "1a", "a b", "<", "a>", 'a"', "-x", "a&b", "a\tb"]
ATTRN = ["id", "k", "class", "p:k", "xml:lang", "z9"]
BADATTRN = ["xmlns", "xmlns:p", "", "a b", "1"]
CHARS = list("abcXYZ 019") + ["<", ">", "&", "'", '"', "\n", "\r", "\t", " ", "]", "]]>", "é", "☃", "\U0001F600", "&amp;", "&#10;", ";", "#", "=", "/", "?",
                              "  ", "\n\n"]
CTRL = ["\x01", "\x00", "\x1f", "\x7f", "\x0b", "￾", "\u0085", " "]
URIS = ["urn:x", "http://example.org/", "u", "", "a b", 'x"y', "x<y", "x&y", "x'y", "u\tv"]
PFX = ["p", "q", "", "xml", "xmlns", "p:q", "a b"]
XML_NAME = re.compile(r"^[A-Za-z_À-퟿][A-Za-z0-9_.\-·À-퟿]*(:[A-Za-z_À-퟿][A-Za-z0-9_.\-·À-퟿]*)?$")


def S(x):
    return ("s", x)


def T(fs):
    return ("t", list(fs))


class Gen:
    def __init__(self, rng):
        self.R = rng

    def text(self, clean):
        R = self.R
        n = R.choice([0, 1, 1, 2, 3, 5, 8])
        pool = CHARS if clean else CHARS + CTRL
        return "".join(R.choice(pool) for _ in range(n))

    def junk(self):
        return self.R.choice([("e",), ("b", True), ("b", False), ("i", 0), ("i", 42), ("i", -7), ("f", 1.5), S("str"), ("l", []),
                              ("l", [S("x")]), T([]), T([("a", S("b"))]), ("c",)])

    def ns(self, clean):
        R = self.R
        r = R.random()
        if r < 0.35:
            return S(R.choice(URIS[:3] if clean else URIS))
        if r < 0.85:
            fs = []
            if clean or R.random() < 0.9:
                fs.append(("prefix", S(R.choice(PFX[:2] if clean else PFX))))
            if clean or R.random() < 0.9:
                fs.append(("uri", S(R.choice(URIS[:3] if clean else URIS))))
            if not clean:
                if R.random() < 0.15:
                    fs.append((R.choice(["prefix", "uri"]), R.choice([("e",), ("e",), ("i", 3), S("zz")])))
                if R.random() < 0.1:
                    fs.append(("other", self.junk()))
            R.shuffle(fs)
            return T(fs)
        return self.junk() if not clean else S(URIS[0])

    def attrs(self, clean):
        R = self.R
        if not clean and R.random() < 0.1:
            return self.junk()
        fs = []
        names = ATTRN[:] if clean else ATTRN + BADATTRN
        for _ in range(R.choice([0, 1, 1, 2, 3])):
            k = R.choice(names)
            if k in [f[0] for f in fs]:
                continue
            r = R.random()
            if r < 0.8:
                v = S(self.text(clean))
            elif r < 0.92:
                v = ("e",)                    # NULL attribute: omitted
            else:
                v = self.junk() if not clean else S(self.text(True))
            fs.append((k, v))
        return T(fs)

    def node(self, depth, clean):
        R = self.R
        r = R.random()
        if depth <= 0 or r < 0.2:
            r2 = R.random()
            if r2 < 0.45:
                return S(self.text(clean))
            if r2 < 0.9:
                return T([("text", S(self.text(clean)))])
            return self.junk() if not clean else S(self.text(True))
        fs = [("name", S(R.choice(NAMES if clean or R.random() < 0.9 else BADNAMES)))]
        if R.random() < 0.5:
            fs.append(("attrs", self.attrs(clean) if R.random() < 0.9 else ("e",)))
        if R.random() < 0.35:
            fs.append(("ns", self.ns(clean)))
        if R.random() < 0.75:
            fs.append(("children", ("l", [self.node(depth - 1, clean) for _ in range(R.choice([0, 1, 1, 2, 3, 4]))])
                       if R.random() < 0.93 else ("e",)))
        if not clean:
            r3 = R.random()
            if r3 < 0.06:
                fs.append(("text", R.choice([("e",), ("e",), S("t"), ("i", 3)])))
            elif r3 < 0.10:
                fs.append((R.choice(["name", "attrs", "children", "ns", "text"]), R.choice([("e",), self.junk(), self.junk()])))
            elif r3 < 0.14:
                fs.append((R.choice(["attrs", "children"]), R.choice([self.attrs(False), ("l", [self.node(0, False)])])))
            elif r3 < 0.16:
                fs = [f for f in fs if f[0] != "name"]
            elif r3 < 0.18:
                fs.append(("extra", self.junk()))
        R.shuffle(fs)
        return T(fs)

    def doc(self, clean):
        R = self.R
        fs = [("root", self.node(R.choice([1, 2, 3, 4]), clean))]
        if R.random() < 0.4:
            fs.append(("version", S(R.choice(["1.0", "1.1"])) if clean or R.random() < 0.8 else R.choice([S("2.0"), S(""), ("e",), ("i", 1)])))
        if R.random() < 0.3:
            fs.append(("encoding", S(R.choice(["UTF-8", "utf-8", "latin1"])) if clean or R.random() < 0.8
                       else R.choice([S('a"b'), S(""), ("e",), ("i", 3), S("x y")])))
        if R.random() < 0.3:
            fs.append(("standalone", ("b", R.choice([True, False])) if clean or R.random() < 0.8 else self.junk()))
        if not clean:
            r = R.random()
            if r < 0.04:
                fs = [f for f in fs if f[0] != "root"]
            elif r < 0.08:
                fs.append(("root", self.node(1, False)))
            elif r < 0.10:
                fs.append((R.choice(["version", "encoding", "standalone"]), self.junk()))
            elif r < 0.12:
                return self.junk()
        R.shuffle(fs)
        return T(fs)


# ---------------------------------------------------------------- the tree a document describes, written from the property text

def field(fs, k):
    vs = [v for n, v in fs if n == k]
    return vs[-1] if vs else None


def described(node, scope=None):
    """list of nodes for one DSL node; raises ValueError when the document is outside what this oracle covers.
    A namespace declaration that repeats the binding already in scope says nothing new and is not part of the tree."""
    scope = scope or {}
    if node[0] == "s":
        return [("T", node[1])]
    if node[0] != "t":
        raise ValueError("kind")
    fs = node[1]
    for k in ("name", "attrs", "children", "text", "ns"):
        if len([1 for n, _ in fs if n == k]) > 1:
            raise ValueError("repeated field")
    name, text = field(fs, "name"), field(fs, "text")
    if name is None:
        if text is None or text == ("e",):
            return []
        if text[0] != "s":
            raise ValueError("text")
        return [("T", text[1])]
    if name[0] != "s" or (text is not None and text != ("e",)):
        raise ValueError("name/text")
    attrs = field(fs, "attrs")
    al = []
    if attrs is not None and attrs != ("e",):
        if attrs[0] != "t":
            raise ValueError("attrs")
        for k, v in attrs[1]:
            if v == ("e",):
                continue                    # NULL attributes are omitted
            if v[0] != "s":
                raise ValueError("attr value")
            al.append((k, v[1]))
    ns = field(fs, "ns")
    nl = []
    if ns is not None:
        if ns[0] == "s":
            if ns[1] != "":
                nl.append(("", ns[1]))
        elif ns[0] == "t":
            p, u = field(ns[1], "prefix"), field(ns[1], "uri")
            if p is None or u is None or p[0] != "s" or u[0] != "s" or len(ns[1]) != 2:
                raise ValueError("ns form")
            if p[1] and u[1]:
                nl.append((p[1], u[1]))
        else:
            raise ValueError("ns")
    nl = [(p, u) for p, u in nl if scope.get(p) != u]
    inner = dict(scope)
    inner.update(dict(nl))
    kids = []
    ch = field(fs, "children")
    if ch is not None and ch != ("e",):
        if ch[0] != "l":
            raise ValueError("children")
        for c in ch[1]:
            kids += described(c, inner)
    return [("E", name[1], nl, al, kids)]


def merge_text(kids):
    out = []
    for k in kids:
        if k[0] == "T":
            if k[1] == "":
                continue
            if out and out[-1][0] == "T":
                out[-1] = ("T", out[-1][1] + k[1])
                continue
        out.append(k)
    return out


def strip_ws(n):
    if n[0] == "T":
        return n
    kids = [strip_ws(k) for k in merge_text(n[4])]
    return ("E", n[1], n[2], n[3], [k for k in kids if not (k[0] == "T" and k[1].strip(" \t\r\n") == "")])


def expat_tree(data):
    p = expat.ParserCreate()
    p.ordered_attributes = True
    p.buffer_text = True
    decl = [None]
    stack = [[]]

    def xd(version, encoding, standalone):
        decl[0] = (version, encoding, standalone)

    def se(name, attrs):
        stack.append([name, attrs, []])

    def ee(name):
        n, a, kids = stack.pop()
        nss, ats = [], []
        for i in range(0, len(a), 2):
            k, v = a[i], a[i + 1]
            if k == "xmlns":
                nss.append(("", v))
            elif k.startswith("xmlns:"):
                nss.append((k[6:], v))
            else:
                ats.append((k, v))
        node = ("E", n, nss, ats, kids)
        (stack[-1][2] if len(stack) > 1 else stack[-1]).append(node)

    def cd(t):
        if len(stack) > 1:
            stack[-1][2].append(("T", t))
    p.XmlDeclHandler, p.StartElementHandler, p.EndElementHandler, p.CharacterDataHandler = xd, se, ee, cd
    p.Parse(data, True)
    return decl[0], stack[0]


def tree_sexp(decl, body):
    """the same text form as the model's `xml_tree` output"""
    hx = lambda s: "x" + s.encode("utf-8").hex()

    def node(n):
        if n[0] == "T":
            return "(T %s)" % hx(n[1])
        f = lambda l: "(" + " ".join("(%s %s)" % (hx(a), hx(b_)) for a, b_ in l) + ")"
        return "(E %s %s %s (%s))" % (hx(n[1]), f(n[2]), f(n[3]), " ".join(node(k) for k in n[4]))
    if decl is None:
        d = "nodecl"
    else:
        d = "(%s %s %s)" % (decl[0], hx(decl[1] or "UTF-8"), {-1: "-", 1: "yes", 0: "no"}[decl[2]])
    return "(%s (%s))" % (d, " ".join(node(n) for n in body))


# ---------------------------------------------------------------- classes

def walk_strings(doc):
    """(kind, string) for every text / attribute value / ns uri / name the root describes"""
    out = []

    def node(n):
        if n[0] == "s":
            out.append(("text", n[1]))
            return
        if n[0] != "t":
            return
        fs = n[1]
        nm, tx = field(fs, "name"), field(fs, "text")
        if nm is None:
            if tx is not None and tx[0] == "s":
                out.append(("text", tx[1]))
            return
        if nm[0] == "s":
            out.append(("name", nm[1]))
        at = field(fs, "attrs")
        if at is not None and at[0] == "t":
            for k, v in at[1]:
                if v[0] == "s":
                    out.append(("attrname", k))
                    out.append(("attr", v[1]))
        ns = field(fs, "ns")
        if ns is not None:
            if ns[0] == "s":
                out.append(("uri", ns[1]))
            elif ns[0] == "t":
                for k, v in ns[1]:
                    if v[0] == "s":
                        out.append(("uri" if k == "uri" else "prefix", v[1]))
        ch = field(fs, "children")
        if ch is not None and ch[0] == "l":
            for c in ch[1]:
                node(c)
    if doc[0] == "t":
        r = field(doc[1], "root")
        if r is not None:
            node(r)
    return out


def ns_shadow(doc):
    """some element declares prefix -> uri where an enclosing level that is NOT the binding in scope declared the same pair
    (xml-rs put_checked looks at every level of its stack and drops the declaration)"""
    def node(n, stack):
        if n[0] != "t":
            return False
        fs = n[1]
        if field(fs, "name") is None:
            return False
        ns = field(fs, "ns")
        decl = None
        if ns is not None:
            if ns[0] == "s" and ns[1]:
                decl = ("", ns[1])
            elif ns[0] == "t":
                p, u = field(ns[1], "prefix"), field(ns[1], "uri")
                if p and u and p[0] == "s" and u[0] == "s" and p[1] and u[1]:
                    decl = (p[1], u[1])
        if decl:
            inscope = None
            for lvl in reversed(stack):
                if lvl and lvl[0] == decl[0]:
                    inscope = lvl[1]
                    break
            if inscope != decl[1] and any(lvl == decl for lvl in stack):
                return True
        ch = field(fs, "children")
        if ch is not None and ch[0] == "l":
            return any(node(c, stack + [decl]) for c in ch[1])
        return False
    if doc[0] != "t" or field(doc[1], "root") is None:
        return False
    return node(field(doc[1], "root"), [])


def in_domain(doc):
    """the documents the property speaks about: a tuple, element and attribute names valid XML names (not the reserved xmlns*),
    namespace prefixes valid and not reserved"""
    if doc[0] != "t":
        return False
    for kind, s in walk_strings(doc):
        if kind in ("name", "attrname") and (not XML_NAME.match(s) or s.startswith("xmlns")):
            return False
        if kind == "prefix" and s and (not XML_NAME.match(s) or ":" in s or s in ("xml", "xmlns")):
            return False
    return True


KNOWN = [
    ("C12-cr-in-text", lambda doc, ws: any(k == "text" and "\r" in s for k, s in ws)),
    ("C12-tab-in-attribute", lambda doc, ws: any(k == "attr" and "\t" in s for k, s in ws)),
    ("C12-ns-uri-unescaped", lambda doc, ws: any(k == "uri" and re.search(r'[<&"\x00-\x1f]', s) for k, s in ws)),
    ("C12-ns-redeclared", lambda doc, ws: ns_shadow(doc)),
    ("C12-root-not-element", lambda doc, ws: doc[0] == "t" and (field(doc[1], "root") is not None) and
        (field(doc[1], "root")[0] == "s" or (field(doc[1], "root")[0] == "t" and field(field(doc[1], "root")[1], "name") is None))),
    ("C12-encoding-label", lambda doc, ws: doc[0] == "t" and field(doc[1], "encoding") is not None and field(doc[1], "encoding")[0] == "s"
        and field(doc[1], "encoding")[1].lower() != "utf-8"),
]


def must_fail(doc):
    """the kinds of inexpressible document the property names (no root / root not an element, a node that is neither tuple nor
    string, both name and text)"""
    if doc[0] != "t":
        return True
    root = field(doc[1], "root")
    if root is None:
        return True
    if root[0] != "t" or field(root[1], "name") is None:
        return True               # the root must be an element (reference: "the root element of the document")

    def node(n):
        if n[0] == "s":
            return False
        if n[0] != "t":
            return True
        fs = n[1]
        nm = field(fs, "name")
        texts = [v for k, v in fs if k == "text" and v != ("e",)]
        if nm is not None and texts:
            return True
        if nm is None:
            return False          # the children of a nameless tuple are never looked at
        chs = [v for k, v in fs if k == "children" and v != ("e",)]
        if chs and chs[-1][0] == "l":
            return any(node(c) for c in chs[-1][1])
        return False
    return node(root)


def show(v):
    """ucg-like text of a value (for reports)"""
    t = v[0]
    if t == "e":
        return "NULL"
    if t == "b":
        return "true" if v[1] else "false"
    if t in ("i", "f"):
        return repr(v[1])
    if t == "s":
        return json.dumps(v[1], ensure_ascii=False)
    if t == "l":
        return "[" + ", ".join(show(x) for x in v[1]) + "]"
    if t == "t":
        return "{" + ", ".join("%s = %s" % (k if re.match(r"^[a-z_]+$", k) else json.dumps(k, ensure_ascii=False), show(x)) for k, x in v[1]) + "}"
    return "<constraint>"


def run(tier, seed):
    ck = C.Check(PID, tier, seed, "proof")
    cov = ck.coverage
    broken = []
    pr = C.prove(ck, ["theories/props/C12_Props.vo"], "props.C12_Props", THEOREMS)
    if not pr["ok"]:
        broken.append({"obligations": "C12_Props", "built": pr["built"], "audit": pr["audit"],
                       "assumptions": pr["assumptions"], "log": pr["log_tail"][-1500:]})
    ok, msg = C.cargo_build()
    if not ok:
        raise RuntimeError("cargo build of /repo failed:\n" + msg[-2000:])
    okm, mmsg = C.build_model_runner()
    if not okm:
        broken.append({"extraction": mmsg[-1500:]})
    rng = ck.rng
    g = Gen(rng)
    n = 1500 if tier == "quick" else 20000
    docs = []
    for i in range(n):
        r = rng.random()
        clean = r < 0.55
        docs.append((g.doc(clean), clean))
    # malformed documents of each kind, explicitly
    docs += [(T([]), False), (T([("root", ("i", 3))]), False), (T([("root", T([("name", S("a")), ("text", S("t"))]))]), False),
             (("l", []), False), (T([("root", T([("name", S("a")), ("children", ("l", [("i", 1)]))]))]), False)]
    # adjacent text children whose concatenation forms markup that neither forms alone (`]]>`, `&amp;`, `<!--`, `&#10;`)
    for parts in [["a]]", ">b"], ["x]", "]>y"], ["]", "]", ">"], ["&", "amp;"], ["&#", "10;"], ["<", "!--"], ["--", ">"], ["<![CDATA[", "]]>"],
                  ["]]", "&gt;"], ["a", "", "]]", "", ">"]]:
        for wrap in (lambda t: S(t), lambda t: T([("text", S(t))])):
            docs.append((T([("root", T([("name", S("r")), ("children", ("l", [wrap(t) for t in parts]))]))]), True))
        docs.append((T([("root", T([("name", S("r")), ("children", ("l", [S(parts[0])] + [T([("text", S(t))]) for t in parts[1:]]))]))]), True))
    real = C.harness("convert", [{"conv": "xml", "val": V.to_wire(d)} for d, _ in docs])
    sx = [V.to_sexp(d) for d, _ in docs]
    mout = C.model("xml_out", sx) if okm else [None] * len(docs)
    mtree = C.model("xml_tree", sx) if okm else [None] * len(docs)
    mrt = C.model("xml_rt", sx) if okm else [None] * len(docs)
    bad = []
    corr = []
    stats = {"ok": 0, "err": 0, "in_domain_ok": 0, "exact_tree": 0, "known": {}, "err_kinds": {}}
    for (doc, clean), r, mo, mt, mr in zip(docs, real, mout, mtree, mrt):
        base = {"document": show(doc)}
        if "bad_case" in r or "panic" in r or "crash" in r:
            bad.append(dict(base, why="the converter did not return: %r" % (r,)))
            continue
        if "ok" in r:
            data = r["ok"]["utf8"].encode("utf-8") if "utf8" in r["ok"] else bytes.fromhex(r["ok"]["hex"])
            stats["ok"] += 1
        else:
            data = None
            stats["err"] += 1
            stats["err_kinds"][r["err"][:60]] = stats["err_kinds"].get(r["err"][:60], 0) + 1
        # ---- correspondence: the model writes the same bytes / fails with the same message
        if mo is not None:
            want = ("ok " + C.hexs(data)) if data is not None else ("err " + r["err"])
            if mo != want:
                corr.append(dict(base, why="the Coq model of the converter and the converter disagree", model=mo[:300], converter=want[:300],
                                 correspondence="data/Xml.v to_xml_r + xml_emit_r vs ConverterRegistry xml"))
                mt = mr = None          # the model says nothing reliable about this document: judge the output by the python oracle alone
        dom = in_domain(doc)
        ws = walk_strings(doc)
        try:
            desc = described(field(doc[1], "root")) if doc[0] == "t" and field(doc[1], "root") is not None else None
        except ValueError:
            desc = None
        if data is None:
            # an error: right for documents the DSL cannot express; a clean in-domain document must convert
            if must_fail(doc):
                continue
            if clean and dom and desc is not None and not any(k in ("text", "attr") and re.search("[\x00-\x08\x0b\x0c\x0e-\x1f￾￿]", s) for k, s in ws):
                bad.append(dict(base, why="a document with valid names and string content was rejected: " + r["err"]))
            continue
        if must_fail(doc):
            bad.append(dict(base, why="a document the DSL cannot express (no root / a node that is neither tuple nor string / both name and text) "
                                      "was converted instead of rejected", output=data.decode("utf-8", "replace")[:300]))
            continue
        if not dom or desc is None:
            continue
        stats["in_domain_ok"] += 1
        # ---- the property: an independent parser reads the output back as the described tree
        why = None
        try:
            decl, body = expat_tree(data)
        except (expat.ExpatError, LookupError, ValueError) as e:
            why = "the output is not well-formed: %s" % e
        if why is None:
            got = tree_sexp(decl, body)
            if mt is not None and got == mt:
                stats["exact_tree"] += 1
            if len(body) != 1 or len(desc) != 1 or desc[0][0] != "E":
                why = "the output has no single root element"
            elif strip_ws(body[0]) != strip_ws(desc[0]):
                why = "the tree read back differs from the tree described"
            elif mt is not None and got != mt:
                why = "the tree read back differs from the model's prediction of what is written (as_written)"
        if why is None:
            continue
        cls = [k for k, pred in KNOWN if pred(doc, ws)]
        # a listed class explains the deviation only if it is exactly the deviation the model predicts: the model's reader and
        # expat must agree on what the written bytes mean (not for a mislabelled encoding, which the model's reader refuses)
        explained = True
        if mr is not None and "C12-encoding-label" not in cls:
            parts = mr.split(" ", 3)
            if len(parts) == 4:
                m_parsed = None if parts[2] == "noparse" else parts[3]
                try:
                    e_parsed = tree_sexp(*expat_tree(data))
                except (expat.ExpatError, LookupError, ValueError):
                    e_parsed = None
                explained = (m_parsed == e_parsed)
                if not explained:
                    why = "expat and the model's reader disagree on the written bytes (%s)" % why
        if cls and explained and all(ck.is_known(k) for k in cls):
            for k in cls:
                stats["known"][k] = stats["known"].get(k, 0) + 1
            continue
        bad.append(dict(base, why=why, output=data.decode("utf-8", "replace")[:600], classes=cls))
    for k, cnt in sorted(stats["known"].items()):
        ck.known_finding(k, "%d generated documents this run" % cnt)
    cov["evaluations"] = len(docs)
    cov["distinct_nontrivial"] = len(set(sx))
    cov["rule"] = ("generated document tuples: element trees to depth 4 with 0..4 children mixing elements, bare strings and {text=} nodes; text and "
                   "attribute values over ASCII, markup characters, ]]>, whitespace incl. CR/TAB, non-ASCII and (dirty profile) control characters; "
                   "optional version/encoding/standalone; default and prefixed namespaces; NULL attrs/children/attribute values; junk of every type in "
                   "every position, repeated and shuffled fields, malformed documents of each kind. Every document: converter bytes / error message "
                   "== Coq model; documents with valid names: expat reads the output back, compared with the described tree (python oracle, modulo "
                   "whitespace-only text) and with the model's as_written tree (exact)")
    cov["outcomes"] = {k: v for k, v in stats.items() if k != "known"}
    cov["known_class_documents"] = stats["known"]
    cov["samples"] = [show(docs[0][0])[:400]]
    cov["traces_validated_against_impl"] = len(docs)
    ck.assumptions = ["whitespace-only text nodes that the writer's indentation puts between tags are layout, not content (perform_indent(true) is deliberate); "
                      "the exact text nodes written are compared with the model's as_written, proved to differ from the described tree by such nodes only",
                      "names beginning with xmlns and the prefixes xml / xmlns are reserved by XML and outside the property's 'valid names'",
                      "expat (not namespace-aware) is the independent parser"]
    if corr and not bad:
        r0 = min(corr, key=lambda r: len(json.dumps(r, default=str)))
        ck.violation({"kind": "the model of the converter no longer corresponds to the converter; no document was found on which the output "
                              "contradicts the property itself", "failing": r0, "more": len(corr) - 1, "broken": broken}, nofail=True)
    elif bad:
        r0 = min(bad, key=lambda r: len(json.dumps(r, default=str)))
        for c_ in corr[:3]:
            bad.append(c_)
        by = {}
        for b_ in bad:
            by[b_["why"][:70]] = by.get(b_["why"][:70], 0) + 1
        ck.violation({"kind": "xml output does not mirror the document", "failing": r0, "more": len(bad) - 1, "by_kind": by, "broken": broken})
    elif broken:
        ck.violation({"kind": "proof obligation no longer checks", "broken": broken, "theorems": THEOREMS}, nofail=True)
    return ck.finish()


def replay(path):
    r = json.load(open(path))
    f = r.get("failing")
    if not f:
        print(json.dumps(r.get("broken"))[:2000])
        return 1
    print(json.dumps(f, indent=1, ensure_ascii=False)[:3000])
    return 1
