"""C10 -- bindings are immutable and lexically scoped."""
import json
import os
import re

import common as C
import programs as P
import semrun as S
import t_stmt as T9
import t_reserved as T10

PID = "C10"
THEOREMS = ["bindings_immutable", "prefix_stable", "prefix_failure_propagates", "rebind_is_error", "reserved_is_error",
            "func_depends_on_snapshot_and_args", "documented_reserved_words_rejected",
            "reserved_words_are_the_sources", "documented_reserved_words_in_the_sources",
            "Stmt.statement_keeps_bindings", "Stmt.statement_binds_only_its_name", "Stmt.rebinding_is_error_in_every_form",
            "Stmt.reserved_word_is_error_in_every_form", "Stmt.program_with_two_bindings_of_a_name_fails", "Stmt.program_prefix_stable",
            "Stmt.constraint_statement_result", "Stmt.statement_leaves_stack_balanced"]


def doc_reserved():
    src = open(os.path.join(C.REPO, "docsite/site/content/reference/_index.md")).read()
    i = src.index("Some words are reserved")
    words = []
    for line in src[i:].split("\n")[1:]:
        m = re.match(r"^\* (\S+)\s*$", line)
        if m:
            words.append(m.group(1))
        elif words and line.strip() and not line.startswith("*"):
            break
    return words


def scenarios(rng, n):
    """targeted scope programs: (ast program) lists built from templates with random names/values"""
    out = []
    names = ["item", "a", "b", "x", "acc", "val", "mod", "it"]
    for _ in range(n):
        k = rng.randint(0, 9)
        v1, v2, v3 = rng.randint(0, 50), rng.randint(0, 50), rng.randint(1, 9)
        nm = rng.choice([x for x in names if x != "mod"])
        if k == 0:   # format `item` must neither leak nor overwrite an outer binding of that name
            arg = rng.choice([("int", v2), ("tuple", [("a", ("int", v2)), ("b", ("int", v3))]), ("str", "s")])
            emb = ("sym", "item") if arg[0] != "tuple" else ("bin", "DOT", ("sym", "item"), ("sym", "a"))
            prog = []
            if rng.random() < 0.6:
                prog.append(("let", "item", ("int", v1)))
            prog.append(("let", "s", ("fmts", [("s", "v="), ("e", emb)], arg)))
            prog.append(("let", "after", ("sym", "item")))
            out.append(prog)
        elif k == 1:  # nested formats
            inner = ("fmts", [("s", "<"), ("e", ("sym", "item")), ("s", ">")], ("bin", "DOT", ("sym", "item"), ("sym", "x")))
            outer = ("fmts", [("e", ("bin", "DOT", ("sym", "item"), ("sym", "y"))), ("s", ":"), ("e", inner)],
                     ("tuple", [("x", ("int", v1)), ("y", ("int", v2))]))
            out.append([("let", "r", outer)])
        elif k == 2:  # parameter names coincide with outer bindings before and after the function
            prog = [("let", nm, ("int", v1)),
                    ("let", "f", ("func", [nm, "q"], ("bin", "Add", ("sym", nm), ("sym", "q")))),
                    ("let", "q", ("int", v2)),
                    ("let", "r", ("call", ("sym", "f"), [("int", v3), ("int", 100)])),
                    ("let", "chk1", ("sym", nm)), ("let", "chk2", ("sym", "q"))]
            out.append(prog)
        elif k == 3:  # a closure sees only what existed where it was defined
            prog = [("let", "f", ("func", [], ("sym", "later"))), ("let", "later", ("int", v1)),
                    ("let", "r", ("call", ("sym", "f"), []))]
            if rng.random() < 0.5:
                prog = [("let", "early", ("int", v2)), ("let", "f", ("func", ["p"], ("bin", "Add", ("sym", "early"), ("sym", "p")))),
                        ("let", "r", ("call", ("sym", "f"), [("int", v3)])), ("let", "p", ("int", 1))]
            out.append(prog)
        elif k == 4:  # module bodies see only their parameters
            body_ref = rng.choice(["outer", "p"])
            m = ("module", [("p", ("int", v1))], None,
                 [("let", "z", ("bin", "Add", ("bin", "DOT", ("sym", "mod"), ("sym", "p")), ("int", 1)))] +
                 ([("let", "w", ("sym", "outer"))] if body_ref == "outer" else []))
            prog = [("let", "outer", ("int", v2)), ("let", "m", m), ("let", "inst", ("copy", ("sym", "m"), [("p", ("int", v3))])),
                    ("let", "chk", ("sym", "outer"))]
            out.append(prog)
        elif k == 5:  # map/reduce callbacks do not leak their parameters
            prog = [("let", nm, ("int", v1)),
                    ("let", "l", ("map", ("func", [nm], ("bin", "Mul", ("sym", nm), ("int", 2))), ("list", [("int", 1), ("int", v3)]))),
                    ("let", "chk", ("sym", nm))]
            out.append(prog)
        elif k == 7:  # a closure made inside a function body sees that function's argument, not the outer binding of the same name
            prog = [("let", nm, ("int", v1)),
                    ("let", "mk", ("func", [nm], ("func", ["y"], ("bin", "Add", ("sym", nm), ("sym", "y"))))),
                    ("let", "g", ("call", ("sym", "mk"), [("int", v2)])),
                    ("let", "r", ("call", ("sym", "g"), [("int", v3)])),
                    ("let", "chk", ("sym", nm))]
            out.append(prog)
        elif k == 8:  # a format expression inside a function body sees the argument
            prog = [("let", nm, ("int", v1)),
                    ("let", "show", ("func", [nm], ("fmts", [("s", "<"), ("e", ("sym", nm)), ("s", ">")], ("int", 0)))),
                    ("let", "r", ("call", ("sym", "show"), [("int", v2)])),
                    ("let", "chk", ("sym", nm))]
            out.append(prog)
        elif k == 9:  # a callback inside a format expression sees the format's `item`, not an outer `item`
            prog = [("let", "item", ("int", v1)),
                    ("let", "s", ("fmts", [("e", ("map", ("func", ["v"], ("bin", "Add", ("sym", "v"), ("sym", "item"))),
                                                  ("list", [("int", 1), ("int", v3)])))], ("int", v2))),
                    ("let", "chk", ("sym", "item"))]
            out.append(prog)
        else:        # rebinding
            prog = [("let", nm, ("int", v1)), ("let", "other", ("int", v2)), ("let", nm, ("int", v3))]
            out.append(prog)
    return out


def run(tier, seed):
    ck = C.Check(PID, tier, seed, "proof")
    cov = ck.coverage
    # T9: the opcode sequence of every statement form, read off translate_stmt, and the strictness of Bind / BindOver (vm.rs)
    tr = T9.generate(C.REPO, C.GEN, C.write_if_changed)
    cov["translator"] = tr["status"]
    cov["tie"] = "generated" if tr["status"] == "generated" else "behavioural-fallback"
    broken = []
    if tr["status"] != "generated":
        C.write_if_changed(os.path.join(C.GEN, "StmtOps.v"), open(os.path.join(C.COQ, "snapshots", "StmtOps.v")).read())
        broken.append({"translator": tr["status"]})
    else:
        cov["statement_tables"] = {k: " ".join(v) if isinstance(v, (list, tuple)) else str(v) for k, v in tr.get("tables", {}).items()}
    tr10 = T10.generate(C.REPO, C.GEN, C.write_if_changed)
    cov["translator_reserved"] = tr10["status"]
    if tr10["status"] != "generated":
        C.write_if_changed(os.path.join(C.GEN, "Reserved.v"), open(os.path.join(C.COQ, "snapshots", "Reserved.v")).read())
        broken.append({"translator": tr10["status"]})
        cov["tie"] = "behavioural-fallback"
    else:
        cov["reserved_words_from_source"] = tr10["words"]
    pr = C.prove(ck, ["theories/props/C10_Props.vo"], "props.C10_Props", THEOREMS)
    if not pr["ok"]:
        broken.append({"obligations": "C10_Props", "built": pr["built"], "audit": pr["audit"],
                       "assumptions": pr["assumptions"], "log": pr["log_tail"][-1500:]})
    ok, msg = C.cargo_build()
    if not ok:
        raise RuntimeError("cargo build of /repo failed:\n" + msg[-2000:])
    okm, msg = C.build_model_runner()
    if not okm:
        raise RuntimeError("model runner does not build:\n" + msg[-1500:])
    real = []
    # 1. prefix runs of generated programs (the property itself, on the implementation)
    n = 500 if tier == "quick" else 6000
    progs = [P.gen_program(ck.rng, ck.rng.randint(2, 10), max_depth=ck.rng.randint(2, 5))[0] for _ in range(n)]
    jobs = []
    for pi, p in enumerate(progs):
        for k in range(1, len(p) + 1):
            jobs.append((pi, k, P.prog_text(p[:k])))
    res = S.run_impl([j[2] for j in jobs])
    byprog = {}
    for (pi, k, t), r in zip(jobs, res):
        byprog.setdefault(pi, []).append((k, t, r))
    prefix_runs = 0
    for pi, runs in byprog.items():
        full = runs[-1]
        for k, t, r in runs[:-1]:
            prefix_runs += 1
            if r[0] in ("parse",):
                continue
            if r[0] == "panic" or full[2][0] == "panic":
                real.append({"source": full[1], "why": "panic", "prefix_len": k})
                continue
            if r[0] == "err" and full[2][0] == "ok":
                real.append({"source": full[1], "prefix_len": k, "why": "a prefix fails but the whole program builds"})
            if r[0] == "ok" and full[2][0] == "ok":
                fb = dict(full[2][1][1])
                for name, val in r[1][1]:
                    if name not in fb or fb[name] != val:
                        real.append({"source": full[1], "prefix_len": k, "binding": name,
                                     "prefix_value": val, "full_value": fb.get(name),
                                     "why": "a binding made by a prefix has a different value in the whole program"})
                        break
    # 2. targeted scope scenarios: implementation vs definitional semantics
    ns = 400 if tier == "quick" else 5000
    sc = scenarios(ck.rng, ns)
    texts = [P.prog_text(p) for p in sc]
    impl = S.run_impl(texts)
    model = S.run_model(sc)
    disagreements = 0
    for p, t, i, m in zip(sc, texts, impl, model):
        why = S.compare(i, m)
        if why:
            disagreements += 1
            real.append({"source": t, "why": why, "build": i, "semantics": m})
    # 3. every documented reserved word as a binding name
    words = doc_reserved()
    rtexts = ["let %s = 1;\n" % w for w in words]
    rres = S.run_impl(rtexts)
    for w, t, r in zip(words, rtexts, rres):
        if r[0] == "ok":
            real.append({"source": t, "why": "the reserved word `%s` can be bound" % w})
    # 4. every statement form that binds a name (let, constraint) against every other, at file level and in a module body: the
    #    second binding of a name is an error whichever form makes it, and the prefix before it still builds
    forms = {"let": "let %s = 1;", "let_shaped": "let %s :: 0 = 1;", "constraint": 'constraint %s = in 1..10 | "";'}
    rb_texts, rb_meta = [], []
    for f1 in sorted(forms):
        for f2 in sorted(forms):
            for nm in ("x", "port"):
                for mid in ("", "let y = 2;\n", "let y = 2 + 3;\nconstraint other = 0 | \"\";\n"):
                    pre = forms[f1] % nm + "\n" + mid
                    full = pre + forms[f2] % nm + "\nlet z = 3;\n"
                    for scope in ("file", "module"):
                        wrap = (lambda b: b) if scope == "file" else (lambda b: "let m = module { p = 1, } => {\n%s};\nlet i = m{};\n" % b)
                        rb_texts += [wrap(pre), wrap(full)]
                        rb_meta.append((f1, f2, nm, scope, wrap(full)))
    rb_res = S.run_impl(rb_texts)
    for k, (f1, f2, nm, scope, full) in enumerate(rb_meta):
        rpre, rfull = rb_res[2 * k], rb_res[2 * k + 1]
        if rpre[0] != "ok":
            real.append({"source": rb_texts[2 * k], "why": "a program binding `%s` once (%s, %s scope) does not build: %r" % (nm, f1, scope, rpre)})
        elif rfull[0] != "err":
            real.append({"source": full, "why": "`%s` was bound a second time (%s after %s, %s scope) and the build accepted it" % (nm, f2, f1, scope)})
    cov["rebinding_matrix"] = {"forms": sorted(forms), "programs": len(rb_meta)}
    cov["evaluations"] = len(jobs) + ns + len(words) + len(rb_texts)
    cov["distinct_nontrivial"] = len(set(j[2] for j in jobs)) + len(set(texts))
    cov["rule"] = ("every statement-boundary prefix of seeded generated programs run through the implementation and compared with the "
                   "full run; targeted scope scenarios (format `item` with/without an outer `item`, nested formats, parameter names equal "
                   "to outer bindings defined before and after, closures over later names, module bodies referencing outer names, "
                   "callback parameters, rebinding) compared with the definitional semantics; every documented reserved word as a "
                   "binding name; distinct = distinct source texts")
    cov["prefix_runs"] = prefix_runs
    cov["scenario_programs"] = ns
    cov["reserved_words_from_docs"] = words
    cov["samples"] = [texts[0], texts[1], jobs[0][2]]
    cov["traces_validated_against_impl"] = len(jobs) + ns
    cov["disagreements_model_vs_impl"] = disagreements
    ck.assumptions = [
        "theorems are stated on the definitional semantics (sem/Sem.v); C01 ties the semantics to the compiled form",
        "the reserved-word list is read from docsite reference/_index.md on every run",
        "statement layer (bind/Bind.v): opcode tables regenerated from translate_stmt and vm.rs on every run (T9); the code of a "
        "sub-expression is abstract (pushes one value, leaves the current symbol table alone: what compile_correct shows for the "
        "modelled fragment); op_bind/binding_push are the definitions of vm/Vm.v (tied by C01's correspondence) and the rebinding matrix",
    ]
    if real:
        r0 = min(real, key=lambda r: len(r["source"]))
        ck.violation({"kind": "a binding changed, leaked, or a forbidden binding was accepted", "failing": r0,
                      "more": len(real) - 1, "broken": broken})
    elif broken:
        ck.violation({"kind": "proof obligation no longer checks", "broken": broken, "theorems": THEOREMS}, nofail=True)
    return ck.finish()


def replay(path):
    r = json.load(open(path))
    f = r.get("failing")
    if not f:
        print("no failing input; broken:", json.dumps(r.get("broken"))[:2000])
        return 1
    C.cargo_build()
    print(f["source"])
    print("build now says:", S.run_impl([f["source"]])[0])
    print("recorded:", f["why"])
    return 1
