"""C20 -- the language server survives any session and answers from the current text only."""
import json
import os
import re
import shutil
import subprocess
from concurrent.futures import ThreadPoolExecutor

import common as C
import lsp
import programs as P

PID = "C20"
THEOREM_FILE = os.path.join(C.COQ, "theories", "props", "C20_Props.v")
LIBS = {
    "lib0.ucg": 'let shared = {k = 1, name = "lib0"};\nlet twice = func (x) => x + x;\n',
    "sub/lib1.ucg": 'let up = import "../lib0.ucg";\nlet shared = {k = up.shared.k + 1, tags = ["a", "b"]};\n',
    "broken.ucg": "let oops = {a = 1;\n",
}
UNICODE = ["é", "ß", "日本", "😀", " ", " ", "á", "Ω"]


def theorem_names():
    if not os.path.exists(THEOREM_FILE):
        return []
    src = C.strip_comments(open(THEOREM_FILE).read())
    return re.findall(r"^\s*(?:Theorem|Corollary)\s+([A-Za-z0-9_']+)", src, re.M)


# ---------------------------------------------------------------- texts

# texts every run starts with (they recur across sessions): string literals that span lines, tokens at the very end of the input
SEED_TEXTS = ['let greeting = "h\u00e9llo w\u00f6rld";\nlet x = greeting;\n', 'let msg = "first line\nsecond line";\nlet z = 1;\n', 'let t = {a = "x\n\ny", b = "tail\n"};\n', 'let s = "ends without newline"',
              'let m = "a\r\nb";\r\nlet n = 2;\r\n',
              # rejected at the end of the input, which ends with line breaks / blank lines
              'let x = 1\n', 'let a = 1;\nlet\n', 'let y = {a = 1\n\n', 'let z = [1, 2\r\n', 'let q = 1;\nlet w = q +\n  \n']
POOL = list(SEED_TEXTS)


def gen_text(rng, docnames, me):
    # texts recur within and across sessions, so that "the same text in the same workspace gets the same diagnostics" is exercised
    if POOL and rng.random() < 0.3:
        return rng.choice(POOL)
    t = gen_text_new(rng, docnames, me)
    POOL.append(t)
    if len(POOL) > 60:
        del POOL[rng.randrange(len(POOL))]
    return t


def gen_text_new(rng, docnames, me):
    k = rng.random()
    if k < 0.5:
        t = program_text(rng, docnames, me)
    elif k < 0.8:
        t = mutate(rng, program_text(rng, docnames, me))
    else:
        t = soup(rng)
    if rng.random() < 0.15:
        t = t.replace("\n", "\r\n")
    return t


def program_text(rng, docnames, me):
    prog, _ = P.gen_program(rng, rng.randint(1, 8), max_depth=3, p_bad=0.03)
    lines = []
    if rng.random() < 0.5:
        lines.append('let lib = import "%s";' % rng.choice(["lib0.ucg", "./lib0.ucg", "sub/lib1.ucg", "sub/../lib0.ucg"]))
        lines.append("let fromlib = lib.shared.k;")
    others = [d for d in docnames if d != me]
    if others and rng.random() < 0.3:
        lines.append('let other = import "%s";' % rng.choice(others))
        lines.append("let fromother = other.%s;" % rng.choice(["alpha", "beta", "nothere"]))
    if rng.random() < 0.5:
        lines.append("let alpha = %d;" % rng.randint(0, 99))
        lines.append('let beta = {name = "%s", n = alpha};' % rng.choice(["x", "é", "日本"]))
    if rng.random() < 0.2:
        lines.append('let bad = alpha + "s";' if "let alpha" in "".join(lines) else 'let bad = 1 + "s";')
    if rng.random() < 0.15:
        lines.append('let multi = "line one\nline two %s";' % rng.choice(UNICODE))
    if rng.random() < 0.2:
        lines.append("// a comment with %s in it" % rng.choice(UNICODE))
    body = P.prog_text(prog)
    if rng.random() < 0.5:
        body = body.replace(", ", ",\n  ")
    return "\n".join(lines) + ("\n" if lines else "") + body


TOK = re.compile(r'"(?:[^"\\]|\\.)*"|[A-Za-z_][A-Za-z0-9_]*|\d+|==|!=|>=|<=|=>|&&|\|\||::|\S', re.S)


def mutate(rng, text):
    toks = [(m.start(), m.end()) for m in TOK.finditer(text)]
    if not toks:
        return text
    for _ in range(rng.randint(1, 3)):
        a, b = rng.choice(toks)
        op = rng.random()
        if op < 0.4:
            text = text[:a] + " " * (b - a) + text[b:]
        elif op < 0.6:
            text = text[:a] + text[a:b] + " " + text[a:b] + text[b:]
            break
        elif op < 0.8:
            text = text[:a] + rng.choice(["(", ")", "{", "}", ";", "=", '"', "let", ".", ",", "é"]) + text[b:]
            break
        else:
            text = text[:b]
            break
    return text


def soup(rng):
    alphabet = ["let ", "x", " = ", "1", ";", "\n", "\r\n", '"', "{", "}", "(", ")", ".", ",", "//", "\t", " ", "import ", "\\", "@", "%"] + UNICODE
    return "".join(rng.choice(alphabet) for _ in range(rng.randint(0, 60)))


# ---------------------------------------------------------------- documents and ranges

def u16len(s):
    return len(s.encode("utf-16-le")) // 2


def doc_lines(text):
    """lines as an LSP client sees them (LF, CRLF and CR end a line)"""
    return re.split(r"\r\n|\n|\r", text)


def pos_problem(text, pos, end=False):
    """why an LSP position is not inside the document, or None"""
    ls = doc_lines(text)
    ln, ch = pos["line"], pos["character"]
    if ln >= len(ls):
        return "line %d of a document of %d lines" % (ln, len(ls))
    limit = u16len(ls[ln]) + (1 if end else 0)     # the end of a one-character range at a line end is tolerated
    if ch > limit:
        return "character %d on line %d which has %d UTF-16 units (%d bytes)" % (ch, ln, u16len(ls[ln]), len(ls[ln].encode("utf-8")))
    return None


def range_problem(text, rng_):
    a = pos_problem(text, rng_["start"])
    if a:
        return "start at " + a
    # only a ONE-character range may end one past the line end (a mark at the end of a line / of the input); a longer range must end inside
    one_wide = rng_["end"]["line"] == rng_["start"]["line"] and rng_["end"]["character"] - rng_["start"]["character"] == 1
    b = pos_problem(text, rng_["end"], end=one_wide)
    if b:
        return "end at " + b
    if (rng_["end"]["line"], rng_["end"]["character"]) < (rng_["start"]["line"], rng_["start"]["character"]):
        return "end before start"
    return None


def semantic_ranges(data):
    out = []
    line = col = 0
    for i in range(0, len(data) - 4, 5):
        dl, ds, ln = data[i], data[i + 1], data[i + 2]
        if dl:
            line += dl
            col = ds
        else:
            col += ds
        out.append({"start": {"line": line, "character": col}, "end": {"line": line, "character": col + ln}})
    return out


# ---------------------------------------------------------------- one session

class Problem(Exception):
    def __init__(self, why, **kw):
        Exception.__init__(self, why)
        self.why = why
        self.kw = kw


def column_sweep(rng, d, text):
    """every column (in bytes, i.e. also the columns that fall inside a multi-byte character) of one line holding non-ASCII text,
    for each position request"""
    ls = doc_lines(text)
    cand = [i for i, l in enumerate(ls) if any(ord(c) > 127 for c in l)]
    if not cand or rng.random() < 0.4:
        return []
    line = rng.choice(cand)
    n = min(len(ls[line].encode("utf-8")) + 2, 48)
    kind = rng.choice(["completion", "hover", "definition"])
    return [(kind if rng.random() < 0.8 else rng.choice(["completion", "hover", "definition"]), d, (line, c)) for c in range(n)]


def gen_session(rng, root):
    ndocs = rng.randint(1, 3)
    docnames = ["doc%d.ucg" % i for i in range(ndocs)]
    if rng.random() < 0.3:
        docnames[0] = "lib0.ucg"            # a document that also exists on disk with other content
    msgs = []
    open_docs = {}
    n = rng.randint(1, 30)
    for _ in range(n):
        d = rng.choice(docnames)
        if d not in open_docs:
            t = gen_text(rng, docnames, d)
            # "any sequence of open, change and close": a change may also arrive for a document that is not open (never opened, or
            # closed before) - full-text sync makes it the current text all the same
            msgs.append(("change" if rng.random() < 0.2 else "open", d, t))
            open_docs[d] = t
            msgs.extend(column_sweep(rng, d, t))
            continue
        k = rng.random()
        if k < 0.3:
            t = gen_text(rng, docnames, d)
            if rng.random() < 0.3:
                t = open_docs[d][:rng.randint(0, len(open_docs[d]))]        # typing / truncation of the current text
            msgs.append(("change", d, t))
            open_docs[d] = t
        elif k < 0.36:
            msgs.append(("close", d, None))
            del open_docs[d]
        elif k < 0.42:
            msgs.append(("symbols", None, rng.choice(["", "a", "alpha", "sh"])))
        elif k < 0.5:
            msgs.append(("tokens", d, None))
        else:
            text = open_docs[d]
            ls = doc_lines(text)
            pk = rng.random()
            starts = [m.start() for m in TOK.finditer(text)]
            if pk < 0.45 and starts:
                off = rng.choice(starts) + (rng.randint(0, 2) if rng.random() < 0.4 else 0)
                off = min(off, len(text))
                pre = text[:off]
                line = len(doc_lines(pre)) - 1
                ch = u16len(doc_lines(pre)[-1])
            elif pk < 0.65:
                line = rng.randrange(len(ls))
                ch = u16len(ls[line])                      # at the line end
            elif pk < 0.85:
                line = rng.randrange(len(ls))
                ch = rng.randint(0, u16len(ls[line]) + 3)
            else:
                line = len(ls) + rng.randint(0, 5)        # beyond the document
                ch = rng.choice([0, 1, 7, 100000, 4294967295])
                if rng.random() < 0.3:
                    line = 4294967295
            msgs.append((rng.choice(["hover", "definition", "completion"]), d, (line, ch)))
    return docnames, msgs


def text_of(uri, open_docs, root):
    if uri in open_docs:
        return open_docs[uri]
    if uri.startswith("file://"):
        p = uri[len("file://"):]
        if os.path.exists(p):
            return open(p, encoding="utf-8", errors="replace").read()
    return None


def check_ranges(what, ranges, open_docs, root, known):
    for uri, r in ranges:
        text = text_of(uri, open_docs, root)
        if text is None:
            raise Problem("%s: a location in %s, which is neither open nor on disk" % (what, uri))
        pr = range_problem(text, r)
        if pr:
            if not range_problem_tokenizer_units(text, r):
                # inside the document in the tokenizer's units (lines end at LF only, columns count bytes) but not in the
                # protocol's (UTF-16 units; CR alone also ends a line): the listed known-finding class
                known.append("%s: %s" % (what, pr))
                continue
            raise Problem("%s reports a range outside the document: %s" % (what, pr), range=r, text=text, uri=uri)


def missing_import_target(text, root, docname, loc):
    """is this location the zero range of a file that an `import "<path>"` of the requesting document names and that does not exist?"""
    z = loc["range"]
    if (z["start"]["line"], z["start"]["character"], z["end"]["line"], z["end"]["character"]) != (0, 0, 0, 0):
        return False
    if not loc["uri"].startswith("file://"):
        return False
    target = os.path.normpath(loc["uri"][len("file://"):])
    base = os.path.dirname(os.path.join(root, docname))
    for m in re.finditer(r'import\s+"((?:[^"\\]|\\.)*)"', text):
        if os.path.normpath(os.path.join(base, m.group(1))) == target and not os.path.exists(target):
            return True
    return False


def range_problem_tokenizer_units(text, r):
    """the same test in the tokenizer's units: lines end at LF only, columns are UTF-8 byte counts"""
    ls = text.split("\n")
    one_wide = r["end"]["line"] == r["start"]["line"] and r["end"]["character"] - r["start"]["character"] == 1
    for key, extra in (("start", 0), ("end", 1 if one_wide else 0)):
        ln, ch = r[key]["line"], r[key]["character"]
        if ln >= len(ls) or ch > len(ls[ln].encode("utf-8")) + extra:
            return True
    return False


def run_session(job):
    root, docnames, msgs = job
    os.makedirs(os.path.join(root, "sub"), exist_ok=True)
    for nm, t in LIBS.items():
        open(os.path.join(root, nm), "w").write(t)
    uri = lambda d: "file://" + os.path.join(root, d)
    open_docs = {}
    published = {}          # uri -> (diagnostics, index of the message)
    texts_seen = []         # (text, diagnostics) for the parser comparison
    pubs = []               # every publication in order: (document, diagnostics)
    known = []
    done = 0
    srv = None
    try:
        srv = lsp.Server(root)
        ver = 1
        for idx, (kind, d, arg) in enumerate(msgs):
            ver += 1
            if kind == "open":
                srv.notify("textDocument/didOpen", {"textDocument": {"uri": uri(d), "languageId": "ucg", "version": ver, "text": arg}})
                open_docs[uri(d)] = arg
                diags = srv.wait_diagnostics(uri(d))
            elif kind == "change":
                srv.notify("textDocument/didChange", {"textDocument": {"uri": uri(d), "version": ver}, "contentChanges": [{"text": arg}]})
                open_docs[uri(d)] = arg
                diags = srv.wait_diagnostics(uri(d))
            elif kind == "close":
                srv.notify("textDocument/didClose", {"textDocument": {"uri": uri(d)}})
                del open_docs[uri(d)]
                diags = srv.wait_diagnostics(uri(d))
                if diags:
                    raise Problem("diagnostics published for a closed document", diagnostics=diags)
                pubs.append((d, diags))
                published.pop(uri(d), None)
                done += 1
                continue
            else:
                if kind == "symbols":
                    r = srv.request("workspace/symbol", {"query": arg})
                elif kind == "tokens":
                    r = srv.request("textDocument/semanticTokens/full", {"textDocument": {"uri": uri(d)}})
                else:
                    r = srv.request("textDocument/" + kind, {"textDocument": {"uri": uri(d)}, "position": {"line": arg[0], "character": arg[1]}})
                if "error" in r or "result" not in r:
                    raise Problem("%s request answered with an error" % kind, response=r)
                res = r["result"]
                ranges = []
                if kind == "hover" and res and res.get("range"):
                    ranges.append((uri(d), res["range"]))
                elif kind == "definition" and res:
                    for loc in (res if isinstance(res, list) else [res]):
                        if text_of(loc["uri"], open_docs, root) is None and missing_import_target(open_docs.get(uri(d), ""), root, d, loc):
                            # listed known-finding class (pinned by the suite): the zero location of an import whose file does not exist
                            known.append("definition-missing-import-target: " + os.path.basename(loc["uri"]))
                            continue
                        ranges.append((loc["uri"], loc["range"]))
                elif kind == "completion" and res:
                    for it in (res["items"] if isinstance(res, dict) else res):
                        if it.get("textEdit"):
                            ranges.append((uri(d), it["textEdit"].get("range") or it["textEdit"]["replace"]))
                elif kind == "symbols" and res:
                    for sym in res:
                        ranges.append((sym["location"]["uri"], sym["location"]["range"]))
                elif kind == "tokens" and res:
                    ranges += [(uri(d), x) for x in semantic_ranges(res["data"])]
                check_ranges(kind, ranges, open_docs, root, known)
                done += 1
                continue
            # open / change
            published[uri(d)] = (diags, idx)
            pubs.append((d, diags))
            texts_seen.append((arg, diags))
            check_ranges("publishDiagnostics", [(uri(d), x["range"]) for x in diags], open_docs, root, known)
            done += 1
            if not srv.alive():
                raise lsp.ServerDied("exit status %r" % srv.p.poll())
        # ---- the end of the session: answers must come from the current texts only
        order = sorted(open_docs)
        refreshed = {}
        for u in order:
            ver += 1
            srv.notify("textDocument/didChange", {"textDocument": {"uri": u, "version": ver}, "contentChanges": [{"text": open_docs[u]}]})
            refreshed[u] = srv.wait_diagnostics(u)
        symbols = srv.request("workspace/symbol", {"query": ""}).get("result")
        last_touch = max([i for i, m in enumerate(msgs) if m[0] in ("open", "change", "close")] or [0])
        rc = srv.close()
        srv = None
        if rc != 0:
            raise Problem("the server did not shut down cleanly (exit status %r)" % rc)
        fresh = lsp.Server(root)
        srv = fresh
        fresh_d = {}
        # a fresh server opened directly on the final texts (two passes so that every document is analysed against the final others)
        for u in order:
            fresh.notify("textDocument/didOpen", {"textDocument": {"uri": u, "languageId": "ucg", "version": 1, "text": open_docs[u]}})
            fresh_d[u] = fresh.wait_diagnostics(u)
        first_pass = dict(fresh_d)
        for u in order:
            fresh.notify("textDocument/didChange", {"textDocument": {"uri": u, "version": 2}, "contentChanges": [{"text": open_docs[u]}]})
            fresh_d[u] = fresh.wait_diagnostics(u)
        fresh_symbols = fresh.request("workspace/symbol", {"query": ""}).get("result")
        fresh.close()
        srv = None
        key = lambda ds: sorted(json.dumps(x, sort_keys=True) for x in ds)
        for u in order:
            if key(refreshed[u]) != key(fresh_d[u]):
                raise Problem("after the session the diagnostics of %s differ from a fresh server on the same final texts" % os.path.basename(u),
                              session=refreshed[u], fresh=fresh_d[u], final_texts=open_docs)
            # the diagnostics last published in the session, when nothing else changed afterwards
            if published.get(u) and published[u][1] == last_touch and len(order) == 1 and key(published[u][0]) != key(first_pass[u]):
                raise Problem("the diagnostics last published for %s differ from a fresh server opened on the final text" % os.path.basename(u),
                              session=published[u][0], fresh=first_pass[u], final_texts=open_docs)
        if key(symbols or []) != key(fresh_symbols or []):
            raise Problem("workspace symbols after the session differ from a fresh server on the same final texts",
                          session=symbols, fresh=fresh_symbols, final_texts=open_docs)
        return {"ok": True, "done": done, "texts": texts_seen, "known": known, "pubs": pubs,
                "final": {u: (open_docs[u], refreshed[u]) for u in order}}
    except Problem as e:
        return {"ok": False, "why": e.why, "detail": e.kw, "at": done, "texts": texts_seen, "known": known}
    except lsp.ServerDied as e:
        return {"ok": False, "why": "the server stopped: " + str(e)[:600], "detail": {}, "at": done, "texts": texts_seen, "known": known}
    except lsp.NoAnswer:
        return {"ok": False, "why": "no answer within %d s to message %d (%s)" % (15, done, msgs[done][0] if done < len(msgs) else "end"),
                "detail": {}, "at": done, "texts": texts_seen, "known": known}
    finally:
        if srv is not None:
            try:
                srv.p.kill()
                srv.p.wait()
            except Exception:
                pass


def run(tier, seed):
    thms = theorem_names()
    ck = C.Check(PID, tier, seed, "proof" if thms else "exploration")
    cov = ck.coverage
    broken = []
    if thms:
        pr = C.prove(ck, ["theories/props/C20_Props.vo"], "props.C20_Props", thms)
        if not pr["ok"]:
            broken.append({"obligations": "C20_Props", "built": pr["built"], "audit": pr["audit"],
                           "assumptions": pr["assumptions"], "log": pr["log_tail"][-1500:]})
    ok, msg = C.cargo_build()
    if not ok:
        raise RuntimeError("cargo build of /repo failed:\n" + msg[-2000:])
    rng = ck.rng
    nsess = 120 if tier == "quick" else 1500
    root = os.path.join(C.scratch_root(), "c20-%d" % os.getpid())
    shutil.rmtree(root, ignore_errors=True)
    jobs = []
    kinds = {}
    for i in range(nsess):
        r = os.path.join(root, "s%d" % i)
        docnames, msgs = gen_session(rng, r)
        for m in msgs:
            kinds[m[0]] = kinds.get(m[0], 0) + 1
        jobs.append((r, docnames, msgs))
    with ThreadPoolExecutor(max_workers=C.NPROC) as ex:
        results = list(ex.map(run_session, jobs))
    real = []
    known_lines = {}
    texts = []
    finals = []
    for (r, docnames, msgs), res in zip(jobs, results):
        texts += res.get("texts", [])
        for k in res.get("known", []):
            known_lines[k.split(":")[0]] = known_lines.get(k.split(":")[0], 0) + 1
        if not res["ok"]:
            real.append({"why": res["why"], "detail": res["detail"], "messages": [list(m) for m in msgs[:res["at"] + 1]], "libs": LIBS})
        else:
            finals.append((r, res["final"]))
    # ---- the Coq model of the document store (lsp/Docs.v, extracted) on the same sessions: it says which document each
    # notification publishes for and what the analysis may depend on (the text and the workspace view); the real
    # diagnostics must be a function of exactly that
    okm, mmsg = C.build_model_runner()
    groups = {}
    nmodel = 0
    if not okm:
        broken.append({"extraction": mmsg[-1500:]})
    else:
        import sx
        disk = "(" + " ".join("(%s %s)" % (C.hexs(k), C.hexs(v)) for k, v in sorted(LIBS.items())) + ")"
        lines, meta = [], []
        for (r, docnames, msgs), res in zip(jobs, results):
            if not res["ok"]:
                continue
            ms = []
            for kind, d, arg in msgs:
                if kind == "open":
                    ms.append("(o %s %s)" % (C.hexs(d), C.hexs(arg)))
                elif kind == "change":
                    ms.append("(c %s %s)" % (C.hexs(d), C.hexs(arg)))
                elif kind == "close":
                    ms.append("(x %s)" % C.hexs(d))
                else:
                    ms.append("(r %s)" % C.hexs(d or "-"))
            lines.append("(%s (%s))" % (disk, " ".join(ms)))
            meta.append((r, msgs, res))
        for (r, msgs, res), out in zip(meta, C.model("lsp", lines) if lines else []):
            nmodel += 1
            t = sx.parse(out)
            mp = t[0]
            if [C.unhex(x[0]).decode() for x in mp] != [d for d, _ in res["pubs"]]:
                real.append({"why": "the server published for other documents than the model of the document store says",
                             "detail": {"model": [C.unhex(x[0]).decode() for x in mp], "server": [d for d, _ in res["pubs"]]},
                             "messages": [list(m) for m in msgs], "correspondence": "lsp/Docs.v run vs ucg lsp"})
                continue
            for (mu, mv), (d, diags) in zip(mp, res["pubs"]):
                if mv == "none":
                    continue        # close: checked to be empty in the session
                view = tuple(sorted((C.unhex(a).decode(), C.unhex(b_).decode("utf-8", "replace")) for a, b_ in mv))
                key = (d, view)
                norm = json.dumps(diags, sort_keys=True).replace(r, "<root>")
                groups.setdefault(key, []).append((norm, msgs))
        for key, items in groups.items():
            if len(set(n for n, _ in items)) > 1:
                a, b_ = [x for x in items if x[0] != items[0][0]][0], items[0]
                real.append({"why": "the same text in the same workspace view got different diagnostics in two sessions (the diagnostics depend on the history)",
                             "detail": {"document": key[0], "view": dict(key[1]), "one": json.loads(b_[0]), "other": json.loads(a[0])},
                             "messages": [list(m) for m in a[1]], "other_session": [list(m) for m in b_[1]]})
    cov["model_sessions_compared"] = nmodel
    cov["analysis_inputs_seen_more_than_once"] = sum(1 for v in groups.values() if len(v) > 1)
    # ---- a syntax diagnostic appears exactly when the compiler's parser rejects the text, and at the same position
    uniq = {}
    for t, d in texts:
        uniq.setdefault(t, d)
    tlist = list(uniq)
    parsed = C.harness("ast", tlist)
    nrej = 0
    for t, pr in zip(tlist, parsed):
        d = uniq[t]
        if "err" in pr:
            nrej += 1
            first = str(pr["err"]).split("\n")[0]
            m = re.search(r"line: (\d+) column: (\d+)", first)
            if len(d) != 1:
                real.append({"why": "the parser rejects the text but the server published %d diagnostics" % len(d), "detail": {"text": t, "parser": first, "diagnostics": d}})
            elif m and (d[0]["range"]["start"]["line"], d[0]["range"]["start"]["character"]) != (int(m.group(1)) - 1, int(m.group(2)) - 1):
                real.append({"why": "the syntax diagnostic is not at the position the parser reports", "detail": {"text": t, "parser": first, "diagnostics": d}})
        elif "ok" in pr:
            synt = [x for x in d if re.match(r"(Expected |Invalid Token|Unexpected |ParseError|Not a (float|symbol character|Boolean|Comment|Bareword|String|DIGIT|Punctuation|Empty)\b)", x["message"]) and "but got" not in x["message"]]
            if synt and not any("Expected" in x["message"] and ("int" in x["message"] or "str" in x["message"]) for x in synt):
                real.append({"why": "a syntax diagnostic for a text the parser accepts", "detail": {"text": t, "diagnostics": synt}})
    # ---- a text the compiler builds gets no diagnostics
    bjobs, bmeta = [], []
    for r, final in finals:
        if not final:
            continue
        d = r + "-build"
        shutil.copytree(r, d)
        for u, (t, _) in final.items():
            open(os.path.join(d, os.path.basename(u)), "w", newline="").write(t)
        for u, (t, diags) in final.items():
            bjobs.append(([C.UCG_BIN, "build", os.path.basename(u)], d, None))
            bmeta.append((t, diags, {os.path.basename(x): final[x][0] for x in final}))
    nbuilt = 0
    for (t, diags, allt), (rc, out, err) in zip(bmeta, C.run_many(bjobs)):
        if rc == 0:
            nbuilt += 1
            if diags:
                real.append({"why": "the compiler builds the text but the server publishes diagnostics", "detail": {"text": t, "diagnostics": diags, "documents": allt, "libs": LIBS}})
    shutil.rmtree(root, ignore_errors=True)
    cov["evaluations"] = sum(len(j[2]) for j in jobs)
    cov["distinct_nontrivial"] = len(tlist)
    cov["rule"] = ("sessions of 1..30 messages over 1..3 documents (one sometimes shadowing a file on disk; documents may import libraries on disk and each other); "
                   "texts: generated programs, token-mutated programs, truncations of the current text, token/Unicode soup, CRLF; requests hover/definition/"
                   "completion at token starts, inside tokens, at line ends, past line ends and beyond the document (up to u32::MAX), semantic tokens, "
                   "workspace symbols; every reported range checked against the document it names; at the end every open document is re-sent and compared "
                   "with a fresh server opened on the final texts; every published text is given to the compiler's parser; final texts are built by `ucg build`")
    cov["generator_distribution"] = kinds
    cov["texts_parser_rejects"] = nrej
    cov["final_texts_that_build"] = nbuilt
    cov["position_unit_reports"] = known_lines
    cov["samples"] = [json.dumps(jobs[0][2])[:1200]]
    cov["traces_validated_against_impl"] = len(jobs)
    ck.assumptions = ["a range is inside the document when its start is a position of the text (UTF-16 units, LF/CRLF/CR line ends) and its end is at most one unit past the line end",
                      "files on disk do not change during a session", "messages are well-formed JSON-RPC with valid parameter types"]
    miss = known_lines.pop("definition-missing-import-target", 0)
    cov["definition_missing_import_target_reports"] = miss
    if miss:
        what2 = ("go-to-definition on a name bound to `import \"<path>\"` answers with a location in <path> although no such file is open or on disk")
        if ck.is_known("C20-definition-missing-import-target"):
            ck.known_finding("C20-definition-missing-import-target", "%s (%d reports this run)" % (what2, miss))
        else:
            real.append({"why": what2, "detail": {"reports": miss}})
    if known_lines:
        what = ("positions are reported in the tokenizer's units (byte columns, lines ending at LF only), which leave the document in the "
                "protocol's units (UTF-16, CR alone ends a line) on lines with non-ASCII text or lone CR")
        if ck.is_known("C20-position-units"):
            ck.known_finding("C20-position-units", "%s (%d reports this run)" % (what, sum(known_lines.values())))
        else:
            real.append({"why": what, "detail": known_lines})
    if real:
        r0 = min(real, key=lambda r: len(json.dumps(r, default=str)))
        by = {}
        for r in real:
            by[r["why"][:80]] = by.get(r["why"][:80], 0) + 1
        ck.violation({"kind": "the language server does not answer from the current text", "failing": r0, "more": len(real) - 1, "by_kind": by, "broken": broken})
    elif broken:
        ck.violation({"kind": "proof obligation no longer checks", "broken": broken, "theorems": thms}, nofail=True)
    return ck.finish()


def replay(path):
    r = json.load(open(path))
    f = r.get("failing")
    if not f:
        print(json.dumps(r.get("broken"))[:2000])
        return 1
    print("recorded:", f["why"])
    print(json.dumps(f.get("detail"), indent=1)[:3000])
    if f.get("messages"):
        C.cargo_build()
        root = os.path.join(C.scratch_root(), "c20-replay")
        shutil.rmtree(root, ignore_errors=True)
        res = run_session((root, [], [tuple(m[:2]) + (tuple(m[2]) if isinstance(m[2], list) else m[2],) for m in f["messages"]]))
        print("replayed:", res.get("why", "no problem reproduced"))
        shutil.rmtree(root, ignore_errors=True)
    return 1
