"""Source-mutation test of t_stmt.py: every mutated copy of translate.rs / vm.rs must either change the generated
tables or make the translator give up with a status.  Writes the mutants under ../try/mut."""
import os, sys, shutil, subprocess
HERE = os.path.dirname(os.path.abspath(__file__)); ROOT = os.path.dirname(HERE); sys.path.insert(0, HERE)
import t_stmt
SRC = os.path.join(ROOT, "repo")
T = "src/build/opcode/translate.rs"; V = "src/build/opcode/vm.rs"
tr = open(os.path.join(SRC, T)).read(); vm = open(os.path.join(SRC, V)).read()
def rep(s, a, b, n=1):
    assert a in s, a
    return s.replace(a, b, n)
muts = {
 "a_constraint_prebind_bindover": (rep(tr, "ops.push(Op::Bind, def.pos.clone());", "ops.push(Op::BindOver, def.pos.clone());"), vm),
 "b_let_reordered": (rep(tr, "ops.push(Op::Sym(binding), def.name.pos);\n                Self::translate_expr(def.value, ops, root);\n                if let",
                             "Self::translate_expr(def.value, ops, root);\n                ops.push(Op::Sym(binding), def.name.pos);\n                if let"), vm),
 "c_drop_checkconstraint": (rep(tr, "ops.push(Op::CheckConstraint, def.pos.clone());", ""), vm),
 "d_vm_bind_nonstrict": (tr, rep(vm, "Op::Bind => self.op_bind(true)?,", "Op::Bind => self.op_bind(false)?,")),
 "e_let_bindover": (rep(tr, "ops.push(Op::Bind, def.pos);", "ops.push(Op::BindOver, def.pos);"), vm),
 "f_unknown_opcode": (rep(tr, "ops.push(Op::Pop, expr_pos);", "ops.push(Op::Noop, expr_pos.clone());\n ops.push(Op::Pop, expr_pos);"), vm),
 "g_new_arm": (rep(tr, "Statement::Output(pos, tok, expr) => {", "Statement::Foo(e) => { Self::translate_expr(e, ops, root); }\n Statement::Output(pos, tok, expr) => {"), vm),
 "h_sym_other_name": (rep(tr, "ops.push(Op::Sym(binding), def.name.pos);\n                Self::translate_expr(def.value", "ops.push(Op::Sym(other), def.name.pos);\n                Self::translate_expr(def.value"), vm),
 "i_dispatch_swapped": (tr, rep(vm, "Op::BindOver => self.op_bind(false)?,", "Op::BindOver => self.op_bindx(false)?,")),
 "j_expr_drop_pop": (rep(tr, "ops.push(Op::Pop, expr_pos);", ""), vm),
 "k_code_in_let": (rep(tr, "let binding = def.name.fragment;\n                ops.push(Op::Sym(binding), def.name.pos);", "let binding = def.name.fragment;\n let zz = Self::translate_expr(def.value.clone(), ops, root);\n                ops.push(Op::Sym(binding), def.name.pos);"), vm),
}
base = os.path.join(ROOT, "try", "mut")
for name, (t, v) in muts.items():
    d = os.path.join(base, name)
    os.makedirs(os.path.join(d, "repo/src/build/opcode"), exist_ok=True)
    open(os.path.join(d, "repo", T), "w").write(t); open(os.path.join(d, "repo", V), "w").write(v)
    os.makedirs(os.path.join(d, "gen"), exist_ok=True)
    r = t_stmt.generate(os.path.join(d, "repo"), os.path.join(d, "gen"), t_stmt.write_if_changed)
    same = None
    if r["status"] == "generated":
        same = open(os.path.join(d, "gen/StmtOps.v")).read() == open(os.path.join(ROOT, "coq/gen/StmtOps.v")).read()
    print(name, "|", r["status"], "| same as current:" , same)
