"""T9: regenerate gen/StmtOps.v from `translate_stmt` (src/build/opcode/translate.rs) and from the two
lines of `VM::run` (src/build/opcode/vm.rs) that dispatch Op::Bind / Op::BindOver to op_bind(strict).

For every `Statement::X(..) => { ... }` arm of `translate_stmt` the translator walks the arm body token by
token and records, in source order,
  * every `ops.push(Op::<opcode>, <pos>)`               -> one abstract statement-level op (table OPS below),
  * every `Self::translate_expr(<sub-expression>, ...)`  -> `SOCode k` (k = which sub-expression, table SUBEXPR),
  * an `if let Some(<id>) = def.constraint { ... }`      -> an OPTIONAL part: the arm yields two tables, the
                                                            `_constrained` one with the part, the plain one without.
`let <id> = <expr without side effects>;` lines are bookkeeping (they bind the name / a position) and emit
nothing; the identifier bound to `def.name.fragment` is remembered because it is the only thing `Op::Sym` may
carry.  Anything else in an arm, an unknown opcode, an unknown sub-expression, an unknown or missing statement
form makes the translator give up with a `status` that says where (it never guesses)."""
import os
import sys

sys.path.insert(0, os.path.dirname(os.path.abspath(__file__)))
import rustlex

SRC_TRANSLATE = "src/build/opcode/translate.rs"
SRC_VM = "src/build/opcode/vm.rs"

# Statement:: variant -> base name of the generated table
FORMS = {"Expression": "expr", "Assert": "assert", "Let": "let", "Constraint": "constraint", "Output": "out"}
# the optional part of an arm: field the `if let Some(..)` scrutinises -> suffix of the second table
OPTIONAL_FIELDS = {("def", ".", "constraint"): "constrained"}
# opcodes without operands
PLAIN_OPS = {"Bind": "SOBind", "BindOver": "SOBindOver", "CheckConstraint": "SOCheckConstraint", "Pop": "SOPop"}
HOOKS = {"Assert": "SOHookAssert", "Out": "SOHookOut"}
# sub-expressions handed to translate_expr -> index
SUBEXPR = {("def", ".", "value"): 0, ("expr",): 0}


class Giveup(ValueError):
    pass


def vals(toks):
    return [t[1] for t in toks]


def split_args(toks):
    """split a token list on top-level commas"""
    out, cur, depth = [], [], 0
    for t in toks:
        if t[1] in ("(", "[", "{"):
            depth += 1
        elif t[1] in (")", "]", "}"):
            depth -= 1
        if t[1] == "," and depth == 0:
            out.append(cur)
            cur = []
        else:
            cur.append(t)
    if cur:
        out.append(cur)
    return out


def arms_of(body):
    """`match stmt { Statement::X(pat) => { body } ... }` -> [(X, body tokens)]"""
    v = vals(body)
    if v[:3] != ["match", "stmt", "{"]:
        raise Giveup("translate_stmt does not start with `match stmt {`")
    end = rustlex.balanced(body, 2)
    if end != len(body):
        raise Giveup("translate_stmt: tokens after the match")
    inner = body[3:end - 1]
    iv = vals(inner)
    arms = []
    i = 0
    while i < len(inner):
        if iv[i:i + 2] != ["Statement", "::"] or i + 3 >= len(inner) or inner[i + 2][0] != "id":
            raise Giveup("translate_stmt: expected `Statement::<Form>` at token %d (%r)" % (i, iv[i:i + 4]))
        form = iv[i + 2]
        j = i + 3
        if iv[j] == "(":
            j = rustlex.balanced(inner, j, "(", ")")
        if iv[j:j + 2] != ["=>", "{"]:
            raise Giveup("arm %s: expected `=> {`" % form)
        k = rustlex.balanced(inner, j + 1)
        arms.append((form, inner[j + 2:k - 1]))
        i = k
        if i < len(inner) and iv[i] == ",":
            i += 1
    return arms


def op_of(form, optoks, name_ids):
    """tokens of the first argument of ops.push -> abstract op"""
    v = vals(optoks)
    if v[:2] != ["Op", "::"] or len(v) < 3:
        raise Giveup("arm %s: ops.push of something that is not `Op::..`: %r" % (form, v))
    op, rest = v[2], v[3:]
    if op in PLAIN_OPS and not rest:
        return PLAIN_OPS[op]
    if op == "Sym" and rest[:1] == ["("] and rest[-1:] == [")"]:
        arg = rest[1:-1]
        if arg[-4:] == [".", "clone", "(", ")"]:
            arg = arg[:-4]
        if len(arg) == 1 and arg[0] in name_ids:
            return "SOSym"
        raise Giveup("arm %s: Op::Sym of %r, which is not the statement's name" % (form, arg))
    if op == "BuildConstraint" and rest == ["(", "vec!", "[", "]", ")"]:
        return "SOBuildConstraintEmpty"
    if op == "Runtime" and len(rest) == 5 and rest[:3] == ["(", "Hook", "::"] and rest[4] == ")" and rest[3] in HOOKS:
        return HOOKS[rest[3]]
    if op == "Val" and rest == ["(", "Primitive", "::", "Str", "(", "tok", ".", "fragment", ")", ")"]:
        return "SOValTypeName"
    raise Giveup("arm %s: opcode not understood: %r" % (form, v))


def walk(form, toks, name_ids, subexpr, allow_optional):
    """arm body -> list of items; an item is an op name, ("code", k) or ("opt", suffix, [items])"""
    out = []
    v = vals(toks)
    i = 0
    while i < len(toks):
        # let <id> = <pure expression> ;
        if v[i] == "let" and i + 2 < len(toks) and toks[i + 1][0] == "id" and v[i + 2] == "=":
            j = i + 3
            while j < len(toks) and v[j] != ";":
                if v[j] in ("{", "}"):
                    raise Giveup("arm %s: block inside a `let`" % form)
                j += 1
            if j >= len(toks):
                raise Giveup("arm %s: unterminated `let`" % form)
            rhs = v[i + 3:j]
            if "ops" in rhs or "Self" in rhs or "translate_expr" in rhs or "push" in rhs:
                raise Giveup("arm %s: `let %s = ...` touches the op list" % (form, v[i + 1]))
            if rhs == ["def", ".", "name", ".", "fragment"]:
                name_ids = name_ids | {v[i + 1]}
            i = j + 1
            continue
        # ops . push ( <op> , <pos> ) ;
        if v[i:i + 4] == ["ops", ".", "push", "("]:
            k = rustlex.balanced(toks, i + 3, "(", ")")
            args = split_args(toks[i + 4:k - 1])
            if len(args) != 2 or k >= len(toks) or v[k] != ";":
                raise Giveup("arm %s: ops.push with %d arguments / no `;`" % (form, len(args)))
            out.append(op_of(form, args[0], name_ids))
            i = k + 1
            continue
        # Self :: translate_expr ( <e> , ops , root ) ;
        if v[i:i + 4] == ["Self", "::", "translate_expr", "("]:
            k = rustlex.balanced(toks, i + 3, "(", ")")
            args = split_args(toks[i + 4:k - 1])
            if len(args) != 3 or vals(args[1]) != ["ops"] or k >= len(toks) or v[k] != ";":
                raise Giveup("arm %s: translate_expr call not of the form (e, ops, root);" % form)
            e = tuple(vals(args[0]))
            if e not in subexpr:
                raise Giveup("arm %s: translate_expr of an unknown sub-expression %r" % (form, e))
            out.append(("code", subexpr[e]))
            i = k + 1
            continue
        # if let Some ( <id> ) = <field> { ... }
        if v[i:i + 4] == ["if", "let", "Some", "("] and i + 6 < len(toks) and v[i + 5:i + 7] == [")", "="]:
            bound = v[i + 4]
            j = i + 7
            while j < len(toks) and v[j] != "{":
                j += 1
            if j >= len(toks):
                raise Giveup("arm %s: `if let` without a block" % form)
            field = tuple(v[i + 7:j])
            if not allow_optional or field not in OPTIONAL_FIELDS:
                raise Giveup("arm %s: optional part on %r not understood" % (form, field))
            k = rustlex.balanced(toks, j)
            if k < len(toks) and v[k] == "else":
                raise Giveup("arm %s: `if let .. else`" % form)
            sub = dict(subexpr)
            sub[(bound,)] = 1
            out.append(("opt", OPTIONAL_FIELDS[field], walk(form, toks[j + 1:k - 1], name_ids, sub, False)))
            i = k
            continue
        raise Giveup("arm %s: statement not understood at %r" % (form, v[i:i + 6]))
    return out


def flatten(items, with_opt):
    out = []
    for it in items:
        if isinstance(it, tuple) and it[0] == "opt":
            if with_opt:
                out.extend(flatten(it[2], with_opt))
        elif isinstance(it, tuple):
            out.append("SOCode %d" % it[1])
        else:
            out.append(it)
    return out


def tables_of(toks):
    body = rustlex.body_after(toks, ["fn", "translate_stmt"])
    tables = []
    seen = set()
    for form, arm in arms_of(body):
        if form not in FORMS:
            raise Giveup("unknown statement form Statement::%s" % form)
        if form in seen:
            raise Giveup("two arms for Statement::%s" % form)
        seen.add(form)
        items = walk(form, arm, frozenset(), SUBEXPR, True)
        opts = [it for it in items if isinstance(it, tuple) and it[0] == "opt"]
        if len(opts) > 1:
            raise Giveup("arm %s: more than one optional part" % form)
        base = "gen_%s_ops" % FORMS[form]
        tables.append((base, flatten(items, False)))
        if opts:
            tables.append(("gen_%s_%s_ops" % (FORMS[form], opts[0][1]), flatten(items, True)))
    missing = [f for f in FORMS if f not in seen]
    if missing:
        raise Giveup("no arm for Statement::%s" % ", ".join(missing))
    names = [n for n, _ in tables]
    if "gen_let_constrained_ops" not in names:
        raise Giveup("the Let arm has no optional constraint part")
    for n, ops in tables:
        if not ops:
            raise Giveup("%s: empty table" % n)
    return tables


def strictness(toks):
    """`Op::Bind => self.op_bind(true)?,` and `Op::BindOver => self.op_bind(false)?,` of VM::run"""
    body = rustlex.body_after(toks, ["pub", "fn", "run"])
    v = vals(body)
    res = {}
    for op, key in (("Bind", "gen_bind_strict"), ("BindOver", "gen_bindover_strict")):
        hits = [i for i in range(len(v) - 10) if v[i:i + 4] == ["Op", "::", op, "=>"]]
        if len(hits) != 1:
            raise Giveup("vm.rs run: %d dispatch lines for Op::%s" % (len(hits), op))
        i = hits[0]
        if v[i + 4:i + 8] != ["self", ".", "op_bind", "("] or v[i + 9:i + 12] != [")", "?", ","] \
                or v[i + 8] not in ("true", "false"):
            raise Giveup("vm.rs run: Op::%s is not dispatched to self.op_bind(<bool>)?" % op)
        res[key] = v[i + 8]
    return res


def emit(tables, strict):
    lines = ["(* GENERATED by translate/t_stmt.py from %s (translate_stmt) and %s (run) -- do not edit *)"
             % (SRC_TRANSLATE, SRC_VM),
             "From Coq Require Import List.",
             "From Ucg Require Import bind.Bind_Ops.",
             "Import ListNotations.",
             "",
             "(* per statement form: the statement-level ops in the order translate_stmt pushes them *)"]
    for name, ops in tables:
        lines.append("Definition %s : list sop := [%s]." % (name, "; ".join(ops)))
    lines.append("")
    lines.append("(* VM::run:  Op::Bind => self.op_bind(%s),  Op::BindOver => self.op_bind(%s) *)"
                 % (strict["gen_bind_strict"], strict["gen_bindover_strict"]))
    for key in ("gen_bind_strict", "gen_bindover_strict"):
        lines.append("Definition %s : bool := %s." % (key, strict[key]))
    return "\n".join(lines) + "\n"


def generate(repo, gen_dir, write):
    out = {}
    try:
        toks = rustlex.lex(open(os.path.join(repo, SRC_TRANSLATE)).read())
        tables = tables_of(toks)
        strict = strictness(rustlex.lex(open(os.path.join(repo, SRC_VM)).read()))
        write(os.path.join(gen_dir, "StmtOps.v"), emit(tables, strict))
        out["status"] = "generated"
        out["tables"] = dict(tables)
        out["strict"] = strict
    except (ValueError, OSError, AssertionError, IndexError, KeyError) as e:
        out["status"] = "translator-failed: %s" % e
    return out


def write_if_changed(path, text):
    try:
        if open(path).read() == text:
            return
    except OSError:
        pass
    os.makedirs(os.path.dirname(path), exist_ok=True)
    with open(path, "w") as f:
        f.write(text)


if __name__ == "__main__":
    # t_stmt.py <repo> [<gen dir> ...]   (without a gen dir: print the file)
    repo_ = sys.argv[1] if len(sys.argv) > 1 else "/repo"
    if len(sys.argv) > 2:
        for d in sys.argv[2:]:
            r = generate(repo_, d, write_if_changed)
        print(r["status"])
    else:
        print(generate(repo_, "/tmp/gen_test", lambda p, c: print(c)))
