"""A small Rust-subset lexer used by the translators (no line regexes):
strips comments, keeps string/char literals as single tokens, and can extract the
brace-balanced body following an anchor."""
import re

TOKEN = re.compile(r'''
    (?P<ws>\s+)
  | (?P<lc>//[^\n]*)
  | (?P<bc>/\*.*?\*/)
  | (?P<rstr>r\#*"(?:.|\n)*?"\#*)
  | (?P<str>"(?:\\.|[^"\\])*")
  | (?P<chr>'(?:\\.|[^'\\])')
  | (?P<id>[A-Za-z_][A-Za-z0-9_]*!?)
  | (?P<num>\d[\d_]*(?:\.\d+)?(?:[ui]\d+|usize|f64)?)
  | (?P<op>=>|::|->|==|!=|<=|>=|&&|\|\||\.\.|[{}()\[\];,.<>=+\-*/%&|!?:@#$^~'])
''', re.X | re.S)


def lex(src):
    toks = []
    i = 0
    while i < len(src):
        m = TOKEN.match(src, i)
        if not m:
            raise ValueError("rustlex: cannot tokenize at %d: %r" % (i, src[i:i + 30]))
        i = m.end()
        k = m.lastgroup
        if k in ("ws", "lc", "bc"):
            continue
        toks.append((k, m.group(k)))
    return toks


def find_seq(toks, seq, start=0):
    vals = [t[1] for t in toks]
    n = len(seq)
    for i in range(start, len(vals) - n + 1):
        if vals[i:i + n] == list(seq):
            return i
    return -1


def balanced(toks, i, open_="{", close="}"):
    """toks[i] must be `open_`; returns index just after the matching close."""
    assert toks[i][1] == open_, toks[i]
    d = 0
    j = i
    while j < len(toks):
        if toks[j][1] == open_:
            d += 1
        elif toks[j][1] == close:
            d -= 1
            if d == 0:
                return j + 1
        j += 1
    raise ValueError("unbalanced")


def body_after(toks, anchor_seq):
    """tokens of the first {...} block after the anchor sequence (braces excluded)."""
    i = find_seq(toks, anchor_seq)
    if i < 0:
        raise ValueError("anchor not found: %r" % (anchor_seq,))
    j = i
    while toks[j][1] != "{":
        j += 1
    k = balanced(toks, j)
    return toks[j + 1:k - 1]


def unquote(s):
    """Rust string literal -> python str (handles common escapes)."""
    assert s[0] == '"' and s[-1] == '"'
    out = []
    i = 1
    while i < len(s) - 1:
        c = s[i]
        if c == "\\":
            i += 1
            e = s[i]
            out.append({"n": "\n", "r": "\r", "t": "\t", "\\": "\\", '"': '"', "'": "'", "0": "\0"}.get(e, e))
        else:
            out.append(c)
        i += 1
    return "".join(out)


def unquote_char(s):
    assert s[0] == "'" and s[-1] == "'"
    return unquote('"' + s[1:-1] + '"')
