"""T4: regenerate gen/WalkTable.v from src/ast/mod.rs (which fields of each Expression / Statement variant hold
sub-expressions) and src/ast/walk.rs (which of them walk_expression / walk_statement descend into)."""
import os
import re
import sys

sys.path.insert(0, os.path.dirname(os.path.abspath(__file__)))
import rustlex

EXPR_TYPES = ("Expression", "FieldList", "Statement", "FormatArgs", "ConstraintArm", "ConstraintRangeDef")


def structs(toks):
    """struct name -> [(field, type text)]"""
    out = {}
    vals = [t[1] for t in toks]
    i = 0
    while True:
        i = rustlex.find_seq(toks, ["pub", "struct"], i)
        if i < 0:
            break
        name = vals[i + 2]
        j = i + 3
        while vals[j] not in ("{", ";", "("):
            j += 1
        if vals[j] != "{":
            i = j
            continue
        k = rustlex.balanced(toks, j)
        body = toks[j + 1:k - 1]
        fields = []
        cur = []
        depth = 0
        for t in body + [("op", ",")]:
            if t[1] in "<([":
                depth += 1
            if t[1] in ">)]":
                depth -= 1
            if t[1] == "," and depth == 0:
                if cur:
                    cv = [x[1] for x in cur if x[1] != "pub"]
                    if ":" in cv:
                        c = cv.index(":")
                        fields.append((cv[c - 1], " ".join(cv[c + 1:])))
                cur = []
            else:
                cur.append(t)
        out[name] = fields
        i = k
    return out


def enum_variants(toks, name):
    body = rustlex.body_after(toks, ["enum", name])
    vs = []
    i = 0
    vals = [t[1] for t in body]
    while i < len(body):
        if body[i][0] == "id" and (i == 0 or vals[i - 1] in (",", "]") or i == 0):
            vname = vals[i]
            payload = []
            if i + 1 < len(body) and vals[i + 1] == "(":
                k = rustlex.balanced(body, i + 1, "(", ")")
                payload = [x[1] for x in body[i + 2:k - 1]]
                i = k
            else:
                i += 1
            vs.append((vname, " ".join(payload)))
        else:
            i += 1
    return vs


def holds_expr(ty):
    return any(t in ty for t in EXPR_TYPES)


def child_fields(variant, payload, S):
    """names of the expression-holding children of a variant"""
    parts = [p.strip() for p in re.split(r",(?![^<]*>)", payload)] if payload else []
    out = []
    for idx, p in enumerate(parts):
        base = p.replace("Box <", "").replace(">", "").strip()
        if base in S:
            for f, ty in S[base]:
                if holds_expr(ty) or (ty.strip() == "Value" and False):
                    out.append(f)
        elif holds_expr(p):
            out.append("_%d" % idx)
        elif base in ("FuncOpDef",):
            out.append("__funcop")
    return out


def walked(toks, fn, enum_name, S):
    """variant -> set of field names mentioned in the arm of walk_<fn>"""
    body = rustlex.body_after(toks, ["fn", fn])
    vals = [t[1] for t in body]
    res = {}
    i = 0
    while i < len(body) - 3:
        if vals[i] == enum_name and vals[i + 1] == "::" and vals[i + 3] in ("(", "=>"):
            v = vals[i + 2]
            # arm body: up to the next `<enum_name> ::` at the same nesting level (approximation: next occurrence
            # preceded by `}` or `,` or start)
            j = i + 3
            nxt = len(body)
            k = j
            depth = 0
            while k < len(body):
                if vals[k] in "({[":
                    depth += 1
                elif vals[k] in ")}]":
                    depth -= 1
                    if depth < 0:
                        nxt = k
                        break
                if k > j + 1 and depth == 0 and vals[k] == enum_name and vals[k + 1] == "::" and vals[k - 1] in (",", "}"):
                    nxt = k
                    break
                k += 1
            arm = vals[j:nxt]
            fields = set()
            for m in range(len(arm) - 2):
                if arm[m + 1] == "." and arm[m] in ("def", "f", "i", "rdef", "d"):
                    fields.add(arm[m + 2])
            if "walk_expression" in arm or "walk_fieldset" in arm or "walk_value" in arm or "walk_statement" in arm:
                fields.add("__walks")
            res.setdefault(v, set()).update(fields)
            i = nxt
        else:
            i += 1
    return res


def generate(repo, gen_dir, write):
    out = {}
    try:
        at = rustlex.lex(open(os.path.join(repo, "src/ast/mod.rs")).read())
        wt = rustlex.lex(open(os.path.join(repo, "src/ast/walk.rs")).read())
        S = structs(at)
        rows = []
        for enum_name, fn in (("Expression", "walk_expression"), ("Statement", "walk_statement")):
            W = walked(wt, fn, enum_name, S)
            for v, payload in enum_variants(at, enum_name):
                kids = child_fields(v, payload, S)
                w = W.get(v, set())
                if v == "FuncOp":
                    # FuncOpDef is itself an enum of three defs; walk.rs matches on it inside the arm
                    kids = ["func", "target", "acc"]
                if v == "Let":
                    kids = [f for f, ty in S.get("LetDef", []) if holds_expr(ty)]
                if v == "Constraint" and enum_name == "Statement":
                    kids = [f for f, ty in S.get("ConstraintBindingDef", []) if holds_expr(ty)]
                if v == "Constraint" and enum_name == "Expression":
                    kids = ["arms"]
                walked_kids = []
                for kf in kids:
                    if kf.startswith("_"):
                        if "__walks" in w:
                            walked_kids.append(kf)
                    elif kf in w:
                        walked_kids.append(kf)
                    elif kf == "message" and "message" in w:
                        walked_kids.append(kf)
                rows.append((enum_name + "." + v, kids, walked_kids))
        lines = ["(* GENERATED by translate/t_walk.py from src/ast/mod.rs and src/ast/walk.rs -- do not edit *)",
                 "From Ucg Require Import base.Bytes.", "Local Open Scope string_scope.", "",
                 "(* (variant, fields holding sub-expressions, fields the walker descends into) *)",
                 "Definition walk_table : list (string * list string * list string) :=", "  ["]
        lines.append(";\n".join('    ("%s", [%s], [%s])' % (n, "; ".join('"%s"' % k for k in ks), "; ".join('"%s"' % k for k in ws))
                                for n, ks, ws in rows))
        lines.append("  ].")
        write(os.path.join(gen_dir, "WalkTable.v"), "\n".join(lines) + "\n")
        out["status"] = "generated"
        out["rows"] = rows
    except (ValueError, OSError, AssertionError, IndexError, KeyError) as e:
        out["status"] = "translator-failed: %s" % e
    return out


if __name__ == "__main__":
    r = generate(sys.argv[1] if len(sys.argv) > 1 else "/repo", "/tmp/gen_test", lambda p, c: None)
    print(r["status"])
    for row in r.get("rows", []):
        print(row)
