(* minimal s-expression reader/printer for the model runner's line protocol *)
type t = A of string | L of t list

let parse (s : string) : t =
  let n = String.length s in
  let pos = ref 0 in
  let rec skip () = if !pos < n && (s.[!pos] = ' ' || s.[!pos] = '\t') then (incr pos; skip ()) in
  let rec value () =
    skip ();
    if !pos >= n then failwith "sexp: eof"
    else if s.[!pos] = '(' then begin
      incr pos;
      let items = ref [] in
      let rec loop () =
        skip ();
        if !pos >= n then failwith "sexp: unclosed"
        else if s.[!pos] = ')' then incr pos
        else (items := value () :: !items; loop ()) in
      loop ();
      L (List.rev !items)
    end else begin
      let st = !pos in
      while !pos < n && s.[!pos] <> ' ' && s.[!pos] <> '(' && s.[!pos] <> ')' && s.[!pos] <> '\t' do incr pos done;
      A (String.sub s st (!pos - st))
    end in
  value ()

let rec to_buf b = function
  | A a -> Buffer.add_string b a
  | L l ->
    Buffer.add_char b '(';
    List.iteri (fun i x -> if i > 0 then Buffer.add_char b ' '; to_buf b x) l;
    Buffer.add_char b ')'

let to_string x = let b = Buffer.create 64 in to_buf b x; Buffer.contents b

(* hex atoms: "x6162" <-> char list *)
let hexval c = match c with
  | '0'..'9' -> Char.code c - 48 | 'a'..'f' -> Char.code c - 87 | 'A'..'F' -> Char.code c - 55
  | _ -> failwith "hex"
let bytes_of_atom (a : string) : char list =
  if String.length a = 0 || a.[0] <> 'x' then failwith ("not a hex atom: " ^ a);
  let n = (String.length a - 1) / 2 in
  List.init n (fun i -> Char.chr (hexval a.[1 + 2*i] * 16 + hexval a.[2 + 2*i]))
let atom_of_bytes (l : char list) : string =
  let b = Buffer.create 16 in
  Buffer.add_char b 'x';
  List.iter (fun c -> Buffer.add_string b (Printf.sprintf "%02x" (Char.code c))) l;
  Buffer.contents b
