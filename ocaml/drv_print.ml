(* C05 driver for the printer model (modes pp f64 sched calls cmap), called from driver.ml *)
open Model_print
open Sexp

let rec nat_of_int n = if n <= 0 then O else S (nat_of_int (n - 1))
let rec pos_of_int n = if n = 1 then XH else if n land 1 = 0 then XO (pos_of_int (n lsr 1)) else XI (pos_of_int (n lsr 1))
let n_of_int (i : int) : n = if i = 0 then N0 else Npos (pos_of_int i)
let rec int_of_pos = function XH -> 1 | XO p -> 2 * int_of_pos p | XI p -> 2 * int_of_pos p + 1
let int_of_n = function N0 -> 0 | Npos p -> int_of_pos p
let z_of_decimal_any (s : string) : z =
  let neg = String.length s > 0 && s.[0] = '-' in
  let digits = if neg then String.sub s 1 (String.length s - 1) else s in
  let ten = Zpos (XO (XI (XO XH))) in
  let acc = ref Z0 in
  String.iter (fun c -> let d = Char.code c - 48 in
                acc := Z.add (Z.mul !acc ten) (if d = 0 then Z0 else Zpos (pos_of_int d))) digits;
  if neg then Z.opp !acc else !acc
let op_of_string = function
  | "Add" -> Add | "Sub" -> Sub | "Mul" -> Mul | "Div" -> Div | "Mod" -> Mod | "AND" -> AND | "OR" -> OR
  | "Equal" -> Equal | "GT" -> GT | "LT" -> LT | "NotEqual" -> NotEqual | "GTEqual" -> GTEqual
  | "LTEqual" -> LTEqual | "REMatch" -> REMatch | "NotREMatch" -> NotREMatch | "IN" -> IN | "IS" -> IS
  | "DOT" -> DOT | s -> failwith ("op " ^ s)
let rec expr_of_sexp (x : Sexp.t) : expr = match x with
  | L [A "null"] -> ENull
  | L [A "bool"; A v] -> EBool (v = "1")
  | L [A "int"; A z] -> EInt (z_of_decimal_any z)
  | L [A "float"; A bits] -> EFloat (z_of_decimal_any bits)
  | L [A "str"; A s] -> EStr (bytes_of_atom s)
  | L [A "sym"; A s] -> ESym (bytes_of_atom s)
  | L (A "tuple" :: fs) -> ETuple (List.map field_of_sexp fs)
  | L (A "list" :: es) -> EList (List.map expr_of_sexp es)
  | L [A "bin"; A o; l; r] -> EBin (op_of_string o, expr_of_sexp l, expr_of_sexp r)
  | L [A "not"; e] -> ENot (expr_of_sexp e)
  | L [A "group"; e] -> EGroup (expr_of_sexp e)
  | L (A "copy" :: t :: fs) -> ECopy (expr_of_sexp t, List.map field_of_sexp fs)
  | L [A "range"; s; st; e] -> ERange (expr_of_sexp s, opt_expr st, expr_of_sexp e)
  | L [A "fmtl"; L parts; L args] -> EFormatL (List.map part_of_sexp parts, List.map expr_of_sexp args)
  | L [A "fmts"; L parts; e] -> EFormatS (List.map part_of_sexp parts, expr_of_sexp e)
  | L [A "call"; f; L args] -> ECall (expr_of_sexp f, List.map expr_of_sexp args)
  | L [A "cast"; A c; e] -> ECast ((match c with "int" -> CInt | "float" -> CFloat | "str" -> CStr | "bool" -> CBool
                                               | _ -> failwith "cast"), expr_of_sexp e)
  | L [A "func"; L ps; body] -> EFunc (List.map (function A p -> bytes_of_atom p | _ -> failwith "param") ps, expr_of_sexp body)
  | L [A "select"; v; d; L arms] -> ESelect (expr_of_sexp v, opt_expr d, List.map field_of_sexp arms)
  | L [A "map"; f; t] -> EMap (expr_of_sexp f, expr_of_sexp t)
  | L [A "filter"; f; t] -> EFilter (expr_of_sexp f, expr_of_sexp t)
  | L [A "reduce"; f; a; t] -> EReduce (expr_of_sexp f, expr_of_sexp a, expr_of_sexp t)
  | L [A "module"; L ps; o; L body] -> EModule (List.map field_of_sexp ps, opt_expr o, List.map stmt_of_sexp body)
  | L [A "fail"; e] -> EFail (expr_of_sexp e)
  | L [A "trace"; e] -> ETrace (expr_of_sexp e)
  | L [A "import"; A p] -> EImport (bytes_of_atom p)
  | L [A "include"; A t; A p] -> EInclude (bytes_of_atom t, bytes_of_atom p)
  | L [A "convert"; A t; e] -> EConvert (bytes_of_atom t, expr_of_sexp e)
  | _ -> failwith ("expr: " ^ Sexp.to_string x)
and opt_expr = function A "_" -> None | e -> Some (expr_of_sexp e)
and field_of_sexp = function L [A k; e] -> (bytes_of_atom k, expr_of_sexp e) | _ -> failwith "field"
and part_of_sexp = function
  | L [A "s"; A s] -> PStr (bytes_of_atom s) | L [A "hole"] -> PHole | L [A "e"; e] -> PExpr (expr_of_sexp e)
  | _ -> failwith "part"
and stmt_of_sexp = function
  | L [A "let"; A x; e] -> SLet (bytes_of_atom x, expr_of_sexp e)
  | L [A "expr"; e] -> SExpr (expr_of_sexp e)
  | L [A "assert"; e] -> SAssert (expr_of_sexp e)
  | L [A "out"; A t; e] -> SOut (bytes_of_atom t, expr_of_sexp e)
  | _ -> failwith "stmt"

let run mode line =
  let x = parse line in
  match mode, x with
  | "pp", L [A indent; L stmts] ->
    atom_of_bytes (pp_stmts (nat_of_int (int_of_string indent)) (List.map stmt_of_sexp stmts))
  | "f64", A bits -> atom_of_bytes (f64_display (z_of_decimal_any bits))
  (* ((line (frag ...)) ...) ((line text) ...) *)
  | "sched", L [L groups; L stmts] ->
    let g = List.map (function L [A k; L fr] -> (n_of_int (int_of_string k), List.map (function A f -> bytes_of_atom f | _ -> failwith "frag") fr)
                             | _ -> failwith "group") groups in
    let s = List.map (function L [A k; A t] -> (n_of_int (int_of_string k), bytes_of_atom t) | _ -> failwith "stmt") stmts in
    atom_of_bytes (render_with_comments g s)
  (* ((line (frag ...)) ...) (call ...)   call = (I cur line) | (M cur line) | (L line) *)
  | "calls", L [L groups; L calls] ->
    let g = List.map (function L [A k; L fr] -> (n_of_int (int_of_string k), List.map (function A f -> bytes_of_atom f | _ -> failwith "frag") fr)
                             | _ -> failwith "group") groups in
    let c = List.map (function
        | L [A "I"; A cur; A ln] -> CIfNeeded (nat_of_int (int_of_string cur), n_of_int (int_of_string ln))
        | L [A "M"; A cur; A ln] -> CMissed (nat_of_int (int_of_string cur), n_of_int (int_of_string ln))
        | L [A "L"; A ln] -> CSetLast (n_of_int (int_of_string ln))
        | _ -> failwith "call") calls in
    let ((outs, flush), st) = run_render g c in
    let sx_map m = L (List.map (fun (k, gr) -> L [A (string_of_int (int_of_n k)); L (List.map (fun f -> A (atom_of_bytes f)) gr)]) m) in
    to_string (L [L (List.map (fun o -> A (atom_of_bytes o)) outs); A (atom_of_bytes flush); sx_map st.emitted; sx_map st.pending])
  | "cmap", A src ->
    (match comment_map_of (bytes_of_atom src) with
     | None -> "err"
     | Some m -> to_string (L (List.map (fun (k, g) -> L [A (string_of_int (int_of_n k)); L (List.map (fun f -> A (atom_of_bytes f)) g)]) m)))
  | _ -> failwith "mode"

