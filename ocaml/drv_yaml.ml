(* C03 (YAML) driver for the extracted model.
   usage: drv_yaml MODE < cases   (one s-expression value per line, encoding of values.py: to_sexp)
   modes:
     yaml_out   prints  ok x<hex of the text>  |  err <kind>
     yaml_rt    prints  rt= | rt/= <what was read> | noparse | nospec | err <kind>
     yaml_read  input line is x<hex of a YAML text>; prints the parsed document or noparse *)
open Model_yaml
open Sexp

let pos_of_int64 (n : int64) : positive =
  let rec go n = if Int64.equal n 1L then XH
    else if Int64.equal (Int64.logand n 1L) 0L then XO (go (Int64.shift_right_logical n 1))
    else XI (go (Int64.shift_right_logical n 1)) in go n
let z_of_string (s : string) : z =
  if s = "-9223372036854775808" then
    let rec p k = if k = 0 then XH else XO (p (k - 1)) in Zneg (p 63)
  else
    let n = Int64.of_string s in
    if Int64.equal n 0L then Z0 else if Int64.compare n 0L > 0 then Zpos (pos_of_int64 n)
    else Zneg (pos_of_int64 (Int64.neg n))

let rec val_of_sexp (x : Sexp.t) : val0 = match x with
  | L [A "e"] -> VEmpty
  | L [A "b"; A v] -> VBool (v = "1")
  | L [A "i"; A z] -> VInt (z_of_string z)
  | L [A "f"; A "nan"] -> VFloat FNaN
  | L [A "f"; A "inf"] -> VFloat FInf
  | L [A "f"; A "ninf"] -> VFloat FNegInf
  | L [A "f"; A t] -> VFloat (FFin (bytes_of_atom t))
  | L [A "s"; A s] -> VStr (bytes_of_atom s)
  | L (A "l" :: items) -> VList (List.map val_of_sexp items)
  | L (A "t" :: fields) -> VTuple (List.map (function L [A k; v] -> (bytes_of_atom k, val_of_sexp v) | _ -> failwith "field") fields)
  | L (A "env" :: fields) -> VEnv (List.map (function L [A k; A v] -> (bytes_of_atom k, bytes_of_atom v) | _ -> failwith "envfield") fields)
  | L [A "c"] -> VConstraint
  | _ -> failwith "val"

(* yerr has the single constructor YEConstraint: extraction erases it (YErr carries no argument) *)
let err_kind () = "constraint"

(* decimal text of a Coq positive / N / Z of any size *)
let rec big_of_pos p =
  let dbl (ds : int list) (carry : int) =
    let rec go ds c = match ds with
      | [] -> if c = 0 then [] else [c]
      | d :: r -> let v = 2 * d + c in (v mod 10) :: go r (v / 10) in go ds carry in
  match p with
  | XH -> [1]
  | XO q -> dbl (big_of_pos q) 0
  | XI q -> dbl (big_of_pos q) 1
let string_of_pos p = String.concat "" (List.rev_map string_of_int (big_of_pos p))
let string_of_n = function N0 -> "0" | Npos p -> string_of_pos p
let string_of_z = function Z0 -> "0" | Zpos p -> string_of_pos p | Zneg p -> "-" ^ string_of_pos p

let rec sexp_of_doc = function
  | DNull -> L [A "e"]
  | DStr s -> L [A "s"; A (atom_of_bytes s)]
  | DInt z -> L [A "i"; A (string_of_z z)]
  | DFloat (DFin (neg, m, e)) -> L [A "f"; A (if neg then "-" else "+"); A (string_of_n m); A (string_of_z e)]
  | DFloat DNan -> L [A "f"; A "nan"]
  | DFloat (DInf neg) -> L [A "f"; A (if neg then "ninf" else "inf")]
  | DBool v -> L [A "b"; A (if v then "1" else "0")]
  | DSeq l -> L (A "l" :: List.map sexp_of_doc l)
  | DMap kvs -> L (A "t" :: List.map (fun (k, v) -> L [sexp_of_doc k; sexp_of_doc v]) kvs)

let run mode line =
  match mode with
  | "yaml_read" ->
    (match yaml_parse (bytes_of_atom (String.trim line)) with
     | None -> "noparse"
     | Some d -> "ok " ^ to_string (sexp_of_doc d))
  | _ ->
  let v = val_of_sexp (Sexp.parse line) in
  match mode with
  | "yaml_out" ->
    (match yaml_output v with
     | YOk o -> "ok " ^ atom_of_bytes o
     | YErr -> "err " ^ err_kind ())
  | "yaml_rt" ->
    (match yaml_output v with
     | YErr -> "err " ^ err_kind ()
     | YOk o ->
       (match yaml_parse o, spec_data v with
        | None, _ -> "noparse"
        | Some _, None -> "nospec"
        | Some d, Some sd ->
          if doc_eqb d sd then "rt=" else "rt/= " ^ to_string (sexp_of_doc d)))
  | _ -> failwith "mode"
