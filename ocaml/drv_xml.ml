(* C12 driver for the xml model (modes out rt tree), called from driver.ml *)
open Model_xml
open Sexp

let pos_of_int64 (n : int64) : positive =
  let rec go n = if Int64.equal n 1L then XH
    else if Int64.equal (Int64.logand n 1L) 0L then XO (go (Int64.shift_right_logical n 1))
    else XI (go (Int64.shift_right_logical n 1)) in go n
let z_of_string (s : string) : z =
  if s = "-9223372036854775808" then
    let rec p k = if k = 0 then XH else XO (p (k - 1)) in Zneg (p 63)
  else
    let n = Int64.of_string s in
    if Int64.equal n 0L then Z0 else if Int64.compare n 0L > 0 then Zpos (pos_of_int64 n)
    else Zneg (pos_of_int64 (Int64.neg n))

let rec val_of_sexp (x : Sexp.t) : val0 = match x with
  | L [A "e"] -> VEmpty
  | L [A "b"; A v] -> VBool (v = "1")
  | L [A "i"; A z] -> VInt (z_of_string z)
  | L [A "f"; A t] -> VFloat (FFin (bytes_of_atom t))
  | L [A "s"; A s] -> VStr (bytes_of_atom s)
  | L (A "l" :: items) -> VList (List.map val_of_sexp items)
  | L (A "t" :: fields) -> VTuple (List.map (function L [A k; v] -> (bytes_of_atom k, val_of_sexp v) | _ -> failwith "field") fields)
  | L (A "env" :: _) -> VEnv []
  | L [A "c"] -> VConstraint
  | _ -> failwith "val"

let err_msg = function
  | ENotString -> "TypeFail: Not a String value"
  | ENotTuple -> "TypeFail: Not a tuple value"
  | ENotList -> "TypeFail: Not a List value"
  | EBothNameText -> "TypeFail: XML nodes can not have both text and name fields"
  | ENodeKind -> "TypeFail: XML nodes must be a Tuple or a string"
  | EBadVersion -> "TypeFail: XML version must be either 1.0 or 1.1"
  | ENoRoot -> "TypeFail: XML doc tuples must have a root field"
  | ENotDocTuple -> "TypeFail: XML outputs must be a Tuple"
  | ERootNotElement -> "TypeFail: XML doc root must be an element (a tuple with a name)"
  | EBadChar -> "TypeFail: XML text and attribute values can not contain control characters"

let rec sexp_of_node = function
  | XText s -> L [A "T"; A (atom_of_bytes s)]
  | XElem (n, ns, at, kids) ->
    L [A "E"; A (atom_of_bytes n);
       L (List.map (fun (p, u) -> L [A (atom_of_bytes p); A (atom_of_bytes u)]) ns);
       L (List.map (fun (p, u) -> L [A (atom_of_bytes p); A (atom_of_bytes u)]) at);
       L (List.map sexp_of_node kids)]
let sexp_of_doc d =
  L [(match d.x_decl with
      | None -> A "nodecl"
      | Some dc -> L [A (match dc.x_ver with V10 -> "1.0" | V11 -> "1.1"); A (atom_of_bytes dc.x_enc);
                      A (match dc.x_sa with None -> "-" | Some true -> "yes" | Some false -> "no")]);
     L (List.map sexp_of_node d.x_body)]

let run mode line =
  let v = val_of_sexp (Sexp.parse line) in
  match mode with
  | "out" ->
    (match to_xml_r v with
     | XErr e -> "err " ^ err_msg e
     | XOk evs -> (match xml_emit_r evs with Some o -> "ok " ^ atom_of_bytes o | None -> "emiterr"))
  | "rt" ->
    (* wf? parse(emit) tree, as_written tree *)
    (match to_xml v, tree_of_doc v with
     | Some evs, Some t ->
       let wf = xml_tree_wf t in
       let same_tree = (tree_of_events evs = Some t) in
       let p = xml_parse (xml_emit evs) in
       let exp = as_written t in
       Printf.sprintf "%s %s %s %s" (if wf then "wf" else "nwf") (if same_tree then "tree=" else "tree/=")
         (match p with None -> "noparse" | Some d -> if d = exp then "rt=" else "rt/=")
         (match p with None -> "-" | Some d -> to_string (sexp_of_doc d))
     | None, _ -> "err"
     | Some _, None -> "BUG-no-spec-tree")
  | "tree" ->
    (match tree_of_doc v with None -> "none" | Some t -> to_string (sexp_of_doc (as_written t)))
  | _ -> failwith "mode"

