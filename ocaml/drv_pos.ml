(* pos_runner: reads lines "AST <s-expression of a positioned program>" (any other line is echoed
   unchanged) and prints "MOPS <op>@<line>:<col> ..." - the output of the extracted [ptranslate] -
   followed by "MERASE ok|BAD", "MSTMTS ..", "MTPL placed=0|1 starts=0|1" (map fst (ptranslate p) = translate (map erase_stmt p), checked by running both).
   S-expression conventions: see STATUS.md. *)
open Model_pos
open Sexp

let pos_of_int64 (n : int64) : positive =
  let rec go n = if Int64.equal n 1L then XH
    else if Int64.equal (Int64.logand n 1L) 0L then XO (go (Int64.shift_right_logical n 1))
    else XI (go (Int64.shift_right_logical n 1)) in go n
let rec int64_of_pos = function XH -> 1L | XO p -> Int64.shift_left (int64_of_pos p) 1
                              | XI p -> Int64.logor (Int64.shift_left (int64_of_pos p) 1) 1L
let n_of_int (i : int) : n = if i = 0 then N0 else Npos (pos_of_int64 (Int64.of_int i))
let int_of_n = function N0 -> 0 | Npos p -> Int64.to_int (int64_of_pos p)
let rec int_of_nat = function O -> 0 | S n -> 1 + int_of_nat n
(* i64 values and u64 bit patterns: both fit the 64 bits of an Int64 *)
let int64_of_z = function Z0 -> 0L | Zpos p -> int64_of_pos p | Zneg p -> Int64.neg (int64_of_pos p)
let z_to_string z = Printf.sprintf "%Ld" (int64_of_z z)
let zbits_to_string z = Printf.sprintf "%Lu" (int64_of_z z)
(* i64 decimal -> Z; u64 decimal (float bit pattern) -> Z.  pos_of_int64 shifts logically, so an Int64
   is read as an unsigned 64 bit number there (2^63 = neg min_int included) *)
let z_of_decimal (s : string) : z =
  let n = Int64.of_string s in
  if Int64.equal n 0L then Z0 else if Int64.compare n 0L > 0 then Zpos (pos_of_int64 n)
  else Zneg (pos_of_int64 (Int64.neg n))
let z_of_bits (s : string) : z =
  let n = Int64.of_string ("0u" ^ s) in
  if Int64.equal n 0L then Z0 else Zpos (pos_of_int64 n)

let op_of_string = function
  | "Add" -> Add | "Sub" -> Sub | "Mul" -> Mul | "Div" -> Div | "Mod" -> Mod | "AND" -> AND | "OR" -> OR
  | "Equal" -> Equal | "GT" -> GT | "LT" -> LT | "NotEqual" -> NotEqual | "GTEqual" -> GTEqual
  | "LTEqual" -> LTEqual | "REMatch" -> REMatch | "NotREMatch" -> NotREMatch | "IN" -> IN | "IS" -> IS
  | "DOT" -> DOT | s -> failwith ("op " ^ s)

(* "@L:C" *)
let pos_of_atom (a : string) : n * n =
  if String.length a < 4 || a.[0] <> '@' then failwith ("not a position: " ^ a);
  match String.split_on_char ':' (String.sub a 1 (String.length a - 1)) with
  | [l; c] -> (n_of_int (int_of_string l), n_of_int (int_of_string c))
  | _ -> failwith ("not a position: " ^ a)
let string_of_pos ((l, c) : n * n) = Printf.sprintf "@%d:%d" (int_of_n l) (int_of_n c)

let rec pexpr_of_sexp (x : Sexp.t) : pexpr = match x with
  | L [A "null"; A p] -> PENull (pos_of_atom p)
  | L [A "bool"; A p; A v] -> PEBool (pos_of_atom p, v = "true")
  | L [A "int"; A p; A z] -> PEInt (pos_of_atom p, z_of_decimal z)
  | L [A "float"; A p; A bits] -> PEFloat (pos_of_atom p, z_of_bits bits)
  | L [A "str"; A p; A s] -> PEStr (pos_of_atom p, bytes_of_atom s)
  | L [A "sym"; A p; A s] -> PESym (pos_of_atom p, bytes_of_atom s)
  | L [A "tuple"; A p; L fs] -> PETuple (pos_of_atom p, List.map field_of_sexp fs)
  | L [A "list"; A p; L es] -> PEList (pos_of_atom p, List.map pexpr_of_sexp es)
  | L [A "bin"; A p; A o; l; r] -> PEBin (pos_of_atom p, op_of_string o, pexpr_of_sexp l, pexpr_of_sexp r)
  | L [A "not"; A p; e] -> PENot (pos_of_atom p, pexpr_of_sexp e)
  | L [A "group"; A p; e] -> PEGroup (pos_of_atom p, pexpr_of_sexp e)
  | L [A "copy"; A p; t; L fs] -> PECopy (pos_of_atom p, pexpr_of_sexp t, List.map field_of_sexp fs)
  | L [A "range"; A p; s; st; e] -> PERange (pos_of_atom p, pexpr_of_sexp s, opt_pexpr st, pexpr_of_sexp e)
  | L [A "fmtl"; A p; L parts; L args] ->
    PEFormatL (pos_of_atom p, List.map part_of_sexp parts, List.map pexpr_of_sexp args)
  | L [A "fmts"; A p; A tpl; L parts; e] ->
    PEFormatS (pos_of_atom p, bytes_of_atom tpl, List.map part_of_sexp parts, pexpr_of_sexp e)
  | L [A "call"; A p; f; L args] -> PECall (pos_of_atom p, pexpr_of_sexp f, List.map pexpr_of_sexp args)
  | L [A "cast"; A p; A t; e] ->
    PECast (pos_of_atom p, (match t with "int" -> CInt | "float" -> CFloat | "str" -> CStr | "bool" -> CBool
                                       | _ -> failwith "cast"), pexpr_of_sexp e)
  | L [A "func"; A p; L ps; body] ->
    PEFunc (pos_of_atom p,
            List.map (function L [A pp; A x] -> (pos_of_atom pp, bytes_of_atom x) | _ -> failwith "param") ps,
            pexpr_of_sexp body)
  | L [A "select"; A p; v; d; L arms] ->
    PESelect (pos_of_atom p, pexpr_of_sexp v, opt_pexpr d, List.map field_of_sexp arms)
  | L [A "map"; A p; f; t] -> PEMap (pos_of_atom p, pexpr_of_sexp f, pexpr_of_sexp t)
  | L [A "filter"; A p; f; t] -> PEFilter (pos_of_atom p, pexpr_of_sexp f, pexpr_of_sexp t)
  | L [A "reduce"; A p; f; a; t] -> PEReduce (pos_of_atom p, pexpr_of_sexp f, pexpr_of_sexp a, pexpr_of_sexp t)
  | L [A "module"; A p; L ps; o; L body] ->
    PEModule (pos_of_atom p, List.map field_of_sexp ps, opt_pexpr o, List.map pstmt_of_sexp body)
  | L [A "fail"; A p; e] -> PEFail (pos_of_atom p, pexpr_of_sexp e)
  | L [A "trace"; A p; e] -> PETrace (pos_of_atom p, pexpr_of_sexp e)
  | L [A "import"; A p; A pp; A path] -> PEImport (pos_of_atom p, pos_of_atom pp, bytes_of_atom path)
  | L [A "include"; A p; A tp; A t; A pp; A path] ->
    PEInclude (pos_of_atom p, pos_of_atom tp, bytes_of_atom t, pos_of_atom pp, bytes_of_atom path)
  | L [A "convert"; A p; A tp; A t; e] -> PEConvert (pos_of_atom p, pos_of_atom tp, bytes_of_atom t, pexpr_of_sexp e)
  | _ -> failwith ("pexpr: " ^ Sexp.to_string x)
and opt_pexpr = function A "_" -> None | e -> Some (pexpr_of_sexp e)
and field_of_sexp = function
  | L [A kp; A k; e] -> ((pos_of_atom kp, bytes_of_atom k), pexpr_of_sexp e)
  | _ -> failwith "field"
and part_of_sexp = function
  | L [A "s"; A s] -> PPStr (bytes_of_atom s) | L [A "hole"] -> PPHole | L [A "e"; e] -> PPExpr (pexpr_of_sexp e)
  | _ -> failwith "part"
and pstmt_of_sexp = function
  | L [A "let"; A p; A np; A x; e] -> PSLet (pos_of_atom p, pos_of_atom np, bytes_of_atom x, pexpr_of_sexp e)
  | L [A "expr"; e] -> PSExpr (pexpr_of_sexp e)
  | L [A "assert"; A p; e] -> PSAssert (pos_of_atom p, pexpr_of_sexp e)
  | L [A "out"; A p; A tp; A t; e] -> PSOut (pos_of_atom p, pos_of_atom tp, bytes_of_atom t, pexpr_of_sexp e)
  | x -> failwith ("pstmt: " ^ Sexp.to_string x)

let string_of_lit = function
  | LInt z -> "Int:" ^ z_to_string z | LFloat b -> "Float:" ^ zbits_to_string b | LStr s -> "Str:" ^ atom_of_bytes s
  | LBool v -> "Bool:" ^ (if v then "true" else "false") | LEmpty -> "Empty"
let string_of_hook = function
  | HMap -> "Map" | HInclude -> "Include" | HFilter -> "Filter" | HReduce -> "Reduce" | HImport -> "Import" | HOut -> "Out"
  | HAssert -> "Assert" | HConvert -> "Convert" | HRegex -> "Regex" | HRange -> "Range" | HTrace -> "Trace"
let string_of_instr = function
  | IBind -> "Bind" | IBindOver -> "BindOver" | IPop -> "Pop" | INewScope j -> "NewScope:" ^ string_of_int (int_of_nat j)
  | IAdd -> "Add" | ISub -> "Sub" | IDiv -> "Div" | IMul -> "Mul" | IMod -> "Mod"
  | IEqual -> "Equal" | IGt -> "Gt" | ILt -> "Lt" | IGtEq -> "GtEq" | ILtEq -> "LtEq" | INot -> "Not"
  | IVal l -> "Val:" ^ string_of_lit l
  | ICast CInt -> "Cast:int" | ICast CFloat -> "Cast:float" | ICast CStr -> "Cast:str" | ICast CBool -> "Cast:bool"
  | ISym s -> "Sym:" ^ atom_of_bytes s | IDeRef s -> "DeRef:" ^ atom_of_bytes s
  | IInitTuple -> "InitTuple" | IField -> "Field" | IInitList -> "InitList" | IElement -> "Element" | ICp -> "Cp"
  | IBang -> "Bang" | IJump j -> "Jump:" ^ string_of_int (int_of_nat j)
  | IJumpIfTrue j -> "JumpIfTrue:" ^ string_of_int (int_of_nat j) | IJumpIfFalse j -> "JumpIfFalse:" ^ string_of_int (int_of_nat j)
  | ISelectJump j -> "SelectJump:" ^ string_of_int (int_of_nat j)
  | IAnd j -> "And:" ^ string_of_int (int_of_nat j) | IOr j -> "Or:" ^ string_of_int (int_of_nat j)
  | IIndex -> "Index" | ISafeIndex -> "SafeIndex" | IExist -> "Exist" | INoop -> "Noop"
  | IInitThunk j -> "InitThunk:" ^ string_of_int (int_of_nat j) | IModule j -> "Module:" ^ string_of_int (int_of_nat j)
  | IFunc j -> "Func:" ^ string_of_int (int_of_nat j) | IReturn -> "Return" | IFCall -> "FCall" | ITyp -> "Typ"
  | IRuntime h -> "Runtime:" ^ string_of_hook h | IRender -> "Render" | IPushSelf -> "PushSelf" | IPopSelf -> "PopSelf"
  | ITranslatorPanic -> "TRANSLATOR-PANIC"


(* one case: "AST <program>" or "ASTK <k> <program>"; the answer's lines are joined by TABs *)
let run (line : string) : string =
  let buf = Buffer.create 256 in
  let out s = (if Buffer.length buf > 0 then Buffer.add_char buf '\t'); Buffer.add_string buf s in
  (if String.length line > 4 && String.sub line 0 4 = "AST " then begin
    (try
      let sx = Sexp.parse (String.sub line 4 (String.length line - 4)) in
      let p = (match sx with L ss -> List.map pstmt_of_sexp ss | _ -> failwith "program") in
      let mops = ptranslate p in
      out ("MOPS " ^ String.concat " " (List.map (fun (i, q) -> string_of_instr i ^ string_of_pos q) mops));
      let er = translate (List.map erase_stmt p) in
      out (if List.map fst mops = er then "MERASE ok" else "MERASE BAD");
      out ("MSTMTS " ^ String.concat " " (List.map (fun s ->
          let n = List.length (ptranslate [s]) in
          let ps = src_positions_of_stmt s and ts = tpl_positions_of_stmt s in
          Printf.sprintf "%d|%s|%s" n (String.concat "," (List.map string_of_pos ps))
            (String.concat "," (List.map string_of_pos ts))) p));
      out (Printf.sprintf "MTPL placed=%d starts=%d"
             (if List.for_all tpl_placedb p then 1 else 0) (if List.for_all tpl_startsb p then 1 else 0))
    with Failure m -> out ("MFAIL " ^ m))
  end else if String.length line > 5 && String.sub line 0 5 = "ASTK " then begin
    (try
      let rest = String.sub line 5 (String.length line - 5) in
      let sp = String.index rest ' ' in
      let k = n_of_int (int_of_string (String.sub rest 0 sp)) in
      let sx = Sexp.parse (String.sub rest (sp + 1) (String.length rest - sp - 1)) in
      let p = (match sx with L ss -> List.map pstmt_of_sexp ss | _ -> failwith "program") in
      let mops = ptranslate (List.map (shift_stmt k) p) in
      out ("MOPSK " ^ String.concat " " (List.map (fun (i, q) -> string_of_instr i ^ string_of_pos q) mops))
    with Failure m -> out ("MFAIL " ^ m))
  end else out ("MFAIL not an AST line"));
  Buffer.contents buf
