(* model_runner <mode>: one case per input line (s-expression), one result per line. *)
open Model
open Sexp

(* ---- numbers ---- *)
let rec nat_of_int n = if n <= 0 then O else S (nat_of_int (n - 1))
let rec int_of_nat = function O -> 0 | S n -> 1 + int_of_nat n

let rec pos_of_int n = if n = 1 then XH else if n land 1 = 0 then XO (pos_of_int (n lsr 1)) else XI (pos_of_int (n lsr 1))

(* decimal string -> positive / Z via Horner on the extracted operations is slow to write;
   go through OCaml's arbitrary precision-free route: ints fit in 63 bits except i64 extremes,
   so parse with Int64 and build bits. *)
let pos_of_int64 (n : int64) : positive =
  let rec go n = if Int64.equal n 1L then XH
    else if Int64.equal (Int64.logand n 1L) 0L then XO (go (Int64.shift_right_logical n 1))
    else XI (go (Int64.shift_right_logical n 1)) in go n
let z_of_string (s : string) : z =
  if s = "-9223372036854775808" then
    (* 2^63 *)
    let rec p k = if k = 0 then XH else XO (p (k - 1)) in Zneg (p 63)
  else
    let n = Int64.of_string s in
    if Int64.equal n 0L then Z0 else if Int64.compare n 0L > 0 then Zpos (pos_of_int64 n)
    else Zneg (pos_of_int64 (Int64.neg n))
let rec int64_of_pos = function XH -> 1L | XO p -> Int64.shift_left (int64_of_pos p) 1
                              | XI p -> Int64.logor (Int64.shift_left (int64_of_pos p) 1) 1L
let string_of_chars l = String.of_seq (List.to_seq l)
let string_of_z z = string_of_chars (dec_of_Z z)

(* ---- C02 ---- *)
let op_of_string = function
  | "Add" -> Add | "Sub" -> Sub | "Mul" -> Mul | "Div" -> Div | "Mod" -> Mod | "AND" -> AND | "OR" -> OR
  | "Equal" -> Equal | "GT" -> GT | "LT" -> LT | "NotEqual" -> NotEqual | "GTEqual" -> GTEqual
  | "LTEqual" -> LTEqual | "REMatch" -> REMatch | "NotREMatch" -> NotREMatch | "IN" -> IN | "IS" -> IS
  | "DOT" -> DOT | s -> failwith ("op " ^ s)
let string_of_op = function
  | Add -> "Add" | Sub -> "Sub" | Mul -> "Mul" | Div -> "Div" | Mod -> "Mod" | AND -> "AND" | OR -> "OR"
  | Equal -> "Equal" | GT -> "GT" | LT -> "LT" | NotEqual -> "NotEqual" | GTEqual -> "GTEqual"
  | LTEqual -> "LTEqual" | REMatch -> "REMatch" | NotREMatch -> "NotREMatch" | IN -> "IN" | IS -> "IS"
  | DOT -> "DOT"
let rec sexp_of_shape = function
  | SLeaf -> A "_"
  | SNode (o, l, r) -> L [A (string_of_op o); sexp_of_shape l; sexp_of_shape r]

let chain_of_sexp = function
  | L ops -> List.map (function A o -> (op_of_string o, O) | _ -> failwith "chain") ops
  | _ -> failwith "chain"

(* ---- N ---- *)
let n_of_int (i : int) : n = if i = 0 then N0 else Npos (pos_of_int i)
let int_of_n = function N0 -> 0 | Npos p -> Int64.to_int (int64_of_pos p)

(* ---- C13 ---- *)
let akind_of_sexp = function
  | L [A "w"; A d; A ok] -> AWell (bytes_of_atom d, ok = "1")
  | L [A "m"; A tag] -> AMal (n_of_int (int_of_string tag))
  | _ -> failwith "akind"
let sexp_of_akind = function
  | AWell (d, ok) -> L [A "w"; A (atom_of_bytes d); A (if ok then "1" else "0")]
  | AMal t -> L [A "m"; A (string_of_int (int_of_n t))]
let tfile_of_sexp = function
  | L [A name; A be; L asserts] ->
    { fname = bytes_of_atom name; asserts = List.map akind_of_sexp asserts; build_err = (be = "1") }
  | _ -> failwith "tfile"
let sexp_of_report r =
  L [A (match r.rverdict with Pass -> "Pass" | Fail -> "Fail");
     L (List.map (fun ((i, ok), a) -> L [A (string_of_int (int_of_n i)); A (if ok then "1" else "0"); sexp_of_akind a]) r.rlog)]

(* ---- values ---- *)
let fl_of_sexp = function
  | A "nan" -> FNaN | A "inf" -> FInf | A "ninf" -> FNegInf | A t -> FFin (bytes_of_atom t) | _ -> failwith "fl"
let rec val_of_sexp (x : Sexp.t) : val0 = match x with
  | L [A "e"] -> VEmpty
  | L [A "b"; A v] -> VBool (v = "1")
  | L [A "i"; A z] -> VInt (z_of_string z)
  | L [A "f"; f] -> VFloat (fl_of_sexp f)
  | L [A "s"; A s] -> VStr (bytes_of_atom s)
  | L (A "l" :: items) -> VList (List.map val_of_sexp items)
  | L (A "t" :: fields) -> VTuple (List.map (function L [A k; v] -> (bytes_of_atom k, val_of_sexp v) | _ -> failwith "field") fields)
  | L (A "env" :: fields) -> VEnv (List.map (function L [A k; A v] -> (bytes_of_atom k, bytes_of_atom v) | _ -> failwith "envfield") fields)
  | L [A "c"] -> VConstraint
  | _ -> failwith "val"
let rec sexp_of_val (v : val0) : Sexp.t = match v with
  | VEmpty -> L [A "e"]
  | VBool v -> L [A "b"; A (if v then "1" else "0")]
  | VInt z -> L [A "i"; A (string_of_z z)]
  | VFloat (FFin t) -> L [A "f"; A (atom_of_bytes t)]
  | VFloat FNaN -> L [A "f"; A "nan"] | VFloat FInf -> L [A "f"; A "inf"] | VFloat FNegInf -> L [A "f"; A "ninf"]
  | VStr s -> L [A "s"; A (atom_of_bytes s)]
  | VList l -> L (A "l" :: List.map sexp_of_val l)
  | VTuple fs -> L (A "t" :: List.map (fun (k, v) -> L [A (atom_of_bytes k); sexp_of_val v]) fs)
  | VEnv fs -> L (A "env" :: List.map (fun (k, v) -> L [A (atom_of_bytes k); A (atom_of_bytes v)]) fs)
  | VConstraint -> L [A "c"]

(* ---- programs (sem) ---- *)
let z_of_decimal_any (s : string) : z =
  (* arbitrary size decimal -> z, via Horner on the extracted Z operations *)
  let neg = String.length s > 0 && s.[0] = '-' in
  let digits = if neg then String.sub s 1 (String.length s - 1) else s in
  let ten = Zpos (XO (XI (XO XH))) in
  let acc = ref Z0 in
  String.iter (fun c -> let d = Char.code c - 48 in
                acc := Z.add (Z.mul !acc ten) (if d = 0 then Z0 else Zpos (pos_of_int d))) digits;
  if neg then Z.opp !acc else !acc
let rec expr_of_sexp (x : Sexp.t) : expr = match x with
  | L [A "null"] -> ENull
  | L [A "bool"; A v] -> EBool (v = "1")
  | L [A "int"; A z] -> EInt (z_of_decimal_any z)
  | L [A "float"; A bits] -> EFloat (z_of_decimal_any bits)
  | L [A "str"; A s] -> EStr (bytes_of_atom s)
  | L [A "sym"; A s] -> ESym (bytes_of_atom s)
  | L (A "tuple" :: fs) -> ETuple (List.map field_of_sexp fs)
  | L (A "list" :: es) -> EList (List.map expr_of_sexp es)
  | L [A "bin"; A o; l; r] -> EBin (op_of_string o, expr_of_sexp l, expr_of_sexp r)
  | L [A "not"; e] -> ENot (expr_of_sexp e)
  | L [A "group"; e] -> EGroup (expr_of_sexp e)
  | L (A "copy" :: t :: fs) -> ECopy (expr_of_sexp t, List.map field_of_sexp fs)
  | L [A "range"; s; st; e] -> ERange (expr_of_sexp s, opt_expr st, expr_of_sexp e)
  | L [A "fmtl"; L parts; L args] -> EFormatL (List.map part_of_sexp parts, List.map expr_of_sexp args)
  | L [A "fmts"; L parts; e] -> EFormatS (List.map part_of_sexp parts, expr_of_sexp e)
  | L [A "call"; f; L args] -> ECall (expr_of_sexp f, List.map expr_of_sexp args)
  | L [A "cast"; A c; e] -> ECast ((match c with "int" -> CInt | "float" -> CFloat | "str" -> CStr | "bool" -> CBool
                                               | _ -> failwith "cast"), expr_of_sexp e)
  | L [A "func"; L ps; body] -> EFunc (List.map (function A p -> bytes_of_atom p | _ -> failwith "param") ps, expr_of_sexp body)
  | L [A "select"; v; d; L arms] -> ESelect (expr_of_sexp v, opt_expr d, List.map field_of_sexp arms)
  | L [A "map"; f; t] -> EMap (expr_of_sexp f, expr_of_sexp t)
  | L [A "filter"; f; t] -> EFilter (expr_of_sexp f, expr_of_sexp t)
  | L [A "reduce"; f; a; t] -> EReduce (expr_of_sexp f, expr_of_sexp a, expr_of_sexp t)
  | L [A "module"; L ps; o; L body] -> EModule (List.map field_of_sexp ps, opt_expr o, List.map stmt_of_sexp body)
  | L [A "fail"; e] -> EFail (expr_of_sexp e)
  | L [A "trace"; e] -> ETrace (expr_of_sexp e)
  | L [A "import"; A p] -> EImport (bytes_of_atom p)
  | L [A "include"; A t; A p] -> EInclude (bytes_of_atom t, bytes_of_atom p)
  | L [A "convert"; A t; e] -> EConvert (bytes_of_atom t, expr_of_sexp e)
  | _ -> failwith ("expr: " ^ Sexp.to_string x)
and opt_expr = function A "_" -> None | e -> Some (expr_of_sexp e)
and field_of_sexp = function L [A k; e] -> (bytes_of_atom k, expr_of_sexp e) | _ -> failwith "field"
and part_of_sexp = function
  | L [A "s"; A s] -> PStr (bytes_of_atom s) | L [A "hole"] -> PHole | L [A "e"; e] -> PExpr (expr_of_sexp e)
  | _ -> failwith "part"
and stmt_of_sexp = function
  | L [A "let"; A x; e] -> SLet (bytes_of_atom x, expr_of_sexp e)
  | L [A "expr"; e] -> SExpr (expr_of_sexp e)
  | L [A "assert"; e] -> SAssert (expr_of_sexp e)
  | L [A "out"; A t; e] -> SOut (bytes_of_atom t, expr_of_sexp e)
  | _ -> failwith "stmt"
let rec z_to_string (z : z) : string = string_of_chars (dec_of_Z z)
let rec sexp_of_value (v : value) : Sexp.t = match v with
  | VNull -> L [A "null"]
  | VBool0 v -> L [A "bool"; A (if v then "1" else "0")]
  | VInt0 z -> L [A "int"; A (z_to_string z)]
  | VFloat0 f -> L [A "float"; A (z_to_string (sem_float_bits f))]
  | VStr0 s -> L [A "str"; A (atom_of_bytes s)]
  | VList0 l -> L (A "list" :: List.map sexp_of_value l)
  | VTuple0 fs -> L (A "tuple" :: List.map (fun (k, v) -> L [A (atom_of_bytes k); sexp_of_value v]) fs)
  | VFunc _ -> L [A "func"]
  | VModule _ -> L [A "module"]
let run_sem = function
  | L [A fuel; A strict; A ordered; L envl; L stmts] ->
    let envv = List.map (function L [A k; A v] -> (bytes_of_atom k, bytes_of_atom v) | _ -> failwith "env") envl in
    (match sem_run (nat_of_int (int_of_string fuel)) envv (strict = "1") (ordered = "1") (List.map stmt_of_sexp stmts) with
     | Ok0 bs -> "ok " ^ to_string (L (List.map (fun (k, v) -> L [A (atom_of_bytes k); sexp_of_value v]) bs))
     | Err0 -> "err" | Unsup -> "unsup" | Fuel -> "fuel")
  | _ -> failwith "sem"

(* ---- VM model ---- *)
let rec sexp_of_wval (v : wval) : Sexp.t = match v with
  | WSym s -> L [A "sym"; A (atom_of_bytes s)]
  | WInt z -> L [A "int"; A (z_to_string z)]
  | WFloat f -> L [A "float"; A (z_to_string (sem_float_bits f))]
  | WStr s -> L [A "str"; A (atom_of_bytes s)]
  | WBool v -> L [A "bool"; A (if v then "1" else "0")]
  | WEmpty -> L [A "null"]
  | WList l -> L (A "list" :: List.map sexp_of_wval l)
  | WTuple fs -> L (A "tuple" :: List.map (fun (k, v) -> L [A (atom_of_bytes k); sexp_of_wval v]) fs)
  | WThunk _ -> L [A "thunk"]
  | WFunc _ -> L [A "func"]
  | WMod _ -> L [A "module"]
let run_vm = function
  | L [A fuel; A strict; A _; L envl; L stmts] ->
    let envv = List.map (function L [A k; A v] -> (bytes_of_atom k, bytes_of_atom v) | _ -> failwith "env") envl in
    (match vm_run_prog (nat_of_int (int_of_string fuel)) envv (strict = "1") (List.map stmt_of_sexp stmts) with
     | VOk bs -> "ok " ^ to_string (L (List.map (fun (k, v) -> L [A (atom_of_bytes k); sexp_of_wval v]) bs))
     | VErr -> "err" | VBug -> "bug" | VUnsup -> "unsup" | VFuel -> "fuel")
  | _ -> failwith "vm"
let string_of_lit = function
  | LInt z -> "Int:" ^ z_to_string z | LFloat b -> "Float:" ^ z_to_string b | LStr s -> "Str:" ^ atom_of_bytes s
  | LBool v -> "Bool:" ^ (if v then "true" else "false") | LEmpty -> "Empty"
let string_of_hook = function
  | HMap -> "Map" | HInclude -> "Include" | HFilter -> "Filter" | HReduce -> "Reduce" | HImport -> "Import" | HOut -> "Out"
  | HAssert -> "Assert" | HConvert -> "Convert" | HRegex -> "Regex" | HRange -> "Range" | HTrace -> "Trace"
let string_of_instr = function
  | IBind -> "Bind" | IBindOver -> "BindOver" | IPop -> "Pop" | INewScope j -> "NewScope:" ^ string_of_int (int_of_nat j)
  | IAdd -> "Add" | ISub -> "Sub" | IDiv -> "Div" | IMul -> "Mul" | IMod -> "Mod"
  | IEqual -> "Equal" | IGt -> "Gt" | ILt -> "Lt" | IGtEq -> "GtEq" | ILtEq -> "LtEq" | INot -> "Not"
  | IVal l -> "Val:" ^ string_of_lit l
  | ICast CInt -> "Cast:int" | ICast CFloat -> "Cast:float" | ICast CStr -> "Cast:str" | ICast CBool -> "Cast:bool"
  | ISym s -> "Sym:" ^ atom_of_bytes s | IDeRef s -> "DeRef:" ^ atom_of_bytes s
  | IInitTuple -> "InitTuple" | IField -> "Field" | IInitList -> "InitList" | IElement -> "Element" | ICp -> "Cp"
  | IBang -> "Bang" | IJump j -> "Jump:" ^ string_of_int (int_of_nat j)
  | IJumpIfTrue j -> "JumpIfTrue:" ^ string_of_int (int_of_nat j) | IJumpIfFalse j -> "JumpIfFalse:" ^ string_of_int (int_of_nat j)
  | ISelectJump j -> "SelectJump:" ^ string_of_int (int_of_nat j)
  | IAnd j -> "And:" ^ string_of_int (int_of_nat j) | IOr j -> "Or:" ^ string_of_int (int_of_nat j)
  | IIndex -> "Index" | ISafeIndex -> "SafeIndex" | IExist -> "Exist" | INoop -> "Noop"
  | IInitThunk j -> "InitThunk:" ^ string_of_int (int_of_nat j) | IModule j -> "Module:" ^ string_of_int (int_of_nat j)
  | IFunc j -> "Func:" ^ string_of_int (int_of_nat j) | IReturn -> "Return" | IFCall -> "FCall" | ITyp -> "Typ"
  | IRuntime h -> "Runtime:" ^ string_of_hook h | IRender -> "Render" | IPushSelf -> "PushSelf" | IPopSelf -> "PopSelf"
  | ITranslatorPanic -> "TRANSLATOR-PANIC"
let run_ops = function
  | L [A _; A _; A _; L _; L stmts] ->
    let p = List.map stmt_of_sexp stmts in
    (if in_fragment p then "frag " else "nofrag ") ^ String.concat " " (List.map string_of_instr (translate p))
  | _ -> failwith "ops"

(* ---- C14 ---- *)
let opt_bytes = function A "none" -> None | A a -> Some (bytes_of_atom a) | _ -> failwith "opt_bytes"
let run_out atomic = function
  | L [L pre; A src; L outs; L probes] ->
    let pre = List.map (function L [A p; A c] -> (bytes_of_atom p, bytes_of_atom c) | _ -> failwith "pre") pre in
    let outs = List.map (function L [e; c] -> (opt_bytes e, opt_bytes c) | _ -> failwith "outs") outs in
    let (fs, r) = out_run atomic pre (bytes_of_atom src) outs in
    let rs = match r with OOk -> "ok" | OErr OneOutputPerFile -> "err_one_output"
                        | OErr NoSuchConverter -> "err_no_converter" | OErr ConvertFailed -> "err_convert" in
    to_string (L [A rs; L (List.map (function A p -> (match fs_get fs (bytes_of_atom p) with
                                       | None -> A "none" | Some c -> A (atom_of_bytes c)) | _ -> failwith "probe") probes)])
  | _ -> failwith "out"

(* ---- C16 / C09: one invocation of `ucg build f1 .. fn` ----
   input  (legacy? ((path (import ...) outs fails) ...) (file ...))   paths as hex atoms
   output (exit (res ...) (evaluated path ...) (written path ...)) *)
let run_batch (x : Sexp.t) : string =
  let module B = Model_batch in
  let rec bnat n = if n <= 0 then B.O else B.S (bnat (n - 1)) in
  match x with
  | L [A legacy; L proj; L files] ->
    let file_of = function
      | L [A p; L imps; A outs; A fails] ->
        (bytes_of_atom p, { B.imports = List.map (function A i -> bytes_of_atom i | _ -> failwith "imp") imps;
                            B.outs = bnat (int_of_string outs); B.fails = (fails = "1") })
      | _ -> failwith "batch file" in
    let proj = List.map file_of proj in
    let files = List.map (function A f -> bytes_of_atom f | _ -> failwith "batch arg") files in
    let fuel = B.default_fuel proj in
    let (st, l) = (if legacy = "1" then B.batch_legacy else B.batch_current) fuel proj B.empty_state files in
    let res_s = function
      | B.Ok _ -> "ok" | B.Err B.Cycle -> "cycle" | B.Err B.Missing -> "missing" | B.Err B.Fail -> "fail"
      | B.Err B.OutLock -> "outlock" | B.Err B.OutOfFuel -> "fuel" in
    let ex = match B.exit_status l with B.O -> "0" | _ -> "1" in
    to_string (L [A ex; L (List.map (fun (_, r) -> A (res_s r)) l);
                  L (List.map (fun p -> A (atom_of_bytes p)) (B.evaluations st));
                  L (List.map (fun (p, _) -> A (atom_of_bytes p)) (B.artifacts st))])
  | _ -> failwith "batch"

(* ---- C20: the document store ----
   input  ((disk (uri text) ...) (msgs (o uri text) (c uri text) (x uri) (r uri) ...))
   output ((published (uri none | (uri (uri text) ...)) ...) (docs (uri text) ...)) *)
let run_lsp (x : Sexp.t) : string =
  let module M = Model_lsp in
  let pair = function L [A u; A t] -> (bytes_of_atom u, bytes_of_atom t) | _ -> failwith "lsp pair" in
  match x with
  | L [L disk; L msgs] ->
    let msg_of = function
      | L [A "o"; A u; A t] -> M.Open (bytes_of_atom u, bytes_of_atom t)
      | L [A "c"; A u; A t] -> M.Change (bytes_of_atom u, bytes_of_atom t)
      | L [A "x"; A u] -> M.Close (bytes_of_atom u)
      | L [A "r"; A u] -> M.Request (bytes_of_atom u)
      | _ -> failwith "lsp msg" in
    let (st, ps) = M.lsp_run (List.map pair disk) (List.map msg_of msgs) in
    let store_s l = L (List.map (fun (u, t) -> L [A (atom_of_bytes u); A (atom_of_bytes t)]) l) in
    to_string (L [L (List.map (fun (u, d) -> match d with
                                  | None -> L [A (atom_of_bytes u); A "none"]
                                  | Some w -> L [A (atom_of_bytes u); store_s w]) ps);
                  store_s st.M.docs])
  | _ -> failwith "lsp"

let run mode (line : string) : string =
  if mode = "pos" then Drv_pos.run line else
  if mode = "pvm" then Drv_pvm.run line else
  if mode = "parse_src" then Drv_parse.run "parse" line else
  if mode = "parse_rt" then Drv_parse.run "rt" line else
  let x = parse line in
  match mode with
  | "climb" ->
    (match climb_code O (chain_of_sexp x) with None -> "none" | Some s -> to_string (sexp_of_shape s))
  | "spec" ->
    (match spec_doc O (chain_of_sexp x) with None -> "none" | Some s -> to_string (sexp_of_shape s))
  | "testrun" | "testrun_shared" ->
    (match x with
     | L files ->
       let rs = test_run (if mode = "testrun" then PerFile else Shared) (List.map tfile_of_sexp files) in
       to_string (L [A (string_of_int (int_of_n (exit_code rs))); L (List.map sexp_of_report rs)])
     | _ -> failwith "testrun")
  | "out" -> run_out true x
  | "out_legacy" -> run_out false x
  | "withext" -> (match x with L [A s; A e] -> atom_of_bytes (with_extension (bytes_of_atom s) (bytes_of_atom e)) | _ -> failwith "withext")
  | "json_out" ->
    (match json_output (val_of_sexp x) with
     | Ok t -> "ok " ^ atom_of_bytes t | Err -> "err" | Unsupported -> "unsupported")
  | "json_in" ->
    (match x with A h -> (match json_input (bytes_of_atom h) with
                         | None -> "err" | Some v -> "ok " ^ to_string (sexp_of_val v)) | _ -> failwith "json_in")
  | "b64" -> (match x with L [A u; A h] -> atom_of_bytes (b64_encode (u = "1") (bytes_of_atom h)) | _ -> failwith "b64")
  | "b64dec" -> (match x with L [A u; A h] -> (match b64_decode (u = "1") (bytes_of_atom h) with
                                               | None -> "none" | Some r -> atom_of_bytes r) | _ -> failwith "b64dec")
  | "normalize" -> (match x with A h -> atom_of_bytes (normalize (bytes_of_atom h)) | _ -> failwith "normalize")
  | "sem" -> run_sem x
  | "vm" -> run_vm x
  | "ops" -> run_ops x
  | "env_emit" -> atom_of_bytes (env_emit Fixed (val_of_sexp x))
  | "env_emit_legacy" -> atom_of_bytes (env_emit Legacy (val_of_sexp x))
  | "flags_emit" -> (match flags_emit (val_of_sexp x) with None -> "err" | Some o -> atom_of_bytes o)
  | "exec_emit" -> (match exec_emit (val_of_sexp x) with None -> "err" | Some o -> atom_of_bytes o)
  | "sh_words" -> (match x with A h -> (match sh_words (bytes_of_atom h) with
        | Words ws -> to_string (L (List.map (fun w -> A (atom_of_bytes w)) ws))
        | Expands _ -> "expands" | Unterminated -> "unterminated") | _ -> failwith "sh_words")
  | "sh_env" -> (match x with A h -> (match sh_env (bytes_of_atom h) with
        | None -> "none"
        | Some l -> to_string (L (List.map (fun (k, v) -> L [A (atom_of_bytes k); A (atom_of_bytes v)]) l))) | _ -> failwith "sh_env")
  | "sh_script" -> (match x with A h -> (match sh_script (bytes_of_atom h) with
        | None -> "none"
        | Some l -> to_string (L (List.map (fun ws -> L (List.map (fun w -> A (atom_of_bytes w)) ws)) l))) | _ -> failwith "sh_script")
  | "lex" | "lex_all" ->
    (match x with
     | A h ->
       let ty = function EMPTY -> "EMPTY" | BOOLEAN -> "BOOLEAN" | END -> "END" | WS -> "WS" | COMMENT -> "COMMENT"
                       | QUOTED -> "QUOTED" | PIPEQUOTE -> "PIPEQUOTE" | DIGIT -> "DIGIT" | BAREWORD -> "BAREWORD" | PUNCT -> "PUNCT" in
       (match (if mode = "lex" then lex else lex_all) (bytes_of_atom h) with
        | None -> "err"
        | Some toks -> "ok " ^ to_string (L (List.map (fun t ->
            L [A (ty t.typ); A (atom_of_bytes t.frag); A (string_of_int (int_of_n t.line));
               A (string_of_int (int_of_n t.col)); A (string_of_int (int_of_n t.off))]) toks)))
     | _ -> failwith "lex")
  | "batch" -> run_batch x
  | "lsp" -> run_lsp x
  | "pos" -> Drv_pos.run line
  | "print_pp" -> Drv_print.run "pp" line
  | "print_cmap" -> Drv_print.run "cmap" line
  | "print_sched" -> Drv_print.run "sched" line
  | "print_f64" -> Drv_print.run "f64" line
  | "yaml_out" -> Drv_yaml.run "yaml_out" line
  | "yaml_rt" -> Drv_yaml.run "yaml_rt" line
  | "yaml_read" -> Drv_yaml.run "yaml_read" line
  | "toml_out" -> Drv_toml.run "toml_out" line
  | "toml_rt" -> Drv_toml.run "toml_rt" line
  | "toml_read" -> Drv_toml.run "toml_read" line
  | "xml_out" -> Drv_xml.run "out" line
  | "xml_rt" -> Drv_xml.run "rt" line
  | "xml_tree" -> Drv_xml.run "tree" line
  | "shape_prog" -> Drv_shape.run "prog" x
  | "shape_pair" -> Drv_shape.run "pair" x
  | "shape_letnamed" -> Drv_shape.run "letnamed" x
  | "shape_narrow" -> Drv_shape.run "narrow" x
  | "shape_derive" -> Drv_shape.run "derive" x
  | "shape_c07" -> Drv_shape.run "c07" x
  | "zdec" -> (match x with A s -> string_of_z (z_of_string s) | _ -> failwith "zdec")
  | _ -> failwith ("mode " ^ mode)

let () =
  let mode = Sys.argv.(1) in
  (try
     while true do
       let line = input_line stdin in
       if line <> "" then begin
         (try Stdlib.print_string (run mode line) with
          | Failure m -> Stdlib.print_string ("error:" ^ m)
          | Not_found -> Stdlib.print_string "error:not_found"
          | Stack_overflow -> Stdlib.print_string "error:stack_overflow");
         Stdlib.print_newline ()
       end
     done
   with End_of_file -> ())
