(* drv_pvm: the positioned VM model (pos/PVm.v, extracted to model_pvm.ml) behind a one-line protocol.
   [run : string -> string] takes one input line and returns one output line (answer fields joined by TABs).

   input lines
     "AST <sexp>"                                  strict, no environment variables, fuel 200000
     "ASTK <k> <sexp>"                             the same for the program moved down by k lines (shift_stmt k)
     "PAST <strict 0|1> <fuel> <env> <k> <sexp>"   the general form; <env> = "-" or "xHEXNAME=xHEXVALUE,..." (hex atoms as
                                                   in the s-expressions), <k> = lines to move the program down (0 = none)
   <sexp> = the positioned program as printed by the probe (`AST` line; conventions of drv_pos.ml / STATUS.md).
   output fields for k = 0
     "MEVAL ok | err <line>:<col> VIA <l>:<c>,... KIND <site> | bug | unsup | fuel"   extracted pvm_prog on ptranslate p
     "MERASED ok|BAD"          positions forgotten = vm_prog on the erased program (theorem pvm_erase, by running both)
     "MBLAME <op index> VIA <op index>,... | -"     the run with ops labelled by their index (theorem pvm_blame_index)
     "MSIDE scoped=0|1 clean=0|1 depth0=<k>|-"      scopedb for every statement (theorem ptranslate_scoped), empty value stack
                                                   at every statement boundary reached (hypothesis of pvm_locality_program),
                                                   index of the statement executing at depth 0 when the error surfaced
     "MSTMTLEN n1,n2,.."       ops per top-level statement
   for k > 0: "MEVALK <outcome>".   On a malformed line / stack overflow: "MFAIL <why>". *)
open Model_pvm
open Sexp

let pos_of_int64 (n : int64) : positive =
  let rec go n = if Int64.equal n 1L then XH
    else if Int64.equal (Int64.logand n 1L) 0L then XO (go (Int64.shift_right_logical n 1))
    else XI (go (Int64.shift_right_logical n 1)) in go n
let rec int64_of_pos = function XH -> 1L | XO p -> Int64.shift_left (int64_of_pos p) 1
                              | XI p -> Int64.logor (Int64.shift_left (int64_of_pos p) 1) 1L
let n_of_int (i : int) : n = if i = 0 then N0 else Npos (pos_of_int64 (Int64.of_int i))
let int_of_n = function N0 -> 0 | Npos p -> Int64.to_int (int64_of_pos p)
let rec int_of_nat = function O -> 0 | S n -> 1 + int_of_nat n
(* i64 values and u64 bit patterns: both fit the 64 bits of an Int64 *)
let int64_of_z = function Z0 -> 0L | Zpos p -> int64_of_pos p | Zneg p -> Int64.neg (int64_of_pos p)
let z_to_string z = Printf.sprintf "%Ld" (int64_of_z z)
let zbits_to_string z = Printf.sprintf "%Lu" (int64_of_z z)
(* i64 decimal -> Z; u64 decimal (float bit pattern) -> Z.  pos_of_int64 shifts logically, so an Int64
   is read as an unsigned 64 bit number there (2^63 = neg min_int included) *)
let z_of_decimal (s : string) : z =
  let n = Int64.of_string s in
  if Int64.equal n 0L then Z0 else if Int64.compare n 0L > 0 then Zpos (pos_of_int64 n)
  else Zneg (pos_of_int64 (Int64.neg n))
let z_of_bits (s : string) : z =
  let n = Int64.of_string ("0u" ^ s) in
  if Int64.equal n 0L then Z0 else Zpos (pos_of_int64 n)

let op_of_string = function
  | "Add" -> Add | "Sub" -> Sub | "Mul" -> Mul | "Div" -> Div | "Mod" -> Mod | "AND" -> AND | "OR" -> OR
  | "Equal" -> Equal | "GT" -> GT | "LT" -> LT | "NotEqual" -> NotEqual | "GTEqual" -> GTEqual
  | "LTEqual" -> LTEqual | "REMatch" -> REMatch | "NotREMatch" -> NotREMatch | "IN" -> IN | "IS" -> IS
  | "DOT" -> DOT | s -> failwith ("op " ^ s)

(* "@L:C" *)
let pos_of_atom (a : string) : n * n =
  if String.length a < 4 || a.[0] <> '@' then failwith ("not a position: " ^ a);
  match String.split_on_char ':' (String.sub a 1 (String.length a - 1)) with
  | [l; c] -> (n_of_int (int_of_string l), n_of_int (int_of_string c))
  | _ -> failwith ("not a position: " ^ a)
let string_of_pos ((l, c) : n * n) = Printf.sprintf "@%d:%d" (int_of_n l) (int_of_n c)

let rec pexpr_of_sexp (x : Sexp.t) : pexpr = match x with
  | L [A "null"; A p] -> PENull (pos_of_atom p)
  | L [A "bool"; A p; A v] -> PEBool (pos_of_atom p, v = "true")
  | L [A "int"; A p; A z] -> PEInt (pos_of_atom p, z_of_decimal z)
  | L [A "float"; A p; A bits] -> PEFloat (pos_of_atom p, z_of_bits bits)
  | L [A "str"; A p; A s] -> PEStr (pos_of_atom p, bytes_of_atom s)
  | L [A "sym"; A p; A s] -> PESym (pos_of_atom p, bytes_of_atom s)
  | L [A "tuple"; A p; L fs] -> PETuple (pos_of_atom p, List.map field_of_sexp fs)
  | L [A "list"; A p; L es] -> PEList (pos_of_atom p, List.map pexpr_of_sexp es)
  | L [A "bin"; A p; A o; l; r] -> PEBin (pos_of_atom p, op_of_string o, pexpr_of_sexp l, pexpr_of_sexp r)
  | L [A "not"; A p; e] -> PENot (pos_of_atom p, pexpr_of_sexp e)
  | L [A "group"; A p; e] -> PEGroup (pos_of_atom p, pexpr_of_sexp e)
  | L [A "copy"; A p; t; L fs] -> PECopy (pos_of_atom p, pexpr_of_sexp t, List.map field_of_sexp fs)
  | L [A "range"; A p; s; st; e] -> PERange (pos_of_atom p, pexpr_of_sexp s, opt_pexpr st, pexpr_of_sexp e)
  | L [A "fmtl"; A p; L parts; L args] ->
    PEFormatL (pos_of_atom p, List.map part_of_sexp parts, List.map pexpr_of_sexp args)
  | L [A "fmts"; A p; A tpl; L parts; e] ->
    PEFormatS (pos_of_atom p, bytes_of_atom tpl, List.map part_of_sexp parts, pexpr_of_sexp e)
  | L [A "call"; A p; f; L args] -> PECall (pos_of_atom p, pexpr_of_sexp f, List.map pexpr_of_sexp args)
  | L [A "cast"; A p; A t; e] ->
    PECast (pos_of_atom p, (match t with "int" -> CInt | "float" -> CFloat | "str" -> CStr | "bool" -> CBool
                                       | _ -> failwith "cast"), pexpr_of_sexp e)
  | L [A "func"; A p; L ps; body] ->
    PEFunc (pos_of_atom p,
            List.map (function L [A pp; A x] -> (pos_of_atom pp, bytes_of_atom x) | _ -> failwith "param") ps,
            pexpr_of_sexp body)
  | L [A "select"; A p; v; d; L arms] ->
    PESelect (pos_of_atom p, pexpr_of_sexp v, opt_pexpr d, List.map field_of_sexp arms)
  | L [A "map"; A p; f; t] -> PEMap (pos_of_atom p, pexpr_of_sexp f, pexpr_of_sexp t)
  | L [A "filter"; A p; f; t] -> PEFilter (pos_of_atom p, pexpr_of_sexp f, pexpr_of_sexp t)
  | L [A "reduce"; A p; f; a; t] -> PEReduce (pos_of_atom p, pexpr_of_sexp f, pexpr_of_sexp a, pexpr_of_sexp t)
  | L [A "module"; A p; L ps; o; L body] ->
    PEModule (pos_of_atom p, List.map field_of_sexp ps, opt_pexpr o, List.map pstmt_of_sexp body)
  | L [A "fail"; A p; e] -> PEFail (pos_of_atom p, pexpr_of_sexp e)
  | L [A "trace"; A p; e] -> PETrace (pos_of_atom p, pexpr_of_sexp e)
  | L [A "import"; A p; A pp; A path] -> PEImport (pos_of_atom p, pos_of_atom pp, bytes_of_atom path)
  | L [A "include"; A p; A tp; A t; A pp; A path] ->
    PEInclude (pos_of_atom p, pos_of_atom tp, bytes_of_atom t, pos_of_atom pp, bytes_of_atom path)
  | L [A "convert"; A p; A tp; A t; e] -> PEConvert (pos_of_atom p, pos_of_atom tp, bytes_of_atom t, pexpr_of_sexp e)
  | _ -> failwith ("pexpr: " ^ Sexp.to_string x)
and opt_pexpr = function A "_" -> None | e -> Some (pexpr_of_sexp e)
and field_of_sexp = function
  | L [A kp; A k; e] -> ((pos_of_atom kp, bytes_of_atom k), pexpr_of_sexp e)
  | _ -> failwith "field"
and part_of_sexp = function
  | L [A "s"; A s] -> PPStr (bytes_of_atom s) | L [A "hole"] -> PPHole | L [A "e"; e] -> PPExpr (pexpr_of_sexp e)
  | _ -> failwith "part"
and pstmt_of_sexp = function
  | L [A "let"; A p; A np; A x; e] -> PSLet (pos_of_atom p, pos_of_atom np, bytes_of_atom x, pexpr_of_sexp e)
  | L [A "expr"; e] -> PSExpr (pexpr_of_sexp e)
  | L [A "assert"; A p; e] -> PSAssert (pos_of_atom p, pexpr_of_sexp e)
  | L [A "out"; A p; A tp; A t; e] -> PSOut (pos_of_atom p, pos_of_atom tp, bytes_of_atom t, pexpr_of_sexp e)
  | x -> failwith ("pstmt: " ^ Sexp.to_string x)


let string_of_kind = function
  | KCast -> "KCast" | KNoBinding -> "KNoBinding" | KArith -> "KArith" | KReservedBind -> "KReservedBind"
  | KRebind -> "KRebind" | KReservedArg -> "KReservedArg" | KEqualType -> "KEqualType" | KNotBool -> "KNotBool"
  | KCompare -> "KCompare" | KFieldType -> "KFieldType" | KIndex -> "KIndex" | KExistRight -> "KExistRight"
  | KExistLeft -> "KExistLeft" | KCopyTarget -> "KCopyTarget" | KBang -> "KBang" | KCond -> "KCond" | KAndOr -> "KAndOr"
  | KModuleArg -> "KModuleArg" | KFuncArgs -> "KFuncArgs" | KArity -> "KArity" | KNotFunc -> "KNotFunc"
  | KHookNotFunc -> "KHookNotFunc" | KHookArity -> "KHookArity" | KMapTuple -> "KMapTuple" | KMapStr -> "KMapStr"
  | KHookTarget -> "KHookTarget" | KRange -> "KRange" | KRegex -> "KRegex"

let plain_pos ((l, c) : n * n) = Printf.sprintf "%d:%d" (int_of_n l) (int_of_n c)
let nat_of_int (k : int) : nat = let r = ref O in for _ = 1 to k do r := S !r done; !r

let string_of_outcome = function
  | POk _ -> "ok"
  | PErr (k, p, via) ->
    Printf.sprintf "err %s VIA %s KIND %s" (plain_pos p) (String.concat "," (List.map plain_pos via)) (string_of_kind k)
  | PBug -> "bug" | PUnsup -> "unsup" | PFuel -> "fuel"

let chars_of_string (s : string) : char list = List.init (String.length s) (String.get s)


let default_fuel = 200000
let fuel_cache : (int * nat) option ref = ref None
let fuel_nat (k : int) : nat =
  match !fuel_cache with
  | Some (k', n) when k' = k -> n
  | _ -> let n = nat_of_int k in fuel_cache := Some (k, n); n

let env_of_atom (a : string) : (char list * char list) list =
  if a = "-" || a = "" then []
  else
    List.sort (fun (x, _) (y, _) -> compare x y)
      (List.map (fun kv -> match String.index_opt kv '=' with
           | Some i -> (bytes_of_atom (String.sub kv 0 i), bytes_of_atom (String.sub kv (i + 1) (String.length kv - i - 1)))
           | None -> failwith ("env " ^ kv)) (String.split_on_char ',' a))

let prog_of (sx : Sexp.t) : pstmt list = match sx with L ss -> List.map pstmt_of_sexp ss | _ -> failwith "program"

(* the answer fields *)
let answer ~(strict : bool) ~(fuel : int) ~(envv : (char list * char list) list) ~(k : int) (p : pstmt list) : string list =
  let fuel = fuel_nat fuel in
  if k > 0 then ["MEVALK " ^ string_of_outcome (pvm_run_prog fuel envv strict (List.map (shift_stmt (n_of_int k)) p))]
  else begin
    let r = pvm_run_prog fuel envv strict p in
    let e = vm_run_erased fuel envv strict p in
    let same = (match r, e with
      | POk bs, VOk ws -> List.map erase_binding bs = ws
      | PErr _, VErr | PBug, VBug | PUnsup, VUnsup | PFuel, VFuel -> true
      | _ -> false) in
    [ "MEVAL " ^ string_of_outcome r;
      (if same then "MERASED ok" else "MERASED BAD");
      (match pvm_blame_run fuel envv strict p with
       | PErr (_, (i, _), via) ->
         Printf.sprintf "MBLAME %d VIA %s" (int_of_n i) (String.concat "," (List.map (fun (j, _) -> string_of_int (int_of_n j)) via))
       | _ -> "MBLAME -");
      Printf.sprintf "MSIDE scoped=%d clean=%d depth0=%s" (if scoped_all p then 1 else 0)
        (if boundaries_clean fuel envv strict p then 1 else 0)
        (match failing_stmt fuel envv strict p with Some k -> string_of_int (int_of_nat k) | None -> "-");
      "MSTMTLEN " ^ String.concat "," (List.map (fun s -> string_of_int (List.length (ptranslate [s]))) p) ]
  end

let starts (line : string) (pre : string) : bool =
  String.length line > String.length pre && String.sub line 0 (String.length pre) = pre
let after (line : string) (pre : string) : string = String.sub line (String.length pre) (String.length line - String.length pre)
(* "<word> <rest>" *)
let word (s : string) : string * string =
  match String.index_opt s ' ' with
  | Some i -> (String.sub s 0 i, String.sub s (i + 1) (String.length s - i - 1))
  | None -> failwith "missing field"

let run (line : string) : string =
  let fields =
    try
      if starts line "AST " then
        answer ~strict:true ~fuel:default_fuel ~envv:[] ~k:0 (prog_of (Sexp.parse (after line "AST ")))
      else if starts line "ASTK " then begin
        let (k, rest) = word (after line "ASTK ") in
        answer ~strict:true ~fuel:default_fuel ~envv:[] ~k:(int_of_string k) (prog_of (Sexp.parse rest))
      end else if starts line "PAST " then begin
        let (st, r1) = word (after line "PAST ") in
        let (fu, r2) = word r1 in
        let (en, r3) = word r2 in
        let (k, r4) = word r3 in
        answer ~strict:(st <> "0") ~fuel:(int_of_string fu) ~envv:(env_of_atom en) ~k:(int_of_string k) (prog_of (Sexp.parse r4))
      end else ["MFAIL not an AST / ASTK / PAST line"]
    with Failure m -> ["MFAIL " ^ m]
       | Stack_overflow -> ["MFAIL stack overflow"]
       | Not_found -> ["MFAIL malformed line"] in
  String.concat "\t" fields
