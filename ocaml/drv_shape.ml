(* C06 / C07 driver for the shape model (modes prog pair letnamed narrow derive c07), called from driver.ml *)
open Model_shape
open Sexp

let rec pos_of_int n = if n = 1 then XH else if n land 1 = 0 then XO (pos_of_int (n lsr 1)) else XI (pos_of_int (n lsr 1))
let z_of_decimal_any (s : string) : z =
  let neg = String.length s > 0 && s.[0] = '-' in
  let digits = if neg then String.sub s 1 (String.length s - 1) else s in
  let ten = Zpos (XO (XI (XO XH))) in
  let acc = ref Z0 in
  String.iter (fun c -> let d = Char.code c - 48 in
                acc := Z.add (Z.mul !acc ten) (if d = 0 then Z0 else Zpos (pos_of_int d))) digits;
  if neg then Z.opp !acc else !acc
let op_of_string = function
  | "Add" -> Add | "Sub" -> Sub | "Mul" -> Mul | "Div" -> Div | "Mod" -> Mod | "AND" -> AND | "OR" -> OR
  | "Equal" -> Equal | "GT" -> GT | "LT" -> LT | "NotEqual" -> NotEqual | "GTEqual" -> GTEqual
  | "LTEqual" -> LTEqual | "REMatch" -> REMatch | "NotREMatch" -> NotREMatch | "IN" -> IN | "IS" -> IS
  | "DOT" -> DOT | s -> failwith ("op " ^ s)

let rec expr_of_sexp (x : Sexp.t) : expr = match x with
  | L [A "null"] -> ENull
  | L [A "bool"; A v] -> EBool (v = "1")
  | L [A "int"; A z] -> EInt (z_of_decimal_any z)
  | L [A "float"; A bits] -> EFloat (z_of_decimal_any bits)
  | L [A "str"; A s] -> EStr (bytes_of_atom s)
  | L [A "sym"; A s] -> ESym (bytes_of_atom s)
  | L (A "tuple" :: fs) -> ETuple (List.map field_of_sexp fs)
  | L (A "list" :: es) -> EList (List.map expr_of_sexp es)
  | L [A "bin"; A o; l; r] -> EBin (op_of_string o, expr_of_sexp l, expr_of_sexp r)
  | L [A "not"; e] -> ENot (expr_of_sexp e)
  | L [A "group"; e] -> EGroup (expr_of_sexp e)
  | L (A "copy" :: t :: fs) -> ECopy (expr_of_sexp t, List.map field_of_sexp fs)
  | L [A "range"; s; st; e] -> ERange (expr_of_sexp s, opt_expr st, expr_of_sexp e)
  | L [A "fmtl"; L parts; L args] -> EFormatL (List.map part_of_sexp parts, List.map expr_of_sexp args)
  | L [A "fmts"; L parts; e] -> EFormatS (List.map part_of_sexp parts, expr_of_sexp e)
  | L [A "call"; f; L args] -> ECall (expr_of_sexp f, List.map expr_of_sexp args)
  | L [A "cast"; A c; e] -> ECast ((match c with "int" -> CInt | "float" -> CFloat | "str" -> CStr | "bool" -> CBool
                                               | _ -> failwith "cast"), expr_of_sexp e)
  | L [A "func"; L ps; body] -> EFunc (List.map (function A p -> bytes_of_atom p | _ -> failwith "param") ps, expr_of_sexp body)
  | L [A "select"; v; d; L arms] -> ESelect (expr_of_sexp v, opt_expr d, List.map field_of_sexp arms)
  | L [A "map"; f; t] -> EMap (expr_of_sexp f, expr_of_sexp t)
  | L [A "filter"; f; t] -> EFilter (expr_of_sexp f, expr_of_sexp t)
  | L [A "reduce"; f; a; t] -> EReduce (expr_of_sexp f, expr_of_sexp a, expr_of_sexp t)
  | L [A "module"; L ps; o; L body] -> EModule (List.map field_of_sexp ps, opt_expr o, List.map stmt_of_sexp body)
  | L [A "fail"; e] -> EFail (expr_of_sexp e)
  | L [A "trace"; e] -> ETrace (expr_of_sexp e)
  | L [A "import"; A p] -> EImport (bytes_of_atom p)
  | L [A "include"; A t; A p] -> EInclude (bytes_of_atom t, bytes_of_atom p)
  | L [A "convert"; A t; e] -> EConvert (bytes_of_atom t, expr_of_sexp e)
  | _ -> failwith ("expr: " ^ Sexp.to_string x)
and opt_expr = function A "_" -> None | e -> Some (expr_of_sexp e)
and field_of_sexp = function L [A k; e] -> (bytes_of_atom k, expr_of_sexp e) | _ -> failwith "field"
and part_of_sexp = function
  | L [A "s"; A s] -> PStr (bytes_of_atom s) | L [A "hole"] -> PHole | L [A "e"; e] -> PExpr (expr_of_sexp e)
  | _ -> failwith "part"
and stmt_of_sexp = function
  | L [A "let"; A x; e] -> SLet (bytes_of_atom x, expr_of_sexp e)
  | L [A "expr"; e] -> SExpr (expr_of_sexp e)
  | L [A "assert"; e] -> SAssert (expr_of_sexp e)
  | L [A "out"; A t; e] -> SOut (bytes_of_atom t, expr_of_sexp e)
  | _ -> failwith "stmt"

(* constraint expressions and statements of the shape model *)
let carm_of_sexp = function
  | L [A "range"; lo; hi] -> ARange (opt_expr lo, opt_expr hi)
  | L [A "shape"; e] -> AShape (expr_of_sexp e)
  | x -> failwith ("carm: " ^ Sexp.to_string x)
let cexpr_of_sexp = function
  | L [A "plain"; e] -> CPlain (expr_of_sexp e)
  | L (A "arms" :: arms) -> CArms (List.map carm_of_sexp arms)
  | x -> failwith ("cexpr: " ^ Sexp.to_string x)
let cstmt_of_sexp = function
  | L [A "let"; A x; A "_"; e] -> CLet (bytes_of_atom x, None, expr_of_sexp e)
  | L [A "let"; A x; c; e] -> CLet (bytes_of_atom x, Some (cexpr_of_sexp c), expr_of_sexp e)
  | L [A "constraint"; A n; c] -> CConstraint (bytes_of_atom n, cexpr_of_sexp c)
  | L [A "expr"; e] -> CExpr (expr_of_sexp e)
  | x -> failwith ("cstmt: " ^ Sexp.to_string x)

(* values of Sem (instantiated with bits_ops: floats are their bit pattern) *)
let rec value_of_sexp (x : Sexp.t) : value = match x with
  | L [A "null"] -> VNull
  | L [A "bool"; A v] -> VBool (v = "1")
  | L [A "int"; A z] -> VInt (z_of_decimal_any z)
  | L [A "float"; A bits] -> VFloat (Obj.magic (z_of_decimal_any bits))
  | L [A "str"; A s] -> VStr (bytes_of_atom s)
  | L (A "list" :: es) -> VList (List.map value_of_sexp es)
  | L (A "tuple" :: fs) -> VTuple (List.map (function L [A k; v] -> (bytes_of_atom k, value_of_sexp v) | _ -> failwith "vfield") fs)
  | _ -> failwith ("value: " ^ Sexp.to_string x)
let opt_value = function A "_" -> None | v -> Some (value_of_sexp v)
let varm_of_sexp = function
  | L [A "range"; lo; hi] -> VRange (opt_value lo, opt_value hi)
  | L [A "exact"; v] -> VExact (value_of_sexp v)
  | x -> failwith ("varm: " ^ Sexp.to_string x)
let vconstraint_of_sexp = function
  | L [A "exemplar"; v] -> VExemplar (value_of_sexp v)
  | L (A "alt" :: arms) -> VAlt (List.map varm_of_sexp arms)
  | x -> failwith ("vconstraint: " ^ Sexp.to_string x)

let rec sexp_of_shape (s : shape) : Sexp.t = match s with
  | SBool -> A "bool" | SInt -> A "int" | SFloat -> A "float" | SStr -> A "str"
  | STuple fs -> L (A "tuple" :: List.map (fun (k, t) -> L [A (atom_of_bytes k); sexp_of_shape t]) fs)
  | SListAny -> A "listany"
  | SList ts -> L (A "list" :: List.map sexp_of_shape ts)
  | SFunc (o, a, r) -> L [A "func"; L (List.map (fun k -> A (atom_of_bytes k)) o);
                          L (List.map (fun (k, t) -> L [A (atom_of_bytes k); sexp_of_shape t]) a); sexp_of_shape r]
  | SModule (i, r) -> L [A "module"; L (List.map (fun (k, t) -> L [A (atom_of_bytes k); sexp_of_shape t]) i); sexp_of_shape r]
  | SHole x -> L [A "hole"; A (atom_of_bytes x)]
  | SAny -> A "any"
  | SNarrowed ts -> L (A "narrowed" :: List.map sexp_of_shape ts)
  | SImportU p -> L [A "importu"; A (atom_of_bytes p)]
  | SImportR fs -> L (A "importr" :: List.map (fun (k, t) -> L [A (atom_of_bytes k); sexp_of_shape t]) fs)
  | SRef x -> L [A "ref"; A (atom_of_bytes x)]
  | SErr EType -> A "err" | SErr EFuel -> A "err-fuel" | SErr EUnmod -> A "err-unmod"
let rec shape_of_sexp (x : Sexp.t) : shape =
  let fields fs = List.map (function L [A k; t] -> (bytes_of_atom k, shape_of_sexp t) | _ -> failwith "sfield") fs in
  match x with
  | A "bool" -> SBool | A "int" -> SInt | A "float" -> SFloat | A "str" -> SStr
  | L (A "tuple" :: fs) -> STuple (fields fs)
  | A "listany" -> SListAny
  | L (A "list" :: ts) -> SList (List.map shape_of_sexp ts)
  | L [A "hole"; A x] -> SHole (bytes_of_atom x)
  | A "any" -> SAny
  | L (A "narrowed" :: ts) -> SNarrowed (List.map shape_of_sexp ts)
  | L [A "ref"; A x] -> SRef (bytes_of_atom x)
  | A "err" -> SErr EType
  | _ -> failwith ("shape: " ^ Sexp.to_string x)

let b2s b = if b then "1" else "0"

let run mode (x : Sexp.t) : string = match mode, x with
  (* a whole file: checker then VM; prints build, check-only *)
  | "prog", L stmts ->
    let ss = List.map cstmt_of_sexp stmts in
    (match x_build_prog ss with Ok _ -> "ok" | Err -> "err" | Unsup -> "unsup" | Fuel -> "fuel") ^ " " ^ b2s (x_check ss)
  (* (c v n ex?) : value-level pair *)
  | "pair", L [c; v; A n] ->
    let c = vconstraint_of_sexp c and v = value_of_sexp v and n = bytes_of_atom n in
    String.concat " " [b2s (x_build_accepts c v); b2s (x_build_accepts_prog c v); b2s (x_build_accepts_named n c v);
                       b2s (x_conforms c v); b2s (x_conforms_strict c v); b2s (x_constraint_grammar c && x_literal_value v); b2s (x_runtime_ok c v)]
  | "letnamed", L [ex; v; A n] ->
    b2s (x_build_accepts_let_named (bytes_of_atom n) (value_of_sexp ex) (value_of_sexp v))
  (* (symtab l r): narrow *)
  | "narrow", L [L st; l; r] ->
    let st = List.map (function L [A k; t] -> (bytes_of_atom k, shape_of_sexp t) | _ -> failwith "st") st in
    let (res, st') = narrow_st st (shape_of_sexp l) (shape_of_sexp r) in
    Sexp.to_string (L [sexp_of_shape res; L (List.map (fun (k, t) -> L [A (atom_of_bytes k); sexp_of_shape t]) st')])
  (* derive the shapes of a program's statements: prints the shape bound by each let, or err *)
  | "derive", L stmts ->
    let ss = List.map cstmt_of_sexp stmts in
    let rec go ss st acc = match ss with
      | [] -> List.rev acc
      | s :: ss' ->
        (match check_stmts [s] st with
         | None -> List.rev (A "err" :: acc)
         | Some st' ->
           let sh = (match s with
                     | CLet (x, _, _) | CConstraint (x, _) ->
                       (match st' with (_, t) :: _ -> sexp_of_shape t | [] -> A "?")
                     | CExpr _ -> A "-") in
           go ss' st' (sh :: acc)) in
    Sexp.to_string (L (go ss [] []))
  (* a program of Ast.v: known_c07, known_c07_wide, fragment_prog, checker accepts *)
  | "c07", L stmts ->
    let p = List.map stmt_of_sexp stmts in
    let chk = (match cstmts_of p with Some cs -> (match check_stmts cs [] with Some _ -> "1" | None -> "0") | None -> "-") in
    String.concat " " [b2s (known_c07 p); b2s (known_c07_wide p); b2s (fragment_prog [] p); chk]
  | _ -> failwith "bad case"

