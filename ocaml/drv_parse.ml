(* driver for the parser model.
   parse_runner parse : one line = hex atom of the source text (x....) ->
       "ok <dump>" | "err" | "unsup" | "fuel"
   where <dump> is the s-expression of /verif/harness/src/dump.rs with pos = false (floats as bit patterns). *)
open Model_parse
open Sexp

let rec int64_of_pos = function XH -> 1L | XO p -> Int64.shift_left (int64_of_pos p) 1
                              | XI p -> Int64.logor (Int64.shift_left (int64_of_pos p) 1) 1L
let string_of_z = function
  | Z0 -> "0"
  | Zpos p -> Printf.sprintf "%Lu" (int64_of_pos p)
  | Zneg p -> "-" ^ Printf.sprintf "%Lu" (int64_of_pos p)
let str_of_chars l = String.of_seq (List.to_seq l)

(* serde_json::to_string of a str *)
let q (l : char list) : string =
  let bf = Buffer.create 16 in
  Buffer.add_char bf '"';
  List.iter (fun c -> match c with
      | '"' -> Buffer.add_string bf "\\\""
      | '\\' -> Buffer.add_string bf "\\\\"
      | '\n' -> Buffer.add_string bf "\\n"
      | '\r' -> Buffer.add_string bf "\\r"
      | '\t' -> Buffer.add_string bf "\\t"
      | '\b' -> Buffer.add_string bf "\\b"
      | '\012' -> Buffer.add_string bf "\\f"
      | c when Char.code c < 0x20 -> Buffer.add_string bf (Printf.sprintf "\\u%04x" (Char.code c))
      | c -> Buffer.add_char bf c) l;
  Buffer.add_char bf '"';
  Buffer.contents bf

let string_of_op = function
  | Add -> "Add" | Sub -> "Sub" | Mul -> "Mul" | Div -> "Div" | Mod -> "Mod" | AND -> "AND" | OR -> "OR"
  | Equal -> "Equal" | GT -> "GT" | LT -> "LT" | NotEqual -> "NotEqual" | GTEqual -> "GTEqual"
  | LTEqual -> "LTEqual" | REMatch -> "REMatch" | NotREMatch -> "NotREMatch" | IN -> "IN" | IS -> "IS"
  | DOT -> "DOT"

let raw_tpl = function
  | [PStr s] -> q s
  | _ -> "<parts>"

let rec expr e = match e with
  | ENull -> "(Empty)"
  | EBool v -> Printf.sprintf "(Bool %s)" (if v then "true" else "false")
  | EInt z -> Printf.sprintf "(Int %s)" (string_of_z z)
  | EFloat z -> Printf.sprintf "(Float %s)" (string_of_z z)
  | EStr s -> Printf.sprintf "(Str %s)" (q s)
  | ESym s -> Printf.sprintf "(Sym %s)" (q s)
  | ETuple fs -> Printf.sprintf "(Tuple %s)" (fields fs)
  | EList es -> Printf.sprintf "(List %s)" (exprs es)
  | EBin (o, l, r) -> Printf.sprintf "(Bin %s %s %s)" (string_of_op o) (expr l) (expr r)
  | ENot e -> Printf.sprintf "(Not %s)" (expr e)
  | EGroup e -> Printf.sprintf "(Group %s)" (expr e)
  | ECopy (t, fs) -> Printf.sprintf "(Copy %s %s)" (expr t) (fields fs)
  | ERange (s, st, e) -> Printf.sprintf "(Range %s %s %s)" (expr s) (opt st) (expr e)
  | EFormatL (p, args) -> Printf.sprintf "(Format %s (L %s))" (raw_tpl p) (exprs args)
  | EFormatS (p, a) -> Printf.sprintf "(Format %s (S %s))" (raw_tpl p) (expr a)
  | ECall (f, args) -> Printf.sprintf "(Call %s %s)" (expr f) (exprs args)
  | ECast (c, e) -> Printf.sprintf "(Cast %s %s)" (match c with CInt -> "int" | CFloat -> "float" | CStr -> "str" | CBool -> "bool") (expr e)
  | EFunc (ps, body) -> Printf.sprintf "(Func (%s) %s)" (String.concat " " (List.map (fun p -> "(" ^ q p ^ ")") ps)) (expr body)
  | ESelect (v, d, arms) -> Printf.sprintf "(Select %s %s %s)" (expr v) (opt d) (fields arms)
  | EMap (f, t) -> Printf.sprintf "(Map %s %s)" (expr f) (expr t)
  | EFilter (f, t) -> Printf.sprintf "(Filter %s %s)" (expr f) (expr t)
  | EReduce (f, a, t) -> Printf.sprintf "(Reduce %s %s %s)" (expr f) (expr a) (expr t)
  | EModule (ps, o, body) -> Printf.sprintf "(Module %s %s _ %s)" (fields ps) (opt o) (stmts body)
  | EFail e -> Printf.sprintf "(Fail %s)" (expr e)
  | ETrace e -> Printf.sprintf "(Trace %s)" (expr e)
  | EImport p -> Printf.sprintf "(Import %s)" (q p)
  | EInclude (t, p) -> Printf.sprintf "(Include %s %s)" (q t) (q p)
  | EConvert (t, e) -> Printf.sprintf "(Convert %s %s)" (q t) (expr e)
and opt = function None -> "_" | Some e -> expr e
and exprs es = "(" ^ String.concat " " (List.map expr es) ^ ")"
and fields fs = "(" ^ String.concat " " (List.map (fun (k, e) -> Printf.sprintf "(F %s %s)" (q k) (expr e)) fs) ^ ")"
and stmt = function
  | SLet (x, e) -> Printf.sprintf "(Let %s _ %s)" (q x) (expr e)
  | SExpr e -> Printf.sprintf "(Expr %s)" (expr e)
  | SAssert e -> Printf.sprintf "(Assert %s)" (expr e)
  | SOut (t, e) -> Printf.sprintf "(Out %s %s)" (q t) (expr e)
and stmts ss = "(" ^ String.concat " " (List.map stmt ss) ^ ")"

let rec nat_of_int n = if n <= 0 then O else S (nat_of_int (n - 1))
let rec pos_of_int n = if n = 1 then XH else if n land 1 = 0 then XO (pos_of_int (n lsr 1)) else XI (pos_of_int (n lsr 1))
let n_of_int (i : int) : n = if i = 0 then N0 else Npos (pos_of_int i)
let rec int_of_pos = function XH -> 1 | XO p -> 2 * int_of_pos p | XI p -> 2 * int_of_pos p + 1
let int_of_n = function N0 -> 0 | Npos p -> int_of_pos p
let z_of_decimal_any (s : string) : z =
  let neg = String.length s > 0 && s.[0] = '-' in
  let digits = if neg then String.sub s 1 (String.length s - 1) else s in
  let ten = Zpos (XO (XI (XO XH))) in
  let acc = ref Z0 in
  String.iter (fun c -> let d = Char.code c - 48 in
                acc := Z.add (Z.mul !acc ten) (if d = 0 then Z0 else Zpos (pos_of_int d))) digits;
  if neg then Z.opp !acc else !acc
let op_of_string = function
  | "Add" -> Add | "Sub" -> Sub | "Mul" -> Mul | "Div" -> Div | "Mod" -> Mod | "AND" -> AND | "OR" -> OR
  | "Equal" -> Equal | "GT" -> GT | "LT" -> LT | "NotEqual" -> NotEqual | "GTEqual" -> GTEqual
  | "LTEqual" -> LTEqual | "REMatch" -> REMatch | "NotREMatch" -> NotREMatch | "IN" -> IN | "IS" -> IS
  | "DOT" -> DOT | s -> failwith ("op " ^ s)
let rec expr_of_sexp (x : Sexp.t) : expr = match x with
  | L [A "null"] -> ENull
  | L [A "bool"; A v] -> EBool (v = "1")
  | L [A "int"; A z] -> EInt (z_of_decimal_any z)
  | L [A "float"; A bits] -> EFloat (z_of_decimal_any bits)
  | L [A "str"; A s] -> EStr (bytes_of_atom s)
  | L [A "sym"; A s] -> ESym (bytes_of_atom s)
  | L (A "tuple" :: fs) -> ETuple (List.map field_of_sexp fs)
  | L (A "list" :: es) -> EList (List.map expr_of_sexp es)
  | L [A "bin"; A o; l; r] -> EBin (op_of_string o, expr_of_sexp l, expr_of_sexp r)
  | L [A "not"; e] -> ENot (expr_of_sexp e)
  | L [A "group"; e] -> EGroup (expr_of_sexp e)
  | L (A "copy" :: t :: fs) -> ECopy (expr_of_sexp t, List.map field_of_sexp fs)
  | L [A "range"; s; st; e] -> ERange (expr_of_sexp s, opt_expr st, expr_of_sexp e)
  | L [A "fmtl"; L parts; L args] -> EFormatL (List.map part_of_sexp parts, List.map expr_of_sexp args)
  | L [A "fmts"; L parts; e] -> EFormatS (List.map part_of_sexp parts, expr_of_sexp e)
  | L [A "call"; f; L args] -> ECall (expr_of_sexp f, List.map expr_of_sexp args)
  | L [A "cast"; A c; e] -> ECast ((match c with "int" -> CInt | "float" -> CFloat | "str" -> CStr | "bool" -> CBool
                                               | _ -> failwith "cast"), expr_of_sexp e)
  | L [A "func"; L ps; body] -> EFunc (List.map (function A p -> bytes_of_atom p | _ -> failwith "param") ps, expr_of_sexp body)
  | L [A "select"; v; d; L arms] -> ESelect (expr_of_sexp v, opt_expr d, List.map field_of_sexp arms)
  | L [A "map"; f; t] -> EMap (expr_of_sexp f, expr_of_sexp t)
  | L [A "filter"; f; t] -> EFilter (expr_of_sexp f, expr_of_sexp t)
  | L [A "reduce"; f; a; t] -> EReduce (expr_of_sexp f, expr_of_sexp a, expr_of_sexp t)
  | L [A "module"; L ps; o; L body] -> EModule (List.map field_of_sexp ps, opt_expr o, List.map stmt_of_sexp body)
  | L [A "fail"; e] -> EFail (expr_of_sexp e)
  | L [A "trace"; e] -> ETrace (expr_of_sexp e)
  | L [A "import"; A p] -> EImport (bytes_of_atom p)
  | L [A "include"; A t; A p] -> EInclude (bytes_of_atom t, bytes_of_atom p)
  | L [A "convert"; A t; e] -> EConvert (bytes_of_atom t, expr_of_sexp e)
  | _ -> failwith ("expr: " ^ Sexp.to_string x)
and opt_expr = function A "_" -> None | e -> Some (expr_of_sexp e)
and field_of_sexp = function L [A k; e] -> (bytes_of_atom k, expr_of_sexp e) | _ -> failwith "field"
and part_of_sexp = function
  | L [A "s"; A s] -> PStr (bytes_of_atom s) | L [A "hole"] -> PHole | L [A "e"; e] -> PExpr (expr_of_sexp e)
  | _ -> failwith "part"
and stmt_of_sexp = function
  | L [A "let"; A x; e] -> SLet (bytes_of_atom x, expr_of_sexp e)
  | L [A "expr"; e] -> SExpr (expr_of_sexp e)
  | L [A "assert"; e] -> SAssert (expr_of_sexp e)
  | L [A "out"; A t; e] -> SOut (bytes_of_atom t, expr_of_sexp e)
  | _ -> failwith "stmt"


let outcome = function
  | Parsed p -> "ok " ^ stmts p
  | Rejected -> "err"
  | Unsupported -> "unsup"
  | ParseNoFuel -> "fuel"

let run mode line =
  match mode with
  | "parse" -> outcome (parse_src (bytes_of_atom line))
  (* rt: line = (indent (stmt ...)) in the s-expression format of gen/programs.py (stmt_sexp) ->
     "<prog_ok> <raw_tpl> <T1> <T2> <T3> <frag_prog> <lex_ok_prog> <T4>" with
       T4  pp_stmts_raw ind (pnorm p) = pp_stmts ind p
       T1  parse (ptoks p ++ [END]) = Parsed (pnorm p)
       T2  map strip (lex (pp_stmts ind p)) = ptoks p ++ [END]
       T3  parse_src (pp_stmts ind p) = Parsed (pnorm p) *)
  | "rt" ->
    (match Sexp.parse line with
     | L [A indent; L ss] ->
       let ind = nat_of_int (int_of_string indent) in
       let p = List.map stmt_of_sexp ss in
       let tk = ptoks ind p @ [(END, [])] in
       let np = pnorm ind p in
       let bit x = if x then "1" else "0" in
       let t1 = (match Model_parse.parse tk with Parsed q -> q = np | _ -> false) in
       let txt = pp_stmts ind p in
       let t2 = (match lex txt with Some l -> List.map strip_tok l = tk | None -> false) in
       let t3 = (match parse_src txt with Parsed q -> q = np | _ -> false) in
       String.concat " " [bit (prog_ok ind p); bit (raw_tpl_prog p); bit t1; bit t2; bit t3; bit (frag_prog p); bit (lex_ok_prog p); bit (pp_stmts_raw ind np = txt)]
     | _ -> failwith "rt input")
  | _ -> failwith "mode"

