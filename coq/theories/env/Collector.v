(* M-ENV/collector: `ucg test` as a fold over the file list.
   Mirrors src/build/mod.rs:50-87 (AssertCollector), src/build/opcode/runtime.rs:230-286
   (assert hook) and src/main.rs do_validate / visit_ucg_files / test_command.
   The per-file build is abstracted to the list of values its assert statements evaluate
   (in evaluation order) and whether a build error ends the file after them.
   Executable definitions only. *)
From Ucg Require Export base.Bytes.

(* the value an assert statement evaluated *)
Inductive akind :=
| AWell (desc : bytes) (ok : bool)       (* tuple with boolean ok and string desc *)
| AMal (tag : N).                         (* anything else: recorded as "TYPE FAIL ..." (tag = which message) *)

Definition assert_ok (a : akind) : bool :=
  match a with AWell _ ok => ok | AMal _ => false end.

Record tfile := { fname : bytes; asserts : list akind; build_err : bool }.

(* one line of the per-file log: "<index> - OK|NOT OK: <what>" *)
Definition logline := (N * bool * akind)%type.

Record collector := { counter : N; success : bool; summary : list logline }.
Definition new_collector : collector := {| counter := 0; success := true; summary := [] |}.

Definition record (c : collector) (a : akind) : collector :=
  {| counter := N.succ (counter c);
     success := success c && assert_ok a;
     summary := summary c ++ [(counter c, assert_ok a, a)] |}.

Inductive verdict := Pass | Fail.
Definition verdict_eqb (a b : verdict) : bool :=
  match a, b with Pass, Pass | Fail, Fail => true | _, _ => false end.

(* [Shared]: one collector for the whole invocation (the code before the fix);
   [PerFile]: do_validate starts every file with a fresh collector. *)
Inductive mode := Shared | PerFile.

Record file_report := { rverdict : verdict; rlog : list logline }.

Definition validate_file (m : mode) (c : collector) (f : tfile) : collector * file_report :=
  let c0 := match m with Shared => c | PerFile => new_collector end in
  let c1 := fold_left record (asserts f) c0 in
  if build_err f then
    (* build_file returns Err before the summary is printed *)
    (c1, {| rverdict := Fail; rlog := [] |})
  else
    (c1, {| rverdict := if success c1 then Pass else Fail; rlog := summary c1 |}).

Fixpoint test_run_from (m : mode) (c : collector) (fs : list tfile) : list file_report :=
  match fs with
  | [] => []
  | f :: fs' => let '(c', r) := validate_file m c f in r :: test_run_from m c' fs'
  end.

Definition test_run (m : mode) (fs : list tfile) : list file_report :=
  test_run_from m new_collector fs.

Definition exit_code (rs : list file_report) : N :=
  if forallb (fun r => verdict_eqb (rverdict r) Pass) rs then 0 else 1.

(* ---- specification ---- *)
Definition file_spec (f : tfile) : verdict :=
  if negb (build_err f) && forallb assert_ok (asserts f) then Pass else Fail.

Fixpoint number_from (n : N) (l : list akind) : list logline :=
  match l with [] => [] | a :: l' => (n, assert_ok a, a) :: number_from (N.succ n) l' end.

Definition log_spec (f : tfile) : list logline :=
  if build_err f then [] else number_from 0 (asserts f).
