(* MODEL of one invocation `ucg build f1 f2 ...` (/repo/src/main.rs
   build_command / visit_ucg_files / do_compile / build_file): ONE
   Environment for all files, built in command-line order; a failing file
   does not stop the loop; exit status 1 iff some file failed.

   Executable definitions (and the specification vocabulary of the
   theorems) only; proofs are in Batch_Lemmas.v. *)
From Ucg Require Import base.Bytes path.Path env.Import.

(* [files] are the absolute raw spellings (current directory joined with the
   argument, not normalised) *)
Fixpoint batch (m : lock_mode) (fuel : nat) (proj : project) (st : state) (files : list path)
  : state * list (path * result val) :=
  match files with
  | [] => (st, [])
  | r :: rs =>
      let '(st1, res) := build_file m fuel proj st r in
      let '(st2, l) := batch m fuel proj st1 rs in
      (st2, (r, res) :: l)
  end.

(* a fresh process for one file *)
Definition alone (m : lock_mode) (fuel : nat) (proj : project) (r : path) : state * result val :=
  build_file m fuel proj empty_state r.

Definition exit_status (l : list (path * result val)) : nat :=
  if forallb (fun x => is_ok (snd x)) l then 0 else 1.

(* the same without the static phase and link_ops (VM level) *)
Fixpoint batch_eval (m : lock_mode) (fuel : nat) (proj : project) (st : state) (files : list path)
  : state * list (path * result val) :=
  match files with
  | [] => (st, [])
  | r :: rs =>
      let '(st1, res) := eval_file m fuel proj st r in
      let '(st2, l) := batch_eval m fuel proj st1 rs in
      (st2, (r, res) :: l)
  end.

Definition alone_eval (m : lock_mode) (fuel : nat) (proj : project) (r : path) : state * result val :=
  eval_file m fuel proj empty_state r.

(* "the same invocation is repeated": the CLI is one process per list, so a
   repetition is a second process with a FRESH Environment *)
Definition repeat_invocation (m : lock_mode) (fuel : nat) (proj : project) (files : list path) :=
  (batch m fuel proj empty_state files, batch m fuel proj empty_state files).

(* the (hypothetical) repetition inside one Environment, for comparison *)
Definition repeat_same_env (m : lock_mode) (fuel : nat) (proj : project) (files : list path) :=
  batch m fuel proj empty_state (files ++ files).

(* status of the build of the [i]-th file *)
Definition status_of (l : list (path * result val)) (i : nat) : option bool :=
  option_map (fun x => is_ok (snd x)) (nth_error l i).

(* ---------- the known defect class, computed.
   A file with an [out] statement whose output lock is needed twice in one
   invocation: it is built from the command line AND imported by a file
   built from the command line (or built twice).  The value cache does not
   help, because the value of a file built from the command line is neither
   stored in nor looked up from the cache. *)

(* files reachable from [p] by 1..d import steps (normalised) *)
Fixpoint deps (d : nat) (proj : project) (p : path) : list path :=
  match d with
  | O => []
  | S d' =>
      match lookup proj (normalize p) with
      | None => []
      | Some f => flat_map (fun i => normalize i :: deps d' proj i) (imports f)
      end
  end.

Definition has_outb (proj : project) (x : path) : bool :=
  match lookup proj x with
  | Some f => 1 <=? outs f
  | None => false
  end.

(* [known_c16b d proj files r]: building [r] as part of [files] is in the
   defect class ([d]: search depth, [default_fuel proj] for acyclic projects) *)
Definition known_c16b (d : nat) (proj : project) (files : list path) (r : path) : bool :=
  let n := normalize r in
  let bs := map normalize files in
  existsb (fun x => has_outb proj x && mem_path x bs) (deps d proj r)
  || (has_outb proj n
      && (existsb (fun r' => mem_path n (deps d proj r')) files
          || (2 <=? count_path n bs))).
