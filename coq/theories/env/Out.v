(* M-ENV/out: the `out` statement as a step on (file system, output locks).
   Mirrors src/build/opcode/runtime.rs:288-353 (out hook) and 355-396 (convert hook).
   The converters are an abstract function shared by `out` and `convert` (which is what the
   code does: both go through converter_registry.get_converter(name).convert).
   Executable definitions only. *)
From Ucg Require Export base.Bytes.

Definition path := bytes.
Definition fsys := list (path * bytes).          (* association list, first binding wins *)

Fixpoint fs_get (fs : fsys) (p : path) : option bytes :=
  match fs with
  | [] => None
  | (q, c) :: fs' => if bytes_eqb q p then Some c else fs_get fs' p
  end.
Definition fs_set (fs : fsys) (p : path) (c : bytes) : fsys := (p, c) :: fs.

Record ostate := { files : fsys; locks : list path }.

Definition locked (st : ostate) (src : path) : bool := existsb (bytes_eqb src) (locks st).

Inductive oerr := OneOutputPerFile | NoSuchConverter | ConvertFailed.
Inductive ores := OOk | OErr (e : oerr).

(* the artifact name: source path with its extension replaced (PathBuf::with_extension) *)
Fixpoint drop_ext_rev (r : bytes) (acc : bytes) : option bytes :=
  (* r = reversed file name part; returns reversed stem if a '.' is found (not leading) *)
  match r with
  | [] => None
  | c :: r' =>
    if Ascii.eqb c "."%char then (match r' with [] => None | _ => Some r' end)
    else if Ascii.eqb c "/"%char then None
    else drop_ext_rev r' (c :: acc)
  end.
Definition with_extension (src ext : bytes) : bytes :=
  let stem := match drop_ext_rev (rev src) [] with
              | Some r => if match r with "/"%char :: _ => true | _ => false end then src else rev r
              | None => src end in
  stem ++ "."%char :: ext.

Section Out.
  Variable fmt : Type.
  Variable value : Type.
  Variable ext_of : fmt -> option bytes.                 (* None: no such converter *)
  Variable convert_bytes : fmt -> value -> option bytes. (* None: conversion error *)

  (* [atomic = false]: File::create before converting (the code as first found);
     [atomic = true]: convert into a buffer, create and write only on success *)
  Definition out_step (atomic : bool) (st : ostate) (src : path) (f : fmt) (v : value) : ostate * ores :=
    if locked st src then (st, OErr OneOutputPerFile)
    else
      let st1 := {| files := files st; locks := src :: locks st |} in
      match ext_of f with
      | None => (st1, OErr NoSuchConverter)
      | Some ext =>
        let p := with_extension src ext in
        match convert_bytes f v with
        | Some bs => ({| files := fs_set (files st1) p bs; locks := locks st1 |}, OOk)
        | None =>
          if atomic then (st1, OErr ConvertFailed)
          else ({| files := fs_set (files st1) p []; locks := locks st1 |}, OErr ConvertFailed)
        end
      end.

  (* a file's out statements run in order; the first error ends the build *)
  Fixpoint build_outs (atomic : bool) (st : ostate) (src : path) (outs : list (fmt * value)) : ostate * ores :=
    match outs with
    | [] => (st, OOk)
    | (f, v) :: rest =>
      match out_step atomic st src f v with
      | (st', OOk) => build_outs atomic st' src rest
      | (st', OErr e) => (st', OErr e)
      end
    end.

  (* the `convert` expression: same converter, into a buffer *)
  Definition convert_expr (f : fmt) (v : value) : option bytes :=
    match ext_of f with None => None | Some _ => convert_bytes f v end.
End Out.
