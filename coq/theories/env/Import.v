(* MODEL of how ucg imports files and evaluates one file.

   Code modelled
     /repo/src/build/opcode/runtime.rs   Builtins::import (the import hook),
                                         Builtins::out    (the out hook)
     /repo/src/build/opcode/environment.rs  Environment {val_cache, op_cache,
                                         shape_cache, out_lock}, get_ops_for_path
     /repo/src/build/opcode/cache.rs     Ops / Entry::get_pointer_or_else
     /repo/src/ast/typecheck/mod.rs      Checker::resolve_import (static phase)
     /repo/src/build/mod.rs              FileBuilder::build / link_ops / eval_ops

   Abstraction.  Evaluation is abstract: a file is described by the list of
   the paths it imports (in evaluation order; the absolute spellings the
   rewriter produces, i.e. directory-of-the-file joined with the literal:
   NOT necessarily normalised, the import hook normalises them), the number
   of its [out] statements, and whether its own evaluation fails.  The order
   inside a file is fixed: imports, then outs, then the failure.  The VALUE
   of a file is the tree [Val path (values of its imports)], a deterministic
   function of the file and the values it imports.

   Executable definitions only; proofs are in Import_Lemmas.v. *)
From Ucg Require Import base.Bytes path.Path.

Definition path := bytes.

Record file := mkFile {
  imports : list path;   (* absolute spellings, evaluation order *)
  outs : nat;            (* number of [out] statements *)
  fails : bool           (* own evaluation fails after imports and outs *)
}.

(* a project: association list, first binding wins; keys are normalised
   absolute paths (a key that is not normalised can never be found) *)
Definition project := list (path * file).

Fixpoint lookup (proj : project) (p : path) : option file :=
  match proj with
  | [] => None
  | (k, f) :: proj' => if bytes_eqb k p then Some f else lookup proj' p
  end.

Inductive val : Type := Val (p : path) (vs : list val).

Inductive error : Type :=
| Cycle        (* "Import cycle detected" (runtime hook or static phase) *)
| Missing      (* file cannot be opened *)
| Fail         (* the file's own evaluation fails *)
| OutLock      (* "You can only have one output per file" *)
| OutOfFuel.   (* model artefact; excluded by import_terminates *)

Inductive result (A : Type) : Type :=
| Ok (a : A)
| Err (e : error).
Arguments Ok {A} a.
Arguments Err {A} e.

Definition is_ok {A} (r : result A) : bool :=
  match r with Ok _ => true | Err _ => false end.

(* ---------- keys.
   val_cache is a BTreeMap<Rc<str>, _> keyed by the normalised text.
   op_cache and out_lock are keyed by PathBuf, whose Eq/Ord compare the
   [components()] of the path: "/x/./a" and "/x//a" are the same key as
   "/x/a", but "/x/d/../a" is not. *)

Definition comp_eqb (x y : comp) : bool :=
  match x, y with
  | Root, Root => true
  | Cur, Cur => true
  | Parent, Parent => true
  | Normal n, Normal m => bytes_eqb n m
  | _, _ => false
  end.

Definition lkey := list comp.

Fixpoint lkey_eqb (x y : lkey) : bool :=
  match x, y with
  | [], [] => true
  | c :: x', d :: y' => comp_eqb c d && lkey_eqb x' y'
  | _, _ => false
  end.

Definition lock_key (p : path) : lkey := components p.

Definition mem_path (p : path) (l : list path) : bool := existsb (bytes_eqb p) l.
Definition mem_key (k : lkey) (l : list lkey) : bool := existsb (lkey_eqb k) l.

Fixpoint find_val (p : path) (c : list (path * val)) : option val :=
  match c with
  | [] => None
  | (k, v) :: c' => if bytes_eqb k p then Some v else find_val p c'
  end.

(* ---------- the Environment shared by everything in one invocation *)

Record state := mkState {
  val_cache : list (path * val);   (* Environment::val_cache *)
  shape_cache : list path;         (* Environment::shape_cache (domain) *)
  op_cache : list lkey;            (* Environment::op_cache (domain) *)
  out_lock : list lkey;            (* Environment::out_lock *)
  evaluations : list path;         (* history: every start of a VM run of a file *)
  artifacts : list (path * val)    (* history of artifact writes, oldest first;
                                      keyed by the normalised source path *)
}.

Definition empty_state : state := mkState [] [] [] [] [] [].

Definition set_val_cache c st :=
  mkState c (shape_cache st) (op_cache st) (out_lock st) (evaluations st) (artifacts st).
Definition set_shape_cache c st :=
  mkState (val_cache st) c (op_cache st) (out_lock st) (evaluations st) (artifacts st).
Definition set_op_cache c st :=
  mkState (val_cache st) (shape_cache st) c (out_lock st) (evaluations st) (artifacts st).

Definition cache_val (n : path) (v : val) (st : state) : state :=
  set_val_cache ((n, v) :: val_cache st) st.

(* get_ops_for_path: parse once per key *)
Definition record_parse (k : lkey) (st : state) : state :=
  if mem_key k (op_cache st) then st else set_op_cache (k :: op_cache st) st.

Definition record_parses (ks : list lkey) (st : state) : state :=
  fold_right record_parse st ks.

Definition record_eval (n : path) (st : state) : state :=
  mkState (val_cache st) (shape_cache st) (op_cache st) (out_lock st)
          (evaluations st ++ [n]) (artifacts st).

(* one successful [out]: take the lock, write the artifact *)
Definition do_out (k : lkey) (a : path * val) (st : state) : state :=
  mkState (val_cache st) (shape_cache st) (op_cache st) (k :: out_lock st)
          (evaluations st) (artifacts st ++ [a]).

(* When is "one output per file" counted?
   LockPerInvocation: the lock, once taken, stays for the whole invocation
     (the code before commit 0c43338).
   LockPerEvaluation: the lock of a file is reset when an evaluation of that
     file starts (FileBuilder::eval_ops and the import hook call
     reset_out_lock_for_path just before the VM runs): the CURRENT code. *)
Inductive lock_mode : Type := LockPerInvocation | LockPerEvaluation.
Definition current_mode : lock_mode := LockPerEvaluation.

Definition reset_lock (m : lock_mode) (k : lkey) (st : state) : state :=
  match m with
  | LockPerInvocation => st
  | LockPerEvaluation =>
      mkState (val_cache st) (shape_cache st) (op_cache st)
              (filter (fun k' => negb (lkey_eqb k k')) (out_lock st))
              (evaluations st) (artifacts st)
  end.

(* the [out] statements of one file, run in sequence *)
Fixpoint run_outs (k : lkey) (a : path * val) (n : nat) (st : state)
  : state * result unit :=
  match n with
  | O => (st, Ok tt)
  | S n' =>
      if mem_key k (out_lock st) then (st, Err OutLock)
      else run_outs k a n' (do_out k a st)
  end.

(* ---------- runtime: the VM run of one file, given the import hook [imp] *)

(* the import expressions of a file in order; [imp] returns the new
   environment, the new import stack of the CURRENT VM and the value *)
Fixpoint run_imports
         (imp : list path -> state -> path -> state * list path * result val)
         (ps : list path) (stack : list path) (st : state)
  : state * list path * result (list val) :=
  match ps with
  | [] => (st, stack, Ok [])
  | p :: ps' =>
      let '(st1, stack1, r) := imp stack st p in
      match r with
      | Err e => (st1, stack1, Err e)
      | Ok v =>
          let '(st2, stack2, r2) := run_imports imp ps' stack1 st1 in
          match r2 with
          | Err e => (st2, stack2, Err e)
          | Ok vs => (st2, stack2, Ok (v :: vs))
          end
      end
  end.

(* VM::run of the file [n] (normalised) whose ops pointer carries the path
   with key [k]; [stack] is the VM's initial import stack.  In the current
   code the out lock of [k] is reset just before the run. *)
Definition eval_body (m : lock_mode)
           (imp : list path -> state -> path -> state * list path * result val)
           (stack : list path) (st : state) (n : path) (k : lkey) (f : file)
  : state * result val :=
  let st0 := record_eval n (reset_lock m k st) in
  let '(st1, _, r) := run_imports imp (imports f) stack st0 in
  match r with
  | Err e => (st1, Err e)
  | Ok vs =>
      let v := Val n vs in
      let '(st2, r2) := run_outs k (n, v) (outs f) st1 in
      match r2 with
      | Err e => (st2, Err e)
      | Ok _ => if fails f then (st2, Err Fail) else (st2, Ok v)
      end
  end.

(* Builtins::import.  [p] is the raw spelling on the VM stack.
   Order of the checks as in the code: normalise; value cache; cycle check
   against the import stack; fetch ops (Missing); nested VM with stack =
   current stack + this path; store value; push path on the current stack. *)
Fixpoint import (m : lock_mode) (fuel : nat) (proj : project) (stack : list path) (st : state)
         (p : path) : state * list path * result val :=
  let n := normalize p in
  match find_val n (val_cache st) with
  | Some v => (st, stack, Ok v)
  | None =>
      if mem_path n stack then (st, stack, Err Cycle)
      else match lookup proj n with
           | None => (st, stack, Err Missing)
           | Some f =>
               match fuel with
               | O => (st, stack, Err OutOfFuel)
               | S fuel' =>
                   let st1 := record_parse (lock_key n) st in
                   let '(st2, r) :=
                     eval_body m (import m fuel' proj) (stack ++ [n]) st1 n (lock_key n) f in
                   match r with
                   | Err e => (st2, stack, Err e)
                   | Ok v => (cache_val n v st2, stack ++ [n], Ok v)
                   end
               end
           end
  end.

(* FileBuilder::build without the static phase: fetch the ops of the root
   under its RAW spelling [r] (absolute: main.rs joins the current directory
   and the command-line argument, without normalising), run them with the
   import stack [normalize r].  The root's value is NOT stored in val_cache
   and the root is NOT looked up there. *)
Definition eval_file (m : lock_mode) (fuel : nat) (proj : project) (st : state) (r : path)
  : state * result val :=
  let n := normalize r in
  match lookup proj n with
  | None => (st, Err Missing)
  | Some f =>
      let st1 := record_parse (lock_key r) st in
      eval_body m (import m fuel proj) [n] st1 n (lock_key r) f
  end.

(* ---------- static phase (get_ops_for_path type-checks the file) *)

Inductive sres : Type := SOk | SCycle | SFuel.

Definition sres_and (a b : sres) : sres :=
  match a, b with
  | SOk, x => x
  | SCycle, SFuel => SFuel
  | SCycle, _ => SCycle
  | SFuel, _ => SFuel
  end.

(* the checker walks every import of a file even after an error *)
Fixpoint scheck_list (chk : list path -> path -> list path * sres)
         (ps : list path) (sc : list path) : list path * sres :=
  match ps with
  | [] => (sc, SOk)
  | p :: ps' =>
      let '(sc1, r1) := chk sc p in
      let '(sc2, r2) := scheck_list chk ps' sc1 in
      (sc2, sres_and r1 r2)
  end.

(* Checker::resolve_import: normalise; shape cache; cycle check against the
   checker's own import stack; unreadable file = unresolved (no error, not
   cached); check the file with stack + path; cache successes only *)
Fixpoint scheck (fuel : nat) (proj : project) (sstack : list path)
         (sc : list path) (p : path) : list path * sres :=
  let n := normalize p in
  if mem_path n sc then (sc, SOk)
  else if mem_path n sstack then (sc, SCycle)
  else match lookup proj n with
       | None => (sc, SOk)
       | Some f =>
           match fuel with
           | O => (sc, SFuel)
           | S fuel' =>
               let '(sc1, r) :=
                 scheck_list (scheck fuel' proj (sstack ++ [n])) (imports f) sc in
               match r with
               | SOk => (n :: sc1, SOk)
               | _ => (sc1, r)
               end
           end
       end.

(* type check of the file being built: its own path is NOT on the checker's
   stack and it is not entered into the shape cache *)
Definition scheck_root (fuel : nat) (proj : project) (sc : list path) (f : file)
  : list path * sres :=
  scheck_list (scheck fuel proj []) (imports f) sc.

(* link_ops: the ops of every file statically reachable from the root are
   fetched (so each must be readable) before the VM starts; the loop keeps a
   local [found] set.  The code pops a work list (LIFO), the model walks
   depth first; both visit exactly the reachable files, so they agree on
   success and on the final [found] set (they may name different missing
   files first, which the model does not distinguish).  The code keys
   [found] by the raw link text, the model by the normalised path. *)
Fixpoint lwalk_list (walk : list path -> path -> list path * result unit)
         (ps : list path) (found : list path) : list path * result unit :=
  match ps with
  | [] => (found, Ok tt)
  | q :: ps' =>
      let '(found1, r) := walk found q in
      match r with
      | Ok _ => lwalk_list walk ps' found1
      | Err e => (found1, Err e)
      end
  end.

Fixpoint lwalk (fuel : nat) (proj : project) (found : list path) (p : path)
  : list path * result unit :=
  let n := normalize p in
  if mem_path n found then (found, Ok tt)
  else match lookup proj n with
       | None => (found, Err Missing)
       | Some f =>
           match fuel with
           | O => (found, Err OutOfFuel)
           | S fuel' => lwalk_list (lwalk fuel' proj) (imports f) (n :: found)
           end
       end.

Definition link_ops (fuel : nat) (proj : project) (f : file) : list path * result unit :=
  lwalk_list (lwalk fuel proj) (imports f) [].

(* FileBuilder::build as driven by main.rs: ops of the root (parse, static
   phase), link_ops, then the VM run *)
Definition build_file (m : lock_mode) (fuel : nat) (proj : project) (st : state) (r : path)
  : state * result val :=
  let n := normalize r in
  match lookup proj n with
  | None => (st, Err Missing)
  | Some f =>
      let '(sc, sr) := scheck_root fuel proj (shape_cache st) f in
      let st1 := set_shape_cache sc st in
      match sr with
      | SCycle => (st1, Err Cycle)
      | SFuel => (st1, Err OutOfFuel)
      | SOk =>
          let '(found, lr) := link_ops fuel proj f in
          let st2 := record_parses (map lock_key found) st1 in
          match lr with
          | Err e => (st2, Err e)
          | Ok _ => eval_file m fuel proj st2 r
          end
      end
  end.

Definition default_fuel (proj : project) : nat := S (List.length proj).

(* ---------- observations *)

Fixpoint count_path (p : path) (l : list path) : nat :=
  match l with
  | [] => O
  | q :: l' => (if bytes_eqb q p then 1 else 0) + count_path p l'
  end.

(* the artifact store after a history of writes: last write wins *)
Fixpoint last_write (p : path) (a : list (path * val)) : option val :=
  match a with
  | [] => None
  | (k, v) :: a' => match last_write p a' with
                    | Some w => Some w
                    | None => if bytes_eqb k p then Some v else None
                    end
  end.

(* the isolated value of a file: a function of the project only *)
Fixpoint map_opt {A B} (g : A -> option B) (l : list A) : option (list B) :=
  match l with
  | [] => Some []
  | x :: l' => match g x, map_opt g l' with
               | Some y, Some ys => Some (y :: ys)
               | _, _ => None
               end
  end.

Fixpoint value_of (fuel : nat) (proj : project) (p : path) : option val :=
  match fuel with
  | O => None
  | S fuel' =>
      let n := normalize p in
      match lookup proj n with
      | None => None
      | Some f =>
          match map_opt (value_of fuel' proj) (imports f) with
          | Some vs => Some (Val n vs)
          | None => None
          end
      end
  end.
