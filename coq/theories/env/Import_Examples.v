(* Projects that were run through the real binary
   (/verif/.cache/target/debug/ucg build ... in a scratch directory); the
   observed behaviour is quoted next to each Example.
   Part 1 (run1/run2, LockPerInvocation): observed on the binary built
   BEFORE commit 0c43338.  Part 2 (cur1/cur2, LockPerEvaluation): observed on
   the binary built from 0c43338 (the current code). *)
From Ucg Require Import base.Bytes path.Path env.Import env.Batch.
Open Scope string_scope.

Definition F imps o fl := mkFile (map b imps) o fl.
Definition statuses (x : state * list (path * result val)) :=
  map (fun y => match snd y with Ok _ => None | Err e => Some e end) (snd x).
Definition arts (x : state * list (path * result val)) := map fst (artifacts (fst x)).
Definition evals (x : state * list (path * result val)) := evaluations (fst x).

(* x1:  lib.ucg  = let v = TRACE 1; out json {v = v};
        main.ucg = let l = import "./lib.ucg"; out json {x = l.v};
        m2.ucg   = let l = import "lib.ucg"; out json {y = l.v};
        fl.ucg   = out json {y = 1}; let z = 1 / 0;
        m3.ucg / m4.ucg = let l = import "fl.ucg"; out json {..};
        cyc_a.ucg = import lib.ucg; import cyc_b.ucg   cyc_b.ucg = import cyc_a.ucg
        m5.ucg   = import lib.ucg; import nothere.ucg *)
Definition x1 : project :=
  [ (b "/x/lib.ucg",  F [] 1 false);
    (b "/x/main.ucg", F ["/x/./lib.ucg"] 1 false);
    (b "/x/m2.ucg",   F ["/x/lib.ucg"] 1 false);
    (b "/x/fl.ucg",   F [] 1 true);
    (b "/x/m3.ucg",   F ["/x/fl.ucg"] 1 false);
    (b "/x/m4.ucg",   F ["/x/fl.ucg"] 1 false);
    (b "/x/cyc_a.ucg", F ["/x/lib.ucg"; "/x/cyc_b.ucg"] 0 false);
    (b "/x/cyc_b.ucg", F ["/x/cyc_a.ucg"] 0 false);
    (b "/x/m5.ucg",   F ["/x/lib.ucg"; "/x/nothere.ucg"] 0 false) ].
Definition run1 files := batch LockPerInvocation (default_fuel x1) x1 empty_state (map b files).
Definition cur1 files := batch LockPerEvaluation (default_fuel x1) x1 empty_state (map b files).

(* ucg build lib.ucg: ok, lib.json *)
Example x1_lib : statuses (run1 ["/x/lib.ucg"]) = [None]
  /\ arts (run1 ["/x/lib.ucg"]) = [b "/x/lib.ucg"].
Proof. vm_compute. auto. Qed.
(* ucg build main.ucg: ok, lib.json and main.json, lib evaluated once *)
Example x1_main : statuses (run1 ["/x/main.ucg"]) = [None]
  /\ arts (run1 ["/x/main.ucg"]) = [b "/x/lib.ucg"; b "/x/main.ucg"]
  /\ evals (run1 ["/x/main.ucg"]) = [b "/x/main.ucg"; b "/x/lib.ucg"].
Proof. vm_compute. auto. Qed.
(* ucg build lib.ucg main.ucg: exit 1; main: "You can only have one output
   per file at /x/lib.ucg"; lib.json only; lib TRACEd twice *)
Example x1_lib_main : statuses (run1 ["/x/lib.ucg"; "/x/main.ucg"]) = [None; Some OutLock]
  /\ arts (run1 ["/x/lib.ucg"; "/x/main.ucg"]) = [b "/x/lib.ucg"]
  /\ count_path (b "/x/lib.ucg") (evals (run1 ["/x/lib.ucg"; "/x/main.ucg"])) = 2
  /\ exit_status (snd (run1 ["/x/lib.ucg"; "/x/main.ucg"])) = 1.
Proof. vm_compute. auto. Qed.
(* ucg build main.ucg lib.ucg: exit 1; lib fails with the same message;
   lib.json main.json *)
Example x1_main_lib : statuses (run1 ["/x/main.ucg"; "/x/lib.ucg"]) = [None; Some OutLock]
  /\ arts (run1 ["/x/main.ucg"; "/x/lib.ucg"]) = [b "/x/lib.ucg"; b "/x/main.ucg"].
Proof. vm_compute. auto. Qed.
(* ucg build sub/../lib.ucg main.ucg: exit 0 (the lock is keyed by the
   spelling's components), lib.json main.json *)
Example x1_dotdot : statuses (run1 ["/x/sub/../lib.ucg"; "/x/main.ucg"]) = [None; None]
  /\ arts (run1 ["/x/sub/../lib.ucg"; "/x/main.ucg"]) = [b "/x/lib.ucg"; b "/x/lib.ucg"; b "/x/main.ucg"].
Proof. vm_compute. auto. Qed.
(* ucg build ./lib.ucg main.ucg: exit 1 as lib.ucg main.ucg *)
Example x1_dot : statuses (run1 ["/x/./lib.ucg"; "/x/main.ucg"]) = [None; Some OutLock].
Proof. vm_compute. auto. Qed.
(* ucg build lib.ucg lib.ucg: exit 1, second fails *)
Example x1_lib_lib : statuses (run1 ["/x/lib.ucg"; "/x/lib.ucg"]) = [None; Some OutLock].
Proof. vm_compute. auto. Qed.
(* ucg build lib.ucg sub/../lib.ucg: exit 0 *)
Example x1_lib_lib' : statuses (run1 ["/x/lib.ucg"; "/x/sub/../lib.ucg"]) = [None; None].
Proof. vm_compute. auto. Qed.
(* ucg build main.ucg m2.ucg: exit 0; lib TRACEd once; lib.json m2.json main.json *)
Example x1_main_m2 : statuses (run1 ["/x/main.ucg"; "/x/m2.ucg"]) = [None; None]
  /\ count_path (b "/x/lib.ucg") (evals (run1 ["/x/main.ucg"; "/x/m2.ucg"])) = 1
  /\ arts (run1 ["/x/main.ucg"; "/x/m2.ucg"]) = [b "/x/lib.ucg"; b "/x/main.ucg"; b "/x/m2.ucg"].
Proof. vm_compute. auto. Qed.
(* ucg build main.ucg lib.ucg m2.ucg: exit 1; only lib fails *)
Example x1_main_lib_m2 : statuses (run1 ["/x/main.ucg"; "/x/lib.ucg"; "/x/m2.ucg"]) = [None; Some OutLock; None].
Proof. vm_compute. auto. Qed.
(* ucg build m3.ucg: Division by zero (in fl.ucg), fl.json written *)
Example x1_m3 : statuses (run1 ["/x/m3.ucg"]) = [Some Fail] /\ arts (run1 ["/x/m3.ucg"]) = [b "/x/fl.ucg"].
Proof. vm_compute. auto. Qed.
(* ucg build m3.ucg m4.ucg: m3 Division by zero, m4 "only one output per file" (fl.ucg) *)
Example x1_m3_m4 : statuses (run1 ["/x/m3.ucg"; "/x/m4.ucg"]) = [Some Fail; Some OutLock].
Proof. vm_compute. auto. Qed.
(* ucg build cyc_a.ucg: "Type error ... Import cycle detected", lib NOT evaluated, no artifact *)
Example x1_cyc : statuses (run1 ["/x/cyc_a.ucg"]) = [Some Cycle] /\ evals (run1 ["/x/cyc_a.ucg"]) = []
  /\ arts (run1 ["/x/cyc_a.ucg"]) = [].
Proof. vm_compute. auto. Qed.
(* ... whereas the VM level alone would have evaluated lib first *)
Example x1_cyc_vm : statuses (batch_eval LockPerInvocation (default_fuel x1) x1 empty_state [b "/x/cyc_a.ucg"]) = [Some Cycle]
  /\ arts (batch_eval LockPerInvocation (default_fuel x1) x1 empty_state [b "/x/cyc_a.ucg"]) = [b "/x/lib.ucg"].
Proof. vm_compute. auto. Qed.
(* ucg build m5.ucg: "OSError: Path not found", lib not evaluated *)
Example x1_m5 : statuses (run1 ["/x/m5.ucg"]) = [Some Missing] /\ evals (run1 ["/x/m5.ucg"]) = [].
Proof. vm_compute. auto. Qed.

(* x2: lib.ucg = let v = TRACE 1;
       a.ucg = import "./lib.ucg"; import "d/../lib.ucg"; out
       b.ucg = import "lib.ucg"; out
       main.ucg = import "a.ucg"; import "./d/../b.ucg"; import "./a.ucg"; out
       c1.ucg = import "c2.ucg"   c2.ucg = import "./d/../c1.ucg"   self.ucg = import "self.ucg"
       bad.ucg = 1/0   usebad.ucg = import lib; import bad; out   two.ucg = out; out *)
Definition x2 : project :=
  [ (b "/y/lib.ucg", F [] 0 false);
    (b "/y/a.ucg", F ["/y/./lib.ucg"; "/y/d/../lib.ucg"] 1 false);
    (b "/y/b.ucg", F ["/y/lib.ucg"] 1 false);
    (b "/y/main.ucg", F ["/y/a.ucg"; "/y/./d/../b.ucg"; "/y/./a.ucg"] 1 false);
    (b "/y/c1.ucg", F ["/y/c2.ucg"] 0 false);
    (b "/y/c2.ucg", F ["/y/./d/../c1.ucg"] 0 false);
    (b "/y/self.ucg", F ["/y/self.ucg"] 0 false);
    (b "/y/bad.ucg", F [] 0 true);
    (b "/y/usebad.ucg", F ["/y/lib.ucg"; "/y/bad.ucg"] 1 false);
    (b "/y/two.ucg", F [] 2 false);
    (b "/y/two_i.ucg", F ["/y/two.ucg"] 1 false) ].
Definition run2 files := batch LockPerInvocation (default_fuel x2) x2 empty_state (map b files).
Definition cur2 files := batch LockPerEvaluation (default_fuel x2) x2 empty_state (map b files).

(* ucg build main.ucg: exit 0, lib TRACEd once, a.json b.json main.json *)
Example x2_main : statuses (run2 ["/y/main.ucg"]) = [None]
  /\ evals (run2 ["/y/main.ucg"]) = [b "/y/main.ucg"; b "/y/a.ucg"; b "/y/lib.ucg"; b "/y/b.ucg"]
  /\ arts (run2 ["/y/main.ucg"]) = [b "/y/a.ucg"; b "/y/b.ucg"; b "/y/main.ucg"].
Proof. vm_compute. auto. Qed.
(* ucg build a.ucg b.ucg main.ucg: exit 1, main fails (a.ucg's out), lib TRACEd once *)
Example x2_a_b_main : statuses (run2 ["/y/a.ucg"; "/y/b.ucg"; "/y/main.ucg"]) = [None; None; Some OutLock]
  /\ count_path (b "/y/lib.ucg") (evals (run2 ["/y/a.ucg"; "/y/b.ucg"; "/y/main.ucg"])) = 1.
Proof. vm_compute. auto. Qed.
(* ucg build main.ucg a.ucg: exit 1, a fails *)
Example x2_main_a : statuses (run2 ["/y/main.ucg"; "/y/a.ucg"]) = [None; Some OutLock].
Proof. vm_compute. auto. Qed.
(* c1 / self: import cycle; bad: fails; usebad: fails, lib evaluated; two: OutLock alone, two.json written once *)
Example x2_misc : statuses (run2 ["/y/c1.ucg"]) = [Some Cycle] /\ statuses (run2 ["/y/self.ucg"]) = [Some Cycle]
  /\ statuses (run2 ["/y/bad.ucg"]) = [Some Fail]
  /\ statuses (run2 ["/y/usebad.ucg"]) = [Some Fail] /\ evals (run2 ["/y/usebad.ucg"]) = [b "/y/usebad.ucg"; b "/y/lib.ucg"; b "/y/bad.ucg"]
  /\ statuses (run2 ["/y/two.ucg"]) = [Some OutLock] /\ arts (run2 ["/y/two.ucg"]) = [b "/y/two.ucg"]
  /\ statuses (run2 ["/y/bad.ucg"; "/y/b.ucg"]) = [Some Fail; None]
  /\ statuses (run2 ["/y/c1.ucg"; "/y/b.ucg"; "/y/c2.ucg"]) = [Some Cycle; None; Some Cycle].
Proof. vm_compute. repeat split; reflexivity. Qed.

(* ---------- the computed defect class on the validated runs *)
Definition known1 files := map (known_c16b (default_fuel x1) x1 (map b files)) (map b files).

(* lib.ucg main.ucg / main.ucg lib.ucg: both files are in the class (the
   second one is the one that fails) *)
Example k1_lib_main : known1 ["/x/lib.ucg"; "/x/main.ucg"] = [true; true]. Proof. vm_compute. reflexivity. Qed.
(* main.ucg m2.ucg (both import lib, lib not built): nobody in the class, exit 0 *)
Example k1_main_m2 : known1 ["/x/main.ucg"; "/x/m2.ucg"] = [false; false]. Proof. vm_compute. reflexivity. Qed.
(* main.ucg lib.ucg m2.ucg: all three in the class; really only lib fails
   (m2 finds lib in the value cache): Known_C16 over-approximates *)
Example k1_main_lib_m2 : known1 ["/x/main.ucg"; "/x/lib.ucg"; "/x/m2.ucg"] = [true; true; true]. Proof. vm_compute. reflexivity. Qed.
(* lib.ucg lib.ucg: built twice *)
Example k1_lib_lib : known1 ["/x/lib.ucg"; "/x/lib.ucg"] = [true; true]. Proof. vm_compute. reflexivity. Qed.
(* x2: a.ucg b.ucg main.ucg: all in the class (a and b have an out, are built and are
   imported by main); really only main, which comes last, fails *)
Example k2_a_b_main :
  map (known_c16b (default_fuel x2) x2 (map b ["/y/a.ucg"; "/y/b.ucg"; "/y/main.ucg"]))
      (map b ["/y/a.ucg"; "/y/b.ucg"; "/y/main.ucg"]) = [true; true; true].
Proof. vm_compute. reflexivity. Qed.

(* ================================================================== *)
(* Part 2: the CURRENT code (binary of commit 0c43338)                 *)

(* ucg build lib.ucg main.ucg: exit 0, lib TRACEd twice, lib.json main.json *)
Example c1_lib_main : statuses (cur1 ["/x/lib.ucg"; "/x/main.ucg"]) = [None; None]
  /\ count_path (b "/x/lib.ucg") (evals (cur1 ["/x/lib.ucg"; "/x/main.ucg"])) = 2
  /\ arts (cur1 ["/x/lib.ucg"; "/x/main.ucg"]) = [b "/x/lib.ucg"; b "/x/lib.ucg"; b "/x/main.ucg"]
  /\ exit_status (snd (cur1 ["/x/lib.ucg"; "/x/main.ucg"])) = 0.
Proof. vm_compute. repeat split; reflexivity. Qed.
(* ucg build main.ucg lib.ucg: exit 0, TRACE twice *)
Example c1_main_lib : statuses (cur1 ["/x/main.ucg"; "/x/lib.ucg"]) = [None; None]
  /\ count_path (b "/x/lib.ucg") (evals (cur1 ["/x/main.ucg"; "/x/lib.ucg"])) = 2.
Proof. vm_compute. split; reflexivity. Qed.
(* ucg build lib.ucg lib.ucg: exit 0, TRACE twice *)
Example c1_lib_lib : statuses (cur1 ["/x/lib.ucg"; "/x/lib.ucg"]) = [None; None]
  /\ count_path (b "/x/lib.ucg") (evals (cur1 ["/x/lib.ucg"; "/x/lib.ucg"])) = 2.
Proof. vm_compute. split; reflexivity. Qed.
(* ucg build main.ucg lib.ucg m2.ucg: exit 0, TRACE twice (m2 is served from the cache) *)
Example c1_main_lib_m2 : statuses (cur1 ["/x/main.ucg"; "/x/lib.ucg"; "/x/m2.ucg"]) = [None; None; None]
  /\ count_path (b "/x/lib.ucg") (evals (cur1 ["/x/main.ucg"; "/x/lib.ucg"; "/x/m2.ucg"])) = 2.
Proof. vm_compute. split; reflexivity. Qed.
(* ucg build m3.ucg m4.ucg: both "Division by zero" (in fl.ucg), fl.json *)
Example c1_m3_m4 : statuses (cur1 ["/x/m3.ucg"; "/x/m4.ucg"]) = [Some Fail; Some Fail].
Proof. vm_compute. reflexivity. Qed.
(* ucg build sub/../lib.ucg main.ucg: exit 0 *)
Example c1_dotdot : statuses (cur1 ["/x/sub/../lib.ucg"; "/x/main.ucg"]) = [None; None].
Proof. vm_compute. reflexivity. Qed.
(* cyc_a / m5: unchanged (static phase / link_ops, nothing evaluated) *)
Example c1_cyc_m5 : statuses (cur1 ["/x/cyc_a.ucg"; "/x/m5.ucg"]) = [Some Cycle; Some Missing]
  /\ evals (cur1 ["/x/cyc_a.ucg"; "/x/m5.ucg"]) = [].
Proof. vm_compute. split; reflexivity. Qed.
(* x2.  two.ucg: still "only one output per file", two.json written once;
   two_i.ucg (imports two.ucg): fails the same way; two.ucg two_i.ucg: both fail *)
Example c2_two : statuses (cur2 ["/y/two.ucg"]) = [Some OutLock] /\ arts (cur2 ["/y/two.ucg"]) = [b "/y/two.ucg"]
  /\ statuses (cur2 ["/y/two_i.ucg"]) = [Some OutLock]
  /\ statuses (cur2 ["/y/two.ucg"; "/y/two_i.ucg"]) = [Some OutLock; Some OutLock].
Proof. vm_compute. repeat split; reflexivity. Qed.
(* ucg build a.ucg b.ucg main.ucg: exit 0, lib TRACEd once; main.ucg a.ucg: exit 0; main.ucg: exit 0 *)
Example c2_a_b_main : statuses (cur2 ["/y/a.ucg"; "/y/b.ucg"; "/y/main.ucg"]) = [None; None; None]
  /\ count_path (b "/y/lib.ucg") (evals (cur2 ["/y/a.ucg"; "/y/b.ucg"; "/y/main.ucg"])) = 1
  /\ statuses (cur2 ["/y/main.ucg"; "/y/a.ucg"]) = [None; None]
  /\ statuses (cur2 ["/y/main.ucg"]) = [None]
  /\ count_path (b "/y/lib.ucg") (evals (cur2 ["/y/main.ucg"])) = 1.
Proof. vm_compute. repeat split; reflexivity. Qed.
(* ucg build c1.ucg b.ucg c2.ucg: cycle, ok, cycle;  usebad.ucg: fails (bad.ucg) after lib was evaluated;
   lib.ucg b.ucg lib.ucg: exit 0, lib TRACEd three times *)
Example c2_misc : statuses (cur2 ["/y/c1.ucg"; "/y/b.ucg"; "/y/c2.ucg"]) = [Some Cycle; None; Some Cycle]
  /\ statuses (cur2 ["/y/usebad.ucg"]) = [Some Fail]
  /\ evals (cur2 ["/y/usebad.ucg"]) = [b "/y/usebad.ucg"; b "/y/lib.ucg"; b "/y/bad.ucg"]
  /\ statuses (cur2 ["/y/lib.ucg"; "/y/b.ucg"; "/y/lib.ucg"]) = [None; None; None]
  /\ count_path (b "/y/lib.ucg") (evals (cur2 ["/y/lib.ucg"; "/y/b.ucg"; "/y/lib.ucg"])) = 3.
Proof. vm_compute. repeat split; reflexivity. Qed.
