(* Proofs about one invocation building several files (Batch.v).  Axiom-free. *)
From Coq Require Import Permutation.
From Ucg Require Import base.Bytes base.Bytes_Lemmas path.Path path.Path_Lemmas
     env.Import env.Import_Lemmas env.Import_Sim env.Batch.

(* ================================================================== *)
(* Specification vocabulary                                            *)

(* KNOWN DEFECT CLASS C16 (see batch_lock_refuted): building [r] in the
   invocation [files] needs an output lock that the same invocation takes a
   second time:
   (1) [r] imports (directly or not) a file with an [out] that is also built
       from the command line, or
   (2) [r] has an [out] and is also imported by a file built from the
       command line, or is given twice. *)
Definition Known_C16 (proj : project) (files : list path) (r : path) : Prop :=
  let n := normalize r in
  (exists x, reach1 proj n x /\ has_out proj x /\ In x (map normalize files)) \/
  (has_out proj n /\
   ((exists r', In r' files /\ reach1 proj (normalize r') n) \/
    2 <= count_path n (map normalize files))).

(* every cached file was imported by one of the files built so far *)
Definition cache_src (proj : project) (roots : list path) (st : state) : Prop :=
  forall y, In y (dom (val_cache st)) -> exists r', In r' roots /\ reach1 proj (normalize r') y.

(* the build of [r] at its place in the invocation [pre ++ r :: post] *)
Definition in_batch (md : lock_mode) (fuel : nat) (proj : project) (pre : list path) (r : path)
  : state * result val :=
  build_file md fuel proj (fst (batch md fuel proj empty_state pre)) r.

(* ================================================================== *)
(* Both lock modes at once ([md] is a section variable); where the mode
   matters a hypothesis [md = LockPerInvocation -> ...] appears.        *)
Section Mode.
Variable md : lock_mode.
Local Notation build_file := (Import.build_file md).
Local Notation batch := (Batch.batch md).
Local Notation alone := (Batch.alone md).
Local Notation in_batch := (in_batch md).
Local Notation repeat_invocation := (Batch.repeat_invocation md).

(* ================================================================== *)
(* Invariants of an invocation                                         *)

Lemma binv_roots proj roots roots' st :
  incl roots roots' -> binv proj roots st -> binv proj roots' st.
Proof.
  intros I [C [Sh [A L]]]. split; [exact C|split; [exact Sh|split; [exact A|]]].
  intros k Hk. eapply lock_clause_roots; [exact I|apply L, Hk].
Qed.

Lemma batch_inv proj fuel : forall files roots st st' l,
  batch fuel proj st files = (st', l) ->
  binv proj roots st -> cache_src proj roots st ->
  binv proj (rev files ++ roots) st' /\ cache_src proj (rev files ++ roots) st' /\
  incl (artifacts st) (artifacts st') /\ map fst l = files.
Proof.
  induction files as [|r rs IH]; intros roots st st' l H B CS; cbn in H.
  - inversion H; subst. cbn. split; [exact B|split; [exact CS|split; [apply incl_refl|reflexivity]]].
  - destruct (build_file fuel proj st r) as [st1 res] eqn:E1.
    destruct (batch fuel proj st1 rs) as [st2 l2] eqn:E2. inversion H; subst; clear H.
    destruct (build_file_inv _ _ _ _ _ _ _ _ E1 B) as [B1 [_ [M1 _]]].
    assert (CS1 : cache_src proj (r :: roots) st1).
    { intros y Hy. destruct (build_file_src _ _ _ _ _ _ _ E1 y Hy) as [Hy'|Hy'].
      - destruct (CS y Hy') as [r' [Hr' R]]. exists r'. split; [right; exact Hr'|exact R].
      - exists r. split; [left; reflexivity|exact Hy']. }
    destruct (IH _ _ _ _ E2 B1 CS1) as [B2 [CS2 [M2 F2]]].
    cbn [rev]. rewrite <- app_assoc. cbn [app].
    split; [exact B2|split; [exact CS2|split; [eapply incl_tran; eassumption|cbn; congruence]]].
Qed.

Lemma cache_src_empty proj roots : cache_src proj roots empty_state.
Proof. intros y []. Qed.

(* C16, positive part 1: every cached value in the Environment after any
   invocation is the isolated value of its path (sharing of imported values
   is unobservable), and so is every artifact ever written *)
Theorem caches_transparent : forall proj fuel files st l,
  batch fuel proj empty_state files = (st, l) ->
  (forall k v, In (k, v) (val_cache st) -> exists d, value_of d proj k = Some v) /\
  (forall k v, In (k, v) (artifacts st) -> exists d, value_of d proj k = Some v).
Proof.
  intros proj fuel files st l H.
  destruct (batch_inv _ _ _ _ _ _ _ H (binv_empty proj) (cache_src_empty proj [])) as [[C [_ [A _]]] _].
  split.
  - intros k v Hin. destruct (C k v Hin) as [_ [d [_ V]]]. eauto.
  - intros k v Hin. destruct (A k v Hin) as [_ [V _]]. exact V.
Qed.

(* two writes of the artifact of one source file, in any two invocations
   over the same project, have the same content *)
Theorem artifacts_deterministic : forall proj fuel1 fuel2 files1 files2 st1 l1 st2 l2 k v w,
  batch fuel1 proj empty_state files1 = (st1, l1) ->
  batch fuel2 proj empty_state files2 = (st2, l2) ->
  In (k, v) (artifacts st1) -> In (k, w) (artifacts st2) -> v = w.
Proof.
  intros proj fuel1 fuel2 files1 files2 st1 l1 st2 l2 k v w H1 H2 I1 I2.
  destruct (caches_transparent _ _ _ _ _ H1) as [_ A1].
  destruct (caches_transparent _ _ _ _ _ H2) as [_ A2].
  destruct (A1 _ _ I1) as [d1 V1]. destruct (A2 _ _ I2) as [d2 V2].
  eapply value_of_fun; eassumption.
Qed.

(* ================================================================== *)
(* C16: a file in a batch behaves as alone, outside the known class     *)

Lemma count_path_app p l1 l2 : count_path p (l1 ++ l2) = count_path p l1 + count_path p l2.
Proof. induction l1 as [|q l1 IH]; cbn; [reflexivity|]. rewrite IH. lia. Qed.

Lemma count_path_In p l : In p l -> 1 <= count_path p l.
Proof.
  induction l as [|q l IH]; intros []; cbn.
  - subst. rewrite bytes_eqb_refl. lia.
  - specialize (IH H). lia.
Qed.

Lemma reach1_reach proj a d : reach1 proj a d -> reach proj a d.
Proof. intros [c [E R]]. econstructor; eassumption. Qed.

Lemma lock_conditions proj roots st pre r post :
  binv proj roots st -> cache_src proj roots st -> incl roots pre ->
  (exists d, good d proj r = true) ->
  (md = LockPerInvocation -> ~ Known_C16 proj (pre ++ r :: post) r) ->
  (md = LockPerInvocation ->
   forall x fx, reach1 proj (normalize r) x -> lookup proj x = Some fx -> 1 <= outs fx ->
     ~ In x (dom (val_cache st)) -> ~ In (lock_key x) (out_lock st)) /\
  (md = LockPerInvocation ->
   forall f, lookup proj (normalize r) = Some f -> 1 <= outs f -> ~ In (lock_key r) (out_lock st)).
Proof.
  intros [C [_ [_ L]]] CS I [d G] NK0. set (n := normalize r) in *.
  assert (Hpre : forall r', In r' roots -> In (normalize r') (map normalize (pre ++ r :: post))).
  { intros r' Hr'. apply in_map, in_or_app. left. apply I, Hr'. }
  split.
  - intros Em x fx R Lx Ho Nx Hk. pose proof (NK0 Em) as NK.
    assert (Hx : x = normalize x)
      by (eapply reach_normal; [apply reach1_reach, R|apply normalize_normal]).
    apply L in Hk. destruct Hk as [[r' [Hr' E]]|[y [E [Hy|[Hy Hb]]]]].
    + apply NK. left. exists x. split; [exact R|]. split; [exists fx; auto|].
      apply lock_key_norm in E. rewrite <- Hx in E. rewrite E. apply Hpre, Hr'.
    + apply Nx. assert (x = y); [|subst; exact Hy].
      apply lock_key_inj; [exact Hx|eapply cache_ok_normal; eassumption|exact E].
    + assert (x = y) by (apply lock_key_inj; assumption). subst y.
      pose proof (good_reach _ _ _ _ G (reach1_reach _ _ _ R)) as Gx. rewrite Hb in Gx. discriminate.
  - intros Em f Lf Ho Hk. pose proof (NK0 Em) as NK.
    apply L in Hk. destruct Hk as [[r' [Hr' E]]|[y [E [Hy|[Hy Hb]]]]].
    + apply NK. right. split; [exists f; auto|]. right.
      apply lock_key_norm in E. fold n in E.
      rewrite map_app, count_path_app. cbn. fold n. rewrite bytes_eqb_refl.
      assert (1 <= count_path n (map normalize pre)). 2:{ unfold path in *. lia. }
      apply count_path_In. rewrite E. apply in_map, I, Hr'.
    + assert (y = n).
      { apply lock_key_norm in E. fold n in E. rewrite E.
        eapply cache_ok_normal; eassumption. }
      subst y. apply NK. right. split; [exists f; auto|]. left.
      destruct (CS n Hy) as [r' [Hr' R]]. exists r'. split; [|exact R].
      apply in_or_app. left. apply I, Hr'.
    + assert (y = n) by (apply lock_key_norm in E; fold n in E; rewrite E; exact Hy).
      subst y. rewrite <- good_normalize in G. fold n in G. rewrite Hb in G. discriminate.
Qed.

(* HEADLINE C16 (positive part): outside the known class the file succeeds
   or fails in the batch exactly as alone; with the same value *)
Theorem batch_equals_alone : forall proj fuel pre r post,
  List.length proj <= fuel -> (md = LockPerInvocation -> ~ Known_C16 proj (pre ++ r :: post) r) ->
  is_ok (snd (in_batch fuel proj pre r)) = is_ok (snd (alone fuel proj r)) /\
  (forall v w, snd (in_batch fuel proj pre r) = Ok v -> snd (alone fuel proj r) = Ok w -> v = w).
Proof.
  intros proj fuel pre r post L NK. unfold Batch_Lemmas.in_batch, Batch.alone.
  destruct (batch fuel proj empty_state pre) as [st1 l1] eqn:EB. cbn [fst].
  destruct (batch_inv _ _ _ _ _ _ _ EB (binv_empty proj) (cache_src_empty proj [])) as [B [CS _]].
  rewrite app_nil_r in B, CS.
  destruct (build_file fuel proj st1 r) as [st2 res] eqn:E2.
  destruct (build_file fuel proj empty_state r) as [sta resa] eqn:Ea. cbn [snd].
  split.
  - destruct res as [v|e].
    + destruct (build_ok_good _ _ _ _ _ _ _ _ B E2) as [d [G _]].
      destruct (acyclic_builds md proj fuel r d G L) as [w [Hw _]]. rewrite Ea in Hw. cbn in Hw.
      subst resa. reflexivity.
    + destruct resa as [w|e']; [|reflexivity]. exfalso.
      destruct (build_ok_good _ _ _ _ _ _ _ _ (binv_empty proj) Ea) as [d [G _]].
      destruct (lock_conditions proj (rev pre) st1 pre r post B CS) as [LC1 LC2];
        [intros x Hx; apply in_rev, Hx|eauto|exact NK|].
      destruct (build_file_good _ _ _ _ _ _ _ _ E2 B (ex_intro _ d G) L LC1 LC2) as [v [Ev _]].
      discriminate.
  - intros v w -> ->.
    destruct (build_ok_good _ _ _ _ _ _ _ _ B E2) as [d1 [_ V1]].
    destruct (build_ok_good _ _ _ _ _ _ _ _ (binv_empty proj) Ea) as [d2 [_ V2]].
    eapply value_of_fun; eassumption.
Qed.

(* one direction needs no side condition: whatever builds in a batch builds alone *)
Theorem batch_ok_alone_ok : forall proj fuel pre r v,
  List.length proj <= fuel -> snd (in_batch fuel proj pre r) = Ok v ->
  snd (alone fuel proj r) = Ok v.
Proof.
  intros proj fuel pre r v L H. unfold Batch_Lemmas.in_batch, Batch.alone in *.
  destruct (batch fuel proj empty_state pre) as [st1 l1] eqn:EB. cbn [fst] in H.
  destruct (batch_inv _ _ _ _ _ _ _ EB (binv_empty proj) (cache_src_empty proj [])) as [B _].
  destruct (build_file fuel proj st1 r) as [st2 res] eqn:E2. cbn in H. subst res.
  destruct (build_ok_good _ _ _ _ _ _ _ _ B E2) as [d [G V]].
  destruct (acyclic_builds md proj fuel r d G L) as [w [Hw Vw]]. rewrite Hw. congruence.
Qed.

(* ---------- artifacts *)

Lemma batch_app fuel proj : forall l1 l2 st,
  batch fuel proj st (l1 ++ l2) =
  let '(st1, a) := batch fuel proj st l1 in
  let '(st2, c) := batch fuel proj st1 l2 in (st2, a ++ c).
Proof.
  induction l1 as [|r l1 IH]; intros l2 st; cbn.
  - destruct (batch fuel proj st l2); reflexivity.
  - destruct (build_file fuel proj st r) as [st1 res]. rewrite IH.
    destruct (batch fuel proj st1 l1) as [st2 a]. destruct (batch fuel proj st2 l2). reflexivity.
Qed.

Lemma last_write_some k a v : last_write k a = Some v -> In (k, v) a.
Proof.
  induction a as [|[k' w] a IH]; cbn; [discriminate|].
  destruct (last_write k a) as [u|].
  - intros E; inversion E; subst. right. apply IH. reflexivity.
  - destruct (bytes_eqb k' k) eqn:E; [|discriminate].
    apply bytes_eqb_spec in E. subst. intros E; inversion E; subst. left; reflexivity.
Qed.

Lemma last_write_in k a v : In (k, v) a -> exists w, last_write k a = Some w.
Proof.
  induction a as [|[k' w] a IH]; cbn; [intros []|].
  intros [E|H].
  - inversion E; subst. destruct (last_write k a); [eauto|]. rewrite bytes_eqb_refl. eauto.
  - destruct (IH H) as [u ->]. eauto.
Qed.

Lemma last_write_art proj a k v : art_ok proj a -> In (k, v) a -> last_write k a = Some v.
Proof.
  intros A H. destruct (last_write_in _ _ _ H) as [w Hw]. rewrite Hw. f_equal.
  apply last_write_some in Hw.
  destruct (A _ _ H) as [_ [[d1 V1] _]]. destruct (A _ _ Hw) as [_ [[d2 V2] _]].
  eapply value_of_fun; eassumption.
Qed.

Lemma last_write_none proj a k f :
  art_ok proj a -> lookup proj k = Some f -> outs f = 0 -> last_write k a = None.
Proof.
  intros A Lf Ho. destruct (last_write k a) as [w|] eqn:E; [|reflexivity].
  apply last_write_some in E. destruct (A _ _ E) as [_ [_ [f' [Lf' Ho']]]].
  rewrite Lf in Lf'. inversion Lf'; subst. lia.
Qed.

(* the artifact of a file built in a batch is byte-identical to the one it
   produces alone (present in both with the same content, or absent in both) *)
Theorem batch_own_artifact : forall proj fuel pre r post v,
  List.length proj <= fuel -> (md = LockPerInvocation -> ~ Known_C16 proj (pre ++ r :: post) r) ->
  snd (alone fuel proj r) = Ok v ->
  last_write (normalize r) (artifacts (fst (batch fuel proj empty_state (pre ++ r :: post)))) =
  last_write (normalize r) (artifacts (fst (alone fuel proj r))).
Proof.
  intros proj fuel pre r post v L NK Ha.
  destruct (batch_equals_alone proj fuel pre r post L NK) as [Hs _].
  rewrite Ha in Hs. cbn in Hs.
  destruct (batch fuel proj empty_state (pre ++ r :: post)) as [stf lf] eqn:EF.
  pose proof (batch_inv _ _ _ _ _ _ _ EF (binv_empty proj) (cache_src_empty proj [])) as [[_ [_ [Af _]]] _].
  rewrite batch_app in EF. unfold Batch_Lemmas.in_batch in Hs. unfold Batch.alone in *.
  destruct (batch fuel proj empty_state pre) as [st1 l1] eqn:EB. cbn [fst] in Hs.
  destruct (batch_inv _ _ _ _ _ _ _ EB (binv_empty proj) (cache_src_empty proj [])) as [B [CS _]].
  rewrite app_nil_r in B, CS.
  cbn [Batch.batch] in EF.
  destruct (build_file fuel proj st1 r) as [st2 res] eqn:E2. cbn [snd] in Hs.
  destruct (batch fuel proj st2 post) as [st3 l3] eqn:E3. inversion EF; subst stf lf; clear EF.
  destruct (build_file_inv _ _ _ _ _ _ _ _ E2 B) as [B2 _].
  assert (CS2 : cache_src proj (r :: rev pre) st2).
  { intros y Hy. destruct (build_file_src _ _ _ _ _ _ _ E2 y Hy) as [Hy'|Hy'].
    - destruct (CS y Hy') as [r' [Hr' R]]. exists r'. split; [right; exact Hr'|exact R].
    - exists r. split; [left; reflexivity|exact Hy']. }
  destruct (batch_inv _ _ _ _ _ _ _ E3 B2 CS2) as [_ [_ [M3 _]]].
  destruct (build_file fuel proj empty_state r) as [sta resa] eqn:Ea. cbn [fst snd] in *. subst resa.
  destruct (build_file_inv _ _ _ _ _ _ _ _ Ea (binv_empty proj)) as [[_ [_ [Aa _]]] _].
  destruct (build_ok_good _ _ _ _ _ _ _ _ (binv_empty proj) Ea) as [d [G _]].
  destruct res as [v'|e]; [|discriminate].
  destruct (lock_conditions proj (rev pre) st1 pre r post B CS) as [LC1 LC2];
    [intros x Hx; apply in_rev, Hx|eauto|exact NK|].
  destruct (build_file_good _ _ _ _ _ _ _ _ E2 B (ex_intro _ d G) L LC1 LC2) as [v2 [Ev2 Hart2]].
  destruct (build_file_good md proj [] _ _ _ _ _ Ea (binv_empty proj) (ex_intro _ d G) L) as [va [Eva Harta]];
    [intros _ x fx _ _ _ _ []|intros _ f _ _ []|].
  inversion Ev2; subst v2. inversion Eva; subst va.
  destruct d as [|d]; [discriminate|]. cbn in G.
  destruct (lookup proj (normalize r)) as [f|] eqn:Lf; [|discriminate].
  apply andb_true_iff in G. destruct G as [G _]. apply andb_true_iff in G. destruct G as [_ Go].
  apply Nat.leb_le in Go.
  destruct (outs f) as [|[|o]] eqn:Ho; [| |lia].
  - rewrite (last_write_none proj _ _ f Af Lf Ho), (last_write_none proj _ _ f Aa Lf Ho). reflexivity.
  - rewrite (last_write_art proj _ _ v' Af); [|apply M3, (Hart2 f eq_refl Ho)].
    rewrite (last_write_art proj _ _ v Aa); [|apply (Harta f eq_refl Ho)].
    f_equal.
    destruct (build_ok_good _ _ _ _ _ _ _ _ B E2) as [d1 [_ V1]].
    destruct (build_ok_good _ _ _ _ _ _ _ _ (binv_empty proj) Ea) as [d2 [_ V2]].
    eapply value_of_fun; eassumption.
Qed.

(* ---------- order independence *)

Lemma count_path_perm p l l' : Permutation l l' -> count_path p l = count_path p l'.
Proof. induction 1; cbn; try lia. Qed.

Lemma Known_perm proj files files' r :
  Permutation files files' -> Known_C16 proj files r -> Known_C16 proj files' r.
Proof.
  intros P [[x [R [O I]]]|[O [[r' [I R]]|Cn]]].
  - left. exists x. split; [exact R|]. split; [exact O|].
    eapply Permutation_in; [apply Permutation_map, P|exact I].
  - right. split; [exact O|]. left. exists r'. split; [eapply Permutation_in; eassumption|exact R].
  - right. split; [exact O|]. right.
    rewrite <- (count_path_perm _ _ _ (Permutation_map normalize P)). exact Cn.
Qed.

(* HEADLINE C16: the order of the files on the command line does not matter *)
Theorem batch_order_indep : forall proj fuel pre r post pre' post',
  List.length proj <= fuel ->
  Permutation (pre ++ r :: post) (pre' ++ r :: post') ->
  (md = LockPerInvocation -> ~ Known_C16 proj (pre ++ r :: post) r) ->
  is_ok (snd (in_batch fuel proj pre r)) = is_ok (snd (in_batch fuel proj pre' r)) /\
  (forall v w, snd (in_batch fuel proj pre r) = Ok v -> snd (in_batch fuel proj pre' r) = Ok w -> v = w).
Proof.
  intros proj fuel pre r post pre' post' L P NK.
  assert (NK' : md = LockPerInvocation -> ~ Known_C16 proj (pre' ++ r :: post') r).
  { intros Em K. apply (NK Em). eapply Known_perm; [apply Permutation_sym, P|exact K]. }
  destruct (batch_equals_alone proj fuel pre r post L NK) as [S1 V1].
  destruct (batch_equals_alone proj fuel pre' r post' L NK') as [S2 V2].
  split; [congruence|].
  intros v w Hv Hw.
  destruct (snd (alone fuel proj r)) as [u|e] eqn:Ea.
  - rewrite (V1 v u Hv eq_refl), (V2 w u Hw eq_refl). reflexivity.
  - rewrite Hv in S1. discriminate.
Qed.

(* ---------- repetition *)

(* "the same invocation repeated" = a second process = a fresh Environment:
   the model is a function, so the two runs agree on everything *)
Theorem batch_repeat : forall proj fuel files,
  fst (repeat_invocation fuel proj files) = snd (repeat_invocation fuel proj files).
Proof. reflexivity. Qed.

End Mode.

(* ================================================================== *)
(* C16 for the CURRENT code (LockPerEvaluation, commit 0c43338): the
   full statement, no exclusion.

   ARTIFACTS in the model: [artifacts st] is the history of all artifact
   writes of the invocation, oldest first, each entry = (normalised path of
   the SOURCE file whose out statement ran, value written); the artifact
   file is the source path with the converter's extension, so "per artifact
   path" = per source path.  The out statements of imported files write
   too (building main alone also writes lib's artifact).  The content of the
   artifact store at the end is [last_write k (artifacts st)] per path [k]. *)

Local Notation PE := LockPerEvaluation.

Lemma Sim_empty proj : Sim proj empty_state empty_state.
Proof.
  constructor.
  - apply cache_ok_empty.
  - apply cache_ok_empty.
  - apply incl_refl.
  - intros k v [].
  - intros x y [].
  - intros x [].
Qed.

Lemma batch_sim_inv proj fuel : List.length proj <= fuel ->
  forall files roots st st' l,
    batch PE fuel proj st files = (st', l) -> binv proj roots st ->
    Sim proj empty_state st -> Sim proj empty_state st'.
Proof.
  intros L. induction files as [|r rs IH]; intros roots st st' l H B S; cbn in H.
  - inversion H; subst. exact S.
  - destruct (build_file PE fuel proj st r) as [st1 res] eqn:E1.
    destruct (batch PE fuel proj st1 rs) as [st2 l2] eqn:E2. inversion H; subst; clear H.
    destruct (build_file PE fuel proj empty_state r) as [sa' ra] eqn:Ea.
    destruct (build_file_sim proj fuel _ _ _ _ _ _ _ Ea E1 S) as [_ S1];
      [intros k []|apply B|exact L|].
    destruct (build_file_inv _ _ _ _ _ _ _ _ E1 B) as [B1 _].
    eapply IH; [exact E2|exact B1|]. eapply Sim_empty_l, S1.
Qed.

(* HEADLINE C16 (current code): for EVERY project, file list and position,
   the file succeeds or fails in the invocation exactly as alone, with the
   same value, and every artifact path that the file alone writes (its own
   and those of the files it imports) holds the same content after the
   invocation *)
Theorem batch_equals_alone_current : forall proj fuel pre r post,
  List.length proj <= fuel ->
  is_ok (snd (in_batch PE fuel proj pre r)) = is_ok (snd (alone PE fuel proj r)) /\
  (forall v w, snd (in_batch PE fuel proj pre r) = Ok v -> snd (alone PE fuel proj r) = Ok w -> v = w) /\
  (forall k v, last_write k (artifacts (fst (alone PE fuel proj r))) = Some v ->
     last_write k (artifacts (fst (batch PE fuel proj empty_state (pre ++ r :: post)))) = Some v).
Proof.
  intros proj fuel pre r post L.
  destruct (batch_equals_alone PE proj fuel pre r post L) as [Hs Hv]; [discriminate|].
  split; [exact Hs|]. split; [exact Hv|].
  intros k v Hlw.
  destruct (batch PE fuel proj empty_state (pre ++ r :: post)) as [stf lf] eqn:EF.
  pose proof (batch_inv _ _ _ _ _ _ _ _ EF (binv_empty proj) (cache_src_empty proj [])) as [[_ [_ [Af _]]] _].
  rewrite batch_app in EF. unfold alone in *.
  destruct (batch PE fuel proj empty_state pre) as [st1 l1] eqn:EB.
  destruct (batch_inv _ _ _ _ _ _ _ _ EB (binv_empty proj) (cache_src_empty proj [])) as [B [CS _]].
  pose proof (batch_sim_inv proj fuel L _ _ _ _ _ EB (binv_empty proj) (Sim_empty proj)) as S1.
  cbn [batch] in EF.
  destruct (build_file PE fuel proj st1 r) as [st2 res] eqn:E2.
  destruct (batch PE fuel proj st2 post) as [st3 l3] eqn:E3. inversion EF; subst stf lf; clear EF.
  destruct (build_file_inv _ _ _ _ _ _ _ _ E2 B) as [B2 _].
  assert (CS2 : cache_src proj (r :: rev pre ++ []) st2).
  { intros y Hy. destruct (build_file_src _ _ _ _ _ _ _ E2 y Hy) as [Hy'|Hy'].
    - destruct (CS y Hy') as [r' [Hr' R]]. exists r'. split; [right; exact Hr'|exact R].
    - exists r. split; [left; reflexivity|exact Hy']. }
  destruct (batch_inv _ _ _ _ _ _ _ _ E3 B2 CS2) as [_ [_ [M3 _]]].
  destruct (build_file PE fuel proj empty_state r) as [sa' ra] eqn:Ea. cbn [fst] in *.
  destruct (build_file_inv _ _ _ _ _ _ _ _ Ea (binv_empty proj)) as [[_ [_ [Aa _]]] _].
  destruct (build_file_sim proj fuel _ _ _ _ _ _ _ Ea E2 S1) as [_ S2];
    [intros k0 []|apply B|exact L|].
  apply last_write_some in Hlw.
  destruct (s_ar _ _ _ S2 _ _ Hlw) as [w Hw]. apply M3 in Hw.
  rewrite (last_write_art proj _ _ _ Af Hw). f_equal.
  destruct (Af _ _ Hw) as [_ [[d1 V1] _]]. destruct (Aa _ _ Hlw) as [_ [[d2 V2] _]].
  eapply value_of_fun; eassumption.
Qed.

(* ... hence in every order of the files ... *)
Corollary batch_order_indep_current : forall proj fuel pre r post pre' post',
  List.length proj <= fuel ->
  Permutation (pre ++ r :: post) (pre' ++ r :: post') ->
  is_ok (snd (in_batch PE fuel proj pre r)) = is_ok (snd (in_batch PE fuel proj pre' r)) /\
  (forall v w, snd (in_batch PE fuel proj pre r) = Ok v -> snd (in_batch PE fuel proj pre' r) = Ok w -> v = w) /\
  (forall k v, last_write k (artifacts (fst (alone PE fuel proj r))) = Some v ->
     last_write k (artifacts (fst (batch PE fuel proj empty_state (pre ++ r :: post)))) = Some v /\
     last_write k (artifacts (fst (batch PE fuel proj empty_state (pre' ++ r :: post')))) = Some v).
Proof.
  intros proj fuel pre r post pre' post' L _.
  destruct (batch_equals_alone_current proj fuel pre r post L) as [S1 [V1 A1]].
  destruct (batch_equals_alone_current proj fuel pre' r post' L) as [S2 [V2 A2]].
  split; [congruence|]. split; [|auto].
  intros v w Hv Hw.
  destruct (snd (alone PE fuel proj r)) as [u|e] eqn:Ea.
  - rewrite (V1 v u Hv eq_refl), (V2 w u Hw eq_refl). reflexivity.
  - rewrite Hv in S1. discriminate.
Qed.

(* ... and when the list is repeated inside ONE invocation (files ++ files):
   every occurrence, first or second, behaves as alone *)
Corollary batch_repeat_current : forall proj fuel files pre r post,
  List.length proj <= fuel -> files ++ files = pre ++ r :: post ->
  is_ok (snd (in_batch PE fuel proj pre r)) = is_ok (snd (alone PE fuel proj r)) /\
  (forall k v, last_write k (artifacts (fst (alone PE fuel proj r))) = Some v ->
     last_write k (artifacts (fst (repeat_same_env PE fuel proj files))) = Some v).
Proof.
  intros proj fuel files pre r post L E.
  destruct (batch_equals_alone_current proj fuel pre r post L) as [S1 [_ A1]].
  split; [exact S1|]. unfold repeat_same_env. rewrite E. exact A1.
Qed.

(* the results of an invocation, position by position *)
Lemma batch_nth md fuel proj : forall files st i r,
  nth_error files i = Some r ->
  exists pre post, files = pre ++ r :: post /\ List.length pre = i /\
    nth_error (snd (batch md fuel proj st files)) i =
    Some (r, snd (build_file md fuel proj (fst (batch md fuel proj st pre)) r)).
Proof.
  induction files as [|r0 rs IH]; intros st i r H; [destruct i; discriminate|].
  destruct i as [|i]; cbn in H.
  - inversion H; subst. exists [], rs. cbn.
    destruct (build_file md fuel proj st r) as [st1 res]. destruct (batch md fuel proj st1 rs). auto.
  - cbn [batch]. destruct (build_file md fuel proj st r0) as [st1 res] eqn:E1.
    destruct (IH st1 i r H) as [pre [post [-> [Hl Hn]]]].
    exists (r0 :: pre), post. cbn [batch app List.length]. rewrite E1.
    destruct (batch md fuel proj st1 (pre ++ r :: post)) as [st2 l2] eqn:E2.
    destruct (batch md fuel proj st1 pre) as [st3 l3] eqn:E3. cbn in *. auto.
Qed.

(* the same, stated on the result list of the invocation *)
Theorem batch_status_current : forall proj fuel files i r,
  List.length proj <= fuel -> nth_error files i = Some r ->
  exists res, nth_error (snd (batch PE fuel proj empty_state files)) i = Some (r, res) /\
    is_ok res = is_ok (snd (alone PE fuel proj r)) /\
    (forall v w, res = Ok v -> snd (alone PE fuel proj r) = Ok w -> v = w).
Proof.
  intros proj fuel files i r L H.
  destruct (batch_nth PE fuel proj files empty_state i r H) as [pre [post [-> [_ Hn]]]].
  eexists. split; [exact Hn|].
  destruct (batch_equals_alone_current proj fuel pre r post L) as [S1 [V1 _]].
  unfold in_batch in *. auto.
Qed.

(* ================================================================== *)
(* C16, negative part: with the lock held for the whole invocation (the
   code before commit 0c43338) the unrestricted statement is FALSE       *)

Definition w_lib : path := b "/p/lib.ucg".
Definition w_main : path := b "/p/main.ucg".
(* lib.ucg:  out json {v = 1};
   main.ucg: let l = import "./lib.ucg"; out json {x = l.v};
   (real binary: `ucg build lib.ucg main.ucg` exits 1 with
    "You can only have one output per file" for main.ucg, `ucg build main.ucg`
    and `ucg build lib.ucg` exit 0) *)
Definition w_proj : project :=
  [ (w_lib, mkFile [] 1 false); (w_main, mkFile [w_lib] 1 false) ].

Theorem batch_lock_refuted :
  ~ (forall proj fuel pre r, List.length proj <= fuel ->
       is_ok (snd (in_batch LockPerInvocation fuel proj pre r)) = is_ok (snd (alone LockPerInvocation fuel proj r))).
Proof.
  intros H. specialize (H w_proj 3 [w_lib] w_main ltac:(cbn; lia)).
  vm_compute in H. discriminate.
Qed.

(* the smallest witnesses, both orders: the file that comes second fails,
   although each builds alone *)
Example batch_lock_witness :
  map (fun x => is_ok (snd x)) (snd (batch LockPerInvocation 3 w_proj empty_state [w_lib; w_main])) = [true; false] /\
  map (fun x => is_ok (snd x)) (snd (batch LockPerInvocation 3 w_proj empty_state [w_main; w_lib])) = [true; false] /\
  tl (snd (batch LockPerInvocation 3 w_proj empty_state [w_lib; w_main])) = [(w_main, Err OutLock)] /\
  is_ok (snd (alone LockPerInvocation 3 w_proj w_lib)) = true /\ is_ok (snd (alone LockPerInvocation 3 w_proj w_main)) = true /\
  exit_status (snd (batch LockPerInvocation 3 w_proj empty_state [w_lib; w_main])) = 1.
Proof. vm_compute. repeat split; reflexivity. Qed.

(* ... and the witness is in the class *)
Lemma w_edge : edge w_proj w_main w_lib.
Proof.
  exists (mkFile [w_lib] 1 false), w_lib.
  split; [vm_compute; reflexivity|split; [left; reflexivity|vm_compute; reflexivity]].
Qed.

Example witness_known :
  Known_C16 w_proj [w_lib; w_main] w_main /\ Known_C16 w_proj [w_main; w_lib] w_lib.
Proof.
  assert (Hm : normalize w_main = w_main) by (vm_compute; reflexivity).
  assert (Hl : normalize w_lib = w_lib) by (vm_compute; reflexivity).
  split.
  - left. exists w_lib. unfold Known_C16. rewrite Hm. split; [exists w_lib; split; [apply w_edge|constructor]|].
    split; [exists (mkFile [] 1 false); split; [reflexivity|cbn; lia]|].
    cbn. left. exact Hl.
  - right. rewrite Hl. split; [exists (mkFile [] 1 false); split; [reflexivity|cbn; lia]|].
    left. exists w_main. split; [left; reflexivity|]. rewrite Hm.
    exists w_lib; split; [apply w_edge|constructor].
Qed.

(* the hypothetical repetition inside ONE Environment is not idempotent:
   every file with an out fails the second time *)
Example repeat_same_env_refuted :
  map (fun x => is_ok (snd x)) (snd (repeat_same_env LockPerInvocation 3 w_proj [w_lib])) = [true; false].
Proof. vm_compute. reflexivity. Qed.

(* the class is spelling sensitive: the lock is keyed by the components of
   the command-line spelling, so a ".." spelling of lib escapes the defect
   (real binary: `ucg build sub/../lib.ucg main.ucg` exits 0).  Known_C16
   (which identifies files, not spellings) over-approximates here. *)
Example known_overapproximates :
  let files := [b "/p/sub/../lib.ucg"; w_main] in
  map (fun x => is_ok (snd x)) (snd (batch LockPerInvocation 3 w_proj empty_state files)) = [true; true] /\
  known_c16b 3 w_proj files w_main = true.
Proof. vm_compute. split; reflexivity. Qed.

(* ================================================================== *)
(* the computed class                                                  *)

Lemma deps_sound proj : forall d p x, In x (deps d proj p) -> reach1 proj (normalize p) x.
Proof.
  induction d as [|d IH]; intros p x H; [destruct H|]. cbn in H.
  destruct (lookup proj (normalize p)) as [f|] eqn:Lf; [|destruct H].
  apply in_flat_map in H. destruct H as [i [Hi [E|H]]].
  - exists (normalize i). split; [exists f, i; auto|]. subst. constructor.
  - exists (normalize i). split; [exists f, i; auto|]. apply reach1_reach, IH, H.
Qed.

Lemma deps_complete proj : forall d p x,
  good d proj p = true -> reach1 proj (normalize p) x -> In x (deps d proj p).
Proof.
  induction d as [|d IH]; intros p x G [c [[f [i [Lf [Hi ->]]]] R]]; [discriminate|].
  cbn in *. rewrite Lf in *. apply andb_true_iff in G. destruct G as [_ G].
  rewrite forallb_forall in G. apply in_flat_map. exists i. split; [exact Hi|].
  inversion R as [|a c' e E R']; subst.
  - left; reflexivity.
  - right. apply IH; [apply G, Hi|]. exists c'. auto.
Qed.

Lemma has_outb_spec proj x : has_outb proj x = true <-> has_out proj x.
Proof.
  unfold has_outb, has_out. destruct (lookup proj x) as [f|].
  - rewrite Nat.leb_le. split; [eauto|]. intros [f' [E H]]. inversion E; subst. exact H.
  - split; [discriminate|]. intros [f' [E _]]. discriminate.
Qed.

(* the boolean only reports members of the class ... *)
Theorem known_c16b_sound : forall d proj files r,
  known_c16b d proj files r = true -> Known_C16 proj files r.
Proof.
  intros d proj files r H. unfold known_c16b in H.
  apply orb_true_iff in H. destruct H as [H|H].
  - apply existsb_exists in H. destruct H as [x [Hx H]]. apply andb_true_iff in H.
    destruct H as [Ho Hm]. left. exists x. split; [eapply deps_sound, Hx|].
    split; [apply has_outb_spec, Ho|apply mem_path_In, Hm].
  - apply andb_true_iff in H. destruct H as [Ho H]. right. split; [apply has_outb_spec, Ho|].
    apply orb_true_iff in H. destruct H as [H|H].
    + apply existsb_exists in H. destruct H as [r' [Hr' Hm]]. left. exists r'. split; [exact Hr'|].
      eapply deps_sound. apply mem_path_In, Hm.
    + right. apply Nat.leb_le, H.
Qed.

(* ... and reports all of them when every file of the invocation is good to
   depth [d] (acyclic, complete, nothing fails) *)
Theorem known_c16b_complete : forall d proj files r,
  (forall r', In r' files -> good d proj r' = true) -> In r files ->
  Known_C16 proj files r -> known_c16b d proj files r = true.
Proof.
  intros d proj files r G Hr K. unfold known_c16b. apply orb_true_iff.
  destruct K as [[x [R [O I]]]|[O [[r' [I R]]|Cn]]].
  - left. apply existsb_exists. exists x. split; [apply deps_complete; auto|].
    apply andb_true_iff. split; [apply has_outb_spec, O|apply mem_path_In, I].
  - right. apply andb_true_iff. split; [apply has_outb_spec, O|]. apply orb_true_iff. left.
    apply existsb_exists. exists r'. split; [exact I|]. apply mem_path_In, deps_complete; auto.
  - right. apply andb_true_iff. split; [apply has_outb_spec, O|]. apply orb_true_iff. right.
    apply Nat.leb_le, Cn.
Qed.

(* the executable form of the positive theorem *)
Corollary batch_equals_alone_b : forall md d proj fuel pre r post,
  List.length proj <= fuel ->
  (forall r', In r' (pre ++ r :: post) -> good d proj r' = true) ->
  known_c16b d proj (pre ++ r :: post) r = false ->
  is_ok (snd (in_batch md fuel proj pre r)) = true /\ is_ok (snd (alone md fuel proj r)) = true.
Proof.
  intros md d proj fuel pre r post L G Hb.
  assert (Hr : In r (pre ++ r :: post)) by (apply in_or_app; right; left; reflexivity).
  assert (NK : ~ Known_C16 proj (pre ++ r :: post) r).
  { intros K. rewrite (known_c16b_complete d proj _ r G Hr K) in Hb. discriminate. }
  destruct (batch_equals_alone md proj fuel pre r post L (fun _ => NK)) as [E _].
  destruct (acyclic_builds md proj fuel r d (G r Hr) L) as [v [Hv _]].
  unfold Batch.alone in *. rewrite Hv in *. cbn in E. auto.
Qed.

(* the same witnesses under the current code: everything builds *)
Example batch_lock_witness_current :
  map (fun x => is_ok (snd x)) (snd (batch LockPerEvaluation 3 w_proj empty_state [w_lib; w_main])) = [true; true] /\
  map (fun x => is_ok (snd x)) (snd (batch LockPerEvaluation 3 w_proj empty_state [w_main; w_lib])) = [true; true] /\
  map (fun x => is_ok (snd x)) (snd (repeat_same_env LockPerEvaluation 3 w_proj [w_lib; w_main])) = [true; true; true; true].
Proof. vm_compute. repeat split; reflexivity. Qed.

(* ================================================================== *)
(* Partial results                                                     *)

(* FULL STATEMENT (not proved): every artifact path written by an invocation
   is written, with the same content, by building alone one of its files:
     forall proj fuel files st l k w, List.length proj <= fuel ->
       batch LockPerEvaluation fuel proj empty_state files = (st, l) ->
       In (k, w) (artifacts st) ->
       exists r, In r files /\ In (k, w) (artifacts (fst (alone LockPerEvaluation fuel proj r))).
   PROVED instead (both modes): such an artifact belongs to a file with an out
   statement that is one of the built files or imported (transitively) by
   one, and holds that file's isolated value. *)
Theorem batch_no_junk_partial : forall md proj fuel files st0 st l k w,
  batch md fuel proj st0 files = (st, l) -> In (k, w) (artifacts st) ->
  In (k, w) (artifacts st0) \/
  ((exists r, In r files /\ reach proj (normalize r) k) /\ has_out proj k).
Proof.
  intros md proj fuel. induction files as [|r rs IH]; intros st0 st l k w H Hin; cbn in H.
  - inversion H; subst. auto.
  - destruct (build_file md fuel proj st0 r) as [st1 res] eqn:E1.
    destruct (batch md fuel proj st1 rs) as [st2 l2] eqn:E2. inversion H; subst; clear H.
    destruct (IH _ _ _ _ _ E2 Hin) as [H1|[[r' [Hr' R]] Ho]].
    + destruct (build_file_art_src _ _ _ _ _ _ _ E1 _ _ H1) as [H0|[R Ho]]; [auto|].
      right. split; [exists r; split; [left; reflexivity|exact R]|exact Ho].
    + right. split; [exists r'; split; [right; exact Hr'|exact R]|exact Ho].
Qed.
