From Ucg Require Import env.Collector.
From Coq Require Import Permutation.

Lemma fold_record_summary l c :
  summary (fold_left record l c) = summary c ++ number_from (counter c) l.
Proof.
  revert c; induction l as [|a l IH]; intros c; cbn [fold_left number_from].
  - now rewrite app_nil_r.
  - rewrite IH. cbn. now rewrite <- app_assoc.
Qed.

Lemma fold_record_success l c :
  success (fold_left record l c) = success c && forallb assert_ok l.
Proof.
  revert c; induction l as [|a l IH]; intros c; cbn [fold_left forallb].
  - now rewrite andb_true_r.
  - rewrite IH. cbn. now rewrite andb_assoc.
Qed.

Lemma validate_perfile c f :
  snd (validate_file PerFile c f) = {| rverdict := file_spec f; rlog := log_spec f |}.
Proof.
  unfold validate_file, file_spec, log_spec.
  destruct (build_err f); cbn [snd negb andb]; [reflexivity|].
  rewrite fold_record_success, fold_record_summary. cbn. reflexivity.
Qed.

Lemma test_run_from_perfile fs : forall c,
  test_run_from PerFile c fs = map (fun f => {| rverdict := file_spec f; rlog := log_spec f |}) fs.
Proof.
  induction fs as [|f fs IH]; intros c; cbn [test_run_from map]; [reflexivity|].
  pose proof (validate_perfile c f) as H.
  destruct (validate_file PerFile c f) as [c' r]. cbn in H. subst r. now rewrite IH.
Qed.

Lemma test_run_perfile fs :
  test_run PerFile fs = map (fun f => {| rverdict := file_spec f; rlog := log_spec f |}) fs.
Proof. apply test_run_from_perfile. Qed.

Lemma verdict_exact_lemma fs i f :
  nth_error fs i = Some f ->
  option_map rverdict (nth_error (test_run PerFile fs) i) = Some (file_spec f).
Proof.
  intros H. rewrite test_run_perfile, nth_error_map, H. reflexivity.
Qed.

Lemma log_once_lemma fs i f :
  nth_error fs i = Some f ->
  option_map rlog (nth_error (test_run PerFile fs) i) = Some (log_spec f).
Proof.
  intros H. rewrite test_run_perfile, nth_error_map, H. reflexivity.
Qed.

(* the verdict reported for a file does not depend on the other files or their order *)
Lemma verdict_order_indep_lemma fs fs' :
  Permutation fs fs' ->
  forall f, In f fs ->
    (exists i, nth_error fs i = Some f /\
               option_map rverdict (nth_error (test_run PerFile fs) i) = Some (file_spec f)) /\
    (exists j, nth_error fs' j = Some f /\
               option_map rverdict (nth_error (test_run PerFile fs') j) = Some (file_spec f)).
Proof.
  intros HP f Hin. split.
  - destruct (In_nth_error _ _ Hin) as [i Hi]. exists i. split; [exact Hi|].
    now apply verdict_exact_lemma.
  - assert (Hin' : In f fs') by (eapply Permutation_in; eauto).
    destruct (In_nth_error _ _ Hin') as [j Hj]. exists j. split; [exact Hj|].
    now apply verdict_exact_lemma.
Qed.

Lemma forallb_map' (X Y : Type) (g : X -> Y) (p : Y -> bool) l :
  forallb p (map g l) = forallb (fun x => p (g x)) l.
Proof. induction l as [|x l IH]; cbn; [reflexivity|now rewrite IH]. Qed.

Lemma exit_status_lemma fs :
  exit_code (test_run PerFile fs) <> 0%N <-> exists f, In f fs /\ file_spec f = Fail.
Proof.
  rewrite test_run_perfile. unfold exit_code. rewrite forallb_map'. cbn [rverdict].
  destruct (forallb (fun f => verdict_eqb (file_spec f) Pass) fs) eqn:E.
  - split; [congruence|]. intros (f & Hin & Hf).
    rewrite forallb_forall in E. specialize (E _ Hin). rewrite Hf in E. discriminate.
  - split; [|discriminate]. intros _.
    assert (H : ~ (forall f, In f fs -> verdict_eqb (file_spec f) Pass = true)).
    { intros H. apply forallb_forall in H. congruence. }
    clear E. induction fs as [|f fs IH].
    + exfalso. apply H. intros ? [].
    + destruct (file_spec f) eqn:Ef.
      * destruct IH as (g & Hg & Hs).
        { intros H'. apply H. intros g [<-|Hg]; [now rewrite Ef|auto]. }
        exists g; split; [now right|exact Hs].
      * exists f; split; [now left|exact Ef].
Qed.

Lemma malformed_is_failure_lemma f tag :
  In (AMal tag) (asserts f) -> file_spec f = Fail.
Proof.
  intros Hin. unfold file_spec.
  destruct (forallb assert_ok (asserts f)) eqn:E; [|now rewrite andb_false_r].
  rewrite forallb_forall in E. specialize (E _ Hin). discriminate.
Qed.

Lemma pass_iff f :
  file_spec f = Pass <-> build_err f = false /\ forall a, In a (asserts f) -> assert_ok a = true.
Proof.
  unfold file_spec. destruct (build_err f); cbn.
  - split; [discriminate|intros [? _]; discriminate].
  - destruct (forallb assert_ok (asserts f)) eqn:E.
    + rewrite forallb_forall in E. tauto.
    + split; [discriminate|]. intros [_ H]. apply forallb_forall in H. congruence.
Qed.

(* every assertion appears exactly once, in evaluation order, numbered from 0 *)
Lemma number_from_map n l : map (fun x => snd x) (number_from n l) = l.
Proof. revert n; induction l as [|a l IH]; intros n; cbn; [reflexivity|now rewrite IH]. Qed.

(* the shared collector of the unrepaired code does not have the property *)
Definition wit_a : tfile := {| fname := b "a_test.ucg"; asserts := [AWell (b "x") false]; build_err := false |}.
Definition wit_b : tfile := {| fname := b "b_test.ucg"; asserts := [AWell (b "y") true]; build_err := false |}.

Lemma shared_collector_refuted :
  map rverdict (test_run Shared [wit_a; wit_b]) = [Fail; Fail] /\
  map rverdict (test_run Shared [wit_b; wit_a]) = [Pass; Fail] /\
  file_spec wit_b = Pass.
Proof. vm_compute. repeat split. Qed.
