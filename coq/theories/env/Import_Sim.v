(* The CURRENT code (LockPerEvaluation): a run from an Environment that has
   already built other files simulates the run from the empty Environment.
   Used for the unrestricted C16 theorems in Batch_Lemmas.v.  Axiom-free. *)
From Ucg Require Import base.Bytes base.Bytes_Lemmas path.Path path.Path_Lemmas
     env.Import env.Import_Lemmas.

Local Notation PE := LockPerEvaluation.

(* the cache is closed under imports, and the artifact of every cached file
   that has an out statement has been written *)
Definition closed (proj : project) (st : state) : Prop :=
  forall x y, In x (dom (val_cache st)) -> edge proj x y -> In y (dom (val_cache st)).

Definition artinv (proj : project) (st : state) : Prop :=
  forall x, In x (dom (val_cache st)) -> has_out proj x -> exists w, In (x, w) (artifacts st).

(* [sa]: the run of the file alone; [sb]: the run inside an invocation *)
Record Sim (proj : project) (sa sb : state) : Prop := mkSim {
  s_ca : cache_ok proj (val_cache sa);
  s_cb : cache_ok proj (val_cache sb);
  s_in : incl (dom (val_cache sa)) (dom (val_cache sb));
  s_ar : forall k v, In (k, v) (artifacts sa) -> exists w, In (k, w) (artifacts sb);
  s_cl : closed proj sb;
  s_ai : artinv proj sb }.

Lemma closed_reach proj st x y :
  closed proj st -> In x (dom (val_cache st)) -> reach proj x y -> In y (dom (val_cache st)).
Proof. intros C H R. induction R as [|a c d E R IH]; [exact H|]. apply IH. eapply C; eassumption. Qed.

Lemma Sim_frame proj sa sb sa0 sb0 :
  val_cache sa0 = val_cache sa -> artifacts sa0 = artifacts sa ->
  val_cache sb0 = val_cache sb -> artifacts sb0 = artifacts sb ->
  Sim proj sa sb -> Sim proj sa0 sb0.
Proof.
  intros E1 E2 E3 E4 [A B C D E F].
  constructor; unfold closed, artinv in *; rewrite ?E1, ?E2, ?E3, ?E4; assumption.
Qed.

Lemma lock_free_pe proj st a : lock_free PE proj st a.
Proof. intros Em. discriminate. Qed.

Lemma Forall2_in_l {A B} (P : A -> B -> Prop) l l' x :
  Forall2 P l l' -> In x l -> exists y, P x y.
Proof. induction 1; intros []; subst; eauto. Qed.

Lemma stack_ok_step proj fuel stack st p st1 stack1 v a :
  import PE fuel proj stack st p = (st1, stack1, Ok v) -> cache_ok proj (val_cache st) ->
  stack_ok proj stack st a -> stack_ok proj stack1 st1 a.
Proof.
  intros H C SO x Hx R.
  destruct (import_spec PE proj fuel _ _ _ _ _ _ H C) as [[_ [I1 [_ [ext [Sx Xc]]]]] _].
  rewrite Sx in Hx. apply in_app_or in Hx. destruct Hx as [Hx|Hx].
  - apply I1. apply (SO x Hx R).
  - apply (Xc eq_refl), Hx.
Qed.

Lemma run_imports_cached proj fuel : forall ps stack st st' stack' vs,
  run_imports (import PE fuel proj) ps stack st = (st', stack', Ok vs) ->
  cache_ok proj (val_cache st) ->
  forall i, In i ps -> In (normalize i) (dom (val_cache st')).
Proof.
  induction ps as [|p ps IH]; intros stack st st' stack' vs H C i Hi; [destruct Hi|]. cbn in H.
  destruct (import PE fuel proj stack st p) as [[st1 stack1] r1] eqn:E1.
  destruct (import_spec PE proj fuel _ _ _ _ _ _ E1 C) as [[C1 _] W1].
  destruct r1 as [v|e]; [|discriminate].
  destruct (run_imports (import PE fuel proj) ps stack1 st1) as [[st2 stack2] r2] eqn:E2.
  destruct r2 as [vs'|e]; inversion H; subst; clear H.
  destruct Hi as [<-|Hi].
  - destruct (W1 v eq_refl) as [Fv _]. apply find_val_In, in_dom in Fv.
    destruct (run_imports_spec proj _ (import_spec PE proj fuel) _ _ _ _ _ _ E2 C1) as [[_ [I2 _]] _].
    apply I2, Fv.
  - eapply IH; eassumption.
Qed.

Lemma run_outs_free k a n st :
  ~ In k (out_lock st) ->
  run_outs k a n st =
  match n with
  | 0 => (st, Ok tt)
  | 1 => (do_out k a st, Ok tt)
  | _ => (do_out k a st, Err OutLock)
  end.
Proof.
  intros H. apply mem_key_nIn in H. destruct n as [|[|n]]; cbn [run_outs]; [reflexivity| |].
  - rewrite H. reflexivity.
  - rewrite H. assert (mem_key k (out_lock (do_out k a st)) = true) as ->
        by (apply mem_key_In; left; reflexivity). reflexivity.
Qed.

(* after the reset at the start of an evaluation nobody takes the lock of the
   file before its own out statements *)
Lemma pe_lock_clear proj fuel stack st0 st1 stack1 vs n k f :
  run_imports (import PE fuel proj) (imports f) stack st0 = (st1, stack1, Ok vs) ->
  cache_ok proj (val_cache st0) -> lookup proj n = Some f -> n = normalize n ->
  (exists d, sfine d proj n = true) ->
  (forall i, In i (imports f) -> stack_ok proj stack st0 (normalize i)) ->
  ~ In k (out_lock st0) ->
  (forall y, y = normalize y -> lock_key y = k -> y = n) ->
  ~ In k (out_lock st1).
Proof.
  intros H C Lf Hn [d Sf] SO Hk Hkey Hin.
  destruct (run_imports_spec proj _ (import_spec PE proj fuel) _ _ _ _ _ _ H C) as [[C1 _] V1].
  destruct (run_importsA PE proj _ (import_spec PE proj fuel) (importA PE proj fuel) _ _ _ _ _ _ H C)
    as [_ G1].
  - intros i Hi. destruct (Forall2_in_l _ _ _ _ (V1 vs eq_refl) Hi) as [v [d' [G _]]]. eauto.
  - exact SO.
  - intros i Hi. apply lock_free_pe.
  - destruct (G1 eq_refl) as [Gc Gl]. apply Gl in Hin.
    destruct Hin as [Hin|[[]|[y [Ek [Hy Ny]]]]]; [exact (Hk Hin)|].
    assert (y = n) by (apply Hkey; [eapply cache_ok_normal; eassumption|auto]). subst y.
    apply Gc in Hy. destruct Hy as [Hy|[i [Hi R]]]; [contradiction|].
    apply (sfine_acyclic proj d n Sf). rewrite <- Hn.
    exists (normalize i). split; [exists f, i; auto|exact R].
Qed.

(* [p] is already cached inside the invocation: alone it is evaluated, and
   everything this adds is already there *)
Lemma sim_cached_b proj fuel stack sa sb p sa' stack' ra :
  import PE fuel proj stack sa p = (sa', stack', ra) -> Sim proj sa sb ->
  In (normalize p) (dom (val_cache sb)) -> stack_ok proj stack sa (normalize p) ->
  ra <> Err OutOfFuel -> is_ok ra = true /\ Sim proj sa' sb.
Proof.
  intros H [Ca Cb I Ar Cl Ai] Hc SO NF.
  assert (G : exists d, good d proj p = true).
  { apply dom_in in Hc. destruct Hc as [v Hv]. destruct (Cb _ _ Hv) as [_ [d [G _]]].
    exists d. rewrite <- good_normalize. exact G. }
  destruct (importA PE proj fuel _ _ _ _ _ _ H Ca G SO (lock_free_pe _ _ _)) as [OF _].
  assert (is_ok ra = true) as Hok.
  { destruct ra as [v|e]; [reflexivity|]. exfalso. apply NF. rewrite (OF e eq_refl). reflexivity. }
  split; [exact Hok|].
  constructor; try assumption.
  - eapply import_preserves_cache_ok; [exact Ca|exact H].
  - intros y Hy. destruct (importR PE proj fuel _ _ _ _ _ _ H y Hy) as [Hy'|R]; [apply I, Hy'|].
    eapply closed_reach; eassumption.
  - intros k v Hk. destruct (importK PE proj fuel _ _ _ _ _ _ H k v Hk) as [Hk'|[R Ho]]; [eapply Ar, Hk'|].
    apply Ai; [|exact Ho]. eapply closed_reach; eassumption.
Qed.

Definition simH (proj : project) (fuel : nat) : Prop :=
  forall stack_a sa stack_b sb p sa' stack_a' ra sb' stack_b' rb,
    import PE fuel proj stack_a sa p = (sa', stack_a', ra) ->
    import PE fuel proj stack_b sb p = (sb', stack_b', rb) ->
    Sim proj sa sb -> (exists d, sfine d proj p = true) ->
    stack_ok proj stack_a sa (normalize p) -> stack_ok proj stack_b sb (normalize p) ->
    ra <> Err OutOfFuel -> rb <> Err OutOfFuel ->
    is_ok ra = is_ok rb /\ Sim proj sa' sb'.

Lemma run_imports_sim proj fuel : simH proj fuel ->
  forall ps stack_a sa stack_b sb sa' stack_a' ra sb' stack_b' rb,
    run_imports (import PE fuel proj) ps stack_a sa = (sa', stack_a', ra) ->
    run_imports (import PE fuel proj) ps stack_b sb = (sb', stack_b', rb) ->
    Sim proj sa sb -> (forall i, In i ps -> exists d, sfine d proj i = true) ->
    (forall i, In i ps -> stack_ok proj stack_a sa (normalize i)) ->
    (forall i, In i ps -> stack_ok proj stack_b sb (normalize i)) ->
    ra <> Err OutOfFuel -> rb <> Err OutOfFuel ->
    is_ok ra = is_ok rb /\ Sim proj sa' sb'.
Proof.
  intros HS. induction ps as [|p ps IH];
    intros stack_a sa stack_b sb sa' stack_a' ra sb' stack_b' rb Ha Hb S Sf SOa SOb NFa NFb;
    cbn in Ha, Hb.
  - inversion Ha; inversion Hb; subst. auto.
  - destruct (import PE fuel proj stack_a sa p) as [[sa1 stack_a1] r1a] eqn:E1a.
    destruct (import PE fuel proj stack_b sb p) as [[sb1 stack_b1] r1b] eqn:E1b.
    assert (N1a : r1a <> Err OutOfFuel)
      by (intros ->; inversion Ha; subst; apply NFa; reflexivity).
    assert (N1b : r1b <> Err OutOfFuel)
      by (intros ->; inversion Hb; subst; apply NFb; reflexivity).
    destruct (HS _ _ _ _ _ _ _ _ _ _ _ E1a E1b S (Sf p (or_introl eq_refl))
                 (SOa p (or_introl eq_refl)) (SOb p (or_introl eq_refl)) N1a N1b) as [Eok S1].
    destruct r1a as [va|ea]; destruct r1b as [vb|eb]; try discriminate.
    + destruct (run_imports (import PE fuel proj) ps stack_a1 sa1) as [[sa2 stack_a2] r2a] eqn:E2a.
      destruct (run_imports (import PE fuel proj) ps stack_b1 sb1) as [[sb2 stack_b2] r2b] eqn:E2b.
      assert (N2a : r2a <> Err OutOfFuel)
        by (intros ->; inversion Ha; subst; apply NFa; reflexivity).
      assert (N2b : r2b <> Err OutOfFuel)
        by (intros ->; inversion Hb; subst; apply NFb; reflexivity).
      assert (SO1a : forall i, In i ps -> stack_ok proj stack_a1 sa1 (normalize i))
        by (intros i Hi; eapply stack_ok_step; [exact E1a|apply S|apply SOa; right; exact Hi]).
      assert (SO1b : forall i, In i ps -> stack_ok proj stack_b1 sb1 (normalize i))
        by (intros i Hi; eapply stack_ok_step; [exact E1b|apply S|apply SOb; right; exact Hi]).
      destruct (IH _ _ _ _ _ _ _ _ _ _ E2a E2b S1 (fun i Hi => Sf i (or_intror Hi)) SO1a SO1b N2a N2b)
        as [Eok2 S2].
      destruct r2a; destruct r2b; try discriminate; inversion Ha; inversion Hb; subst; auto.
    + inversion Ha; inversion Hb; subst. auto.
Qed.

Lemma eval_body_sim proj fuel : simH proj fuel ->
  forall stack_a sa stack_b sb n k f sa' ra sb' rb,
    eval_body PE (import PE fuel proj) stack_a sa n k f = (sa', ra) ->
    eval_body PE (import PE fuel proj) stack_b sb n k f = (sb', rb) ->
    Sim proj sa sb -> n = normalize n -> lookup proj n = Some f ->
    (exists d, sfine d proj n = true) ->
    (forall i, In i (imports f) -> stack_ok proj stack_a sa (normalize i)) ->
    (forall i, In i (imports f) -> stack_ok proj stack_b sb (normalize i)) ->
    (forall y, y = normalize y -> lock_key y = k -> y = n) ->
    ra <> Err OutOfFuel -> rb <> Err OutOfFuel ->
    is_ok ra = is_ok rb /\ Sim proj sa' sb' /\
    (is_ok rb = true ->
     (forall i, In i (imports f) -> In (normalize i) (dom (val_cache sb'))) /\
     (has_out proj n -> exists w, In (n, w) (artifacts sb'))).
Proof.
  intros HS stack_a sa stack_b sb n k f sa' ra sb' rb Ha Hb S Hn Lf Sf SOa SOb Hkey NFa NFb.
  unfold eval_body in Ha, Hb.
  destruct (reset_lock_frame PE k sa) as [Ra1 [_ [_ [Ra4 _]]]].
  destruct (reset_lock_frame PE k sb) as [Rb1 [_ [_ [Rb4 _]]]].
  remember (record_eval n (reset_lock PE k sa)) as sa0 eqn:Ea0.
  remember (record_eval n (reset_lock PE k sb)) as sb0 eqn:Eb0.
  assert (Va0 : val_cache sa0 = val_cache sa) by (subst sa0; exact Ra1).
  assert (Vb0 : val_cache sb0 = val_cache sb) by (subst sb0; exact Rb1).
  assert (Aa0 : artifacts sa0 = artifacts sa) by (subst sa0; exact Ra4).
  assert (Ab0 : artifacts sb0 = artifacts sb) by (subst sb0; exact Rb4).
  assert (Ka0 : ~ In k (out_lock sa0))
    by (subst sa0; cbn [record_eval out_lock]; apply reset_lock_pe; reflexivity).
  assert (Kb0 : ~ In k (out_lock sb0))
    by (subst sb0; cbn [record_eval out_lock]; apply reset_lock_pe; reflexivity).
  assert (S0 : Sim proj sa0 sb0) by (eapply Sim_frame; eassumption).
  assert (Sfi : forall i, In i (imports f) -> exists d, sfine d proj i = true).
  { intros i Hi. destruct Sf as [[|d] Sf]; [discriminate|]. cbn in Sf. rewrite <- Hn, Lf in Sf.
    rewrite forallb_forall in Sf. eauto. }
  assert (SOa0 : forall i, In i (imports f) -> stack_ok proj stack_a sa0 (normalize i))
    by (intros i Hi x Hx R; rewrite Va0; eapply SOa; eassumption).
  assert (SOb0 : forall i, In i (imports f) -> stack_ok proj stack_b sb0 (normalize i))
    by (intros i Hi x Hx R; rewrite Vb0; eapply SOb; eassumption).
  destruct (run_imports (import PE fuel proj) (imports f) stack_a sa0) as [[sa1 stack_a1] r1a] eqn:E1a.
  destruct (run_imports (import PE fuel proj) (imports f) stack_b sb0) as [[sb1 stack_b1] r1b] eqn:E1b.
  assert (N1a : r1a <> Err OutOfFuel)
    by (intros ->; inversion Ha; subst; apply NFa; reflexivity).
  assert (N1b : r1b <> Err OutOfFuel)
    by (intros ->; inversion Hb; subst; apply NFb; reflexivity).
  destruct (run_imports_sim proj fuel HS _ _ _ _ _ _ _ _ _ _ _ E1a E1b S0 Sfi SOa0 SOb0 N1a N1b)
    as [Eok S1].
  destruct r1a as [vsa|ea]; destruct r1b as [vsb|eb]; try discriminate.
  2:{ inversion Ha; inversion Hb; subst. split; [reflexivity|]. split; [exact S1|discriminate]. }
  assert (Ka1 : ~ In k (out_lock sa1)).
  { eapply pe_lock_clear; try eassumption. apply S0. }
  assert (Kb1 : ~ In k (out_lock sb1)).
  { eapply pe_lock_clear; try eassumption. apply S0. }
  rewrite (run_outs_free _ _ _ _ Ka1) in Ha. rewrite (run_outs_free _ _ _ _ Kb1) in Hb.
  assert (Hch : forall i, In i (imports f) -> In (normalize i) (dom (val_cache sb1))).
  { eapply run_imports_cached; [exact E1b|apply S0]. }
  assert (Sd : forall aa ab, Sim proj (do_out k (n, aa) sa1) (do_out k (n, ab) sb1)).
  { intros aa ab. destruct S1 as [A B C D E F]. constructor; cbn; try assumption.
    - intros k0 v0 Hin. apply in_app_or in Hin. destruct Hin as [Hin|[Ein|[]]].
      + destruct (D _ _ Hin) as [w Hw]. exists w. apply in_or_app; auto.
      + inversion Ein; subst. exists ab. apply in_or_app; right; left; reflexivity.
    - intros x Hx Ho. destruct (F x Hx Ho) as [w Hw]. exists w. cbn. apply in_or_app; auto. }
  destruct (outs f) as [|[|o]] eqn:Ho.
  - destruct (fails f); inversion Ha; inversion Hb; subst;
      (split; [reflexivity|]; split; [exact S1|]); [discriminate|].
    intros _. split; [exact Hch|]. intros [f' [Lf' Ho']]. rewrite Lf in Lf'. inversion Lf'; subst. lia.
  - destruct (fails f); inversion Ha; inversion Hb; subst;
      (split; [reflexivity|]; split; [apply Sd|]); [discriminate|].
    intros _. split; [exact Hch|]. intros _. eexists. cbn. apply in_or_app; right; left; reflexivity.
  - inversion Ha; inversion Hb; subst. split; [reflexivity|]. split; [apply Sd|discriminate].
Qed.

Theorem import_sim proj : forall fuel, simH proj fuel.
Proof.
  induction fuel as [|fuel IH];
    intros stack_a sa stack_b sb p sa' stack_a' ra sb' stack_b' rb Ha Hb S Sf SOa SOb NFa NFb;
    pose proof Ha as Ha0; pose proof Hb as Hb0; cbn [import] in Ha, Hb;
    set (n := normalize p) in *;
    (destruct (find_val n (val_cache sb)) as [vb|] eqn:Fb;
     [inversion Hb; subst sb' stack_b' rb; clear Hb;
      apply find_val_In, in_dom in Fb;
      destruct (sim_cached_b _ _ _ _ _ _ _ _ _ Ha0 S Fb SOa NFa) as [Hok S']; auto|]);
    (destruct (find_val n (val_cache sa)) as [va|] eqn:Fa;
     [exfalso; apply find_val_In, in_dom in Fa; apply find_val_None in Fb; apply Fb, S, Fa|]);
    apply find_val_None in Fa; apply find_val_None in Fb;
    (destruct (mem_path n stack_a) eqn:Ma;
     [exfalso; apply mem_path_In in Ma; apply Fa, (SOa _ Ma); constructor|]);
    (destruct (mem_path n stack_b) eqn:Mb;
     [exfalso; apply mem_path_In in Mb; apply Fb, (SOb _ Mb); constructor|]);
    (destruct (lookup proj n) as [f|] eqn:Lf;
     [|inversion Ha; inversion Hb; subst; auto]).
  - exfalso. inversion Ha; subst. apply NFa; reflexivity.
  - destruct (eval_body PE (import PE fuel proj) (stack_a ++ [n]) (record_parse (lock_key n) sa) n (lock_key n) f)
      as [sa2 r2a] eqn:EBa.
    destruct (eval_body PE (import PE fuel proj) (stack_b ++ [n]) (record_parse (lock_key n) sb) n (lock_key n) f)
      as [sb2 r2b] eqn:EBb.
    pose proof (record_parse_frame (lock_key n) sa) as [Fa1 [_ [_ [_ Fa5]]]].
    pose proof (record_parse_frame (lock_key n) sb) as [Fb1 [_ [_ [_ Fb5]]]].
    assert (Hn : n = normalize n) by (subst n; apply normalize_normal).
    assert (Sfn : exists d, sfine d proj n = true)
      by (destruct Sf as [d Sf]; exists d; subst n; rewrite sfine_normalize; exact Sf).
    assert (Acy : ~ reach1 proj n n)
      by (destruct Sfn as [d Sfn]; rewrite Hn; eapply sfine_acyclic; exact Sfn).
    assert (N2a : r2a <> Err OutOfFuel) by (intros ->; inversion Ha; subst; apply NFa; reflexivity).
    assert (N2b : r2b <> Err OutOfFuel) by (intros ->; inversion Hb; subst; apply NFb; reflexivity).
    assert (S0 : Sim proj (record_parse (lock_key n) sa) (record_parse (lock_key n) sb))
      by (eapply Sim_frame; eassumption).
    assert (SOc : forall stack st st0, val_cache st0 = val_cache st ->
              stack_ok proj stack st n ->
              forall i, In i (imports f) -> stack_ok proj (stack ++ [n]) st0 (normalize i)).
    { intros stack st st0 E SO i Hi x Hx R. rewrite E. apply in_app_or in Hx.
      destruct Hx as [Hx|[<-|[]]].
      - apply (SO x Hx). econstructor; [exists f, i; eauto|exact R].
      - exfalso. apply Acy. exists (normalize i). split; [exists f, i; auto|exact R]. }
    destruct (eval_body_sim proj fuel IH _ _ _ _ _ _ _ _ _ _ _ EBa EBb S0 Hn Lf Sfn
                (SOc _ _ _ Fa1 SOa) (SOc _ _ _ Fb1 SOb)
                (fun y Hy E => lock_key_inj y n Hy Hn E) N2a N2b) as [Eok [S2 X]].
    destruct r2a as [va|ea]; destruct r2b as [vb|eb]; try discriminate;
      inversion Ha; inversion Hb; subst sa' stack_a' ra sb' stack_b' rb; clear Ha Hb.
    + split; [reflexivity|]. destruct (X eq_refl) as [Xc Xa]. destruct S2 as [A B C D E F].
      constructor.
      * eapply import_preserves_cache_ok; [exact (s_ca _ _ _ S)|exact Ha0].
      * eapply import_preserves_cache_ok; [exact (s_cb _ _ _ S)|exact Hb0].
      * cbn. intros y [<-|Hy]; [left; reflexivity|right; apply C, Hy].
      * exact D.
      * intros x y [<-|Hx] Ed.
        -- destruct Ed as [f' [i [Lf' [Hi ->]]]].
           cbn [fst] in Lf'. assert (f' = f) by congruence. subst f'.
           right. apply Xc, Hi.
        -- right. eapply E; eassumption.
      * intros x [<-|Hx] Ho; [apply Xa, Ho|apply F; assumption].
    + split; [reflexivity|exact S2].
Qed.

(* ---------- the root file, and FileBuilder::build *)

Lemma eval_file_sim proj fuel sa sb r sa' ra sb' rb :
  eval_file PE fuel proj sa r = (sa', ra) -> eval_file PE fuel proj sb r = (sb', rb) ->
  Sim proj sa sb -> (exists d, sfine d proj r = true) ->
  ra <> Err OutOfFuel -> rb <> Err OutOfFuel ->
  is_ok ra = is_ok rb /\ Sim proj sa' sb'.
Proof.
  unfold eval_file. intros Ha Hb S Sf NFa NFb. set (n := normalize r) in *.
  destruct (lookup proj n) as [f|] eqn:Lf; [|inversion Ha; inversion Hb; subst; auto].
  pose proof (record_parse_frame (lock_key r) sa) as [Fa1 [_ [_ [_ Fa5]]]].
  pose proof (record_parse_frame (lock_key r) sb) as [Fb1 [_ [_ [_ Fb5]]]].
  assert (Hn : n = normalize n) by (subst n; apply normalize_normal).
  assert (Sfn : exists d, sfine d proj n = true)
    by (destruct Sf as [d Sf]; exists d; subst n; rewrite sfine_normalize; exact Sf).
  assert (Acy : ~ reach1 proj n n)
    by (destruct Sfn as [d Sfn]; rewrite Hn; eapply sfine_acyclic; exact Sfn).
  assert (S0 : Sim proj (record_parse (lock_key r) sa) (record_parse (lock_key r) sb))
    by (eapply Sim_frame; eassumption).
  assert (SOc : forall st0 i, In i (imports f) -> stack_ok proj [n] st0 (normalize i)).
  { intros st0 i Hi x [<-|[]] R. exfalso. apply Acy.
    exists (normalize i). split; [exists f, i; auto|exact R]. }
  destruct (eval_body_sim proj fuel (import_sim proj fuel) _ _ _ _ _ _ _ _ _ _ _ Ha Hb S0 Hn Lf Sfn
              (SOc _) (SOc _)) as [Eok [S2 _]]; auto.
  intros y Hy E. rewrite Hy. subst n. apply lock_key_norm, E.
Qed.

Lemma Sim_empty_l proj sa sb : Sim proj sa sb -> Sim proj empty_state sb.
Proof.
  intros [A B C D E F]. constructor; auto.
  - apply cache_ok_empty.
  - intros x [].
  - intros k v [].
Qed.

Theorem build_file_sim proj fuel sa sb r sa' ra sb' rb :
  build_file PE fuel proj sa r = (sa', ra) -> build_file PE fuel proj sb r = (sb', rb) ->
  Sim proj sa sb -> shape_ok proj (shape_cache sa) -> shape_ok proj (shape_cache sb) ->
  List.length proj <= fuel ->
  is_ok ra = is_ok rb /\ Sim proj sa' sb'.
Proof.
  intros Ha Hb S Sha Shb L.
  pose proof (import_terminates PE proj fuel sa r L) as NFa. rewrite Ha in NFa. cbn in NFa.
  pose proof (import_terminates PE proj fuel sb r L) as NFb. rewrite Hb in NFb. cbn in NFb.
  unfold build_file in Ha, Hb.
  destruct (lookup proj (normalize r)) as [f|] eqn:Lf; [|inversion Ha; inversion Hb; subst; auto].
  destruct (scheck_root fuel proj (shape_cache sa) f) as [sca sra] eqn:ESa.
  destruct (scheck_root fuel proj (shape_cache sb) f) as [scb srb] eqn:ESb.
  destruct (scheck_root_spec _ _ _ _ _ _ ESa Sha) as [_ [Oa [Na Fa]]].
  destruct (scheck_root_spec _ _ _ _ _ _ ESb Shb) as [_ [Ob [Nb Fb]]].
  assert (Hfr : forall sc sc', Sim proj (set_shape_cache sc sa) (set_shape_cache sc' sb))
    by (intros sc sc'; eapply Sim_frame; try eassumption; reflexivity).
  assert (Hsr : sra = SOk <-> srb = SOk).
  { split; intros E.
    - destruct srb; [reflexivity| |exfalso; apply (Fb L); reflexivity].
      exfalso. apply Nb; [apply Oa, E|reflexivity].
    - destruct sra; [reflexivity| |exfalso; apply (Fa L); reflexivity].
      exfalso. apply Na; [apply Ob, E|reflexivity]. }
  destruct sra; destruct srb;
    try (inversion Ha; inversion Hb; subst; split; [reflexivity|apply Hfr]);
    try (exfalso; destruct Hsr as [H1 H2]; (specialize (H1 eq_refl) || specialize (H2 eq_refl)); discriminate).
  destruct (link_ops fuel proj f) as [found lr] eqn:EL.
  destruct (record_parses_frame (map lock_key found) (set_shape_cache sca sa)) as [Fa1 [_ [_ [_ Fa5]]]].
  destruct (record_parses_frame (map lock_key found) (set_shape_cache scb sb)) as [Fb1 [_ [_ [_ Fb5]]]].
  cbn [set_shape_cache val_cache artifacts] in Fa1, Fa5, Fb1, Fb5.
  remember (record_parses (map lock_key found) (set_shape_cache sca sa)) as sa2 eqn:Ea2. clear Ea2.
  remember (record_parses (map lock_key found) (set_shape_cache scb sb)) as sb2 eqn:Eb2. clear Eb2.
  assert (S2 : Sim proj sa2 sb2) by (eapply Sim_frame; eassumption).
  destruct lr as [u|e]; [|inversion Ha; inversion Hb; subst; auto].
  eapply eval_file_sim; try eassumption.
  destruct (collect_sfine proj (imports f) (Oa eq_refl)) as [d G].
  exists (Datatypes.S d). cbn. rewrite Lf. exact G.
Qed.
