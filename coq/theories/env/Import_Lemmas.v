(* Proofs about the import / build model of Import.v.  Axiom-free. *)
From Ucg Require Import base.Bytes base.Bytes_Lemmas path.Path path.Path_Lemmas env.Import.

(* ================================================================== *)
(* Specification vocabulary                                            *)

Definition dom {A B} (c : list (A * B)) : list A := map fst c.

(* the import graph on normalised paths *)
Definition edge (proj : project) (a c : path) : Prop :=
  exists f i, lookup proj a = Some f /\ In i (imports f) /\ c = normalize i.

Inductive reach (proj : project) : path -> path -> Prop :=
| reach_refl a : reach proj a a
| reach_step a c d : edge proj a c -> reach proj c d -> reach proj a d.

(* at least one import step *)
Definition reach1 (proj : project) (a d : path) : Prop :=
  exists c, edge proj a c /\ reach proj c d.

(* a chain of imports from [root] leads to a file that imports itself
   (directly or not) *)
Definition cyclic_from (proj : project) (root : path) : Prop :=
  exists x, reach proj (normalize root) x /\ reach1 proj x x.

Definition has_out (proj : project) (x : path) : Prop :=
  exists f, lookup proj x = Some f /\ 1 <= outs f.

(* [good d proj p]: the import tree below [p] is finite of depth <= d (so
   acyclic), every file in it exists, none fails, none has two outs *)
Fixpoint good (d : nat) (proj : project) (p : path) : bool :=
  match d with
  | O => false
  | S d' =>
      match lookup proj (normalize p) with
      | None => false
      | Some f => negb (fails f) && (outs f <=? 1) && forallb (good d' proj) (imports f)
      end
  end.

(* every cached value is the isolated value of a good normalised path *)
Definition cache_ok (proj : project) (c : list (path * val)) : Prop :=
  forall k v, In (k, v) c ->
    k = normalize k /\ exists d, good d proj k = true /\ value_of d proj k = Some v.

(* ================================================================== *)
(* Basics                                                              *)

Lemma mem_path_In p l : mem_path p l = true <-> In p l.
Proof.
  unfold mem_path. rewrite existsb_exists. split.
  - intros [x [Hx E]]. apply bytes_eqb_spec in E. subst. exact Hx.
  - intros H. exists p. split; [exact H|apply bytes_eqb_refl].
Qed.

Lemma mem_path_nIn p l : mem_path p l = false <-> ~ In p l.
Proof.
  rewrite <- mem_path_In. destruct (mem_path p l); split; intros; congruence.
Qed.

Lemma comp_eqb_spec x y : comp_eqb x y = true <-> x = y.
Proof.
  destruct x, y; cbn; try (split; [discriminate|congruence]); try (split; reflexivity).
  rewrite bytes_eqb_spec. split; congruence.
Qed.

Lemma lkey_eqb_spec x y : lkey_eqb x y = true <-> x = y.
Proof.
  revert y; induction x as [|c x IH]; intros [|d y]; cbn;
    try (split; [discriminate|congruence]); try (split; reflexivity).
  rewrite andb_true_iff, IH, comp_eqb_spec. split.
  - intros [-> ->]; reflexivity.
  - intros H; inversion H; auto.
Qed.

Lemma mem_key_In k l : mem_key k l = true <-> In k l.
Proof.
  unfold mem_key. rewrite existsb_exists. split.
  - intros [x [Hx E]]. apply lkey_eqb_spec in E. subst. exact Hx.
  - intros H. exists k. split; [exact H|apply lkey_eqb_spec; reflexivity].
Qed.

Lemma mem_key_nIn k l : mem_key k l = false <-> ~ In k l.
Proof.
  rewrite <- mem_key_In. destruct (mem_key k l); split; intros; congruence.
Qed.

(* equal lock keys denote the same file *)
Lemma lock_key_norm a c : lock_key a = lock_key c -> normalize a = normalize c.
Proof. unfold lock_key, normalize. intros ->. reflexivity. Qed.

Lemma lock_key_inj a c :
  a = normalize a -> c = normalize c -> lock_key a = lock_key c -> a = c.
Proof. intros Ha Hc E. rewrite Ha, Hc. apply lock_key_norm, E. Qed.

Lemma find_val_In p c v : find_val p c = Some v -> In (p, v) c.
Proof.
  induction c as [|[k w] c IH]; cbn; [discriminate|].
  destruct (bytes_eqb k p) eqn:E.
  - apply bytes_eqb_spec in E. intros H; inversion H; subst. left; reflexivity.
  - intros H. right. apply IH, H.
Qed.

Lemma find_val_None p c : find_val p c = None <-> ~ In p (dom c).
Proof.
  induction c as [|[k w] c IH]; cbn; [tauto|].
  destruct (bytes_eqb k p) eqn:E.
  - apply bytes_eqb_spec in E. split; [discriminate|]. intros H; exfalso; apply H; auto.
  - apply bytes_eqb_false in E. rewrite IH. tauto.
Qed.

Lemma find_val_dom p c : In p (dom c) -> exists v, find_val p c = Some v.
Proof.
  intros H. destruct (find_val p c) eqn:E; [eauto|].
  apply find_val_None in E. contradiction.
Qed.

Lemma in_dom {A B} (k : A) (v : B) c : In (k, v) c -> In k (dom c).
Proof. intros H. apply in_map_iff. exists (k, v). auto. Qed.

Lemma dom_in {A B} (k : A) (c : list (A * B)) : In k (dom c) -> exists v, In (k, v) c.
Proof. intros H. apply in_map_iff in H. destruct H as [[k' v] [E H]]. cbn in E. subst. eauto. Qed.

Lemma lookup_In proj p f : lookup proj p = Some f -> In p (dom proj).
Proof.
  induction proj as [|[k g] proj IH]; cbn; [discriminate|].
  destruct (bytes_eqb k p) eqn:E.
  - apply bytes_eqb_spec in E. auto.
  - intros H. right. apply IH, H.
Qed.

(* ---------- map_opt / forallb *)

Lemma map_opt_Forall2 {A B} (g : A -> option B) l vs :
  map_opt g l = Some vs <-> Forall2 (fun x y => g x = Some y) l vs.
Proof.
  revert vs; induction l as [|x l IH]; intros vs; cbn.
  - split; intros H; inversion H; constructor.
  - destruct (g x) eqn:E.
    + destruct (map_opt g l) eqn:E2.
      * split; intros H; inversion H; subst.
        -- constructor; [exact E|apply IH; reflexivity].
        -- match goal with H1 : Forall2 _ l _ |- _ => apply IH in H1; inversion H1 end. congruence.
      * split; [discriminate|]. intros H; inversion H; subst.
        match goal with H1 : Forall2 _ l _ |- _ => apply IH in H1; discriminate end.
    + split; [discriminate|]. intros H; inversion H; congruence.
Qed.

Lemma Forall2_weaken {A B} (P Q : A -> B -> Prop) l l' :
  (forall x y, P x y -> Q x y) -> Forall2 P l l' -> Forall2 Q l l'.
Proof. intros H F. induction F; constructor; auto. Qed.

(* ---------- monotonicity in the depth *)

Lemma value_of_mono proj : forall d d' p v,
  value_of d proj p = Some v -> d <= d' -> value_of d' proj p = Some v.
Proof.
  induction d as [|d IH]; intros d' p v H Hle; [discriminate|].
  destruct d' as [|d']; [lia|]. cbn in *.
  destruct (lookup proj (normalize p)) as [f|]; [|discriminate].
  destruct (map_opt (value_of d proj) (imports f)) as [vs|] eqn:E; [|discriminate].
  assert (map_opt (value_of d' proj) (imports f) = Some vs) as ->; [|exact H].
  apply map_opt_Forall2. apply map_opt_Forall2 in E.
  eapply Forall2_weaken; [|exact E]. cbn. intros x y Hxy. apply IH; [assumption|lia].
Qed.

Lemma good_mono proj : forall d d' p,
  good d proj p = true -> d <= d' -> good d' proj p = true.
Proof.
  induction d as [|d IH]; intros d' p H Hle; [discriminate|].
  destruct d' as [|d']; [lia|]. cbn in *.
  destruct (lookup proj (normalize p)) as [f|]; [|discriminate].
  apply andb_true_iff in H. destruct H as [H1 H2]. rewrite H1. cbn.
  rewrite forallb_forall in *. intros x Hx. apply IH; [auto|lia].
Qed.

Lemma value_of_fun proj d1 d2 p v w :
  value_of d1 proj p = Some v -> value_of d2 proj p = Some w -> v = w.
Proof.
  intros H1 H2.
  apply value_of_mono with (d' := Nat.max d1 d2) in H1; [|lia].
  apply value_of_mono with (d' := Nat.max d1 d2) in H2; [|lia].
  congruence.
Qed.

Lemma value_of_normalize proj d p : value_of d proj (normalize p) = value_of d proj p.
Proof. destruct d; cbn; [reflexivity|]. rewrite normalize_idem_any. reflexivity. Qed.

Lemma good_normalize proj d p : good d proj (normalize p) = good d proj p.
Proof. destruct d; cbn; [reflexivity|]. rewrite normalize_idem_any. reflexivity. Qed.

(* a good path has a value *)
Lemma good_value proj : forall d p, good d proj p = true -> exists v, value_of d proj p = Some v.
Proof.
  induction d as [|d IH]; intros p H; [discriminate|]. cbn in *.
  destruct (lookup proj (normalize p)) as [f|]; [|discriminate].
  apply andb_true_iff in H. destruct H as [_ H]. rewrite forallb_forall in H.
  assert (exists vs, map_opt (value_of d proj) (imports f) = Some vs) as [vs ->]; [|eauto].
  induction (imports f) as [|x l IHl]; cbn; [eauto|].
  destruct (IH x) as [v ->]; [apply H; left; reflexivity|].
  destruct IHl as [vs ->]; [intros y Hy; apply H; right; exact Hy|]. eauto.
Qed.

(* collect per-import witnesses into one depth *)
Lemma collect_depth proj ps vs :
  Forall2 (fun p v => exists d, good d proj p = true /\ value_of d proj p = Some v) ps vs ->
  exists d, forallb (good d proj) ps = true /\ map_opt (value_of d proj) ps = Some vs.
Proof.
  induction 1 as [|p v ps vs [d1 [G1 V1]] _ [d2 [G2 V2]]].
  - exists 0. split; reflexivity.
  - exists (Nat.max d1 d2). cbn.
    rewrite (good_mono proj d1 _ p G1) by lia. cbn.
    rewrite (value_of_mono proj d1 _ p v V1) by lia.
    split.
    + rewrite forallb_forall in *. intros x Hx. apply good_mono with d2; [auto|lia].
    + assert (map_opt (value_of (Nat.max d1 d2) proj) ps = Some vs) as ->; [|reflexivity].
      apply map_opt_Forall2. apply map_opt_Forall2 in V2.
      eapply Forall2_weaken; [|exact V2]. cbn. intros x y Hxy. apply value_of_mono with d2; [auto|lia].
Qed.

Lemma mode_cases (m : lock_mode) : m = LockPerInvocation \/ m = LockPerEvaluation.
Proof. destruct m; auto. Qed.

(* ================================================================== *)
(* Everything below is proved for BOTH lock modes ([md] is a section
   variable [md], after the section every lemma starts with [forall md]);
   where the mode matters a hypothesis [md = LockPerInvocation -> ...] appears.  *)
Section Mode.
Variable md : lock_mode.
Local Notation eval_body := (Import.eval_body md).
Local Notation import := (Import.import md).
Local Notation eval_file := (Import.eval_file md).
Local Notation build_file := (Import.build_file md).

(* ================================================================== *)
(* Frame lemmas                                                        *)

Lemma reset_lock_frame k st :
  val_cache (reset_lock md k st) = val_cache st /\
  shape_cache (reset_lock md k st) = shape_cache st /\
  evaluations (reset_lock md k st) = evaluations st /\
  artifacts (reset_lock md k st) = artifacts st /\
  (forall k', In k' (out_lock (reset_lock md k st)) -> In k' (out_lock st)).
Proof.
  unfold reset_lock. destruct md; cbn; repeat split; auto.
  intros k' H. apply filter_In in H. apply H.
Qed.

Lemma reset_lock_pe k st : md = LockPerEvaluation -> ~ In k (out_lock (reset_lock md k st)).
Proof.
  intros -> H. cbn in H. apply filter_In in H. destruct H as [_ H].
  assert (lkey_eqb k k = true) by (apply lkey_eqb_spec; reflexivity). rewrite H0 in H. discriminate.
Qed.

Lemma record_parse_frame k st :
  val_cache (record_parse k st) = val_cache st /\
  shape_cache (record_parse k st) = shape_cache st /\
  out_lock (record_parse k st) = out_lock st /\
  evaluations (record_parse k st) = evaluations st /\
  artifacts (record_parse k st) = artifacts st.
Proof. unfold record_parse. destruct (mem_key k (op_cache st)); cbn; auto. Qed.

Lemma run_outs_frame k a : forall n st st' r,
  run_outs k a n st = (st', r) ->
  val_cache st' = val_cache st /\ shape_cache st' = shape_cache st /\
  op_cache st' = op_cache st /\ evaluations st' = evaluations st.
Proof.
  induction n as [|n IH]; intros st st' r H; cbn in H.
  - inversion H; subst; auto.
  - destruct (mem_key k (out_lock st)); [inversion H; subst; auto|].
    apply IH in H. cbn in H. exact H.
Qed.

Lemma run_outs_ok k a n st st' u :
  run_outs k a n st = (st', Ok u) -> n <= 1.
Proof.
  destruct n as [|[|n]]; [lia|lia|]. cbn [run_outs].
  destruct (mem_key k (out_lock st)); [discriminate|].
  assert (mem_key k (out_lock (do_out k a st)) = true) as ->; [|discriminate].
  apply mem_key_In. left; reflexivity.
Qed.

(* ================================================================== *)
(* G1: the import hook is sound: values, goodness, evaluation history   *)

Definition hook := list path -> state -> path -> state * list path * result val.

(* the evaluations started by a step: each path at most once, none that was
   cached or in progress; all cached afterwards if the step succeeded *)
Definition evs_ok (stack : list path) (st st' : state) (ok : bool) : Prop :=
  exists ev, evaluations st' = evaluations st ++ ev /\ NoDup ev /\
    (forall x, In x ev -> ~ In x (dom (val_cache st)) /\ ~ In x stack) /\
    (ok = true -> incl ev (dom (val_cache st'))).

Definition witness (proj : project) (p : path) (v : val) : Prop :=
  exists d, good d proj p = true /\ value_of d proj p = Some v.

Definition post (proj : project) (stack : list path) (st st' : state)
           (stack' : list path) (ok : bool) : Prop :=
  cache_ok proj (val_cache st') /\
  incl (dom (val_cache st)) (dom (val_cache st')) /\
  evs_ok stack st st' ok /\
  (exists ext, stack' = stack ++ ext /\ (ok = true -> incl ext (dom (val_cache st')))).

Definition hook_spec (proj : project) (imp : hook) : Prop :=
  forall stack st p st' stack' r,
    imp stack st p = (st', stack', r) -> cache_ok proj (val_cache st) ->
    post proj stack st st' stack' (is_ok r) /\
    (forall v, r = Ok v -> find_val (normalize p) (val_cache st') = Some v /\ witness proj p v).

Lemma NoDup_app_intro {A} (l1 l2 : list A) :
  NoDup l1 -> NoDup l2 -> (forall x, In x l1 -> In x l2 -> False) -> NoDup (l1 ++ l2).
Proof.
  induction l1 as [|a l1 IH]; intros N1 N2 D; cbn; [exact N2|].
  inversion N1; subst. constructor.
  - intros H. apply in_app_or in H. destruct H as [H|H]; [contradiction|].
    apply (D a); [left; reflexivity|exact H].
  - apply IH; auto. intros x Hx1 Hx2. apply (D x); [right; exact Hx1|exact Hx2].
Qed.

Lemma evs_ok_refl stack st ok : evs_ok stack st st ok.
Proof.
  exists []. rewrite app_nil_r. repeat split; try constructor; try contradiction.
  intros _ x Hx; contradiction.
Qed.

Lemma post_refl proj stack st ok :
  cache_ok proj (val_cache st) -> post proj stack st st stack ok.
Proof.
  intros H. split; [exact H|]. split; [apply incl_refl|]. split; [apply evs_ok_refl|].
  exists []. rewrite app_nil_r. split; [reflexivity|]. intros _ x Hx; contradiction.
Qed.

(* sequencing two steps, the first of which succeeded *)
Lemma evs_ok_seq stack st st1 stack1 st2 ok :
  evs_ok stack st st1 true ->
  incl (dom (val_cache st)) (dom (val_cache st1)) ->
  incl (dom (val_cache st1)) (dom (val_cache st2)) ->
  (forall x, In x stack -> In x stack1) ->
  evs_ok stack1 st1 st2 ok ->
  evs_ok stack st st2 ok.
Proof.
  intros [ev1 [E1 [N1 [D1 C1]]]] I1 I2 Hs [ev2 [E2 [N2 [D2 C2]]]].
  exists (ev1 ++ ev2). split; [rewrite E2, E1, app_assoc; reflexivity|].
  split; [|split].
  - apply NoDup_app_intro; [exact N1|exact N2|].
    intros x H1 H2. apply D2 in H2. apply (proj1 H2). apply C1; auto.
  - intros x Hx. apply in_app_or in Hx. destruct Hx as [Hx|Hx]; [apply D1, Hx|].
    apply D2 in Hx. destruct Hx as [Ha Hb]. split; intros H; [apply Ha, I1, H|apply Hb, Hs, H].
  - intros Hok x Hx. apply in_app_or in Hx. destruct Hx as [Hx|Hx].
    + apply I2, C1; auto.
    + apply C2; auto.
Qed.

Lemma post_seq proj stack st st1 stack1 st2 stack2 ok :
  post proj stack st st1 stack1 true -> post proj stack1 st1 st2 stack2 ok ->
  post proj stack st st2 stack2 ok.
Proof.
  intros [C1 [I1 [E1 [ext1 [S1 X1]]]]] [C2 [I2 [E2 [ext2 [S2 X2]]]]].
  split; [exact C2|]. split; [eapply incl_tran; eassumption|]. split.
  - eapply evs_ok_seq; try eassumption. intros x Hx. rewrite S1. apply in_or_app; auto.
  - exists (ext1 ++ ext2). split; [rewrite S2, S1, app_assoc; reflexivity|].
    intros Hok x Hx. apply in_app_or in Hx. destruct Hx as [Hx|Hx].
    + apply I2, X1; auto.
    + apply X2; auto.
Qed.

Lemma run_imports_spec proj imp : hook_spec proj imp ->
  forall ps stack st st' stack' r,
    run_imports imp ps stack st = (st', stack', r) -> cache_ok proj (val_cache st) ->
    post proj stack st st' stack' (is_ok r) /\
    (forall vs, r = Ok vs -> Forall2 (witness proj) ps vs).
Proof.
  intros HS. induction ps as [|p ps IH]; intros stack st st' stack' r H C; cbn in H.
  - inversion H; subst. split; [apply post_refl, C|]. intros vs E; inversion E; constructor.
  - destruct (imp stack st p) as [[st1 stack1] r1] eqn:E1.
    destruct (HS _ _ _ _ _ _ E1 C) as [P1 V1].
    destruct r1 as [v|e]; [|inversion H; subst; split; [exact P1|discriminate]].
    destruct (run_imports imp ps stack1 st1) as [[st2 stack2] r2] eqn:E2.
    destruct (IH _ _ _ _ _ E2 (proj1 P1)) as [P2 V2].
    destruct r2 as [vs|e]; inversion H; subst.
    + split; [eapply post_seq; eassumption|].
      intros vs' E; inversion E; subst. constructor; [apply V1; reflexivity|apply V2; reflexivity].
    + split; [eapply post_seq; eassumption|discriminate].
Qed.

Lemma eval_body_spec proj imp : hook_spec proj imp ->
  forall stack st n k f st' r,
    eval_body imp stack st n k f = (st', r) -> cache_ok proj (val_cache st) ->
    n = normalize n -> lookup proj n = Some f ->
    cache_ok proj (val_cache st') /\
    incl (dom (val_cache st)) (dom (val_cache st')) /\
    (exists ev, evaluations st' = evaluations st ++ n :: ev /\ NoDup ev /\
       (forall x, In x ev -> ~ In x (dom (val_cache st)) /\ ~ In x stack) /\
       (is_ok r = true -> incl ev (dom (val_cache st')))) /\
    (forall v, r = Ok v -> witness proj n v).
Proof.
  intros HS stack st n k f st' r H C Hn Hf. unfold Import.eval_body in H.
  destruct (run_imports imp (imports f) stack (record_eval n (reset_lock md k st))) as [[st1 stack1] r1] eqn:E1.
  destruct (reset_lock_frame k st) as [R1 [_ [R3 _]]].
  assert (C0 : cache_ok proj (val_cache (record_eval n (reset_lock md k st))))
    by (cbn [record_eval val_cache]; rewrite R1; exact C).
  destruct (run_imports_spec proj imp HS _ _ _ _ _ _ E1 C0) as [[C1 [I1 [[ev [EV [ND [DJ CV]]]] _]]] V1].
  cbn [record_eval val_cache evaluations] in I1, EV, DJ. rewrite R1 in I1, DJ. rewrite R3 in EV.
  rewrite <- app_assoc in EV. cbn in EV.
  destruct r1 as [vs|e].
  - destruct (run_outs k (n, Val n vs) (outs f) st1) as [st2 r2] eqn:E2.
    pose proof (run_outs_frame _ _ _ _ _ _ E2) as [F1 [_ [_ F4]]].
    assert (Hcommon : cache_ok proj (val_cache st2) /\
      incl (dom (val_cache st)) (dom (val_cache st2)) /\
      (exists ev, evaluations st2 = evaluations st ++ n :: ev /\ NoDup ev /\
         (forall x, In x ev -> ~ In x (dom (val_cache st)) /\ ~ In x stack) /\
         (incl ev (dom (val_cache st2))))).
    { rewrite F1, F4. split; [exact C1|]. split; [exact I1|]. exists ev. auto. }
    destruct Hcommon as [Ca [Ia [ev' [Ea [Na [Da Va]]]]]].
    assert (Hfin : forall r', (forall v, r' = Ok v -> witness proj n v) ->
      cache_ok proj (val_cache st2) /\ incl (dom (val_cache st)) (dom (val_cache st2)) /\
      (exists ev, evaluations st2 = evaluations st ++ n :: ev /\ NoDup ev /\
       (forall x, In x ev -> ~ In x (dom (val_cache st)) /\ ~ In x stack) /\
       (is_ok r' = true -> incl ev (dom (val_cache st2)))) /\
      (forall v, r' = Ok v -> witness proj n v)).
    { intros r' W. split; [exact Ca|]. split; [exact Ia|]. split; [|exact W]. exists ev'. auto. }
    destruct r2 as [u|e]; [|inversion H; subst; apply Hfin; discriminate].
    destruct (fails f) eqn:Ff; inversion H; subst; apply Hfin; [discriminate|].
    intros v E; inversion E; subst.
    destruct (collect_depth proj _ _ (V1 _ eq_refl)) as [d [G V]].
    exists (S d). cbn. rewrite <- Hn, Hf, Ff, G, V. cbn.
    apply run_outs_ok in E2. apply Nat.leb_le in E2. rewrite E2. auto.
  - inversion H; subst. split; [exact C1|]. split; [exact I1|]. split; [|discriminate].
    exists ev. auto.
Qed.

Theorem import_spec proj : forall fuel, hook_spec proj (import fuel proj).
Proof.
  induction fuel as [|fuel IH]; intros stack st p st' stack' r H C; cbn [Import.import] in H;
    (destruct (find_val (normalize p) (val_cache st)) as [v|] eqn:Fv;
     [inversion H; subst; split; [apply post_refl, C|];
      intros v' E; inversion E; subst; split; [exact Fv|];
      apply find_val_In, C in Fv; destruct Fv as [_ [d [G V]]];
      exists d; rewrite <- good_normalize, <- value_of_normalize; auto|]);
    (destruct (mem_path (normalize p) stack) eqn:Ms;
     [inversion H; subst; split; [apply post_refl, C|discriminate]|]);
    (destruct (lookup proj (normalize p)) as [f|] eqn:Lf;
     [|inversion H; subst; split; [apply post_refl, C|discriminate]]).
  - inversion H; subst; split; [apply post_refl, C|discriminate].
  - set (n := normalize p) in *.
    destruct (eval_body (import fuel proj) (stack ++ [n]) (record_parse (lock_key n) st) n (lock_key n) f)
      as [st2 r2] eqn:EB.
    assert (Hn : n = normalize n) by (subst n; symmetry; apply normalize_idem_any).
    pose proof (record_parse_frame (lock_key n) st) as [F1 [_ [_ [F4 _]]]].
    apply (eval_body_spec proj _ IH) in EB; [|rewrite F1; exact C|exact Hn|exact Lf].
    rewrite F1, F4 in EB. destruct EB as [C2 [I2 [[ev [EV [ND [DJ CV]]]] W]]].
    apply find_val_None in Fv. apply mem_path_nIn in Ms.
    assert (Nn : NoDup (n :: ev)).
    { constructor; [|exact ND]. intros Hin. apply DJ in Hin. apply (proj2 Hin).
      apply in_or_app; right; left; reflexivity. }
    assert (Dn : forall x, In x (n :: ev) -> ~ In x (dom (val_cache st)) /\ ~ In x stack).
    { intros x [<-|Hx]; [split; assumption|]. apply DJ in Hx. destruct Hx as [Ha Hb].
      split; [exact Ha|]. intros Hs; apply Hb, in_or_app; auto. }
    destruct r2 as [v|e]; inversion H; subst st' stack' r; clear H.
    + destruct (W v eq_refl) as [d [G V]].
      split; [|intros v' E; inversion E; subst v'; cbn; rewrite bytes_eqb_refl; split; [reflexivity|];
               exists d; subst n; rewrite <- good_normalize, <- value_of_normalize; auto].
      split; [|split; [|split]].
      * intros k w [E|Hin]; [inversion E; subst; split; [exact Hn|eauto]|apply C2, Hin].
      * cbn. apply incl_tl, I2.
      * exists (n :: ev). cbn. split; [exact EV|]. split; [exact Nn|]. split; [exact Dn|].
        intros _ x [<-|Hx]; [left; reflexivity|right; apply CV; auto].
      * exists [n]. split; [reflexivity|]. intros _ x [<-|[]]. left; reflexivity.
    + split; [|discriminate]. split; [exact C2|]. split; [exact I2|]. split.
      * exists (n :: ev). split; [exact EV|]. split; [exact Nn|]. split; [exact Dn|discriminate].
      * exists []. rewrite app_nil_r. split; [reflexivity|discriminate].
Qed.

(* ================================================================== *)
(* G2: fuel.  Measure: number of files minus length of the import stack *)

Definition hook_fuel (proj : project) (imp : hook) (m : nat) : Prop :=
  forall stack st p st' stack' r,
    imp stack st p = (st', stack', r) ->
    NoDup stack -> incl stack (dom proj) -> m <= List.length stack ->
    r <> Err OutOfFuel /\ NoDup stack' /\ incl stack' (dom proj) /\
    List.length stack <= List.length stack'.

Lemma NoDup_snoc {A} (l : list A) x : NoDup l -> ~ In x l -> NoDup (l ++ [x]).
Proof.
  intros N H. apply NoDup_app_intro; [exact N|repeat constructor; intros []|].
  intros y H1 [<-|[]]. contradiction.
Qed.

Lemma run_outs_err k a : forall n st st' e,
  run_outs k a n st = (st', Err e) -> e = OutLock.
Proof.
  induction n as [|n IH]; intros st st' e H; cbn in H; [discriminate|].
  destruct (mem_key k (out_lock st)); [inversion H; reflexivity|]. eapply IH, H.
Qed.

Lemma run_imports_fuel proj imp m : hook_fuel proj imp m ->
  forall ps stack st st' stack' r,
    run_imports imp ps stack st = (st', stack', r) ->
    NoDup stack -> incl stack (dom proj) -> m <= List.length stack ->
    r <> Err OutOfFuel /\ NoDup stack' /\ incl stack' (dom proj) /\
    List.length stack <= List.length stack'.
Proof.
  intros HF. induction ps as [|p ps IH]; intros stack st st' stack' r H N I L; cbn in H.
  - inversion H; subst. repeat split; auto; discriminate.
  - destruct (imp stack st p) as [[st1 stack1] r1] eqn:E1.
    destruct (HF _ _ _ _ _ _ E1 N I L) as [R1 [N1 [I1 L1]]].
    destruct r1 as [v|e];
      [|inversion H; subst; repeat split; auto; intros X; inversion X; subst; apply R1; reflexivity].
    destruct (run_imports imp ps stack1 st1) as [[st2 stack2] r2] eqn:E2.
    destruct (IH _ _ _ _ _ E2 N1 I1 ltac:(lia)) as [R2 [N2 [I2 L2]]].
    destruct r2 as [vs|e]; inversion H; subst; repeat split; auto; try lia; try discriminate.
Qed.

Lemma eval_body_fuel proj imp m : hook_fuel proj imp m ->
  forall stack st n k f st' r,
    eval_body imp stack st n k f = (st', r) ->
    NoDup stack -> incl stack (dom proj) -> m <= List.length stack ->
    r <> Err OutOfFuel.
Proof.
  intros HF stack st n k f st' r H N I L. unfold Import.eval_body in H.
  destruct (run_imports imp (imports f) stack (record_eval n (reset_lock md k st))) as [[st1 stack1] r1] eqn:E1.
  destruct (run_imports_fuel proj imp m HF _ _ _ _ _ _ E1 N I L) as [R1 _].
  destruct r1 as [vs|e]; [|inversion H; subst; congruence].
  destruct (run_outs k (n, Val n vs) (outs f) st1) as [st2 r2] eqn:E2.
  destruct r2 as [u|e].
  - destruct (fails f); inversion H; discriminate.
  - apply run_outs_err in E2. inversion H; subst. discriminate.
Qed.

Lemma import_fuel proj : forall fuel,
  hook_fuel proj (import fuel proj) (List.length proj - fuel).
Proof.
  induction fuel as [|fuel IH]; intros stack st p st' stack' r H N I L; cbn [Import.import] in H;
    (destruct (find_val (normalize p) (val_cache st)) as [v|] eqn:Fv;
     [inversion H; subst; repeat split; auto; discriminate|]);
    (destruct (mem_path (normalize p) stack) eqn:Ms;
     [inversion H; subst; repeat split; auto; discriminate|]);
    (destruct (lookup proj (normalize p)) as [f|] eqn:Lf;
     [|inversion H; subst; repeat split; auto; discriminate]);
    apply mem_path_nIn in Ms; apply lookup_In in Lf;
    assert (Hlen : S (List.length stack) <= List.length proj)
      by (unfold dom in *; rewrite <- (map_length fst proj);
          apply (NoDup_incl_length (l := normalize p :: stack));
          [constructor; assumption|intros x [<-|Hx]; auto]).
  - exfalso. lia.
  - set (n := normalize p) in *.
    destruct (eval_body (import fuel proj) (stack ++ [n]) (record_parse (lock_key n) st) n (lock_key n) f)
      as [st2 r2] eqn:EB.
    assert (N' : NoDup (stack ++ [n])) by (apply NoDup_snoc; assumption).
    assert (I' : incl (stack ++ [n]) (dom proj))
      by (intros x Hx; apply in_app_or in Hx; destruct Hx as [Hx|[<-|[]]]; auto).
    apply (eval_body_fuel proj _ _ IH) in EB; auto; [|rewrite app_length; cbn; lia].
    destruct r2 as [v|e]; inversion H; subst; repeat split; auto; try discriminate; try congruence.
    rewrite app_length; lia.
Qed.

(* ================================================================== *)
(* Graph facts                                                         *)

Lemma reach_trans proj a c d : reach proj a c -> reach proj c d -> reach proj a d.
Proof. induction 1; intros; auto. econstructor; eauto. Qed.

Lemma reach_edge proj a c d : reach proj a c -> edge proj c d -> reach proj a d.
Proof. intros H E. eapply reach_trans; [exact H|]. econstructor; [exact E|constructor]. Qed.

Lemma reach1_reach' proj a d : reach1 proj a d -> reach proj a d.
Proof. intros [c [E R]]. econstructor; eassumption. Qed.

Lemma good_edge proj d p x :
  good (S d) proj p = true -> edge proj (normalize p) x -> good d proj x = true.
Proof.
  cbn. intros G [f [i [L [Hi ->]]]]. rewrite L in G.
  apply andb_true_iff in G. destruct G as [_ G]. rewrite forallb_forall in G.
  rewrite good_normalize. apply G, Hi.
Qed.

Lemma reach_normal proj a c : reach proj a c -> a = normalize a -> c = normalize c.
Proof.
  induction 1 as [|a c d E R IH]; intros Ha; [exact Ha|].
  apply IH. destruct E as [f [i [_ [_ ->]]]]. symmetry; apply normalize_idem_any.
Qed.

(* goodness is inherited by everything reachable *)
Lemma good_reach proj : forall d p x,
  good d proj p = true -> reach proj (normalize p) x -> good d proj x = true.
Proof.
  intros d p x G R. remember (normalize p) as a eqn:Ea. revert d p G Ea.
  induction R as [a|a c e E R IH]; intros d p G ->.
  - rewrite good_normalize. exact G.
  - destruct d as [|d]; [discriminate|].
    pose proof (good_edge _ _ _ _ G E) as Gc.
    apply good_mono with d; [|lia].
    apply (IH d c Gc). destruct E as [f [i [_ [_ ->]]]]. symmetry; apply normalize_idem_any.
Qed.

(* a good path is not on a cycle *)
Lemma good_acyclic proj : forall d p,
  good d proj p = true -> ~ reach1 proj (normalize p) (normalize p).
Proof.
  induction d as [|d IH]; intros p G [c [E R]]; [discriminate|].
  pose proof (good_edge _ _ _ _ G E) as Gc.
  assert (Hc : c = normalize c)
    by (destruct E as [f [i [_ [_ ->]]]]; symmetry; apply normalize_idem_any).
  apply (IH c Gc). rewrite <- Hc.
  inversion R as [|a c' e E' R']; subst.
  - exists (normalize p). split; [exact E|constructor].
  - exists c'. split; [exact E'|]. eapply reach_edge; eassumption.
Qed.

Lemma good_not_cyclic proj d root : good d proj root = true -> ~ cyclic_from proj root.
Proof.
  intros G [x [R C]].
  pose proof (good_reach _ _ _ _ G R) as Gx.
  apply (good_acyclic _ _ _ Gx).
  assert (Hx : x = normalize x)
    by (eapply reach_normal; [exact R|symmetry; apply normalize_idem_any]).
  rewrite <- Hx. exact C.
Qed.

(* ================================================================== *)
(* The VM run of a root file (eval_file)                               *)

Lemma cache_ok_empty proj : cache_ok proj [].
Proof. intros k v []. Qed.

Lemma eval_file_spec proj fuel st r st' res :
  eval_file fuel proj st r = (st', res) -> cache_ok proj (val_cache st) ->
  cache_ok proj (val_cache st') /\
  incl (dom (val_cache st)) (dom (val_cache st')) /\
  (exists ev, evaluations st' = evaluations st ++ ev /\ NoDup ev /\
     (forall x, In x ev -> x = normalize r \/ ~ In x (dom (val_cache st)))) /\
  (forall v, res = Ok v -> witness proj r v).
Proof.
  unfold Import.eval_file. intros H C.
  destruct (lookup proj (normalize r)) as [f|] eqn:Lf.
  - pose proof (record_parse_frame (lock_key r) st) as [F1 [_ [_ [F4 _]]]].
    apply (eval_body_spec proj _ (import_spec proj fuel)) in H;
      [|rewrite F1; exact C|symmetry; apply normalize_idem_any|exact Lf].
    rewrite F1, F4 in H. destruct H as [C2 [I2 [[ev [EV [ND [DJ CV]]]] W]]].
    split; [exact C2|]. split; [exact I2|]. split.
    + exists (normalize r :: ev). split; [exact EV|]. split.
      * constructor; [|exact ND]. intros Hin. apply DJ in Hin. apply (proj2 Hin). left; reflexivity.
      * (* the root itself may be cached (built after being imported): it
           is evaluated again all the same *)
        intros x [<-|Hx]; [left; reflexivity|right; apply DJ, Hx].
    + intros v E. destruct (W v E) as [d [G V]]. exists d.
      rewrite <- good_normalize, <- value_of_normalize. auto.
  - inversion H; subst. split; [exact C|]. split; [apply incl_refl|]. split; [|discriminate].
    exists []. rewrite app_nil_r. repeat split; [constructor|intros x []].
Qed.

(* ---------- C09 at the VM level *)

(* one VM run of a root from the empty Environment evaluates every file at
   most once *)
Theorem eval_evaluates_once : forall fuel proj root,
  NoDup (evaluations (fst (eval_file fuel proj empty_state root))).
Proof.
  intros fuel proj root.
  destruct (eval_file fuel proj empty_state root) as [st' res] eqn:E.
  apply eval_file_spec in E; [|apply cache_ok_empty].
  destruct E as [_ [_ [[ev [EV [ND _]]] _]]]. cbn in *. rewrite EV. exact ND.
Qed.

(* every import that succeeds returns the isolated value of the path; two
   imports of spellings of the same file, at any two moments of any builds
   over the same project, return the same value *)
Theorem import_value_of : forall proj fuel stack st p st' stack' v,
  cache_ok proj (val_cache st) ->
  import fuel proj stack st p = (st', stack', Ok v) ->
  exists d, value_of d proj p = Some v.
Proof.
  intros proj fuel stack st p st' stack' v C H.
  destruct (import_spec proj fuel _ _ _ _ _ _ H C) as [_ W].
  destruct (W v eq_refl) as [_ [d [_ V]]]. eauto.
Qed.

Theorem import_same_value : forall proj fuel1 fuel2 stack1 stack2 st1 st2 p q
                                   st1' st2' stack1' stack2' v w,
  cache_ok proj (val_cache st1) -> cache_ok proj (val_cache st2) ->
  normalize p = normalize q ->
  import fuel1 proj stack1 st1 p = (st1', stack1', Ok v) ->
  import fuel2 proj stack2 st2 q = (st2', stack2', Ok w) ->
  v = w.
Proof.
  intros proj fuel1 fuel2 stack1 stack2 st1 st2 p q st1' st2' stack1' stack2' v w C1 C2 E H1 H2.
  destruct (import_value_of _ _ _ _ _ _ _ _ C1 H1) as [d1 V1].
  destruct (import_value_of _ _ _ _ _ _ _ _ C2 H2) as [d2 V2].
  rewrite <- value_of_normalize in V1, V2. rewrite E in V1.
  eapply value_of_fun; eassumption.
Qed.

(* the invariant [cache_ok] holds in every Environment a build can reach *)
Theorem import_preserves_cache_ok : forall proj fuel stack st p st' stack' r,
  cache_ok proj (val_cache st) ->
  import fuel proj stack st p = (st', stack', r) -> cache_ok proj (val_cache st').
Proof.
  intros proj fuel stack st p st' stack' r C H.
  destruct (import_spec proj fuel _ _ _ _ _ _ H C) as [[C' _] _]. exact C'.
Qed.

(* spellings: the import hook is a function of [normalize p] only, hence two
   spellings of one file hit the same cache entry *)
Lemma import_normalize : forall fuel proj stack st p,
  import fuel proj stack st (normalize p) = import fuel proj stack st p.
Proof. intros. destruct fuel; cbn [Import.import]; rewrite normalize_idem_any; reflexivity. Qed.

Theorem spelling_irrelevant : forall p q, absolute p -> absolute q -> resolve p = resolve q ->
  forall fuel proj stack st, import fuel proj stack st p = import fuel proj stack st q.
Proof.
  intros p q Hp Hq E fuel proj stack st.
  rewrite <- (import_normalize _ _ _ _ p), <- (import_normalize _ _ _ _ q).
  rewrite (normalize_equiv p q Hp Hq E). reflexivity.
Qed.

(* ... in particular after one spelling has been imported, any other spelling
   is served from the value cache without a new evaluation *)
Theorem spelling_cache_hit : forall p q, absolute p -> absolute q -> resolve p = resolve q ->
  forall fuel fuel' proj stack st st' stack' v stack2,
    cache_ok proj (val_cache st) ->
    import fuel proj stack st p = (st', stack', Ok v) ->
    import fuel' proj stack2 st' q = (st', stack2, Ok v).
Proof.
  intros p q Hp Hq E fuel fuel' proj stack st st' stack' v stack2 C H.
  destruct (import_spec proj fuel _ _ _ _ _ _ H C) as [_ W].
  destruct (W v eq_refl) as [Fv _].
  rewrite (normalize_equiv p q Hp Hq E) in Fv.
  destruct fuel'; cbn [Import.import]; rewrite Fv; reflexivity.
Qed.

(* fuel: the number of files suffices, from any Environment *)
Theorem eval_terminates : forall proj fuel st root,
  List.length proj <= S fuel -> snd (eval_file fuel proj st root) <> Err OutOfFuel.
Proof.
  intros proj fuel st root L. unfold Import.eval_file.
  destruct (lookup proj (normalize root)) as [f|] eqn:Lf; [|cbn; discriminate].
  destruct (eval_body _ _ _ _ _ _) as [st' r] eqn:EB. cbn.
  apply (eval_body_fuel proj _ _ (import_fuel proj fuel)) in EB; auto.
  - repeat constructor. intros [].
  - intros x [<-|[]]. eapply lookup_In, Lf.
  - cbn. lia.
Qed.

(* a reachable import cycle: the VM run never succeeds, and (previous
   theorem) does not diverge *)
Theorem eval_cycle_is_error : forall proj fuel st root,
  cache_ok proj (val_cache st) -> cyclic_from proj root ->
  exists e, snd (eval_file fuel proj st root) = Err e.
Proof.
  intros proj fuel st root C Cy.
  destruct (eval_file fuel proj st root) as [st' res] eqn:E. cbn.
  destruct res as [v|e]; [|eauto]. exfalso.
  apply eval_file_spec in E; [|exact C]. destruct E as [_ [_ [_ W]]].
  destruct (W v eq_refl) as [d [G _]]. eapply good_not_cyclic; eassumption.
Qed.

(* ================================================================== *)
(* G3: the static phase                                                *)

(* the static import tree below [p] is finite (unreadable files are leaves) *)
Fixpoint sfine (d : nat) (proj : project) (p : path) : bool :=
  match d with
  | O => false
  | S d' =>
      match lookup proj (normalize p) with
      | None => true
      | Some f => forallb (sfine d' proj) (imports f)
      end
  end.

Definition shape_ok (proj : project) (sc : list path) : Prop :=
  forall k, In k sc -> k = normalize k /\ exists d, sfine d proj k = true.

Lemma sfine_mono proj : forall d d' p,
  sfine d proj p = true -> d <= d' -> sfine d' proj p = true.
Proof.
  induction d as [|d IH]; intros d' p H Hle; [discriminate|].
  destruct d' as [|d']; [lia|]. cbn in *.
  destruct (lookup proj (normalize p)) as [f|]; [|reflexivity].
  rewrite forallb_forall in *. intros x Hx. apply IH; [auto|lia].
Qed.

Lemma sfine_normalize proj d p : sfine d proj (normalize p) = sfine d proj p.
Proof. destruct d; cbn; [reflexivity|]. rewrite normalize_idem_any. reflexivity. Qed.

Lemma good_sfine proj : forall d p, good d proj p = true -> sfine d proj p = true.
Proof.
  induction d as [|d IH]; intros p G; [discriminate|]. cbn in *.
  destruct (lookup proj (normalize p)) as [f|]; [|reflexivity].
  apply andb_true_iff in G. destruct G as [_ G].
  rewrite forallb_forall in *. auto.
Qed.

Lemma sfine_edge proj d p x :
  sfine (S d) proj p = true -> edge proj (normalize p) x -> sfine d proj x = true.
Proof.
  cbn. intros G [f [i [L [Hi ->]]]]. rewrite L in G.
  rewrite forallb_forall in G. rewrite sfine_normalize. apply G, Hi.
Qed.

Lemma sfine_acyclic proj : forall d p,
  sfine d proj p = true -> ~ reach1 proj (normalize p) (normalize p).
Proof.
  induction d as [|d IH]; intros p G [c [E R]]; [discriminate|].
  pose proof (sfine_edge _ _ _ _ G E) as Gc.
  assert (Hc : c = normalize c)
    by (destruct E as [f [i [_ [_ ->]]]]; symmetry; apply normalize_idem_any).
  apply (IH c Gc). rewrite <- Hc.
  inversion R as [|a c' e E' R']; subst.
  - exists (normalize p). split; [exact E|constructor].
  - exists c'. split; [exact E'|]. eapply reach_edge; eassumption.
Qed.

Lemma sfine_reach proj : forall d p x,
  sfine d proj p = true -> reach proj (normalize p) x -> sfine d proj x = true.
Proof.
  intros d p x G R. remember (normalize p) as a eqn:Ea. revert d p G Ea.
  induction R as [a|a c e E R IH]; intros d p G ->.
  - rewrite sfine_normalize. exact G.
  - destruct d as [|d]; [discriminate|].
    pose proof (sfine_edge _ _ _ _ G E) as Gc.
    apply sfine_mono with d; [|lia].
    apply (IH d c Gc). destruct E as [f [i [_ [_ ->]]]]. symmetry; apply normalize_idem_any.
Qed.

Lemma collect_sfine proj ps :
  (forall p, In p ps -> exists d, sfine d proj p = true) ->
  exists d, forallb (sfine d proj) ps = true.
Proof.
  induction ps as [|p ps IH]; intros H; [exists 0; reflexivity|].
  destruct (H p) as [d1 G1]; [left; reflexivity|].
  destruct IH as [d2 G2]; [intros q Hq; apply H; right; exact Hq|].
  exists (Nat.max d1 d2). cbn. rewrite (sfine_mono proj d1 _ p G1) by lia. cbn.
  rewrite forallb_forall in *. intros x Hx. apply sfine_mono with d2; [auto|lia].
Qed.

Definition shook := list path -> path -> list path * sres.

Definition shook_spec (proj : project) (chk : shook) (sstack : list path) : Prop :=
  forall sc p sc' r, chk sc p = (sc', r) -> shape_ok proj sc ->
    shape_ok proj sc' /\ incl sc sc' /\
    (r = SOk -> exists d, sfine d proj p = true) /\
    ((exists d, sfine d proj p = true) ->
     (forall x, In x sstack -> ~ reach proj (normalize p) x) -> r <> SCycle).

Lemma sres_and_ok a c : sres_and a c = SOk -> a = SOk /\ c = SOk.
Proof. destruct a, c; cbn; intros; try discriminate; auto. Qed.

Lemma sres_and_cycle a c : sres_and a c = SCycle -> a = SCycle \/ c = SCycle.
Proof. destruct a, c; cbn; intros; try discriminate; auto. Qed.

Lemma sres_and_fuel a c : sres_and a c = SFuel -> a = SFuel \/ c = SFuel.
Proof. destruct a, c; cbn; intros; try discriminate; auto. Qed.

Lemma scheck_list_spec proj chk sstack : shook_spec proj chk sstack ->
  forall ps sc sc' r, scheck_list chk ps sc = (sc', r) -> shape_ok proj sc ->
    shape_ok proj sc' /\ incl sc sc' /\
    (r = SOk -> forall p, In p ps -> exists d, sfine d proj p = true) /\
    ((forall p, In p ps -> (exists d, sfine d proj p = true) /\
                           (forall x, In x sstack -> ~ reach proj (normalize p) x)) ->
     r <> SCycle).
Proof.
  intros HS. induction ps as [|p ps IH]; intros sc sc' r H C; cbn in H.
  - inversion H; subst. split; [exact C|]. split; [apply incl_refl|].
    split; [intros _ p []|discriminate].
  - destruct (chk sc p) as [sc1 r1] eqn:E1.
    destruct (scheck_list chk ps sc1) as [sc2 r2] eqn:E2.
    inversion H; subst; clear H.
    destruct (HS _ _ _ _ E1 C) as [C1 [I1 [O1 N1]]].
    destruct (IH _ _ _ E2 C1) as [C2 [I2 [O2 N2]]].
    split; [exact C2|]. split; [eapply incl_tran; eassumption|]. split.
    + intros E q [<-|Hq]; apply sres_and_ok in E; destruct E as [Ea Eb]; auto.
    + intros Hall E. apply sres_and_cycle in E. destruct E as [E|E].
      * destruct (Hall p (or_introl eq_refl)) as [Ha Hb]. exact (N1 Ha Hb E).
      * apply N2; [|exact E]. intros q Hq. apply Hall. right; exact Hq.
Qed.

Theorem scheck_spec proj : forall fuel sstack, shook_spec proj (scheck fuel proj sstack) sstack.
Proof.
  induction fuel as [|fuel IH]; intros sstack sc p sc' r H C; cbn [scheck] in H;
    (destruct (mem_path (normalize p) sc) eqn:Mc;
     [inversion H; subst; split; [exact C|]; split; [apply incl_refl|];
      split; [|discriminate]; intros _; apply mem_path_In, C in Mc;
      destruct Mc as [_ [d G]]; exists d; rewrite <- sfine_normalize; exact G|]);
    (destruct (mem_path (normalize p) sstack) eqn:Ms;
     [inversion H; subst; split; [exact C|]; split; [apply incl_refl|];
      split; [discriminate|]; intros _ Hd _; apply mem_path_In in Ms;
      apply (Hd _ Ms); constructor|]);
    (destruct (lookup proj (normalize p)) as [f|] eqn:Lf;
     [|inversion H; subst; split; [exact C|]; split; [apply incl_refl|];
       split; [|discriminate]; intros _; exists 1; cbn; rewrite Lf; reflexivity]).
  - inversion H; subst. split; [exact C|]. split; [apply incl_refl|].
    split; discriminate.
  - set (n := normalize p) in *.
    destruct (scheck_list (scheck fuel proj (sstack ++ [n])) (imports f) sc) as [sc1 r1] eqn:E1.
    destruct (scheck_list_spec proj _ _ (IH (sstack ++ [n])) _ _ _ _ E1 C) as [C1 [I1 [O1 N1]]].
    assert (Hcyc : (exists d, sfine d proj p = true) ->
                   (forall x, In x sstack -> ~ reach proj n x) -> r1 <> SCycle).
    { intros [d G] Hd. apply N1. intros q Hq.
      assert (Eq : edge proj n (normalize q)) by (exists f, q; auto).
      destruct d as [|d]; [discriminate|].
      split; [exists d; rewrite <- sfine_normalize; eapply sfine_edge; eassumption|].
      intros x Hx R. apply in_app_or in Hx. destruct Hx as [Hx|[<-|[]]].
      - apply (Hd x Hx). econstructor; eassumption.
      - eapply sfine_acyclic; [exact G|]. exists (normalize q). split; [exact Eq|exact R]. }
    destruct r1; inversion H; subst; clear H.
    + split; [|split; [apply incl_tl, I1|split; [|discriminate]]].
      * intros k [<-|Hk]; [|apply C1, Hk]. split; [subst n; symmetry; apply normalize_idem_any|].
        destruct (collect_sfine proj (imports f) (O1 eq_refl)) as [d G].
        exists (S d). cbn. subst n. rewrite normalize_idem_any, Lf. exact G.
      * intros _. destruct (collect_sfine proj (imports f) (O1 eq_refl)) as [d G].
        exists (S d). cbn. fold n. rewrite Lf. exact G.
    + split; [exact C1|]. split; [exact I1|]. split; [discriminate|]. exact Hcyc.
    + split; [exact C1|]. split; [exact I1|]. split; discriminate.
Qed.

(* ---------- fuel of the static phase and of link_ops *)

Lemma scheck_list_fuel chk :
  (forall sc p sc' r, chk sc p = (sc', r) -> r <> SFuel) ->
  forall ps sc sc' r, scheck_list chk ps sc = (sc', r) -> r <> SFuel.
Proof.
  intros HF. induction ps as [|p ps IH]; intros sc sc' r H; cbn in H.
  - inversion H; discriminate.
  - destruct (chk sc p) as [sc1 r1] eqn:E1.
    destruct (scheck_list chk ps sc1) as [sc2 r2] eqn:E2.
    inversion H; subst. intros E. apply sres_and_fuel in E. destruct E as [E|E].
    + eapply HF; eassumption.
    + eapply IH; eassumption.
Qed.

Lemma scheck_fuel proj : forall fuel sstack sc p sc' r,
  NoDup sstack -> incl sstack (dom proj) -> List.length proj <= fuel + List.length sstack ->
  scheck fuel proj sstack sc p = (sc', r) -> r <> SFuel.
Proof.
  induction fuel as [|fuel IH]; intros sstack sc p sc' r N I L H; cbn [scheck] in H;
    (destruct (mem_path (normalize p) sc); [inversion H; discriminate|]);
    (destruct (mem_path (normalize p) sstack) eqn:Ms; [inversion H; discriminate|]);
    (destruct (lookup proj (normalize p)) as [f|] eqn:Lf; [|inversion H; discriminate]);
    apply mem_path_nIn in Ms; apply lookup_In in Lf;
    assert (Hlen : S (List.length sstack) <= List.length proj)
      by (unfold dom in *; rewrite <- (map_length fst proj);
          apply (NoDup_incl_length (l := normalize p :: sstack));
          [constructor; assumption|intros x [<-|Hx]; auto]).
  - exfalso; lia.
  - set (n := normalize p) in *.
    destruct (scheck_list (scheck fuel proj (sstack ++ [n])) (imports f) sc) as [sc1 r1] eqn:E1.
    apply scheck_list_fuel in E1.
    + destruct r1; inversion H; subst; congruence.
    + intros sc0 q sc0' r0. apply IH.
      * apply NoDup_snoc; assumption.
      * intros x Hx; apply in_app_or in Hx; destruct Hx as [Hx|[<-|[]]]; auto.
      * rewrite app_length; cbn; lia.
Qed.

Definition lhook := list path -> path -> list path * result unit.

Definition lhook_fuel (proj : project) (walk : lhook) (m : nat) : Prop :=
  forall found p found' r, walk found p = (found', r) ->
    NoDup found -> incl found (dom proj) -> m <= List.length found ->
    r <> Err OutOfFuel /\ NoDup found' /\ incl found' (dom proj) /\
    List.length found <= List.length found'.

Lemma lwalk_list_fuel proj walk m : lhook_fuel proj walk m ->
  forall ps, lhook_fuel proj (fun found _ => lwalk_list walk ps found) m.
Proof.
  intros HF. induction ps as [|q ps IH]; intros found p found' r H N I L; cbn in H.
  - inversion H; subst. repeat split; auto; discriminate.
  - destruct (walk found q) as [found1 r1] eqn:E1.
    destruct (HF _ _ _ _ E1 N I L) as [R1 [N1 [I1 L1]]].
    destruct r1 as [u|e]; [|inversion H; subst; auto].
    destruct (IH found1 p found' r H N1 I1 ltac:(lia)) as [R2 [N2 [I2 L2]]].
    repeat split; auto. lia.
Qed.

Lemma lwalk_fuel proj : forall fuel, lhook_fuel proj (lwalk fuel proj) (List.length proj - fuel).
Proof.
  induction fuel as [|fuel IH]; intros found p found' r H N I L; cbn [lwalk] in H;
    (destruct (mem_path (normalize p) found) eqn:Ms;
     [inversion H; subst; repeat split; auto; discriminate|]);
    (destruct (lookup proj (normalize p)) as [f|] eqn:Lf;
     [|inversion H; subst; repeat split; auto; discriminate]);
    apply mem_path_nIn in Ms; apply lookup_In in Lf;
    assert (Hlen : S (List.length found) <= List.length proj)
      by (unfold dom in *; rewrite <- (map_length fst proj);
          apply (NoDup_incl_length (l := normalize p :: found));
          [constructor; assumption|intros x [<-|Hx]; auto]).
  - exfalso; lia.
  - apply (lwalk_list_fuel proj _ _ IH (imports f) _ p) in H.
    + destruct H as [R [N' [I' L']]]. repeat split; auto. cbn in L'. lia.
    + constructor; assumption.
    + intros x [<-|Hx]; auto.
    + cbn; lia.
Qed.

(* link_ops fails only with Missing (or fuel), and not at all below a good file *)
Lemma lwalk_list_good proj walk :
  (forall found p found' r, walk found p = (found', r) ->
     (exists d, good d proj p = true) -> r <> Err Missing) ->
  forall ps found found' r, lwalk_list walk ps found = (found', r) ->
    (forall q, In q ps -> exists d, good d proj q = true) -> r <> Err Missing.
Proof.
  intros HW. induction ps as [|q ps IH]; intros found found' r H G; cbn in H.
  - inversion H; discriminate.
  - destruct (walk found q) as [found1 r1] eqn:E1.
    destruct r1 as [u|e].
    + eapply IH; [exact H|]. intros x Hx. apply G. right; exact Hx.
    + inversion H; subst. eapply HW; [exact E1|]. apply G. left; reflexivity.
Qed.

Lemma lwalk_good proj : forall fuel found p found' r,
  lwalk fuel proj found p = (found', r) -> (exists d, good d proj p = true) -> r <> Err Missing.
Proof.
  induction fuel as [|fuel IH]; intros found p found' r H [d G]; cbn [lwalk] in H;
    (destruct (mem_path (normalize p) found); [inversion H; discriminate|]);
    (destruct d as [|d]; [discriminate|]); cbn in G;
    (destruct (lookup proj (normalize p)) as [f|] eqn:Lf; [|discriminate]).
  - inversion H; discriminate.
  - eapply lwalk_list_good; [exact IH|exact H|].
    apply andb_true_iff in G. destruct G as [_ G]. rewrite forallb_forall in G.
    intros q Hq. exists d. apply G, Hq.
Qed.

Lemma lwalk_list_err walk :
  (forall found p found' e, walk found p = (found', Err e) -> e = Missing \/ e = OutOfFuel) ->
  forall ps found found' e, lwalk_list walk ps found = (found', Err e) -> e = Missing \/ e = OutOfFuel.
Proof.
  intros HW. induction ps as [|q ps IH]; intros found found' e H; cbn in H; [discriminate|].
  destruct (walk found q) as [found1 r1] eqn:E1. destruct r1 as [u|e1].
  - eapply IH, H.
  - inversion H; subst. eapply HW, E1.
Qed.

Lemma lwalk_err proj : forall fuel found p found' e,
  lwalk fuel proj found p = (found', Err e) -> e = Missing \/ e = OutOfFuel.
Proof.
  induction fuel as [|fuel IH]; intros found p found' e H; cbn [lwalk] in H;
    (destruct (mem_path (normalize p) found); [discriminate|]);
    (destruct (lookup proj (normalize p)) as [f|]; [|inversion H; auto]).
  - inversion H; auto.
  - eapply lwalk_list_err; [exact IH|exact H].
Qed.

(* ================================================================== *)
(* G4: importing a GOOD path cannot fail (except for fuel), from any
   Environment in which the locks of its uncached files are free         *)

Definition stack_ok proj (stack : list path) (st : state) (a : path) : Prop :=
  forall x, In x stack -> reach proj a x -> In x (dom (val_cache st)).

(* only needed when locks live for the whole invocation *)
Definition lock_free proj (st : state) (a : path) : Prop :=
  md = LockPerInvocation ->
  forall x f, reach proj a x -> lookup proj x = Some f -> 1 <= outs f ->
    ~ In x (dom (val_cache st)) -> ~ In (lock_key x) (out_lock st).

(* what a successful step adds: cache entries reachable from [P], and only
   locks of newly cached files (plus [extra]) *)
Definition grow (P : path -> Prop) (extra : list lkey) (st st' : state) : Prop :=
  (forall y, In y (dom (val_cache st')) -> In y (dom (val_cache st)) \/ P y) /\
  (forall k, In k (out_lock st') -> In k (out_lock st) \/ In k extra \/
     exists y, k = lock_key y /\ In y (dom (val_cache st')) /\ ~ In y (dom (val_cache st))).

Definition only_fuel {A} (r : result A) : Prop := forall e, r = Err e -> e = OutOfFuel.

Definition hookA (proj : project) (imp : hook) : Prop :=
  forall stack st p st' stack' r,
    imp stack st p = (st', stack', r) -> cache_ok proj (val_cache st) ->
    (exists d, good d proj p = true) ->
    stack_ok proj stack st (normalize p) -> lock_free proj st (normalize p) ->
    only_fuel r /\ (is_ok r = true -> grow (reach proj (normalize p)) [] st st').

Lemma grow_refl P st : grow P [] st st.
Proof. split; auto. Qed.

Lemma cache_ok_normal proj c y : cache_ok proj c -> In y (dom c) -> y = normalize y.
Proof. intros C H. apply dom_in in H. destruct H as [v H]. apply (C _ _ H). Qed.

Lemma normalize_normal p : normalize p = normalize (normalize p).
Proof. symmetry; apply normalize_idem_any. Qed.

Lemma run_importsA proj imp : hook_spec proj imp -> hookA proj imp ->
  forall ps stack st st' stack' r,
    run_imports imp ps stack st = (st', stack', r) -> cache_ok proj (val_cache st) ->
    (forall i, In i ps -> exists d, good d proj i = true) ->
    (forall i, In i ps -> stack_ok proj stack st (normalize i)) ->
    (forall i, In i ps -> lock_free proj st (normalize i)) ->
    only_fuel r /\
    (is_ok r = true ->
     grow (fun y => exists i, In i ps /\ reach proj (normalize i) y) [] st st').
Proof.
  intros HS HA. induction ps as [|p ps IH]; intros stack st st' stack' r H C G SO LF; cbn in H.
  - inversion H; subst. split; [intros e E; discriminate|]. intros _. apply grow_refl.
  - destruct (imp stack st p) as [[st1 stack1] r1] eqn:E1.
    destruct (HS _ _ _ _ _ _ E1 C) as [[C1 [I1 [_ [ext [Sx Xc]]]]] _].
    destruct (HA _ _ _ _ _ _ E1 C (G p (or_introl eq_refl)) (SO p (or_introl eq_refl))
                 (LF p (or_introl eq_refl))) as [F1 G1].
    destruct r1 as [v|e]; [|inversion H; subst; split; [intros e' E; inversion E; subst; apply F1; reflexivity|discriminate]].
    specialize (G1 eq_refl). specialize (Xc eq_refl). destruct G1 as [Gc Gl].
    destruct (run_imports imp ps stack1 st1) as [[st2 stack2] r2] eqn:E2.
    assert (SO1 : forall i, In i ps -> stack_ok proj stack1 st1 (normalize i)).
    { intros i Hi x Hx R. rewrite Sx in Hx. apply in_app_or in Hx. destruct Hx as [Hx|Hx].
      - apply I1. eapply SO; [right; exact Hi|exact Hx|exact R].
      - apply Xc, Hx. }
    assert (LF1 : forall i, In i ps -> lock_free proj st1 (normalize i)).
    { intros i Hi Em x fx R Lx Ho Nx Hk. apply Gl in Hk. destruct Hk as [Hk|[[]|[y [Ek [Hy _]]]]].
      - eapply LF; [right; exact Hi|exact Em|exact R|exact Lx|exact Ho| |exact Hk]. intros Hc. apply Nx, I1, Hc.
      - apply Nx. assert (x = y); [|subst; exact Hy].
        apply lock_key_inj; [|eapply cache_ok_normal; eassumption|exact Ek].
        eapply reach_normal; [exact R|apply normalize_normal]. }
    destruct (IH _ _ _ _ _ E2 C1 (fun i Hi => G i (or_intror Hi)) SO1 LF1) as [F2 G2].
    destruct (run_imports_spec proj imp HS _ _ _ _ _ _ E2 C1) as [[_ [I2 _]] _].
    destruct r2 as [vs|e]; inversion H; subst; clear H.
    + split; [intros e E; discriminate|]. intros _. destruct (G2 eq_refl) as [Gc2 Gl2]. split.
      * intros y Hy. apply Gc2 in Hy. destruct Hy as [Hy|[i [Hi R]]].
        -- apply Gc in Hy. destruct Hy as [Hy|R]; [left; exact Hy|right; exists p; split; [left; reflexivity|exact R]].
        -- right. exists i. split; [right; exact Hi|exact R].
      * intros k Hk. apply Gl2 in Hk. destruct Hk as [Hk|[[]|[y [Ek [Hy Ny]]]]].
        -- apply Gl in Hk. destruct Hk as [Hk|[[]|[y [Ek [Hy Ny]]]]]; [left; exact Hk|].
           right; right. exists y. auto.
        -- right; right. exists y. split; [exact Ek|]. split; [exact Hy|]. intros Hc; apply Ny, I1, Hc.
    + split; [|discriminate]. intros e' E; inversion E; subst. apply F2; reflexivity.
Qed.

Lemma run_outs_le1 k a n st :
  n <= 1 -> (1 <= n -> ~ In k (out_lock st)) ->
  exists st', run_outs k a n st = (st', Ok tt) /\ val_cache st' = val_cache st /\
    out_lock st' = (if n =? 1 then [k] else []) ++ out_lock st /\
    artifacts st' = artifacts st ++ (if n =? 1 then [a] else []).
Proof.
  intros Hn Hk. destruct n as [|[|n]]; [| |lia]; cbn.
  - exists st. rewrite app_nil_r. auto.
  - assert (mem_key k (out_lock st) = false) as -> by (apply mem_key_nIn, Hk; lia).
    eexists. split; [reflexivity|]. cbn. auto.
Qed.

Lemma eval_bodyA proj imp : hook_spec proj imp -> hookA proj imp ->
  forall stack st n k f st' r,
    eval_body imp stack st n k f = (st', r) -> cache_ok proj (val_cache st) ->
    n = normalize n -> lookup proj n = Some f ->
    (exists d, good d proj n = true) ->
    (forall i, In i (imports f) -> stack_ok proj stack st (normalize i)) ->
    (md = LockPerInvocation ->
     forall x fx, reach1 proj n x -> lookup proj x = Some fx -> 1 <= outs fx ->
       ~ In x (dom (val_cache st)) -> ~ In (lock_key x) (out_lock st)) ->
    (md = LockPerInvocation -> 1 <= outs f -> ~ In k (out_lock st)) ->
    (forall y, y = normalize y -> lock_key y = k -> y = n) ->
    only_fuel r /\
    (forall v, r = Ok v ->
       grow (reach1 proj n) (if outs f =? 1 then [k] else []) st st' /\
       (outs f = 1 -> In (n, v) (artifacts st'))).
Proof.
  intros HS HA stack st n k f st' r H C Hn Lf [d G] SO LF Hk Hkey. unfold Import.eval_body in H.
  destruct d as [|d]; [discriminate|]. cbn in G. rewrite <- Hn, Lf in G.
  apply andb_true_iff in G. destruct G as [G Gi]. apply andb_true_iff in G. destruct G as [Gf Go].
  apply negb_true_iff in Gf. apply Nat.leb_le in Go. rewrite forallb_forall in Gi.
  assert (Hedge : forall i, In i (imports f) -> edge proj n (normalize i)) by (intros i Hi; exists f, i; auto).
  destruct (reset_lock_frame k st) as [R1 [_ [_ [R4 R5]]]].
  remember (record_eval n (reset_lock md k st)) as st0 eqn:Est0.
  assert (V0 : val_cache st0 = val_cache st) by (subst st0; cbn [record_eval val_cache]; exact R1).
  assert (L0 : forall k', In k' (out_lock st0) -> In k' (out_lock st))
    by (subst st0; cbn [record_eval out_lock]; exact R5).
  assert (A0 : artifacts st0 = artifacts st) by (subst st0; cbn [record_eval artifacts]; exact R4).
  assert (K0 : 1 <= outs f -> ~ In k (out_lock st0)).
  { intros Ho Hin. destruct (mode_cases md) as [Em|Em].
    - exact (Hk Em Ho (L0 _ Hin)).
    - subst st0. cbn [record_eval out_lock] in Hin. exact (reset_lock_pe k st Em Hin). }
  destruct (run_imports imp (imports f) stack st0) as [[st1 stack1] r1] eqn:E1.
  assert (C0 : cache_ok proj (val_cache st0)) by (rewrite V0; exact C).
  destruct (run_importsA proj imp HS HA _ _ _ _ _ _ E1 C0) as [F1 G1].
  { intros i Hi. exists d. apply Gi, Hi. }
  { intros i Hi x Hx R. rewrite V0. eapply SO; eassumption. }
  { intros i Hi Em x fx R Lx Ho Nx Hin. rewrite V0 in Nx. apply L0 in Hin. revert Hin.
    eapply (LF Em); [|exact Lx|exact Ho|exact Nx]. exists (normalize i). split; [apply Hedge, Hi|exact R]. }
  destruct r1 as [vs|e];
    [|inversion H; subst; split; [intros e' E; inversion E; subst; apply F1; reflexivity|discriminate]].
  destruct (G1 eq_refl) as [Gc Gl]. rewrite V0 in Gc, Gl.
  destruct (run_outs_le1 k (n, Val n vs) (outs f) st1 Go) as [st2 [E2 [V2 [L2 A2]]]].
  { intros Ho Hin. apply Gl in Hin. destruct Hin as [Hin|[[]|[y [Ek [Hy Ny]]]]]; [exact (K0 Ho Hin)|].
    destruct (run_imports_spec proj imp HS _ _ _ _ _ _ E1 C0) as [[C1 _] _].
    assert (y = n) by (apply Hkey; [eapply cache_ok_normal; eassumption|auto]). subst y.
    apply Gc in Hy. destruct Hy as [Hy|[i [Hi R]]]; [contradiction|].
    apply (good_acyclic proj (S d) n).
    - cbn. rewrite <- Hn, Lf, Gf. cbn. apply Nat.leb_le in Go. rewrite Go. cbn.
      apply forallb_forall, Gi.
    - rewrite <- Hn. exists (normalize i). split; [apply Hedge, Hi|exact R]. }
  rewrite E2, Gf in H. inversion H; subst; clear H.
  split; [intros e E; discriminate|].
  intros v E; inversion E; subst v. split; [split|].
    + intros y Hy. rewrite V2 in Hy. apply Gc in Hy. destruct Hy as [Hy|[i [Hi R]]]; [left; exact Hy|].
      right. exists (normalize i). split; [apply Hedge, Hi|exact R].
    + intros k' Hk'. rewrite L2 in Hk'. apply in_app_or in Hk'. destruct Hk' as [Hk'|Hk'];
        [right; left; exact Hk'|].
      apply Gl in Hk'. destruct Hk' as [Hk'|[[]|[y [Ek [Hy Ny]]]]]; [left; apply L0, Hk'|].
      right; right. exists y. rewrite V2. auto.
    + intros Ho. rewrite A2, Ho. cbn. apply in_or_app. right. left. reflexivity.
Qed.

Theorem importA proj : forall fuel, hookA proj (import fuel proj).
Proof.
  induction fuel as [|fuel IH]; intros stack st p st' stack' r H C [d G] SO LF; cbn [Import.import] in H;
    (destruct (find_val (normalize p) (val_cache st)) as [v|] eqn:Fv;
     [inversion H; subst; split; [intros e E; discriminate|intros _; apply grow_refl]|]);
    apply find_val_None in Fv;
    (destruct (mem_path (normalize p) stack) eqn:Ms;
     [exfalso; apply mem_path_In in Ms; apply Fv; apply (SO _ Ms); constructor|]);
    (destruct d as [|d]; [discriminate|]); pose proof G as G'; cbn in G;
    (destruct (lookup proj (normalize p)) as [f|] eqn:Lf; [|discriminate]).
  - inversion H; subst. split; [intros e E; inversion E; reflexivity|discriminate].
  - set (n := normalize p) in *.
    destruct (eval_body (import fuel proj) (stack ++ [n]) (record_parse (lock_key n) st) n (lock_key n) f)
      as [st2 r2] eqn:EB.
    pose proof (record_parse_frame (lock_key n) st) as [F1 [_ [F3 _]]].
    assert (Hn : n = normalize n) by (subst n; apply normalize_normal).
    assert (Gn : good (S d) proj n = true) by (subst n; rewrite good_normalize; exact G').
    assert (Acy : ~ reach1 proj n n) by (rewrite Hn; eapply good_acyclic; exact Gn).
    apply (eval_bodyA proj _ (import_spec proj fuel) IH) in EB.
    + destruct EB as [OF W]. destruct r2 as [v|e]; inversion H; subst st' stack' r; clear H.
      * split; [intros e E; discriminate|]. intros _.
        destruct (W v eq_refl) as [[Gc Gl] _]. rewrite F1 in Gc, Gl. rewrite F3 in Gl. split.
        -- intros y [<-|Hy]; [right; constructor|].
           apply Gc in Hy. destruct Hy as [Hy|[c [E R]]]; [left; exact Hy|].
           right. econstructor; eassumption.
        -- cbn [cache_val set_val_cache out_lock val_cache]. intros k Hk. apply Gl in Hk.
           destruct Hk as [Hk|[Hk|[y [Ek [Hy Ny]]]]]; [left; exact Hk| |].
           ++ right; right. exists n. split; [|split; [left; reflexivity|exact Fv]].
              destruct (outs f =? 1); [destruct Hk as [<-|[]]; reflexivity|destruct Hk].
           ++ right; right. exists y. split; [exact Ek|]. split; [right; exact Hy|exact Ny].
      * split; [|discriminate]. intros e' E; inversion E; subst. apply OF; reflexivity.
    + rewrite F1; exact C.
    + exact Hn.
    + exact Lf.
    + eauto.
    + intros i Hi x Hx R. rewrite F1. apply in_app_or in Hx. destruct Hx as [Hx|[<-|[]]].
      * apply (SO x Hx). econstructor; [exists f, i; eauto|exact R].
      * exfalso. apply Acy. exists (normalize i). split; [exists f, i; auto|exact R].
    + intros Em x fx [c [E R]] Lx Ho Nx. rewrite F1 in Nx. rewrite F3.
      eapply (LF Em); [|exact Lx|exact Ho|exact Nx]. econstructor; eassumption.
    + intros Em Ho. rewrite F3. eapply (LF Em); [constructor|exact Lf|exact Ho|exact Fv].
    + intros y Hy E. apply lock_key_inj; assumption.
Qed.

(* the VM run of a good root *)
Lemma eval_fileA proj fuel st r st' res :
  eval_file fuel proj st r = (st', res) -> cache_ok proj (val_cache st) ->
  (exists d, good d proj r = true) ->
  (md = LockPerInvocation ->
   forall x fx, reach1 proj (normalize r) x -> lookup proj x = Some fx -> 1 <= outs fx ->
             ~ In x (dom (val_cache st)) -> ~ In (lock_key x) (out_lock st)) ->
  (md = LockPerInvocation ->
   forall f, lookup proj (normalize r) = Some f -> 1 <= outs f -> ~ In (lock_key r) (out_lock st)) ->
  only_fuel res /\
  (forall v f, res = Ok v -> lookup proj (normalize r) = Some f ->
     outs f = 1 -> In (normalize r, v) (artifacts st')).
Proof.
  unfold Import.eval_file. intros H C [d G] LF Hk. set (n := normalize r) in *.
  assert (Gn : good d proj n = true) by (subst n; rewrite good_normalize; exact G).
  assert (Hn : n = normalize n) by (subst n; apply normalize_normal).
  assert (Acy : ~ reach1 proj n n) by (rewrite Hn; eapply good_acyclic; exact Gn).
  destruct d as [|d]; [discriminate|]. cbn in G. fold n in G.
  destruct (lookup proj n) as [f|] eqn:Lf; [|discriminate].
  pose proof (record_parse_frame (lock_key r) st) as [F1 [_ [F3 _]]].
  apply (eval_bodyA proj _ (import_spec proj fuel) (importA proj fuel)) in H.
  - destruct H as [OF W]. split; [exact OF|]. intros v f' E Ef Ho. inversion Ef; subst f'.
    destruct (W v E) as [_ Ha]. apply Ha, Ho.
  - rewrite F1; exact C.
  - exact Hn.
  - exact Lf.
  - eauto.
  - intros i Hi x [<-|[]] R. exfalso. apply Acy.
    exists (normalize i). split; [exists f, i; auto|exact R].
  - intros Em x fx R Lx Ho Nx. rewrite F1 in Nx. rewrite F3. eapply (LF Em); eassumption.
  - intros Em Ho. rewrite F3. apply (Hk Em f eq_refl Ho).
  - intros y Hy E. rewrite Hy. subst n. apply lock_key_norm, E.
Qed.

(* ================================================================== *)
(* G1b: invariants of artifacts and locks, through ANY import          *)

(* every artifact ever written for [k] holds the isolated value of [k],
   and [k] has an out statement *)
Definition art_ok (proj : project) (a : list (path * val)) : Prop :=
  forall k v, In (k, v) a ->
    k = normalize k /\ (exists d, value_of d proj k = Some v) /\
    exists f, lookup proj k = Some f /\ 1 <= outs f.

Definition bad (proj : project) (y : path) : Prop :=
  y = normalize y /\ forall d, good d proj y = false.

(* who holds a lock: a file built as a root of this invocation, a cached
   (successfully imported) file, or an imported file that cannot succeed *)
Definition lock_clause proj (roots : list path) (st : state) (k : lkey) : Prop :=
  (exists r, In r roots /\ k = lock_key r) \/
  (exists y, k = lock_key y /\ (In y (dom (val_cache st)) \/ bad proj y)).

Definition lock_inv proj roots st : Prop :=
  forall k, In k (out_lock st) -> lock_clause proj roots st k.

Lemma lock_clause_mono proj roots st st' k :
  incl (dom (val_cache st)) (dom (val_cache st')) ->
  lock_clause proj roots st k -> lock_clause proj roots st' k.
Proof.
  intros I [H|[y [E [H|H]]]]; [left; exact H| |].
  - right. exists y. split; [exact E|left; apply I, H].
  - right. exists y. auto.
Qed.

Definition hookB proj roots (imp : hook) : Prop :=
  forall stack st p st' stack' r,
    imp stack st p = (st', stack', r) -> cache_ok proj (val_cache st) ->
    art_ok proj (artifacts st) -> lock_inv proj roots st ->
    art_ok proj (artifacts st') /\ lock_inv proj roots st' /\
    (shape_cache st' = shape_cache st /\ incl (artifacts st) (artifacts st')).

Lemma run_importsB proj roots imp : hook_spec proj imp -> hookB proj roots imp ->
  forall ps stack st st' stack' r,
    run_imports imp ps stack st = (st', stack', r) -> cache_ok proj (val_cache st) ->
    art_ok proj (artifacts st) -> lock_inv proj roots st ->
    art_ok proj (artifacts st') /\ lock_inv proj roots st' /\
    (shape_cache st' = shape_cache st /\ incl (artifacts st) (artifacts st')).
Proof.
  intros HS HB. induction ps as [|p ps IH]; intros stack st st' stack' r H C A L; cbn in H.
  - inversion H; subst. split; [exact A|split; [exact L|split; [reflexivity|apply incl_refl]]].
  - destruct (imp stack st p) as [[st1 stack1] r1] eqn:E1.
    destruct (HS _ _ _ _ _ _ E1 C) as [[C1 _] _].
    destruct (HB _ _ _ _ _ _ E1 C A L) as [A1 [L1 [S1 M1]]].
    destruct r1 as [v|e]; [|inversion H; subst; auto].
    destruct (run_imports imp ps stack1 st1) as [[st2 stack2] r2] eqn:E2.
    destruct (IH _ _ _ _ _ E2 C1 A1 L1) as [A2 [L2 [S2 M2]]].
    destruct r2; inversion H; subst;
      (split; [exact A2|split; [exact L2|split; [congruence|eapply incl_tran; eassumption]]]).
Qed.

Lemma run_outs_cases k a n st st' r :
  run_outs k a n st = (st', r) ->
  (n = 0 /\ st' = st /\ r = Ok tt) \/
  (1 <= n /\ In k (out_lock st) /\ st' = st /\ r = Err OutLock) \/
  (n = 1 /\ ~ In k (out_lock st) /\ st' = do_out k a st /\ r = Ok tt) \/
  (2 <= n /\ ~ In k (out_lock st) /\ st' = do_out k a st /\ r = Err OutLock).
Proof.
  destruct n as [|[|n]]; cbn [run_outs].
  - intros H; inversion H; auto.
  - destruct (mem_key k (out_lock st)) eqn:M; intros H; inversion H; subst.
    + right; left. apply mem_key_In in M. repeat split; auto.
    + right; right; left. apply mem_key_nIn in M. auto.
  - destruct (mem_key k (out_lock st)) eqn:M.
    + intros H; inversion H; subst. right; left. apply mem_key_In in M. repeat split; auto; lia.
    + assert (mem_key k (out_lock (do_out k a st)) = true) as ->
          by (apply mem_key_In; left; reflexivity).
      intros H; inversion H; subst. right; right; right. apply mem_key_nIn in M. repeat split; auto; lia.
Qed.

Lemma eval_bodyB proj roots imp : hook_spec proj imp -> hookB proj roots imp ->
  forall stack st n k f st' r,
    eval_body imp stack st n k f = (st', r) -> cache_ok proj (val_cache st) ->
    art_ok proj (artifacts st) -> lock_inv proj roots st ->
    n = normalize n -> lookup proj n = Some f ->
    art_ok proj (artifacts st') /\
    (shape_cache st' = shape_cache st /\ incl (artifacts st) (artifacts st')) /\
    (forall k', In k' (out_lock st') ->
       (k' = k /\ (is_ok r = true \/ forall d, good d proj n = false)) \/
       lock_clause proj roots st' k').
Proof.
  intros HS HB stack st n k f st' r H C A L Hn Lf. unfold Import.eval_body in H.
  destruct (run_imports imp (imports f) stack (record_eval n (reset_lock md k st))) as [[st1 stack1] r1] eqn:E1.
  destruct (reset_lock_frame k st) as [R1 [R2 [_ [R4 R5]]]].
  assert (C0 : cache_ok proj (val_cache (record_eval n (reset_lock md k st))))
    by (cbn [record_eval val_cache]; rewrite R1; exact C).
  assert (A0 : art_ok proj (artifacts (record_eval n (reset_lock md k st))))
    by (cbn [record_eval artifacts]; rewrite R4; exact A).
  assert (L0 : lock_inv proj roots (record_eval n (reset_lock md k st))).
  { intros k' Hk'. cbn [record_eval out_lock] in Hk'. apply R5 in Hk'.
    eapply lock_clause_mono; [|apply L, Hk']. cbn [record_eval val_cache]. rewrite R1. apply incl_refl. }
  destruct (run_importsB proj roots imp HS HB _ _ _ _ _ _ E1 C0 A0 L0) as [A1 [L1 S1]].
  destruct (run_imports_spec proj imp HS _ _ _ _ _ _ E1 C0) as [_ V1].
  cbn [record_eval shape_cache artifacts] in S1. rewrite R2, R4 in S1.
  destruct r1 as [vs|e]; [|inversion H; subst; split; [exact A1|split; [exact S1|intros k' Hk'; right; apply L1, Hk']]].
  destruct (run_outs k (n, Val n vs) (outs f) st1) as [st2 r2] eqn:E2.
  assert (S1' : shape_cache (do_out k (n, Val n vs) st1) = shape_cache st /\
                incl (artifacts st) (artifacts (do_out k (n, Val n vs) st1))).
  { destruct S1 as [Sa Sb]. split; [exact Sa|]. cbn. apply incl_appl, Sb. }
  assert (Hart : 1 <= outs f -> art_ok proj (artifacts (do_out k (n, Val n vs) st1))).
  { intros Ho k0 v0 Hin. cbn in Hin. apply in_app_or in Hin. destruct Hin as [Hin|[E|[]]]; [apply A1, Hin|].
    inversion E; subst k0 v0. split; [exact Hn|]. split; [|eauto].
    destruct (collect_depth proj _ _ (V1 _ eq_refl)) as [d [_ V]].
    exists (S d). cbn. rewrite <- Hn, Lf, V. reflexivity. }
  assert (Hbad2 : 2 <= outs f -> forall d, good d proj n = false).
  { intros Ho [|d]; [reflexivity|]. cbn. rewrite <- Hn, Lf.
    assert (outs f <=? 1 = false) as -> by (apply Nat.leb_gt; lia).
    rewrite andb_false_r. reflexivity. }
  assert (Hbadf : fails f = true -> forall d, good d proj n = false).
  { intros Hf [|d]; [reflexivity|]. cbn. rewrite <- Hn, Lf, Hf. reflexivity. }
  apply run_outs_cases in E2.
  destruct E2 as [[Ho [-> ->]]|[[Ho [Hin [-> ->]]]|[[Ho [Hin [-> ->]]]|[Ho [Hin [-> ->]]]]]].
  - destruct (fails f); inversion H; subst;
      (split; [exact A1|split; [exact S1|intros k' Hk'; right; apply L1, Hk']]).
  - inversion H; subst. split; [exact A1|split; [exact S1|intros k' Hk'; right; apply L1, Hk']].
  - destruct (fails f) eqn:Ff; inversion H; subst;
      (split; [apply Hart; lia|split; [exact S1'|]]);
      intros k' [<-|Hk']; try (right; apply L1, Hk'); left; split; auto.
  - inversion H; subst. split; [apply Hart; lia|split; [exact S1'|]].
    intros k' [<-|Hk']; [left; split; auto|right; apply L1, Hk'].
Qed.

Theorem importB proj roots : forall fuel, hookB proj roots (import fuel proj).
Proof.
  induction fuel as [|fuel IH]; intros stack st p st' stack' r H C A L; cbn [Import.import] in H;
    (destruct (find_val (normalize p) (val_cache st)) as [v|] eqn:Fv;
     [inversion H; subst; split; [exact A|split; [exact L|split; [reflexivity|apply incl_refl]]]|]);
    (destruct (mem_path (normalize p) stack) eqn:Ms;
     [inversion H; subst; split; [exact A|split; [exact L|split; [reflexivity|apply incl_refl]]]|]);
    (destruct (lookup proj (normalize p)) as [f|] eqn:Lf;
     [|inversion H; subst; split; [exact A|split; [exact L|split; [reflexivity|apply incl_refl]]]]).
  - inversion H; subst; split; [exact A|split; [exact L|split; [reflexivity|apply incl_refl]]].
  - set (n := normalize p) in *.
    destruct (eval_body (import fuel proj) (stack ++ [n]) (record_parse (lock_key n) st) n (lock_key n) f)
      as [st2 r2] eqn:EB.
    pose proof (record_parse_frame (lock_key n) st) as [F1 [F2 [F3 [_ F5]]]].
    assert (Hn : n = normalize n) by (subst n; apply normalize_normal).
    pose proof EB as EB'.
    apply (eval_bodyB proj roots _ (import_spec proj fuel) IH) in EB;
      [|rewrite F1; exact C|rewrite F5; exact A|intros k Hk; rewrite F3 in Hk;
        eapply lock_clause_mono; [|apply L, Hk]; rewrite F1; apply incl_refl|exact Hn|exact Lf].
    destruct EB as [A2 [S2 L2]]. rewrite F2, F5 in S2.
    destruct r2 as [v|e]; inversion H; subst st' stack' r; clear H.
    + split; [exact A2|]. split; [|exact S2].
      intros k Hk. cbn in Hk. apply L2 in Hk. destruct Hk as [[-> _]|Hk].
      * right. exists n. split; [reflexivity|left; left; reflexivity].
      * eapply lock_clause_mono; [|exact Hk]. cbn. apply incl_tl, incl_refl.
    + split; [exact A2|]. split; [|exact S2].
      intros k Hk. apply L2 in Hk. destruct Hk as [[-> [Hk|Hk]]|Hk]; [discriminate| |exact Hk].
      right. exists n. split; [reflexivity|right; split; assumption].
Qed.

(* ================================================================== *)
(* FileBuilder::build (static phase + link_ops + VM run)               *)

Lemma record_parses_frame ks st :
  val_cache (record_parses ks st) = val_cache st /\
  shape_cache (record_parses ks st) = shape_cache st /\
  out_lock (record_parses ks st) = out_lock st /\
  evaluations (record_parses ks st) = evaluations st /\
  artifacts (record_parses ks st) = artifacts st.
Proof.
  induction ks as [|k ks IH]; [cbn; auto|].
  change (record_parses (k :: ks) st) with (record_parse k (record_parses ks st)).
  destruct (record_parse_frame k (record_parses ks st)) as [A [B [C [D E]]]].
  destruct IH as [A' [B' [C' [D' E']]]]. repeat split; congruence.
Qed.

(* the invariant of every Environment reachable in an invocation; [roots]
   are the files built so far *)
Definition binv proj (roots : list path) (st : state) : Prop :=
  cache_ok proj (val_cache st) /\ shape_ok proj (shape_cache st) /\
  art_ok proj (artifacts st) /\ lock_inv proj roots st.

Lemma binv_empty proj : binv proj [] empty_state.
Proof. split; [intros k v []|split; [intros k []|split; [intros k v []|intros k []]]]. Qed.

Lemma lock_clause_roots proj roots roots' st k :
  incl roots roots' -> lock_clause proj roots st k -> lock_clause proj roots' st k.
Proof. intros I [[r [Hr E]]|H]; [left; exists r; auto|right; exact H]. Qed.

Lemma eval_fileB proj roots fuel st r st' res :
  eval_file fuel proj st r = (st', res) -> cache_ok proj (val_cache st) ->
  art_ok proj (artifacts st) -> lock_inv proj roots st ->
  art_ok proj (artifacts st') /\ lock_inv proj (r :: roots) st' /\
  shape_cache st' = shape_cache st /\ incl (artifacts st) (artifacts st').
Proof.
  unfold Import.eval_file. intros H C A L.
  destruct (lookup proj (normalize r)) as [f|] eqn:Lf.
  - pose proof (record_parse_frame (lock_key r) st) as [F1 [F2 [F3 [_ F5]]]].
    apply (eval_bodyB proj roots _ (import_spec proj fuel) (importB proj roots fuel)) in H;
      [|rewrite F1; exact C|rewrite F5; exact A|intros k Hk; rewrite F3 in Hk;
        eapply lock_clause_mono; [|apply L, Hk]; rewrite F1; apply incl_refl
       |apply normalize_normal|exact Lf].
    destruct H as [A2 [[S2 M2] L2]]. rewrite F2 in S2. rewrite F5 in M2.
    split; [exact A2|]. split; [|auto].
    intros k Hk. apply L2 in Hk. destruct Hk as [[-> _]|Hk].
    + left. exists r. split; [left; reflexivity|reflexivity].
    + eapply lock_clause_roots; [|exact Hk]. apply incl_tl, incl_refl.
  - inversion H; subst. split; [exact A|]. split; [|split; [reflexivity|apply incl_refl]].
    intros k Hk. eapply lock_clause_roots; [|apply L, Hk]. apply incl_tl, incl_refl.
Qed.

Lemma scheck_root_spec proj fuel sc f sc' sr :
  scheck_root fuel proj sc f = (sc', sr) -> shape_ok proj sc ->
  shape_ok proj sc' /\
  (sr = SOk -> forall p, In p (imports f) -> exists d, sfine d proj p = true) /\
  ((forall p, In p (imports f) -> exists d, sfine d proj p = true) -> sr <> SCycle) /\
  (List.length proj <= fuel -> sr <> SFuel).
Proof.
  unfold scheck_root. intros H C.
  destruct (scheck_list_spec proj _ _ (scheck_spec proj fuel []) _ _ _ _ H C) as [C1 [_ [O1 N1]]].
  split; [exact C1|]. split; [exact O1|]. split.
  - intros Hall. apply N1. intros p Hp. split; [apply Hall, Hp|intros x []].
  - intros L. eapply scheck_list_fuel; [|exact H].
    intros sc0 p sc0' r0. apply scheck_fuel; [constructor|intros x []|cbn; lia].
Qed.

Lemma link_ops_spec proj fuel f found lr :
  link_ops fuel proj f = (found, lr) ->
  (forall e, lr = Err e -> e = Missing \/ e = OutOfFuel) /\
  (List.length proj <= fuel -> lr <> Err OutOfFuel) /\
  ((forall q, In q (imports f) -> exists d, good d proj q = true) -> lr <> Err Missing).
Proof.
  unfold link_ops. intros H. split; [|split].
  - intros e ->. eapply lwalk_list_err; [|exact H]. apply lwalk_err.
  - intros L.
    apply (lwalk_list_fuel proj _ _ (lwalk_fuel proj fuel) (imports f) [] []) in H;
      [apply H|constructor|intros x []|cbn; lia].
  - intros G. eapply lwalk_list_good; [|exact H|exact G]. apply lwalk_good.
Qed.

Theorem build_file_inv proj roots fuel st r st' res :
  build_file fuel proj st r = (st', res) -> binv proj roots st ->
  binv proj (r :: roots) st' /\
  incl (dom (val_cache st)) (dom (val_cache st')) /\
  incl (artifacts st) (artifacts st') /\
  (exists ev, evaluations st' = evaluations st ++ ev /\ NoDup ev) /\
  (forall v, res = Ok v -> witness proj r v).
Proof.
  unfold Import.build_file. intros H [C [S [A L]]].
  assert (Lr : forall st0, out_lock st0 = out_lock st -> val_cache st0 = val_cache st ->
                           lock_inv proj (r :: roots) st0).
  { intros st0 E1 E2 k Hk. rewrite E1 in Hk. eapply lock_clause_roots; [apply incl_tl, incl_refl|].
    eapply lock_clause_mono; [|apply L, Hk]. rewrite E2. apply incl_refl. }
  assert (Htriv : forall sc, shape_ok proj sc -> forall st0,
            val_cache st0 = val_cache st -> shape_cache st0 = sc -> out_lock st0 = out_lock st ->
            evaluations st0 = evaluations st -> artifacts st0 = artifacts st ->
            forall e, binv proj (r :: roots) st0 /\
              incl (dom (val_cache st)) (dom (val_cache st0)) /\
              incl (artifacts st) (artifacts st0) /\
              (exists ev, evaluations st0 = evaluations st ++ ev /\ NoDup ev) /\
              (forall v, @Err val e = Ok v -> witness proj r v)).
  { intros sc Hsc st0 E1 E2 E3 E4 E5 e. split; [|split; [|split; [|split]]].
    - split; [rewrite E1; exact C|]. split; [rewrite E2; exact Hsc|].
      split; [rewrite E5; exact A|apply Lr; assumption].
    - rewrite E1; apply incl_refl.
    - rewrite E5; apply incl_refl.
    - exists []. rewrite E4, app_nil_r. split; [reflexivity|constructor].
    - discriminate. }
  destruct (lookup proj (normalize r)) as [f|] eqn:Lf;
    [|inversion H; subst; apply (Htriv _ S); reflexivity].
  destruct (scheck_root fuel proj (shape_cache st) f) as [sc sr] eqn:ES.
  destruct (scheck_root_spec _ _ _ _ _ _ ES S) as [S1 _].
  destruct sr; [|inversion H; subst; apply (Htriv _ S1); reflexivity
                |inversion H; subst; apply (Htriv _ S1); reflexivity].
  destruct (link_ops fuel proj f) as [found lr] eqn:EL.
  destruct (record_parses_frame (map lock_key found) (set_shape_cache sc st)) as [F1 [F2 [F3 [F4 F5]]]].
  cbn [set_shape_cache val_cache shape_cache out_lock evaluations artifacts] in F1, F2, F3, F4, F5.
  remember (record_parses (map lock_key found) (set_shape_cache sc st)) as st2 eqn:Est2. clear Est2.
  destruct lr as [u|e]; [|inversion H; subst st' res; apply (Htriv _ S1); assumption].
  assert (C2 : cache_ok proj (val_cache st2)) by (rewrite F1; exact C).
  pose proof (eval_file_spec _ _ _ _ _ _ H C2) as [C' [I' [[ev [EV [ND _]]] W]]].
  apply (eval_fileB proj roots) in H;
    [|exact C2|rewrite F5; exact A|intros k Hk; rewrite F3 in Hk;
      eapply lock_clause_mono; [|apply L, Hk]; rewrite F1; apply incl_refl].
  destruct H as [A' [L' [S' M']]].
  split; [|split; [|split; [|split]]].
  - split; [exact C'|]. split; [rewrite S', F2; exact S1|]. split; [exact A'|exact L'].
  - rewrite <- F1. exact I'.
  - rewrite <- F5. exact M'.
  - exists ev. rewrite <- F4. auto.
  - exact W.
Qed.

(* ---------- C09, at the level of one [ucg build root] *)

Theorem import_evaluates_once : forall fuel proj root,
  NoDup (evaluations (fst (build_file fuel proj empty_state root))).
Proof.
  intros fuel proj root.
  destruct (build_file fuel proj empty_state root) as [st' res] eqn:E.
  apply (build_file_inv proj []) in E; [|apply binv_empty].
  destruct E as [_ [_ [_ [[ev [EV ND]] _]]]]. cbn in *. rewrite EV. exact ND.
Qed.

Theorem import_terminates : forall proj fuel st root,
  List.length proj <= fuel -> snd (build_file fuel proj st root) <> Err OutOfFuel.
Proof.
  intros proj fuel st root L. unfold Import.build_file.
  destruct (lookup proj (normalize root)) as [f|] eqn:Lf; [|cbn; discriminate].
  destruct (scheck_root fuel proj (shape_cache st) f) as [sc sr] eqn:ES.
  assert (Hsr : sr <> SFuel).
  { unfold scheck_root in ES. eapply scheck_list_fuel; [|exact ES].
    intros sc0 p sc0' r0. apply scheck_fuel; [constructor|intros x []|cbn; lia]. }
  destruct sr; [|cbn; discriminate|congruence].
  destruct (link_ops fuel proj f) as [found lr] eqn:EL.
  destruct (link_ops_spec _ _ _ _ _ EL) as [_ [HL _]].
  destruct lr as [u|e]; [|cbn; intros E; apply (HL L); congruence].
  apply eval_terminates. lia.
Qed.

Lemma cyclic_root_exists proj root :
  cyclic_from proj root -> exists f, lookup proj (normalize root) = Some f.
Proof.
  intros [x [R [c [[f [i [Lx _]]] _]]]].
  inversion R as [|a c' e [f' [i' [La _]]] R']; subst; eauto.
Qed.

(* a reachable import cycle ends the build with the cycle diagnostic (it is
   the static phase that reports it, before anything is evaluated) *)
Theorem import_cycle_is_error : forall proj fuel st root,
  shape_ok proj (shape_cache st) -> cyclic_from proj root -> List.length proj <= fuel ->
  snd (build_file fuel proj st root) = Err Cycle /\
  evaluations (fst (build_file fuel proj st root)) = evaluations st /\
  artifacts (fst (build_file fuel proj st root)) = artifacts st.
Proof.
  intros proj fuel st root Sh Cy L. unfold Import.build_file.
  destruct (cyclic_root_exists _ _ Cy) as [f Lf]. rewrite Lf.
  destruct (scheck_root fuel proj (shape_cache st) f) as [sc sr] eqn:ES.
  destruct (scheck_root_spec _ _ _ _ _ _ ES Sh) as [_ [O1 [_ F1]]].
  destruct sr; [|cbn; auto|exfalso; apply (F1 L); reflexivity].
  exfalso. destruct (collect_sfine proj (imports f) (O1 eq_refl)) as [d G].
  assert (Gr : sfine (S d) proj root = true) by (cbn; rewrite Lf; exact G).
  destruct Cy as [x [R C]].
  pose proof (sfine_reach _ _ _ _ Gr R) as Gx.
  apply (sfine_acyclic _ _ _ Gx).
  assert (Hx : x = normalize x) by (eapply reach_normal; [exact R|apply normalize_normal]).
  rewrite <- Hx. exact C.
Qed.

(* building a good root from an Environment in which the locks it needs are
   free succeeds and writes the root's artifact *)
Theorem build_file_good proj roots fuel st r st' res :
  build_file fuel proj st r = (st', res) -> binv proj roots st ->
  (exists d, good d proj r = true) -> List.length proj <= fuel ->
  (md = LockPerInvocation ->
   forall x fx, reach1 proj (normalize r) x -> lookup proj x = Some fx -> 1 <= outs fx ->
             ~ In x (dom (val_cache st)) -> ~ In (lock_key x) (out_lock st)) ->
  (md = LockPerInvocation ->
   forall f, lookup proj (normalize r) = Some f -> 1 <= outs f -> ~ In (lock_key r) (out_lock st)) ->
  exists v, res = Ok v /\
    (forall f, lookup proj (normalize r) = Some f -> outs f = 1 ->
               In (normalize r, v) (artifacts st')).
Proof.
  intros H [C [S [A Li]]] [d G] L LF Hk.
  pose proof (import_terminates proj fuel st r L) as HT. rewrite H in HT. cbn in HT.
  unfold Import.build_file in H.
  destruct d as [|d]; [discriminate|]. pose proof G as G'. cbn in G.
  destruct (lookup proj (normalize r)) as [f|] eqn:Lf; [|discriminate].
  apply andb_true_iff in G. destruct G as [_ Gi]. rewrite forallb_forall in Gi.
  destruct (scheck_root fuel proj (shape_cache st) f) as [sc sr] eqn:ES.
  destruct (scheck_root_spec _ _ _ _ _ _ ES S) as [_ [_ [N1 F1]]].
  assert (sr = SOk) as ->.
  { destruct sr; [reflexivity| |exfalso; apply (F1 L); reflexivity].
    exfalso. apply N1; [|reflexivity]. intros p Hp. exists d. apply good_sfine, Gi, Hp. }
  destruct (link_ops fuel proj f) as [found lr] eqn:EL.
  destruct (link_ops_spec _ _ _ _ _ EL) as [HE [HL HG]].
  destruct lr as [u|e].
  2:{ exfalso. destruct (HE e eq_refl) as [->| ->]; [|apply (HL L); reflexivity].
      apply HG; [|reflexivity]. intros q Hq. exists d. apply Gi, Hq. }
  destruct (record_parses_frame (map lock_key found) (set_shape_cache sc st)) as [F1' [_ [F3 _]]].
  cbn [set_shape_cache val_cache shape_cache out_lock evaluations artifacts] in F1', F3.
  remember (record_parses (map lock_key found) (set_shape_cache sc st)) as st2 eqn:Est2. clear Est2.
  apply eval_fileA in H.
  - destruct H as [OF Wa]. destruct res as [v|e]; [|exfalso; apply HT; rewrite (OF e eq_refl); reflexivity].
    exists v. split; [reflexivity|]. intros f' Ef Ho. inversion Ef; subst f'.
    eapply Wa; eauto.
  - rewrite F1'; exact C.
  - eauto.
  - rewrite F1', F3. exact LF.
  - rewrite F3. intros Em f' Ef. rewrite Lf in Ef. inversion Ef; subst f'. apply (Hk Em f eq_refl).
Qed.

(* acyclic from the root, every reachable file exists, none fails, none has
   two outs (= [good]): the build succeeds with the isolated value *)
Theorem acyclic_builds : forall proj fuel root d,
  good d proj root = true -> List.length proj <= fuel ->
  exists v, snd (build_file fuel proj empty_state root) = Ok v /\
            value_of d proj root = Some v.
Proof.
  intros proj fuel root d G L.
  destruct (build_file fuel proj empty_state root) as [st' res] eqn:E.
  pose proof (build_file_inv proj [] _ _ _ _ _ E (binv_empty proj)) as [_ [_ [_ [_ W]]]].
  apply (build_file_good proj []) in E; [|apply binv_empty|eauto|exact L|intros _ x fx _ _ _ _ []|intros _ f _ _ []].
  destruct E as [v [-> _]]. exists v. split; [reflexivity|].
  destruct (W v eq_refl) as [d' [_ V']].
  destruct (good_value _ _ _ G) as [w V]. rewrite V. f_equal.
  eapply value_of_fun; eassumption.
Qed.

(* conversely, a successful build certifies a good root *)
Theorem build_ok_good : forall proj roots fuel st r st' v,
  binv proj roots st -> build_file fuel proj st r = (st', Ok v) ->
  exists d, good d proj r = true /\ value_of d proj r = Some v.
Proof.
  intros proj roots fuel st r st' v B H.
  destruct (build_file_inv _ _ _ _ _ _ _ H B) as [_ [_ [_ [_ W]]]]. apply W. reflexivity.
Qed.

(* ================================================================== *)
(* G5: where cache entries come from                                   *)

Definition hookR proj (imp : hook) : Prop :=
  forall stack st p st' stack' r, imp stack st p = (st', stack', r) ->
    forall y, In y (dom (val_cache st')) -> In y (dom (val_cache st)) \/ reach proj (normalize p) y.

Lemma run_importsR proj imp : hookR proj imp ->
  forall ps stack st st' stack' r, run_imports imp ps stack st = (st', stack', r) ->
    forall y, In y (dom (val_cache st')) ->
      In y (dom (val_cache st)) \/ exists i, In i ps /\ reach proj (normalize i) y.
Proof.
  intros HR. induction ps as [|p ps IH]; intros stack st st' stack' r H y Hy; cbn in H.
  - inversion H; subst. auto.
  - destruct (imp stack st p) as [[st1 stack1] r1] eqn:E1.
    assert (H1 : forall y, In y (dom (val_cache st1)) ->
                 In y (dom (val_cache st)) \/ exists i, In i (p :: ps) /\ reach proj (normalize i) y).
    { intros z Hz. destruct (HR _ _ _ _ _ _ E1 z Hz) as [Hz'|Hz']; [auto|].
      right. exists p. split; [left; reflexivity|exact Hz']. }
    destruct r1 as [v|e]; [|inversion H; subst; auto].
    destruct (run_imports imp ps stack1 st1) as [[st2 stack2] r2] eqn:E2.
    assert (st' = st2) by (destruct r2; inversion H; reflexivity). subst st'.
    destruct (IH _ _ _ _ _ E2 y Hy) as [Hy'|[i [Hi R]]]; [auto|].
    right. exists i. split; [right; exact Hi|exact R].
Qed.

Lemma eval_bodyR proj imp : hookR proj imp ->
  forall stack st n k f st' r, eval_body imp stack st n k f = (st', r) ->
    lookup proj n = Some f ->
    forall y, In y (dom (val_cache st')) -> In y (dom (val_cache st)) \/ reach1 proj n y.
Proof.
  intros HR stack st n k f st' r H Lf y Hy. unfold Import.eval_body in H.
  destruct (run_imports imp (imports f) stack (record_eval n (reset_lock md k st))) as [[st1 stack1] r1] eqn:E1.
  assert (H1 : In y (dom (val_cache st1)) -> In y (dom (val_cache st)) \/ reach1 proj n y).
  { intros Hz. destruct (run_importsR proj imp HR _ _ _ _ _ _ E1 y Hz) as [Hz'|[i [Hi R]]].
    - left. cbn [record_eval val_cache] in Hz'. rewrite (proj1 (reset_lock_frame k st)) in Hz'. exact Hz'.
    - right. exists (normalize i). split; [exists f, i; auto|exact R]. }
  destruct r1 as [vs|e]; [|inversion H; subst; auto].
  destruct (run_outs k (n, Val n vs) (outs f) st1) as [st2 r2] eqn:E2.
  apply run_outs_frame in E2. destruct E2 as [F _].
  assert (st' = st2) by (destruct r2; [destruct (fails f)|]; inversion H; reflexivity). subst st'.
  rewrite F in Hy. auto.
Qed.

Theorem importR proj : forall fuel, hookR proj (import fuel proj).
Proof.
  induction fuel as [|fuel IH]; intros stack st p st' stack' r H y Hy; cbn [Import.import] in H;
    (destruct (find_val (normalize p) (val_cache st)) as [v|] eqn:Fv; [inversion H; subst; auto|]);
    (destruct (mem_path (normalize p) stack) eqn:Ms; [inversion H; subst; auto|]);
    (destruct (lookup proj (normalize p)) as [f|] eqn:Lf; [|inversion H; subst; auto]).
  - inversion H; subst; auto.
  - set (n := normalize p) in *.
    destruct (eval_body (import fuel proj) (stack ++ [n]) (record_parse (lock_key n) st) n (lock_key n) f)
      as [st2 r2] eqn:EB.
    pose proof (record_parse_frame (lock_key n) st) as [F1 _].
    assert (H2 : In y (dom (val_cache st2)) -> In y (dom (val_cache st)) \/ reach proj n y).
    { intros Hz. destruct (eval_bodyR proj _ IH _ _ _ _ _ _ _ EB Lf y Hz) as [Hz'|[c [E R]]].
      - left. rewrite <- F1. exact Hz'.
      - right. econstructor; eassumption. }
    destruct r2 as [v|e]; inversion H; subst st' stack' r; clear H; [|auto].
    cbn in Hy. destruct Hy as [<-|Hy]; [right; constructor|auto].
Qed.

Lemma build_file_src proj fuel st r st' res :
  build_file fuel proj st r = (st', res) ->
  forall y, In y (dom (val_cache st')) ->
    In y (dom (val_cache st)) \/ reach1 proj (normalize r) y.
Proof.
  unfold Import.build_file. intros H y Hy.
  destruct (lookup proj (normalize r)) as [f|] eqn:Lf; [|inversion H; subst; auto].
  destruct (scheck_root fuel proj (shape_cache st) f) as [sc sr].
  destruct sr; [|inversion H; subst; auto|inversion H; subst; auto].
  destruct (link_ops fuel proj f) as [found lr].
  destruct (record_parses_frame (map lock_key found) (set_shape_cache sc st)) as [F1 _].
  cbn [set_shape_cache val_cache] in F1.
  remember (record_parses (map lock_key found) (set_shape_cache sc st)) as st2 eqn:Est2. clear Est2.
  destruct lr as [u|e]; [|inversion H; subst; rewrite F1 in Hy; auto].
  unfold Import.eval_file in H. rewrite Lf in H.
  pose proof (record_parse_frame (lock_key r) st2) as [F2 _].
  destruct (eval_bodyR proj _ (importR proj fuel) _ _ _ _ _ _ _ H Lf y Hy) as [Hz|Hz]; [|auto].
  left. rewrite <- F1, <- F2. exact Hz.
Qed.


(* ================================================================== *)
(* G6: where artifacts come from                                       *)

Definition hookK proj (imp : hook) : Prop :=
  forall stack st p st' stack' r, imp stack st p = (st', stack', r) ->
    forall k v, In (k, v) (artifacts st') ->
      In (k, v) (artifacts st) \/ (reach proj (normalize p) k /\ has_out proj k).

Lemma run_importsK proj imp : hookK proj imp ->
  forall ps stack st st' stack' r, run_imports imp ps stack st = (st', stack', r) ->
    forall k v, In (k, v) (artifacts st') ->
      In (k, v) (artifacts st) \/
      ((exists i, In i ps /\ reach proj (normalize i) k) /\ has_out proj k).
Proof.
  intros HR. induction ps as [|p ps IH]; intros stack st st' stack' r H k v Hy; cbn in H.
  - inversion H; subst. auto.
  - destruct (imp stack st p) as [[st1 stack1] r1] eqn:E1.
    assert (H1 : forall k v, In (k, v) (artifacts st1) ->
                 In (k, v) (artifacts st) \/
                 ((exists i, In i (p :: ps) /\ reach proj (normalize i) k) /\ has_out proj k)).
    { intros k0 v0 Hz. destruct (HR _ _ _ _ _ _ E1 k0 v0 Hz) as [Hz'|[Hz' Ho]]; [auto|].
      right. split; [|exact Ho]. exists p. split; [left; reflexivity|exact Hz']. }
    destruct r1 as [w|e]; [|inversion H; subst; auto].
    destruct (run_imports imp ps stack1 st1) as [[st2 stack2] r2] eqn:E2.
    assert (st' = st2) by (destruct r2; inversion H; reflexivity). subst st'.
    destruct (IH _ _ _ _ _ E2 k v Hy) as [Hy'|[[i [Hi R]] Ho]]; [auto|].
    right. split; [|exact Ho]. exists i. split; [right; exact Hi|exact R].
Qed.

Lemma eval_bodyK proj imp : hookK proj imp ->
  forall stack st n k f st' r, eval_body imp stack st n k f = (st', r) ->
    lookup proj n = Some f ->
    forall k0 v, In (k0, v) (artifacts st') ->
      In (k0, v) (artifacts st) \/ ((k0 = n \/ reach1 proj n k0) /\ has_out proj k0).
Proof.
  intros HR stack st n k f st' r H Lf k0 v Hy. unfold Import.eval_body in H.
  destruct (run_imports imp (imports f) stack (record_eval n (reset_lock md k st))) as [[st1 stack1] r1] eqn:E1.
  assert (H1 : forall v, In (k0, v) (artifacts st1) ->
               In (k0, v) (artifacts st) \/ ((k0 = n \/ reach1 proj n k0) /\ has_out proj k0)).
  { intros v0 Hz. destruct (run_importsK proj imp HR _ _ _ _ _ _ E1 k0 v0 Hz) as [Hz'|[[i [Hi R]] Ho]].
    - left. cbn [record_eval artifacts] in Hz'.
      destruct (reset_lock_frame k st) as [_ [_ [_ [R4 _]]]]. rewrite R4 in Hz'. exact Hz'.
    - right. split; [|exact Ho]. right. exists (normalize i). split; [exists f, i; auto|exact R]. }
  destruct r1 as [vs|e]; [|inversion H; subst; auto].
  destruct (run_outs k (n, Val n vs) (outs f) st1) as [st2 r2] eqn:E2.
  assert (st' = st2) by (destruct r2; [destruct (fails f)|]; inversion H; reflexivity). subst st'.
  apply run_outs_cases in E2.
  destruct E2 as [[_ [-> _]]|[[_ [_ [-> _]]]|[[Ho [_ [-> _]]]|[Ho [_ [-> _]]]]]].
  - auto.
  - auto.
  - cbn in Hy. apply in_app_or in Hy. destruct Hy as [Hy|[E|[]]]; [auto|].
    inversion E; subst. right. split; [left; reflexivity|exists f; split; [exact Lf|lia]].
  - cbn in Hy. apply in_app_or in Hy. destruct Hy as [Hy|[E|[]]]; [auto|].
    inversion E; subst. right. split; [left; reflexivity|exists f; split; [exact Lf|lia]].
Qed.

Theorem importK proj : forall fuel, hookK proj (import fuel proj).
Proof.
  induction fuel as [|fuel IH]; intros stack st p st' stack' r H k v Hy; cbn [Import.import] in H;
    (destruct (find_val (normalize p) (val_cache st)) as [w|] eqn:Fv; [inversion H; subst; auto|]);
    (destruct (mem_path (normalize p) stack) eqn:Ms; [inversion H; subst; auto|]);
    (destruct (lookup proj (normalize p)) as [f|] eqn:Lf; [|inversion H; subst; auto]).
  - inversion H; subst; auto.
  - set (n := normalize p) in *.
    destruct (eval_body (import fuel proj) (stack ++ [n]) (record_parse (lock_key n) st) n (lock_key n) f)
      as [st2 r2] eqn:EB.
    pose proof (record_parse_frame (lock_key n) st) as [_ [_ [_ [_ F5]]]].
    assert (H2 : In (k, v) (artifacts st2) ->
                 In (k, v) (artifacts st) \/ (reach proj n k /\ has_out proj k)).
    { intros Hz. destruct (eval_bodyK proj _ IH _ _ _ _ _ _ _ EB Lf k v Hz) as [Hz'|[[->|[c [E R]]] Ho]].
      - left. rewrite <- F5. exact Hz'.
      - right. split; [constructor|exact Ho].
      - right. split; [econstructor; eassumption|exact Ho]. }
    destruct r2 as [w|e]; inversion H; subst st' stack' r; clear H; auto.
Qed.

Lemma build_file_art_src proj fuel st r st' res :
  build_file fuel proj st r = (st', res) ->
  forall k v, In (k, v) (artifacts st') ->
    In (k, v) (artifacts st) \/ (reach proj (normalize r) k /\ has_out proj k).
Proof.
  unfold Import.build_file. intros H k v Hy.
  destruct (lookup proj (normalize r)) as [f|] eqn:Lf; [|inversion H; subst; auto].
  destruct (scheck_root fuel proj (shape_cache st) f) as [sc sr].
  destruct sr; [|inversion H; subst; auto|inversion H; subst; auto].
  destruct (link_ops fuel proj f) as [found lr].
  destruct (record_parses_frame (map lock_key found) (set_shape_cache sc st)) as [_ [_ [_ [_ F5]]]].
  cbn [set_shape_cache artifacts] in F5.
  remember (record_parses (map lock_key found) (set_shape_cache sc st)) as st2 eqn:Est2. clear Est2.
  destruct lr as [u|e]; [|inversion H; subst; rewrite F5 in Hy; auto].
  unfold Import.eval_file in H. rewrite Lf in H.
  pose proof (record_parse_frame (lock_key r) st2) as [_ [_ [_ [_ F5']]]].
  destruct (eval_bodyK proj _ (importK proj fuel) _ _ _ _ _ _ _ H Lf k v Hy) as [Hz|[[->|Hz] Ho]].
  - left. rewrite <- F5, <- F5'. exact Hz.
  - right. split; [constructor|exact Ho].
  - right. split; [apply reach1_reach'; exact Hz|exact Ho].
Qed.

End Mode.

(* ================================================================== *)
(* Partial results                                                     *)

(* FULL STATEMENT (not proved), at the VM level (no static phase): if a cycle
   is reachable from [root] and no reachable file is missing, fails, or has
   two outs, then
     snd (eval_file md fuel proj empty_state root) = Err Cycle   (fuel >= #files).
   PROVED instead: the VM run ends in an error (below), never OutOfFuel
   (eval_terminates); the build-level theorem import_cycle_is_error gives
   exactly [Err Cycle], unconditionally, because the static phase runs first. *)
Definition eval_cycle_is_cycle_partial := eval_cycle_is_error.

(* FULL STATEMENT (not proved): the depth witness of [good] can be bounded by
   the number of files (pigeonhole):
     forall d proj p, good d proj p = true -> good (S (List.length proj)) proj p = true.
   Only needed to run [known_c16b]/[good] at the fixed depth [default_fuel]. *)
Definition good_depth_bound_partial := good_mono.
