From Ucg Require Import env.Out base.Bytes_Lemmas.

Lemma fs_get_set_same fs p c : fs_get (fs_set fs p c) p = Some c.
Proof. cbn. now rewrite bytes_eqb_refl. Qed.

Lemma fs_get_set_other fs p q c : p <> q -> fs_get (fs_set fs p c) q = fs_get fs q.
Proof.
  intros H. cbn. destruct (bytes_eqb p q) eqn:E; [|reflexivity].
  apply bytes_eqb_spec in E. contradiction.
Qed.

Section Proofs.
  Variable fmt : Type.
  Variable value : Type.
  Variable ext_of : fmt -> option bytes.
  Variable convert_bytes : fmt -> value -> option bytes.
  Notation out_step := (out_step fmt value ext_of convert_bytes).
  Notation build_outs := (build_outs fmt value ext_of convert_bytes).
  Notation convert_expr := (convert_expr fmt value ext_of convert_bytes).

  (* right name, same bytes as `convert`, nothing else touched *)
  Lemma out_eq_convert_lemma atomic st src f v bs ext :
    locked st src = false -> ext_of f = Some ext -> convert_expr f v = Some bs ->
    let '(st', r) := out_step atomic st src f v in
    r = OOk /\
    fs_get (files st') (with_extension src ext) = Some bs /\
    (forall q, q <> with_extension src ext -> fs_get (files st') q = fs_get (files st) q) /\
    locked st' src = true.
  Proof.
    intros Hl He Hc. unfold out_step, convert_expr in *. rewrite Hl, He in *. rewrite Hc.
    cbn. repeat split.
    - now rewrite bytes_eqb_refl.
    - intros q Hq. destruct (bytes_eqb (with_extension src ext) q) eqn:E; [|reflexivity].
      apply bytes_eqb_spec in E. congruence.
    - unfold locked. cbn. now rewrite bytes_eqb_refl.
  Qed.

  Lemma second_out_err_lemma atomic st src f v :
    locked st src = true -> out_step atomic st src f v = (st, OErr OneOutputPerFile).
  Proof. intros H. unfold out_step. now rewrite H. Qed.

  (* all or nothing: a failed conversion leaves every file exactly as it was *)
  Lemma out_atomic_lemma st src f v e :
    snd (out_step true st src f v) = OErr e ->
    forall q, fs_get (files (fst (out_step true st src f v))) q = fs_get (files st) q.
  Proof.
    unfold out_step. destruct (locked st src); [reflexivity|].
    destruct (ext_of f) as [ext|]; [|reflexivity].
    destruct (convert_bytes f v); [cbn; discriminate|reflexivity].
  Qed.

  Lemma build_outs_two_lemma atomic st src o1 o2 rest :
    locked st src = false ->
    snd (build_outs atomic st src (o1 :: o2 :: rest)) <> OOk.
  Proof.
    intros Hl. destruct o1 as [f1 v1], o2 as [f2 v2]. cbn [Out.build_outs].
    destruct (out_step atomic st src f1 v1) as [st1 r1] eqn:E1.
    destruct r1; [|cbn; discriminate].
    assert (Hl1 : locked st1 src = true).
    { unfold Out.out_step in E1. rewrite Hl in E1. destruct (ext_of f1); [|discriminate].
      destruct (convert_bytes f1 v1); [|destruct atomic; discriminate].
      inversion E1; subst. unfold locked; cbn. now rewrite bytes_eqb_refl. }
    rewrite (second_out_err_lemma atomic st1 src f2 v2 Hl1). cbn. discriminate.
  Qed.

  Lemma build_outs_atomic_lemma st src outs e :
    snd (build_outs true st src outs) = OErr e ->
    (* files written by the successful out statements before the failing one stay; the failing one adds nothing *)
    forall q, fs_get (files (fst (build_outs true st src outs))) q = fs_get (files st) q \/
              exists f v bs ext, In (f, v) outs /\ ext_of f = Some ext /\ convert_bytes f v = Some bs /\
                                 q = with_extension src ext /\
                                 fs_get (files (fst (build_outs true st src outs))) q = Some bs.
  Proof.
    revert st. induction outs as [|[f v] rest IH]; intros st H q; [cbn in H; discriminate|].
    cbn [Out.build_outs] in *.
    destruct (out_step true st src f v) as [st1 r1] eqn:E1. destruct r1 as [|e1].
    - destruct (IH st1 H q) as [Hq|(f' & v' & bs & ext & Hin & He & Hc & -> & Hg)].
      + unfold Out.out_step in E1. destruct (locked st src); [discriminate|].
        destruct (ext_of f) as [ext|] eqn:He; [|discriminate].
        destruct (convert_bytes f v) as [bs|] eqn:Hc; [|discriminate].
        inversion E1; subst st1. cbn in Hq.
        destruct (bytes_eqb (with_extension src ext) q) eqn:Eq.
        * apply bytes_eqb_spec in Eq. subst q. right. exists f, v, bs, ext. repeat split; auto.
          now left.
        * left. exact Hq.
      + right. exists f', v', bs, ext. repeat split; auto. now right.
    - left. cbn. pose proof (out_atomic_lemma st src f v e1) as Ha. rewrite E1 in Ha. cbn in Ha. now apply Ha.
  Qed.
End Proofs.

(* the code as first found (create before convert) destroys an existing artifact *)
Definition wit_ext (f : nat) : option bytes := Some (b "toml").
Definition wit_conv (f : nat) (v : nat) : option bytes := None.
Lemma create_before_convert_refuted :
  let st := {| files := [(b "/d/a.toml", b "old")]; locks := [] |} in
  fs_get (files (fst (out_step nat nat wit_ext wit_conv false st (b "/d/a.ucg") 0 0))) (b "/d/a.toml") = Some [] /\
  fs_get (files (fst (out_step nat nat wit_ext wit_conv true st (b "/d/a.ucg") 0 0))) (b "/d/a.toml") = Some (b "old").
Proof. vm_compute. split; reflexivity. Qed.

Example with_extension_examples :
  with_extension (b "/d/a.ucg") (b "json") = b "/d/a.json" /\
  with_extension (b "/d.x/a") (b "json") = b "/d.x/a.json" /\
  with_extension (b "/d/a.b.ucg") (b "yaml") = b "/d/a.b.yaml" /\
  with_extension (b "/d/.hidden") (b "sh") = b "/d/.hidden.sh".
Proof. vm_compute. repeat split. Qed.
