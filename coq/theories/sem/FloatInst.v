(* The float instance used by the executable runner only: Flocq's binary64.
   Theorems are stated over an abstract [float_ops]; nothing proved mentions this file, so the
   four classical axioms Flocq's definitions carry (DESIGN section 6) stay out of every
   Print Assumptions of a property theorem. *)
From Flocq Require Import IEEE754.BinarySingleNaN IEEE754.Binary IEEE754.Bits.
From Ucg Require Import sem.Sem.

Definition b64_cmp (x y : binary64) : option comparison := Binary.Bcompare 53 1024 x y.

Definition b64_ops : float_ops := {|
  F := binary64;
  f_of_bits := b64_of_bits;
  f_to_bits := bits_of_b64;
  fadd := b64_plus mode_NE;
  fsub := b64_minus mode_NE;
  fmul := b64_mult mode_NE;
  fdiv := b64_div mode_NE;
  feqb := fun x y => match b64_cmp x y with Some Eq => true | _ => false end;
  fltb := fun x y => match b64_cmp x y with Some Lt => true | _ => false end;
  fleb := fun x y => match b64_cmp x y with Some Lt | Some Eq => true | _ => false end;
  f_of_int := fun z => Binary.binary_normalize 53 1024 (eq_refl _) (eq_refl _) mode_NE z 0 false;
  f_to_int := fun _ => None;
  f_text := fun _ => None
|}.
