(* M-AST: the expression language of ucg (src/ast/mod.rs) without positions.
   Float literals carry their IEEE-754 binary64 bit pattern; format templates are
   pre-parsed into parts (src/build/format.rs) by the generator / translator. *)
From Ucg Require Export base.Bytes prec.Climb.

Inductive cast_type := CInt | CFloat | CStr | CBool.

Inductive expr :=
| ENull
| EBool (v : bool)
| EInt (z : Z)
| EFloat (bits : Z)
| EStr (s : bytes)
| ESym (x : bytes)
| ETuple (fs : list (bytes * expr))
| EList (es : list expr)
| EBin (o : op) (l r : expr)
| ENot (e : expr)
| EGroup (e : expr)
| ECopy (target : expr) (fs : list (bytes * expr))
| ERange (start : expr) (step : option expr) (stop : expr)
| EFormatL (parts : list tpart) (args : list expr)      (* "t" % (a, b) *)
| EFormatS (parts : list tpart) (arg : expr)            (* "t @{item.x}" % e *)
| ECall (f : expr) (args : list expr)
| ECast (c : cast_type) (e : expr)
| EFunc (params : list bytes) (body : expr)
| ESelect (v : expr) (dflt : option expr) (arms : list (bytes * expr))
| EMap (f t : expr)
| EFilter (f t : expr)
| EReduce (f acc t : expr)
| EModule (params : list (bytes * expr)) (out : option expr) (body : list stmt)
| EFail (e : expr)
| ETrace (e : expr)
| EImport (path : bytes)
| EInclude (typ path : bytes)
| EConvert (typ : bytes) (e : expr)
with tpart :=
| PStr (s : bytes)
| PHole                       (* `@` placeholder of the list form *)
| PExpr (e : expr)            (* `@{expr}` of the single form *)
with stmt :=
| SLet (x : bytes) (e : expr)
| SExpr (e : expr)
| SAssert (e : expr)
| SOut (typ : bytes) (e : expr).

(* the words a program may not bind (docsite reference/_index.md; see gen/Reserved.v for the
   list regenerated from the sources) *)
Definition prog := list stmt.
