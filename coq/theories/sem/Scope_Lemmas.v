(* Scoping facts of the definitional semantics (used by C10). *)
From Ucg Require Import base.Bytes_Lemmas sem.Sem.

Section Scope.
  Variable fo : float_ops.
  Notation value := (value fo).
  Notation scope := (scope fo).
  Notation ctx := (ctx fo).
  Notation exec_list := (exec_list fo).
  Notation eval := (eval fo).
  Notation lookup := (lookup fo).

  (* [s'] extends [s]: every name bound in s keeps its value in s' *)
  Definition extends (s s' : scope) : Prop :=
    forall x v, lookup x s = Some v -> lookup x s' = Some v.

  Lemma extends_refl s : extends s s.
  Proof. intros x v H; exact H. Qed.

  Lemma extends_trans s1 s2 s3 : extends s1 s2 -> extends s2 s3 -> extends s1 s3.
  Proof. intros H1 H2 x v H. apply H2, H1, H. Qed.

  Lemma extends_fresh s x v : lookup x s = None -> extends s ((x, v) :: s).
  Proof.
    intros Hn y w Hy. cbn. destruct (bytes_eqb y x) eqn:E; [|exact Hy].
    apply Bytes_Lemmas.bytes_eqb_spec in E. subst y. congruence.
  Qed.

  Lemma exec_list_S fuel (c : ctx) ss :
    exec_list (S fuel) c ss =
    match ss with
    | [] => Ok (sc fo c)
    | s :: ss' =>
      do s1 <- match s with
               | SLet x e =>
                 do v <- eval fuel c e;
                 if is_reserved x then Err
                 else match lookup x (sc fo c) with
                      | Some _ => Err
                      | None => Ok ((x, v) :: sc fo c)
                      end
               | SExpr e => do _ <- eval fuel c e; Ok (sc fo c)
               | SAssert _ | SOut _ _ => Unsup
               end;
      exec_list fuel (with_scope fo c s1) ss'
    end.
  Proof. reflexivity. Qed.

  (* Bindings are immutable: whatever a program does, the bindings that existed before it
     still exist afterwards with the same values. *)
  Theorem bindings_immutable_lemma : forall fuel (c : ctx) ss s',
      exec_list fuel c ss = Ok s' -> extends (sc fo c) s'.
  Proof.
    induction fuel as [|f IH]; intros c ss s' H; [discriminate|].
    rewrite exec_list_S in H. destruct ss as [|s ss].
    - inversion H; subst. apply extends_refl.
    - destruct s as [x e|e|e|t e]; cbn [bind] in H.
      + destruct (eval f c e) as [v| | |]; try discriminate. cbn [bind] in H.
        destruct (is_reserved x); [discriminate|].
        destruct (lookup x (sc fo c)) eqn:El; [discriminate|]. cbn [bind] in H.
        apply IH in H. cbn in H. eapply extends_trans; [|exact H]. now apply extends_fresh.
      + destruct (eval f c e) as [v| | |]; try discriminate. cbn [bind] in H.
        apply IH in H. exact H.
      + discriminate.
      + discriminate.
  Qed.

  (* A statement that binds a reserved word or a name that is already bound fails the build. *)
  Theorem rebind_is_error_lemma : forall fuel (c : ctx) x e ss v0,
      lookup x (sc fo c) = Some v0 ->
      forall s', exec_list fuel c (SLet x e :: ss) <> Ok s'.
  Proof.
    intros fuel c x e ss v0 Hb s' H. destruct fuel as [|f]; [discriminate|].
    rewrite exec_list_S in H. cbn [bind] in H.
    destruct (eval f c e) as [v| | |]; try discriminate. cbn [bind] in H.
    destruct (is_reserved x); [discriminate|]. rewrite Hb in H. discriminate.
  Qed.

  Theorem reserved_is_error_lemma : forall fuel (c : ctx) x e ss,
      is_reserved x = true -> forall s', exec_list fuel c (SLet x e :: ss) <> Ok s'.
  Proof.
    intros fuel c x e ss Hr s' H. destruct fuel as [|f]; [discriminate|].
    rewrite exec_list_S in H. cbn [bind] in H.
    destruct (eval f c e) as [v| | |]; try discriminate. cbn [bind] in H.
    rewrite Hr in H. discriminate.
  Qed.

  (* Programs are evaluated statement by statement: running p1 ++ p2 is running p1 and then p2 in
     the scope p1 produced (for enough fuel on both sides). *)
  Theorem exec_app_lemma : forall fuel (c : ctx) p1 p2 s',
      exec_list fuel c (p1 ++ p2) = Ok s' ->
      exists s1, exec_list fuel c p1 = Ok s1 /\
                 exec_list (fuel - List.length p1) (with_scope fo c s1) p2 = Ok s'.
  Proof.
    induction fuel as [|f IH]; intros c p1 p2 s' H; [discriminate|].
    destruct p1 as [|s p1].
    - cbn [app] in H. exists (sc fo c). split; [reflexivity|].
      cbn [List.length]. rewrite Nat.sub_0_r. destruct c; exact H.
    - cbn [app] in H. rewrite exec_list_S in H. rewrite exec_list_S.
      destruct (match s with
                | SLet x e => do v <- eval f c e;
                              if is_reserved x then Err
                              else match lookup x (sc fo c) with Some _ => Err | None => Ok ((x, v) :: sc fo c) end
                | SExpr e => do _ <- eval f c e; Ok (sc fo c)
                | _ => Unsup end) as [s1| | |] eqn:E; try discriminate.
      cbn [bind] in *. destruct (IH _ _ _ _ H) as (s2 & H1 & H2).
      exists s2. split; [exact H1|]. cbn [List.length]. cbn in H2. exact H2.
  Qed.

  (* A prefix that fails makes the whole program fail (with the same kind of outcome). *)
  Theorem prefix_failure_propagates_lemma : forall fuel (c : ctx) p1 p2,
      exec_list fuel c p1 = Err -> exec_list fuel c (p1 ++ p2) = Err.
  Proof.
    induction fuel as [|f IH]; intros c p1 p2 H; [discriminate|].
    destruct p1 as [|s p1]; [discriminate|].
    cbn [app]. rewrite exec_list_S in *.
    destruct (match s with
              | SLet x e => do v <- eval f c e;
                            if is_reserved x then Err
                            else match lookup x (sc fo c) with Some _ => Err | None => Ok ((x, v) :: sc fo c) end
              | SExpr e => do _ <- eval f c e; Ok (sc fo c)
              | _ => Unsup end) as [s1| | |] eqn:E; cbn [bind] in *; try discriminate; [|reflexivity].
    apply IH, H.
  Qed.

  (* A function's result depends only on its closure and arguments: the caller's scope and `self`
     do not enter the evaluation of the body.  (By construction of [eval]: stated for the record.) *)
  Theorem call_ignores_caller_scope : forall fuel (c1 c2 : ctx) ps body clo,
      envt fo c1 = envt fo c2 -> strict fo c1 = strict fo c2 -> eq_ordered fo c1 = eq_ordered fo c2 ->
      forall avs s,
        bind_params fo ps avs clo = Ok s ->
        eval fuel {| sc := s; self_v := None; envt := envt fo c1; strict := strict fo c1; eq_ordered := eq_ordered fo c1 |} body =
        eval fuel {| sc := s; self_v := None; envt := envt fo c2; strict := strict fo c2; eq_ordered := eq_ordered fo c2 |} body.
  Proof.
    intros fuel c1 c2 ps body clo He Hs Ho avs s _. rewrite He, Hs, Ho. reflexivity.
  Qed.
End Scope.
