(* `env` in the definitional semantics (used by C18). *)
From Ucg Require Import base.Bytes_Lemmas sem.Sem.

Section Env.
  Variable fo : float_ops.

  Fixpoint lookup_env (n : bytes) (E : list (bytes * bytes)) : option bytes :=
    match E with
    | [] => None
    | (k, v) :: E' => if bytes_eqb n k then Some v else lookup_env n E'
    end.

  Lemma lookup_env_tuple n E :
    lookup fo n (map (fun '(k, v) => (k, VStr fo v)) E) = option_map (VStr fo) (lookup_env n E).
  Proof.
    induction E as [|[k v] E IH]; cbn; [reflexivity|]. destruct (bytes_eqb n k); [reflexivity|exact IH].
  Qed.

  Definition env_sel (n : bytes) : expr := EBin DOT (ESym (b "env")) (ESym n).

  Lemma eval_env_sel fuel (c : ctx fo) n :
    lookup fo (b "env") (sc fo c) = None ->
    eval fo (S (S fuel)) c (env_sel n) =
    match lookup_env n (envt fo c) with
    | Some v => Ok (VStr fo v)
    | None => if strict fo c then Err else Ok (VNull fo)
    end.
  Proof.
    intros Hn. unfold env_sel. cbn -[lookup bytes_eqb b]. 
    replace (bytes_eqb (b "env") (b "self")) with false by reflexivity.
    rewrite Hn. replace (bytes_eqb (b "env") (b "env")) with true by reflexivity.
    cbn -[lookup]. unfold env_tuple. rewrite lookup_env_tuple.
    destruct (lookup_env n (envt fo c)); reflexivity.
  Qed.
End Env.
