(* M-SEM: definitional big-step evaluator of ucg, written from the language reference
   (docsite/site/content/reference/{expressions,statements,types}.md).  Where the reference
   is silent the file says which choice it makes and why.  Fuel-indexed, total, executable.
   Floats are an abstract interface [float_ops]; nothing here depends on float laws. *)
From Ucg Require Export sem.Ast.

Record float_ops := {
  F : Type;
  f_of_bits : Z -> F;
  f_to_bits : F -> Z;
  fadd : F -> F -> F; fsub : F -> F -> F; fmul : F -> F -> F; fdiv : F -> F -> F;
  feqb : F -> F -> bool; fltb : F -> F -> bool; fleb : F -> F -> bool;
  f_of_int : Z -> F;                       (* i64 -> f64, round to nearest even *)
  f_to_int : F -> option Z;                (* `as i64`; None = not modelled *)
  f_text : F -> option bytes               (* Rust Display; None = not modelled *)
}.

Inductive res (A : Type) :=
| Ok (a : A)
| Err            (* a build error (diagnostic) *)
| Unsup          (* outside the modelled fragment: the case is counted, not compared *)
| Fuel.          (* out of fuel *)
Arguments Ok {A}. Arguments Err {A}. Arguments Unsup {A}. Arguments Fuel {A}.

Definition bind {A B} (r : res A) (k : A -> res B) : res B :=
  match r with Ok a => k a | Err => Err | Unsup => Unsup | Fuel => Fuel end.
Notation "'do' x <- r ; k" := (bind r (fun x => k)) (at level 200, x pattern, r at level 100, k at level 200).

Section Sem.
  Variable fo : float_ops.
  Notation FT := (F fo).

  Inductive value :=
  | VNull
  | VBool (v : bool)
  | VInt (z : Z)
  | VFloat (f : FT)
  | VStr (s : bytes)
  | VList (l : list value)
  | VTuple (fs : list (bytes * value))
  | VFunc (params : list bytes) (body : expr) (closure : list (bytes * value))
  | VModule (params : list (bytes * value)) (out : option expr) (body : list stmt).

  Definition scope := list (bytes * value).     (* most recent binding first *)

  Fixpoint lookup (x : bytes) (sc : scope) : option value :=
    match sc with
    | [] => None
    | (y, v) :: sc' => if bytes_eqb x y then Some v else lookup x sc'
    end.

  (* ---- integers: i64 with checked arithmetic ---- *)
  Definition i64_min : Z := -9223372036854775808.
  Definition i64_max : Z := 9223372036854775807.
  Definition in_i64 (z : Z) : bool := Z.leb i64_min z && Z.leb z i64_max.
  Definition chk (z : Z) : res value := if in_i64 z then Ok (VInt z) else Err.

  (* ---- type names as the VM compares them (Func and Module share one) ---- *)
  Inductive tname := TInt | TFloat | TString | TBool | TNull | TList | TTuple | TFunc.
  Definition tname_eqb (a b : tname) : bool :=
    match a, b with
    | TInt, TInt | TFloat, TFloat | TString, TString | TBool, TBool | TNull, TNull
    | TList, TList | TTuple, TTuple | TFunc, TFunc => true
    | _, _ => false
    end.
  Definition type_of (v : value) : tname :=
    match v with
    | VNull => TNull | VBool _ => TBool | VInt _ => TInt | VFloat _ => TFloat | VStr _ => TString
    | VList _ => TList | VTuple _ => TTuple | VFunc _ _ _ => TFunc | VModule _ _ _ => TFunc
    end.
  Definition compatible (a b : value) : bool :=
    tname_eqb (type_of a) (type_of b) || tname_eqb (type_of a) TNull || tname_eqb (type_of b) TNull.

  (* `is` type strings (reference: Type test expressions) *)
  Definition is_name (v : value) : bytes :=
    match v with
    | VNull => b "null" | VBool _ => b "bool" | VInt _ => b "int" | VFloat _ => b "float"
    | VStr _ => b "str" | VList _ => b "list" | VTuple _ => b "tuple"
    | VFunc _ _ _ => b "func" | VModule _ _ _ => b "module"
    end.

  (* ---- deep equality.  The reference says tuples must have their fields in the same order;
     the implementation compares them order-insensitively.  [ordered] selects the reading:
     true = reference, false = implementation (recorded as finding C01-tuple-eq-order). ---- *)
  Fixpoint veq (ordered : bool) (fuel : nat) (a b : value) : res bool :=
    match fuel with
    | O => Fuel
    | S f =>
      match a, b with
      | VNull, VNull => Ok true
      | VBool x, VBool y => Ok (Bool.eqb x y)
      | VInt x, VInt y => Ok (Z.eqb x y)
      | VFloat x, VFloat y => Ok (feqb fo x y)
      | VStr x, VStr y => Ok (bytes_eqb x y)
      | VList x, VList y =>
        (fix go (x y : list value) : res bool :=
           match x, y with
           | [], [] => Ok true
           | v :: x', w :: y' => do r <- veq ordered f v w; if r then go x' y' else Ok false
           | _, _ => Ok false
           end) x y
      | VTuple x, VTuple y =>
        if negb (Nat.eqb (List.length x) (List.length y)) then Ok false
        else if ordered then
          (fix go (x y : list (bytes * value)) : res bool :=
             match x, y with
             | [], [] => Ok true
             | (k, v) :: x', (k', w) :: y' =>
               if bytes_eqb k k' then (do r <- veq ordered f v w; if r then go x' y' else Ok false)
               else Ok false
             | _, _ => Ok false
             end) x y
        else
          (* every left key occurs on the right, and every right occurrence of it has an equal value *)
          (fix go (x : list (bytes * value)) : res bool :=
             match x with
             | [] => Ok true
             | (k, v) :: x' =>
               do r <- (fix find (y : list (bytes * value)) (found : bool) : res bool :=
                          match y with
                          | [] => Ok found
                          | (k', w) :: y' =>
                            if bytes_eqb k k' then (do r <- veq ordered f v w; if r then find y' true else Ok false)
                            else find y' found
                          end) y false;
               if r then go x' else Ok false
             end) x
      | VFunc _ _ _, _ | _, VFunc _ _ _ | VModule _ _ _, _ | _, VModule _ _ _ => Unsup
      | _, _ => Ok false
      end
    end.

  (* ---- tuples: a repeated key replaces the earlier value if the types are compatible ---- *)
  Fixpoint merge_field (fs : list (bytes * value)) (k : bytes) (v : value) : res (list (bytes * value)) :=
    match fs with
    | [] => Ok [(k, v)]
    | (k', w) :: fs' =>
      if bytes_eqb k k' then (if compatible w v then Ok ((k', v) :: fs') else Err)
      else do r <- merge_field fs' k v; Ok ((k', w) :: r)
    end.

  Fixpoint merge_fields (base : list (bytes * value)) (ov : list (bytes * value)) : res (list (bytes * value)) :=
    match ov with
    | [] => Ok base
    | (k, v) :: ov' => do base' <- merge_field base k v; merge_fields base' ov'
    end.

  (* ---- strings ---- *)
  (* split UTF-8 text into characters (map/filter/reduce over strings work per char) *)
  Definition utf8_len (c : ascii) : nat :=
    let n := N_of_ascii c in
    if N.ltb n 128 then 1 else if N.ltb n 224 then 2 else if N.ltb n 240 then 3 else 4.
  Fixpoint utf8_chars_fuel (fuel : nat) (s : bytes) : list bytes :=
    match fuel with
    | O => []
    | S f =>
      match s with
      | [] => []
      | c :: _ => let n := utf8_len c in firstn n s :: utf8_chars_fuel f (skipn n s)
      end
    end.
  Definition utf8_chars (s : bytes) : list bytes := utf8_chars_fuel (List.length s) s.

  Fixpoint is_prefix (p s : bytes) : bool :=
    match p, s with
    | [], _ => true
    | c :: p', d :: s' => Ascii.eqb c d && is_prefix p' s'
    | _, [] => false
    end.
  Fixpoint contains_sub (s part : bytes) : bool :=
    is_prefix part s || match s with [] => false | _ :: s' => contains_sub s' part end.

  (* decimal text *)
  Fixpoint pos_digits (fuel : nat) (n : N) (acc : bytes) : bytes :=
    match fuel with
    | O => acc
    | S f =>
      let d := ascii_of_N (48 + N.modulo n 10) in
      let q := N.div n 10 in
      if N.eqb q 0 then d :: acc else pos_digits f q (d :: acc)
    end.
  Definition dec_N (n : N) : bytes := pos_digits (S (N.to_nat (N.log2 n))) n [].
  Definition dec_Z (z : Z) : bytes :=
    match z with Z0 => b "0" | Zpos p => dec_N (Npos p) | Zneg p => "-"%char :: dec_N (Npos p) end.

  (* Rust i64::from_str: optional sign, at least one digit, nothing else, must fit *)
  Fixpoint digits_val (ds : bytes) (acc : N) : option N :=
    match ds with
    | [] => Some acc
    | c :: ds' =>
      let n := N_of_ascii c in
      if N.leb 48 n && N.leb n 57 then digits_val ds' (acc * 10 + (n - 48)) else None
    end.
  Definition parse_int (s : bytes) : option Z :=
    let '(neg, ds) := match s with
                      | "-"%char :: r => (true, r)
                      | "+"%char :: r => (false, r)
                      | _ => (false, s) end in
    match ds with
    | [] => None
    | _ => match digits_val ds 0 with
           | None => None
           | Some n => let z := if neg then (- Z.of_N n)%Z else Z.of_N n in
                       if in_i64 z then Some z else None
           end
    end.

  (* how a value is rendered inside a format string *)
  Fixpoint render (fuel : nat) (v : value) : res bytes :=
    match fuel with
    | O => Fuel
    | S f =>
      match v with
      | VNull => Ok (b "NULL")
      | VBool true => Ok (b "true")
      | VBool false => Ok (b "false")
      | VInt z => Ok (dec_Z z)
      | VFloat x => match f_text fo x with Some t => Ok t | None => Unsup end
      | VStr s => Ok s
      | VList l =>
        do body <- (fix go (l : list value) : res bytes :=
                      match l with
                      | [] => Ok []
                      | v :: l' => do t <- render f v; do r <- go l'; Ok (t ++ ","%char :: r)
                      end) l;
        Ok ("["%char :: body ++ b "]")
      | VTuple fs =>
        do body <- (fix go (fs : list (bytes * value)) : res bytes :=
                      match fs with
                      | [] => Ok []
                      | (k, v) :: fs' => do t <- render f v; do r <- go fs'; Ok (k ++ b " = " ++ t ++ ","%char :: r)
                      end) fs;
        Ok ("{"%char :: body ++ b "}")
      | VFunc _ _ _ => Ok (b "<Func>")
      | VModule _ _ _ => Ok (b "<Module>")
      end
    end.

  (* str(v): the Display form of a primitive (strings keep their quotes, inner quotes are escaped) *)
  Fixpoint esc_quotes (s : bytes) : bytes :=
    match s with
    | [] => []
    | c :: s' => if Ascii.eqb c """"%char then "\"%char :: """"%char :: esc_quotes s' else c :: esc_quotes s'
    end.

  Definition cast (c : cast_type) (v : value) : res value :=
    match c, v with
    | CInt, VInt z => Ok (VInt z)
    | CInt, VFloat x => match f_to_int fo x with Some z => Ok (VInt z) | None => Unsup end
    | CInt, VStr s => match parse_int s with Some z => Ok (VInt z) | None => Err end
    | CFloat, VInt z => Ok (VFloat (f_of_int fo z))
    | CFloat, VFloat x => Ok (VFloat x)
    | CFloat, VStr _ => Unsup
    | CStr, VInt z => Ok (VStr (dec_Z z))
    | CStr, VStr s => Ok (VStr (""""%char :: esc_quotes s ++ [""""%char]))
    | CStr, VBool true => Ok (VStr (b "true"))
    | CStr, VBool false => Ok (VStr (b "false"))
    | CStr, VNull => Ok (VStr (b "NULL"))
    | CStr, VFloat x => match f_text fo x with Some t => Ok (VStr t) | None => Unsup end
    | CBool, VBool v => Ok (VBool v)
    | CBool, VStr s => if bytes_eqb s (b "true") then Ok (VBool true)
                       else if bytes_eqb s (b "false") then Ok (VBool false) else Err
    | _, _ => Err
    end.

  (* ---- operators ---- *)
  Definition arith (o : op) (l r : value) : res value :=
    match o, l, r with
    | Add, VInt x, VInt y => chk (x + y)
    | Sub, VInt x, VInt y => chk (x - y)
    | Mul, VInt x, VInt y => chk (x * y)
    | Div, VInt x, VInt y => if Z.eqb y 0 then Err else chk (Z.quot x y)
    | Mod, VInt x, VInt y => if Z.eqb y 0 then Err else chk (Z.rem x y)
    | Add, VFloat x, VFloat y => Ok (VFloat (fadd fo x y))
    | Sub, VFloat x, VFloat y => Ok (VFloat (fsub fo x y))
    | Mul, VFloat x, VFloat y => Ok (VFloat (fmul fo x y))
    | Div, VFloat x, VFloat y => Ok (VFloat (fdiv fo x y))
    | Mod, VFloat _, VFloat _ => Unsup
    | Add, VStr x, VStr y => Ok (VStr (x ++ y))
    | Add, VList x, VList y => Ok (VList (x ++ y))
    | _, _, _ => Err
    end.
  (* i64::MIN / -1 and i64::MIN % -1 overflow *)
  Definition arith' (o : op) (l r : value) : res value :=
    match o, l, r with
    | Mod, VInt x, VInt y => if Z.eqb y 0 then Err
                             else if Z.eqb x i64_min && Z.eqb y (-1) then Err else chk (Z.rem x y)
    | _, _, _ => arith o l r
    end.

  Definition compare_num (o : op) (l r : value) : res value :=
    match l, r with
    | VInt x, VInt y =>
      Ok (VBool (match o with GT => Z.ltb y x | LT => Z.ltb x y | GTEqual => Z.leb y x | _ => Z.leb x y end))
    | VFloat x, VFloat y =>
      Ok (VBool (match o with GT => fltb fo y x | LT => fltb fo x y | GTEqual => fleb fo y x | _ => fleb fo x y end))
    | _, _ => Err
    end.

  (* range: inclusive end, step NULL = 1, step <= 0 is an error, ints only *)
  Fixpoint range_from (fuel : nat) (start step stop : Z) : list value :=
    match fuel with
    | O => []
    | S f => if Z.ltb stop start then []
             else VInt start :: (if in_i64 (start + step) then range_from f (start + step) step stop else [])
    end.
  Definition range_len (start step stop : Z) : Z := if Z.ltb stop start then 0 else (stop - start) / step + 1.
  Definition range_limit : Z := 1000000.

  Local Open Scope string_scope.
  Definition reserved : list bytes :=
    map b ["let"; "module"; "func"; "out"; "assert"; "self"; "import"; "include"; "as"; "map";
           "filter"; "reduce"; "select"; "not"; "constraint"; "convert"; "fail"; "NULL"; "in";
           "is"; "TRACE"; "env"; "true"; "false"].
  Local Close Scope string_scope.
  Definition is_reserved (x : bytes) : bool := existsb (bytes_eqb x) reserved.

  (* sorted-by-name export of a scope (module results, program results): the reference does
     not fix an order; the implementation's symbol table is ordered by name and we adopt that *)
  Fixpoint bytes_ltb (x y : bytes) : bool :=
    match x, y with
    | [], [] => false
    | [], _ :: _ => true
    | _ :: _, [] => false
    | c :: x', d :: y' =>
      if N.ltb (N_of_ascii c) (N_of_ascii d) then true
      else if N.ltb (N_of_ascii d) (N_of_ascii c) then false else bytes_ltb x' y'
    end.
  Fixpoint insert_sorted (k : bytes) (v : value) (l : list (bytes * value)) : list (bytes * value) :=
    match l with
    | [] => [(k, v)]
    | (k', w) :: l' => if bytes_ltb k k' then (k, v) :: l
                       else if bytes_eqb k k' then l      (* most recent binding already present *)
                       else (k', w) :: insert_sorted k v l'
    end.
  Definition export_scope (sc : scope) (drop_mod : bool) : list (bytes * value) :=
    fold_left (fun acc '(k, v) => if drop_mod && bytes_eqb k (b "mod") then acc else insert_sorted k v acc) sc [].

  (* evaluation context *)
  Record ctx := { sc : scope; self_v : option value; envt : list (bytes * bytes); strict : bool;
                  eq_ordered : bool }.
  Definition with_scope (c : ctx) (s : scope) : ctx :=
    {| sc := s; self_v := self_v c; envt := envt c; strict := strict c; eq_ordered := eq_ordered c |}.
  Definition with_self (c : ctx) (v : option value) : ctx :=
    {| sc := sc c; self_v := v; envt := envt c; strict := strict c; eq_ordered := eq_ordered c |}.

  Definition env_tuple (c : ctx) : value := VTuple (map (fun '(k, v) => (k, VStr v)) (envt c)).

  Definition index (c : ctx) (target key : value) : res value :=
    let miss := if strict c then Err else Ok VNull in
    match key, target with
    | VInt i, VList l => if Z.leb 0 i then match nth_error l (Z.to_nat i) with Some v => Ok v | None => miss end
                         else miss
    | VStr k, VTuple fs => match lookup k fs with Some v => Ok v | None => miss end
    | _, _ => miss
    end.

  Fixpoint mapM {A B} (f : A -> res B) (l : list A) : res (list B) :=
    match l with
    | [] => Ok []
    | a :: l' => do x <- f a; do r <- mapM f l'; Ok (x :: r)
    end.

  (* bind the parameters of a call: reserved names are rejected, parameters shadow the closure *)
  Fixpoint bind_params (ps : list bytes) (args : list value) (s : scope) : res scope :=
    match ps, args with
    | [], [] => Ok s
    | p :: ps', a :: args' => if is_reserved p then Err else bind_params ps' args' ((p, a) :: s)
    | _, _ => Err
    end.

  Fixpoint eval (fuel : nat) (c : ctx) (e : expr) {struct fuel} : res value :=
    match fuel with
    | O => Fuel
    | S f =>
      let ev := eval f c in
      let call (fv : value) (args : list value) : res value :=
          match fv with
          | VFunc ps body clo =>
            if negb (Nat.eqb (List.length ps) (List.length args)) then Err
            else do s <- bind_params ps args clo;
                 eval f {| sc := s; self_v := None; envt := envt c; strict := strict c; eq_ordered := eq_ordered c |} body
          | _ => Err
          end in
      let tuple_lit (c' : ctx) (fs : list (bytes * expr)) : res (list (bytes * value)) :=
          fold_left (fun acc '(k, e) => do a <- acc; do v <- eval f c' e; merge_field a k v) fs (Ok []) in
      match e with
      | ENull => Ok VNull
      | EBool v => Ok (VBool v)
      | EInt z => Ok (VInt z)
      | EFloat bits => Ok (VFloat (f_of_bits fo bits))
      | EStr s => Ok (VStr s)
      | ESym x =>
        if bytes_eqb x (b "self") then match self_v c with Some v => Ok v | None => Err end
        else match lookup x (sc c) with
             | Some v => Ok v
             | None => if bytes_eqb x (b "env") then Ok (env_tuple c) else Err
             end
      | ETuple fs => do r <- tuple_lit c fs; Ok (VTuple r)
      | EList es => do r <- mapM ev es; Ok (VList r)
      | EGroup e1 => ev e1
      | ENot e1 => do v <- ev e1; match v with VBool x => Ok (VBool (negb x)) | _ => Err end
      | EBin AND l r =>
        do lv <- ev l;
        match lv with
        | VBool false => Ok (VBool false)
        | VBool true => ev r          (* the reference asks for booleans on both sides; the right one is
                                          returned as is by the implementation -- see finding C01-and-or-rhs *)
        | _ => Err
        end
      | EBin OR l r =>
        do lv <- ev l;
        match lv with
        | VBool true => Ok (VBool true)
        | VBool false => ev r
        | _ => Err
        end
      | EBin DOT l r =>
        match r with
        | ECopy (ESym k) fs | ECopy (EStr k) fs =>
          do lv <- ev l; do tv <- index c lv (VStr k); copy_into f c tv fs
        | ECopy (EInt k) fs =>
          do lv <- ev l; do tv <- index c lv (VInt k); copy_into f c tv fs
        | ECall (ESym k) args | ECall (EStr k) args =>
          do avs <- mapM ev args; do lv <- ev l; do fv <- index c lv (VStr k); call fv avs
        | ECall (EInt k) args =>
          do avs <- mapM ev args; do lv <- ev l; do fv <- index c lv (VInt k); call fv avs
        | ESym k => do lv <- ev l; index c lv (VStr k)
        | _ => do lv <- ev l; do kv <- ev r; index c lv kv
        end
      | EBin IN l r =>
        do hay <- ev r;
        do needle <- match l with
                     | ESym x => match hay with VTuple _ => Ok (VStr x) | _ => ev l end
                     | _ => ev l
                     end;
        match hay with
        | VTuple fs => match needle with
                       | VStr k => Ok (VBool (match lookup k fs with Some _ => true | None => false end))
                       | _ => Err end
        | VList items =>
          (fix go (items : list value) : res value :=
             match items with
             | [] => Ok (VBool false)
             | v :: rest => do r <- veq (eq_ordered c) f v needle; if r then Ok (VBool true) else go rest
             end) items
        | VStr s => match needle with VStr part => Ok (VBool (contains_sub s part)) | _ => Ok (VBool false) end
        | _ => Err
        end
      | EBin IS l r =>
        do tv <- ev r; do lv <- ev l;
        match tv with
        | VStr t => Ok (VBool (bytes_eqb (is_name lv) t))
        | VNull => Ok (VBool false)
        | _ => Err
        end
      | EBin Equal l r | EBin NotEqual l r =>
        do rv <- ev r; do lv <- ev l;
        if compatible lv rv then
          do q <- veq (eq_ordered c) f lv rv;
          Ok (VBool (match e with EBin NotEqual _ _ => negb q | _ => q end))
        else Err
      | EBin REMatch l r | EBin NotREMatch l r =>
        do rv <- ev r; do lv <- ev l;
        match lv, rv with VStr _, VStr _ => Unsup | _, _ => Err end
      | EBin ((GT | LT | GTEqual | LTEqual) as o) l r => do rv <- ev r; do lv <- ev l; compare_num o lv rv
      | EBin o l r => do rv <- ev r; do lv <- ev l; arith' o lv rv
      | ECopy t fs => do tv <- ev t; copy_into f c tv fs
      | ERange st stp en =>
        do env_ <- ev en;
        do stv <- match stp with Some s => ev s | None => Ok VNull end;
        do sv <- ev st;
        match sv, stv, env_ with
        | VInt a, VNull, VInt z =>
          if Z.ltb range_limit (range_len a 1 z) then Unsup else Ok (VList (range_from (Z.to_nat (range_len a 1 z)) a 1 z))
        | VInt a, VInt s, VInt z =>
          if Z.leb s 0 then Err
          else if Z.ltb range_limit (range_len a s z) then Unsup
          else Ok (VList (range_from (Z.to_nat (range_len a s z)) a s z))
        | _, _, _ => Err
        end
      | EFormatL parts args =>
        let holes := List.length (filter (fun p => match p with PHole => true | _ => false end) parts) in
        if negb (Nat.eqb holes (List.length args)) then Err
        else (* the reference gives no evaluation order for the arguments; the implementation evaluates
                (and renders) them right to left, which only shows in which of two failing arguments is reported *)
             (fix go (ps : list tpart) (es : list expr) : res value :=
                match ps with
                | [] => Ok (VStr [])
                | PStr s :: ps' => do r <- go ps' es; match r with VStr t => Ok (VStr (s ++ t)) | _ => Err end
                | PHole :: ps' =>
                  match es with
                  | a :: es' => do r <- go ps' es'; do v <- ev a; do t <- render f v;
                                match r with VStr t' => Ok (VStr (t ++ t')) | _ => Err end
                  | [] => Err
                  end
                | PExpr _ :: _ => Err
                end) parts args
      | EFormatS parts arg =>
        do item <- ev arg;
        let c' := with_scope c ((b "item", item) :: sc c) in
        (fix go (ps : list tpart) : res value :=
           match ps with
           | [] => Ok (VStr [])
           | PStr s :: ps' => do r <- go ps'; match r with VStr t => Ok (VStr (s ++ t)) | _ => Err end
           | PExpr pe :: ps' =>
             (* right to left, as the argument list above *)
             do r <- go ps'; do v <- eval f c' pe; do t <- render f v;
             match r with VStr t' => Ok (VStr (t ++ t')) | _ => Err end
           | PHole :: _ => Err
           end) parts
      | ECall fe args => do avs <- mapM ev args; do fv <- ev fe; call fv avs
      | ECast ct e1 => do v <- ev e1; cast ct v
      | EFunc ps body => Ok (VFunc ps body (sc c))
      | ESelect ve dflt arms =>
        do v <- ev ve;
        let key := match v with
                   | VStr s => Some s
                   | VBool true => Some (b "true")
                   | VBool false => Some (b "false")
                   | _ => None end in
        let hit := match key with
                   | Some k => (fix find (arms : list (bytes * expr)) : option expr :=
                                  match arms with
                                  | [] => None
                                  | (k', ae) :: arms' => if bytes_eqb k k' then Some ae else find arms'
                                  end) arms
                   | None => None end in
        match hit with
        | Some ae => ev ae
        | None => match dflt with Some d => ev d | None => Err end
        end
      | EMap fe te =>
        do fv <- ev fe; do tv <- ev te;
        match fv with
        | VFunc ps _ _ =>
          match tv with
          | VList l => if negb (Nat.eqb (List.length ps) 1) then Err
                       else do r <- mapM (fun v => call fv [v]) l; Ok (VList r)
          | VTuple fs =>
            if negb (Nat.eqb (List.length ps) 2) then Err
            else do r <- (fix go (fs : list (bytes * value)) : res (list (bytes * value)) :=
                            match fs with
                            | [] => Ok []
                            | (k, v) :: fs' =>
                              do out <- call fv [VStr k; v];
                              match out with
                              | VList [VStr k'; v'] => do r <- go fs'; Ok ((k', v') :: r)
                              | VList _ => Err
                              | _ => go fs'        (* reference: "should produce a list of [field, value]";
                                                      anything else is dropped by the implementation *)
                              end
                            end) fs;
                 Ok (VTuple r)
          | VStr s => if negb (Nat.eqb (List.length ps) 1) then Err
                      else do r <- mapM (fun ch => do o <- call fv [VStr ch];
                                                    match o with VStr t => Ok t | _ => Err end) (utf8_chars s);
                           Ok (VStr (concat r))
          | _ => Err
          end
        | _ => Err
        end
      | EFilter fe te =>
        do fv <- ev fe; do tv <- ev te;
        let keep (o : value) : bool := match o with VNull | VBool false => false | _ => true end in
        match fv with
        | VFunc ps _ _ =>
          match tv with
          | VList l => if negb (Nat.eqb (List.length ps) 1) then Err
                       else do r <- mapM (fun v => do o <- call fv [v]; Ok (keep o, v)) l;
                            Ok (VList (map snd (filter fst r)))
          | VTuple fs => if negb (Nat.eqb (List.length ps) 2) then Err
                         else do r <- mapM (fun '(k, v) => do o <- call fv [VStr k; v]; Ok (keep o, (k, v))) fs;
                              Ok (VTuple (map snd (filter fst r)))
          | VStr s => if negb (Nat.eqb (List.length ps) 1) then Err
                      else do r <- mapM (fun ch => do o <- call fv [VStr ch]; Ok (keep o, ch)) (utf8_chars s);
                           Ok (VStr (concat (map snd (filter fst r))))
          | _ => Err
          end
        | _ => Err
        end
      | EReduce fe ae te =>
        do fv <- ev fe; do acc <- ev ae; do tv <- ev te;
        match fv with
        | VFunc ps _ _ =>
          match tv with
          | VList l => if negb (Nat.eqb (List.length ps) 2) then Err
                       else fold_left (fun a v => do a' <- a; call fv [a'; v]) l (Ok acc)
          | VTuple fs => if negb (Nat.eqb (List.length ps) 3) then Err
                         else fold_left (fun a '(k, v) => do a' <- a; call fv [a'; VStr k; v]) fs (Ok acc)
          | VStr s => if negb (Nat.eqb (List.length ps) 2) then Err
                      else fold_left (fun a ch => do a' <- a; call fv [a'; VStr ch]) (utf8_chars s) (Ok acc)
          | _ => Err
          end
        | _ => Err
        end
      | EModule ps out body => do pv <- tuple_lit c ps; Ok (VModule pv out body)
      | EFail e1 => do _ <- ev e1; Err
      | ETrace e1 => ev e1
      | EImport _ | EInclude _ _ | EConvert _ _ => Unsup
      end
    end
  with copy_into (fuel : nat) (c : ctx) (tv : value) (fs : list (bytes * expr)) {struct fuel} : res value :=
    match fuel with
    | O => Fuel
    | S f =>
      (* the override fields are evaluated with `self` = the value being copied *)
      let c' := with_self c (Some tv) in
      do ovs <- fold_left (fun acc '(k, e) => do a <- acc; do v <- eval f c' e; merge_field a k v) fs (Ok []);
      match tv with
      | VTuple base => do r <- merge_fields base ovs; Ok (VTuple r)
      | VModule ps out body =>
        do flds <- merge_fields ps ovs;
        do flds <- merge_field flds (b "this") tv;
        (* the reference does not say what `self` is inside a module body; the implementation leaves the
           module being instantiated on the self stack, and so do we *)
        let c0 := {| sc := [(b "mod", VTuple flds)]; self_v := Some tv; envt := envt c;
                     strict := strict c; eq_ordered := eq_ordered c |} in
        do s <- exec_list f c0 body;
        match out with
        | Some oe => eval f (with_scope c0 s) oe
        | None => Ok (VTuple (export_scope s true))
        end
      | _ => Err
      end
    end
  with exec_list (fuel : nat) (c : ctx) (ss : list stmt) {struct fuel} : res scope :=
    match fuel with
    | O => Fuel
    | S f =>
      match ss with
      | [] => Ok (sc c)
      | s :: ss' =>
        do s1 <- match s with
                 | SLet x e =>
                   do v <- eval f c e;
                   if is_reserved x then Err
                   else match lookup x (sc c) with
                        | Some _ => Err                       (* bindings are immutable *)
                        | None => Ok ((x, v) :: sc c)
                        end
                 | SExpr e => do _ <- eval f c e; Ok (sc c)
                 | SAssert _ | SOut _ _ => Unsup
                 end;
        exec_list f (with_scope c s1) ss'
      end
    end.

  (* a whole program: the bindings it makes, by name *)
  Definition sem_prog (fuel : nat) (envv : list (bytes * bytes)) (strict_ : bool) (ordered : bool) (p : prog)
    : res (list (bytes * value)) :=
    do s <- exec_list fuel {| sc := []; self_v := None; envt := envv; strict := strict_; eq_ordered := ordered |} p;
    Ok (export_scope s false).
End Sem.
