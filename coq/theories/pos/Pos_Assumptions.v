(* Print Assumptions for every headline theorem of theories/pos: each must answer
   "Closed under the global context". *)
From Ucg Require Import pos.PAst pos.PAst_Ind pos.PTranslate pos.PTranslate_Lemmas pos.PTemplate pos.PTemplate_Lemmas.

(* (A) *)
Print Assumptions ptranslate_erase.
Print Assumptions ptranslate_stmt_erase.
Print Assumptions ptranslate_expr_erase.
Print Assumptions ptranslate_length.
(* (B) *)
Print Assumptions ptranslate_positions_from_statement.
Print Assumptions ptranslate_expr_positions.
Print Assumptions ptranslate_positions_src_or_template.
Print Assumptions ptranslate_positions_program.
(* (C) *)
Print Assumptions ops_point_into_their_statement.
Print Assumptions ops_point_into_their_statement_src.
Print Assumptions ops_point_into_their_statement_no_templates.
Print Assumptions src_span_is_stmt_span.
(* (D) *)
Print Assumptions ptranslate_app.
Print Assumptions ptranslate_cons.
(* (E) *)
Print Assumptions ptranslate_map_pos.
Print Assumptions ptranslate_stmt_map_pos.
Print Assumptions ptranslate_expr_map_pos.
Print Assumptions ptranslate_map_pos_uniform.
Print Assumptions ptranslate_shift.
Print Assumptions ptranslate_shift_lines.
Print Assumptions ptranslate_shift_ops.
Print Assumptions erase_map_pos_stmt.
(* (F) *)
Print Assumptions func_body_ops_carry_positions_of_the_defining_statement.
Print Assumptions module_body_ops_carry_positions_of_the_defining_statement.
(* the template scanner *)
Print Assumptions tpl_scan_lines.
Print Assumptions tpl_scan_starts_exact.
Print Assumptions place_line_exact.
Print Assumptions place_first_line_exact.
Print Assumptions place_columns_on_continuation_lines_refuted.
Print Assumptions placed_template_nodes_lie_in_the_string.
Print Assumptions template_nodes_covered.
(* examples *)
Print Assumptions example_scan.
Print Assumptions example_ops.
Print Assumptions example_placed.
Print Assumptions example_ops_on_line_4.
Print Assumptions example_scan_two_lines.
