(* Theorems about the positioned translator: see the headline list at the end of the file. *)
From Ucg Require Import pos.PAst pos.PAst_Ind pos.PTranslate.

#[local] Arguments pfields : simpl never.
#[local] Arguments pelems : simpl never.
#[local] Arguments pargs : simpl never.
#[local] Arguments parms : simpl never.
#[local] Arguments ppart_codes : simpl never.
#[local] Arguments pcopy_code : simpl never.
#[local] Arguments pjoin_parts : simpl never.
#[local] Arguments field_positions : simpl never.
#[local] Arguments opt_positions : simpl never.

(* ------------------------------------------------------------------------------------------------ *)
(* generic list facts *)

Lemma cat_map_flat_map : forall (A : Type) (f : A -> ops) (l : list A), cat_map f l = flat_map f l.
Proof. induction l as [|a l IHl]; simpl; [reflexivity|]. now rewrite IHl. Qed.

Lemma map_flat_map : forall (A B C : Type) (g : B -> C) (f : A -> list B) (l : list A),
  map g (flat_map f l) = flat_map (fun a => map g (f a)) l.
Proof. induction l as [|a l IHl]; simpl; [reflexivity|]. now rewrite map_app, IHl. Qed.

Lemma flat_map_map : forall (A B C : Type) (h : A -> B) (f : B -> list C) (l : list A),
  flat_map f (map h l) = flat_map (fun a => f (h a)) l.
Proof. induction l as [|a l IHl]; simpl; [reflexivity|]. now rewrite IHl. Qed.

Lemma flat_map_ext_Forall : forall (A B : Type) (f g : A -> list B) (l : list A),
  Forall (fun a => f a = g a) l -> flat_map f l = flat_map g l.
Proof.
  intros A B f g l H. induction H as [|a l Ha Hl IH]; simpl; [reflexivity|]. now rewrite Ha, IH.
Qed.

Lemma map_ext_Forall : forall (A B : Type) (f g : A -> B) (l : list A),
  Forall (fun a => f a = g a) l -> map f l = map g l.
Proof.
  intros A B f g l H. induction H as [|a l Ha Hl IH]; simpl; [reflexivity|]. now rewrite Ha, IH.
Qed.

Lemma Forall_flat_map_intro : forall (A B : Type) (K : B -> Prop) (f : A -> list B) (l : list A),
  Forall (fun a => Forall K (f a)) l -> Forall K (flat_map f l).
Proof.
  intros A B K f l H. induction H as [|a l Ha Hl IH]; simpl; [constructor|]. apply Forall_app. now split.
Qed.

(* ------------------------------------------------------------------------------------------------ *)
(* (A) the positioned translator emits the ops of vm/Translate.v *)

Definition er (c : pops) : ops := map fst c.

#[local] Arguments er : simpl never.

Lemma er_nil : er [] = [].
Proof. reflexivity. Qed.
Lemma er_app : forall a c, er (a ++ c) = er a ++ er c.
Proof. intros; apply map_app. Qed.
Lemma er_cons : forall i p c, er ((i, p) :: c) = i :: er c.
Proof. reflexivity. Qed.
Lemma er_length : forall c, List.length (er c) = List.length c.
Proof. intros; apply map_length. Qed.

Lemma er_flat_map : forall (A : Type) (f : A -> pops) (l : list A),
  er (flat_map f l) = flat_map (fun a => er (f a)) l.
Proof. intros. unfold er. apply map_flat_map. Qed.

Definition PA (e : pexpr) : Prop := er (ptr e) = tr (erase e).
Definition RA (t : ptpart) : Prop := match t with PPExpr pe => PA pe | _ => True end.
Definition QA (s : pstmt) : Prop := er (ptr_stmt s) = tr_stmt (erase_stmt s).

Lemma PA_length : forall e, PA e -> List.length (ptr e) = List.length (tr (erase e)).
Proof. intros e H. rewrite <- H. symmetry. apply er_length. Qed.

Lemma er_pfields : forall fs, Pfields PA fs -> er (pfields ptr fs) = tr_fields (erase_fields fs).
Proof.
  intros fs H. unfold pfields, tr_fields, erase_fields. rewrite cat_map_flat_map, er_flat_map, flat_map_map.
  apply flat_map_ext_Forall. eapply Forall_impl; [|exact H].
  intros [[kp k] e] He. simpl in *. rewrite er_cons, er_app. unfold PA in He. now rewrite He.
Qed.

Lemma er_pelems : forall es, Forall PA es ->
  er (pelems ptr es) = cat_map (fun e => tr e ++ [IElement]) (map erase es).
Proof.
  intros es H. unfold pelems. rewrite cat_map_flat_map, er_flat_map, flat_map_map.
  apply flat_map_ext_Forall. eapply Forall_impl; [|exact H].
  intros e He. rewrite er_app. unfold PA in He. now rewrite He.
Qed.

Lemma er_pargs : forall es, Forall PA es -> er (pargs ptr es) = cat_map tr (map erase es).
Proof.
  intros es H. unfold pargs. rewrite cat_map_flat_map, er_flat_map, flat_map_map.
  apply flat_map_ext_Forall. exact H.
Qed.

Lemma er_pcopy_code : forall p c, er (pcopy_code p c) = copy_code (er c).
Proof. intros. unfold pcopy_code, copy_code. now rewrite !er_cons, er_app. Qed.

Definition er_arm (a : pos * bytes * pops * pos) : bytes * ops :=
  let '(_, k, c, _) := a in (k, er c).

Lemma er_psel_arms : forall p arms d, er (psel_arms p arms d) = sel_arms (map er_arm arms) (er d).
Proof.
  intros p arms d. induction arms as [|[[[kp k] c] ep] arms IH]; simpl; [reflexivity|].
  rewrite er_cons, er_cons, er_app, er_cons, IH. rewrite !er_length.
  rewrite <- IH, er_length. reflexivity.
Qed.

Lemma er_parms : forall arms, Pfields PA arms ->
  map er_arm (parms ptr arms) = map (fun kv => let '(k, e) := kv in (k, tr e)) (erase_fields arms).
Proof.
  intros arms H. unfold parms, erase_fields. rewrite !map_map. apply map_ext_Forall.
  eapply Forall_impl; [|exact H]. intros [[kp k] e] He. simpl in *. unfold PA in He. now rewrite He.
Qed.

Lemma er_pjoin_parts : forall pe pa codes, er (pjoin_parts pe pa codes) = join_parts (map er codes).
Proof.
  intros pe pa [|c cs]; simpl; [reflexivity|]. unfold pjoin_parts. rewrite er_app. f_equal.
  rewrite cat_map_flat_map, er_flat_map, flat_map_map. apply flat_map_ext_Forall.
  apply Forall_forall. intros x _. now rewrite er_app.
Qed.

Lemma er_plist_parts : forall p parts args,
  map er (plist_parts p parts args) = list_parts (map erase_part parts) (map er args).
Proof.
  intros p parts. induction parts as [|t ps IH]; intros args; simpl; [reflexivity|].
  destruct t as [s| |pe]; simpl.
  - now rewrite IH.
  - destruct args as [|a args']; simpl.
    + now rewrite (IH []).
    + now rewrite er_app, IH.
  - now rewrite IH.
Qed.

Lemma pcount_holes_erase : forall parts, count_holes (map erase_part parts) = pcount_holes parts.
Proof.
  unfold count_holes, pcount_holes. induction parts as [|t ps IH]; simpl; [reflexivity|].
  destruct t; simpl; now rewrite ?IH.
Qed.

Lemma er_ppart_codes : forall p parts, Forall RA parts ->
  map er (ppart_codes ptr p parts) =
  map (fun t => match t with PStr s => [IVal (LStr s)] | PHole => [ITranslatorPanic] | PExpr pe => tr pe ++ [IRender] end)
      (map erase_part parts).
Proof.
  intros p parts H. unfold ppart_codes. rewrite !map_map. apply map_ext_Forall.
  eapply Forall_impl; [|exact H]. intros [s| |pe] Ht; simpl in *; try reflexivity.
  rewrite er_app. unfold PA in Ht. now rewrite Ht.
Qed.

Ltac er_norm := repeat (rewrite er_app || rewrite er_cons || rewrite er_nil).

(* rewrite with every induction hypothesis  er (ptr x) = tr (erase x)  after turning the code lengths around *)
Ltac use_IH :=
  repeat match goal with
         | H : er (ptr ?x) = tr (erase ?x) |- _ =>
           rewrite ?(PA_length x H); rewrite ?H; clear H
         end.
Ltac solveA := simpl; er_norm; rewrite ?map_length; use_IH; reflexivity.

Lemma ptr_erase_all : (forall e, PA e) /\ (forall t, RA t) /\ (forall s, QA s).
Proof.
  apply pexpr_mutind; unfold PA, QA.
  - reflexivity.
  - reflexivity.
  - reflexivity.
  - reflexivity.
  - reflexivity.
  - reflexivity.
  - intros p fs IHfs. simpl. er_norm. rewrite (er_pfields fs IHfs). reflexivity.
  - intros p es IHes. simpl. er_norm. rewrite (er_pelems es IHes). reflexivity.
  - intros p o l r IHl IHr IHdeep.
    destruct o; try solve [solveA].
    + (* IN *)
      assert (Hgen : forall cl el, er cl = el ->
                 er (ptr r ++ cl ++ [(IExist, p)]) = tr (erase r) ++ el ++ [IExist])
        by (intros cl el Hc; subst el; er_norm; now rewrite IHr).
      destruct l; try exact (Hgen _ _ IHl).
      solveA.
    + (* DOT *)
      assert (Hgen : forall cr el, er cr = el ->
                 er (ptr l ++ cr ++ [(IIndex, p)]) = tr (erase l) ++ el ++ [IIndex])
        by (intros cr el Hc; subst el; er_norm; now rewrite IHl).
      destruct r; try exact (Hgen _ _ IHr).
      * (* symbol *) solveA.
      * (* copy *)
        destruct IHdeep as [IHsel IHfs]. clear IHr Hgen.
        destruct r; try reflexivity; simpl; er_norm; rewrite er_pcopy_code, (er_pfields fs IHfs), IHl; reflexivity.
      * (* call *)
        destruct IHdeep as [IHfn IHargs]. clear IHr Hgen.
        destruct r; try reflexivity; simpl; er_norm; rewrite (er_pargs args IHargs), IHl, map_length; reflexivity.
  - intros p e IHe. solveA.
  - intros p e IHe. solveA.
  - intros p t fs IHt IHfs. simpl. er_norm. rewrite er_pcopy_code, (er_pfields fs IHfs), IHt. reflexivity.
  - intros p st stp en IHst IHstp IHen. destruct stp as [s|]; simpl in IHstp; solveA.
  - (* format, list form *)
    intros p parts args IHparts IHargs. simpl. rewrite pcount_holes_erase, map_length.
    destruct (negb (Nat.eqb (pcount_holes parts) (List.length args))); [reflexivity|].
    destruct parts as [|t parts']; [reflexivity|].
    set (ps := t :: parts'). change (map erase_part ps) with (erase_part t :: map erase_part parts').
    cbv iota. unfold ps; clear ps. rewrite er_pjoin_parts, er_plist_parts.
    change (erase_part t :: map erase_part parts') with (map erase_part (t :: parts')).
    rewrite !map_rev. f_equal. f_equal. f_equal. rewrite !map_map. apply map_ext_Forall. exact IHargs.
  - (* format, single form *)
    intros p tpl parts arg IHparts IHarg. simpl. er_norm.
    rewrite <- (er_length (ptr arg ++ _)). er_norm.
    rewrite er_pjoin_parts, map_rev, (er_ppart_codes p parts IHparts), IHarg. reflexivity.
  - intros p fn args IHfn IHargs. simpl. er_norm. rewrite (er_pargs args IHargs), map_length. use_IH. reflexivity.
  - intros p ct e IHe. solveA.
  - (* func *)
    intros p ps body IHbody. simpl. er_norm. use_IH. f_equal. f_equal.
    rewrite cat_map_flat_map, er_flat_map, flat_map_map. reflexivity.
  - (* select *)
    intros p ve dflt arms IHve IHdflt IHarms. simpl. er_norm. rewrite er_psel_arms, (er_parms arms IHarms).
    destruct dflt as [de|]; simpl in IHdflt; use_IH; reflexivity.
  - intros p fe te IHf IHt. solveA.
  - intros p fe te IHf IHt. solveA.
  - intros p fe ae te IHf IHa IHt. solveA.
  - (* module *)
    intros p ps out body IHps IHout IHbody. simpl. er_norm. rewrite (er_pfields ps IHps).
    assert (Hbody : er (flat_map ptr_stmt body) = cat_map tr_stmt (map erase_stmt body)).
    { rewrite cat_map_flat_map, er_flat_map, flat_map_map. apply flat_map_ext_Forall. exact IHbody. }
    rewrite !app_length. simpl. rewrite <- (er_length (flat_map ptr_stmt body)), Hbody.
    destruct out as [oe|]; simpl in IHout; er_norm; use_IH; rewrite ?app_length; reflexivity.
  - intros p e IHe. solveA.
  - intros p e IHe. solveA.
  - reflexivity.
  - reflexivity.
  - intros p tp typ e IHe. solveA.
  - intros s. exact I.
  - exact I.
  - intros e IHe. exact IHe.
  - intros p np x e IHe. solveA.
  - intros e IHe. solveA.
  - intros p e IHe. solveA.
  - intros p tp typ e IHe. solveA.
Qed.

Theorem ptranslate_expr_erase : forall e, map fst (ptranslate_expr e) = tr (erase e).
Proof. exact (proj1 ptr_erase_all). Qed.

Theorem ptranslate_stmt_erase : forall s, map fst (ptranslate_stmt s) = tr_stmt (erase_stmt s).
Proof. exact (proj2 (proj2 ptr_erase_all)). Qed.

(* (A) *)
Theorem ptranslate_erase : forall p, map fst (ptranslate p) = translate (map erase_stmt p).
Proof.
  intros p. unfold ptranslate, translate. rewrite cat_map_flat_map, map_flat_map, flat_map_map.
  apply flat_map_ext_Forall. apply Forall_forall. intros s _. apply ptranslate_stmt_erase.
Qed.

Corollary ptranslate_length : forall p, List.length (ptranslate p) = List.length (translate (map erase_stmt p)).
Proof. intros p. rewrite <- ptranslate_erase. symmetry. apply map_length. Qed.

(* ------------------------------------------------------------------------------------------------ *)
(* (B) every op carries a position of a node of the expression / statement it was emitted for, or a
   template-relative position of one of its `@{...}` expressions *)

Definition okp (S T : list pos) (x : pop) : Prop := In (snd x) S \/ In (snd x) T.

Lemma okp_weaken : forall S T S' T' x, incl S S' -> incl T T' -> okp S T x -> okp S' T' x.
Proof. intros S T S' T' x HS HT [H|H]; [left; now apply HS | right; now apply HT]. Qed.

Lemma Forall_okp_weaken : forall S T S' T' c,
  incl S S' -> incl T T' -> Forall (okp S T) c -> Forall (okp S' T') c.
Proof. intros S T S' T' c HS HT H. eapply Forall_impl; [|exact H]. intros x. now apply okp_weaken. Qed.

Lemma okp_into_tpl : forall S0 T0 S T x, incl (S0 ++ T0) T -> okp S0 T0 x -> okp S T x.
Proof. intros S0 T0 S T x HT [H|H]; right; apply HT; apply in_or_app; tauto. Qed.

Lemma pos_of_in : forall e, In (pos_of e) (src_positions_of e).
Proof. destruct e; simpl; auto. Qed.

Definition PB (e : pexpr) : Prop := Forall (okp (src_positions_of e) (tpl_positions_of e)) (ptr e).
Definition RB (t : ptpart) : Prop := match t with PPExpr pe => PB pe | _ => True end.
Definition QB (s : pstmt) : Prop := Forall (okp (src_positions_of_stmt s) (tpl_positions_of_stmt s)) (ptr_stmt s).

Lemma incl_app_l : forall (A : Type) (a c l : list A), incl (a ++ c) l -> incl a l.
Proof. intros A a c l H x Hx. apply H. apply in_or_app. now left. Qed.
Lemma incl_app_r : forall (A : Type) (a c l : list A), incl (a ++ c) l -> incl c l.
Proof. intros A a c l H x Hx. apply H. apply in_or_app. now right. Qed.
Lemma incl_cons_l : forall (A : Type) (a : A) (c l : list A), incl (a :: c) l -> In a l.
Proof. intros A a c l H. apply H. now left. Qed.
Lemma incl_cons_r : forall (A : Type) (a : A) (c l : list A), incl (a :: c) l -> incl c l.
Proof. intros A a c l H x Hx. apply H. now right. Qed.

Local Notation tplf := (fun fl : pos * bytes * pexpr => tpl_positions_of (snd fl)).

Lemma okp_pfields : forall S T fs, Pfields PB fs ->
  incl (field_positions src_positions_of fs) S -> incl (flat_map tplf fs) T ->
  Forall (okp S T) (pfields ptr fs).
Proof.
  intros S T fs H. unfold pfields, field_positions. induction H as [|[[kp k] e] fs He Hfs IH]; intros HS HT; simpl in *.
  - constructor.
  - constructor; [left; simpl; apply HS; now left|].
    rewrite <- app_assoc. apply Forall_app. split; [|apply Forall_app; split].
    + eapply Forall_okp_weaken; [| |exact He].
      * eapply incl_app_l. eapply incl_cons_r. exact HS.
      * eapply incl_app_l. exact HT.
    + constructor; [|constructor]. left; simpl; apply HS; now left.
    + apply IH.
      * eapply incl_app_r. eapply incl_cons_r. exact HS.
      * eapply incl_app_r. exact HT.
Qed.

Lemma okp_pelems : forall S T es, Forall PB es ->
  incl (flat_map src_positions_of es) S -> incl (flat_map tpl_positions_of es) T ->
  Forall (okp S T) (pelems ptr es).
Proof.
  intros S T es H. unfold pelems. induction H as [|e es He Hes IH]; intros HS HT; simpl in *.
  - constructor.
  - rewrite <- app_assoc. apply Forall_app. split; [|apply Forall_app; split].
    + eapply Forall_okp_weaken; [| |exact He]; eapply incl_app_l; eassumption.
    + constructor; [|constructor]. left; simpl. apply HS. apply in_or_app. left. apply pos_of_in.
    + apply IH; eapply incl_app_r; eassumption.
Qed.

Lemma okp_pargs : forall S T es, Forall PB es ->
  incl (flat_map src_positions_of es) S -> incl (flat_map tpl_positions_of es) T ->
  Forall (okp S T) (pargs ptr es).
Proof.
  intros S T es H. unfold pargs. induction H as [|e es He Hes IH]; intros HS HT; simpl in *.
  - constructor.
  - apply Forall_app. split.
    + eapply Forall_okp_weaken; [| |exact He]; eapply incl_app_l; eassumption.
    + apply IH; eapply incl_app_r; eassumption.
Qed.

Definition arm_ok (S T : list pos) (a : pos * bytes * pops * pos) : Prop :=
  let '(kp, _, c, ep) := a in In kp S /\ Forall (okp S T) c /\ In ep S.

Lemma okp_psel_arms : forall S T p arms d,
  In p S -> Forall (arm_ok S T) arms -> Forall (okp S T) d -> Forall (okp S T) (psel_arms p arms d).
Proof.
  intros S T p arms d Hp Harms Hd. induction Harms as [|[[[kp k] c] ep] arms Ha Harms IH]; simpl.
  - constructor; [now left | exact Hd].
  - destruct Ha as [Hkp [Hc Hep]]. constructor; [now left|]. constructor; [now left|].
    apply Forall_app. split; [exact Hc|]. constructor; [now left | exact IH].
Qed.

Lemma okp_parms : forall S T arms, Pfields PB arms ->
  incl (field_positions src_positions_of arms) S -> incl (flat_map tplf arms) T ->
  Forall (arm_ok S T) (parms ptr arms).
Proof.
  intros S T arms H. unfold parms, field_positions. induction H as [|[[kp k] e] fs He Hfs IH]; intros HS HT; simpl in *.
  - constructor.
  - constructor.
    + split; [apply HS; now left|]. split.
      * eapply Forall_okp_weaken; [| |exact He].
        -- eapply incl_app_l. eapply incl_cons_r. exact HS.
        -- eapply incl_app_l. exact HT.
      * apply HS. right. apply in_or_app. left. apply pos_of_in.
    + apply IH.
      * eapply incl_app_r. eapply incl_cons_r. exact HS.
      * eapply incl_app_r. exact HT.
Qed.

Lemma okp_pjoin_parts : forall S T pe pa codes,
  In pe S -> In pa S -> Forall (Forall (okp S T)) codes -> Forall (okp S T) (pjoin_parts pe pa codes).
Proof.
  intros S T pe pa codes Hpe Hpa H. unfold pjoin_parts. destruct H as [|c cs Hc Hcs].
  - constructor; [now left | constructor].
  - apply Forall_app. split; [exact Hc|]. apply Forall_flat_map_intro.
    eapply Forall_impl; [|exact Hcs]. intros a Ha. apply Forall_app. split; [exact Ha|].
    constructor; [now left | constructor].
Qed.

Lemma okp_plist_parts : forall S T p parts args,
  In p S -> Forall (Forall (okp S T)) args -> Forall (Forall (okp S T)) (plist_parts p parts args).
Proof.
  intros S T p parts. induction parts as [|t ps IH]; intros args Hp Hargs; simpl; [constructor|].
  assert (Hone : forall i, Forall (okp S T) [(i, p)]) by (intros i; constructor; [now left | constructor]).
  destruct t as [s| |pe].
  - constructor; [apply Hone | now apply IH].
  - destruct Hargs as [|a args' Ha Hargs'].
    + constructor; [apply Hone | apply IH; [exact Hp | constructor]].
    + constructor; [apply Forall_app; split; [exact Ha | apply Hone] | now apply IH].
  - constructor; [apply Hone | now apply IH].
Qed.

Lemma okp_ppart_codes : forall S T p parts,
  In p S -> Forall RB parts -> incl (flat_map tpl_part_positions parts) T ->
  Forall (Forall (okp S T)) (ppart_codes ptr p parts).
Proof.
  intros S T p parts Hp H. unfold ppart_codes. induction H as [|t ps Ht Hps IH]; intros HT; simpl in *; [constructor|].
  assert (Hone : forall i, Forall (okp S T) [(i, p)]) by (intros i; constructor; [now left | constructor]).
  constructor.
  - destruct t as [s| |pe]; simpl in *; try apply Hone.
    apply Forall_app. split; [|apply Hone].
    eapply Forall_impl; [|exact Ht]. intros x. apply okp_into_tpl. eapply incl_app_l. exact HT.
  - apply IH. eapply incl_app_r. exact HT.
Qed.

Lemma Forall_map_intro : forall (A B : Type) (K : B -> Prop) (f : A -> B) (l : list A),
  Forall (fun a => K (f a)) l -> Forall K (map f l).
Proof. intros A B K f l H. induction H; simpl; constructor; assumption. Qed.

Ltac in_solve :=
  simpl; rewrite ?in_app_iff;
  repeat match goal with
         | |- context [pos_of ?e] =>
           lazymatch goal with
           | H : In (pos_of e) (src_positions_of e) |- _ => fail
           | _ => pose proof (pos_of_in e)
           end
         end;
  simpl; tauto.
Ltac incl_solve := let q := fresh "q" in let Hq := fresh "Hq" in intros q Hq; in_solve.
Ltac weakB IH := eapply Forall_okp_weaken; [ | | exact IH]; [incl_solve | incl_solve].
Ltac stepB :=
  match goal with
  | |- Forall _ (_ ++ _) => apply Forall_app; split
  | |- Forall _ (_ :: _) => apply Forall_cons
  | |- Forall _ [] => apply Forall_nil
  | |- okp _ _ (_, _) => unfold okp; left; in_solve
  | IH : Forall (okp (src_positions_of ?x) (tpl_positions_of ?x)) (ptr ?x) |- Forall _ (ptr ?x) => weakB IH
  end.
Ltac solveB := simpl; repeat stepB.

Lemma ptr_positions_all : (forall e, PB e) /\ (forall t, RB t) /\ (forall s, QB s).
Proof.
  apply pexpr_mutind; unfold PB, QB.
  - intros p. solveB.
  - intros p v. solveB.
  - intros p z. solveB.
  - intros p bits. solveB.
  - intros p s. solveB.
  - intros p x. solveB.
  - intros p fs IHfs. solveB. apply (okp_pfields _ _ fs IHfs); incl_solve.
  - intros p es IHes. solveB. apply (okp_pelems _ _ es IHes); incl_solve.
  - intros p o l r IHl IHr IHdeep.
    destruct o; try solve [solveB].
    + (* IN *)
      assert (Hgen : Forall (okp (src_positions_of (PEBin p IN l r)) (tpl_positions_of (PEBin p IN l r)))
                            (ptr r ++ ptr l ++ [(IExist, p)])) by solveB.
      destruct l; try exact Hgen.
      clear Hgen. solveB.
    + (* DOT *)
      assert (Hgen : Forall (okp (src_positions_of (PEBin p DOT l r)) (tpl_positions_of (PEBin p DOT l r)))
                            (ptr l ++ ptr r ++ [(IIndex, p)])) by solveB.
      destruct r; try exact Hgen; clear Hgen.
      * solveB.
      * destruct IHdeep as [IHsel IHfs]. clear IHr.
        destruct r; try solve [solveB]; unfold ptr; fold ptr; unfold pcopy_code; solveB;
          apply (okp_pfields _ _ fs IHfs); incl_solve.
      * destruct IHdeep as [IHfn IHargs]. clear IHr.
        destruct r; try solve [solveB]; solveB; apply (okp_pargs _ _ args IHargs); incl_solve.
  - intros p e IHe. solveB.
  - intros p e IHe. solveB.
  - intros p t fs IHt IHfs. unfold ptr; fold ptr. unfold pcopy_code. solveB. apply (okp_pfields _ _ fs IHfs); incl_solve.
  - intros p st stp en IHst IHstp IHen. destruct stp as [s|]; simpl in IHstp; solveB.
  - (* format, list form *)
    intros p parts args IHparts IHargs. simpl.
    destruct (negb (Nat.eqb (pcount_holes parts) (List.length args))); [solveB|].
    destruct parts as [|t parts']; [solveB|].
    apply okp_pjoin_parts; [now left | now left |].
    apply okp_plist_parts; [now left|].
    apply Forall_rev. apply Forall_map_intro.
    apply Forall_forall. intros a Ha. pose proof (proj1 (Forall_forall _ _) IHargs a Ha) as IHa.
    eapply Forall_okp_weaken; [| |exact IHa]; intros q Hq; simpl.
    + right. apply in_flat_map. exists a. now split.
    + apply in_flat_map. exists a. now split.
  - (* format, single form *)
    intros p tpl parts arg IHparts IHarg. solveB.
    apply okp_pjoin_parts; [in_solve | in_solve |].
    apply Forall_rev. apply okp_ppart_codes; [in_solve | exact IHparts | incl_solve].
  - intros p fn args IHfn IHargs. solveB. apply (okp_pargs _ _ args IHargs); incl_solve.
  - intros p ct e IHe. solveB.
  - (* func *)
    intros p ps body IHbody. solveB.
    apply Forall_flat_map_intro. apply Forall_forall. intros [pp x] Hin.
    assert (Hpp : In pp (map fst ps)) by (apply in_map_iff; exists (pp, x); now split).
    simpl. constructor; [|constructor; [|constructor]]; left; simpl; rewrite in_app_iff; tauto.
  - (* select *)
    intros p ve dflt arms IHve IHdflt IHarms. solveB.
    apply okp_psel_arms.
    + in_solve.
    + apply (okp_parms _ _ arms IHarms); incl_solve.
    + destruct dflt as [de|]; simpl in IHdflt; solveB.
  - intros p fe te IHf IHt. solveB.
  - intros p fe te IHf IHt. solveB.
  - intros p fe ae te IHf IHa IHt. solveB.
  - (* module *)
    intros p ps out body IHps IHout IHbody. solveB.
    + apply (okp_pfields _ _ ps IHps); incl_solve.
    + destruct out as [oe|]; simpl in IHout; solveB.
    + apply Forall_flat_map_intro. apply Forall_forall. intros s Hs.
      pose proof (proj1 (Forall_forall _ _) IHbody s Hs) as IHs.
      eapply Forall_okp_weaken; [| |exact IHs]; intros q Hq; simpl; rewrite ?in_app_iff.
      * right. right. right. apply in_flat_map. exists s. now split.
      * right. right. apply in_flat_map. exists s. now split.
  - intros p e IHe. solveB.
  - intros p e IHe. solveB.
  - intros p pp path. solveB.
  - intros p tp typ pp path. solveB.
  - intros p tp typ e IHe. solveB.
  - intros s. exact I.
  - exact I.
  - intros e IHe. exact IHe.
  - intros p np x e IHe. solveB.
  - intros e IHe. solveB.
  - intros p e IHe. solveB.
  - intros p tp typ e IHe. solveB.
Qed.

Lemma okp_positions : forall S T x, okp S T x <-> In (snd x) (S ++ T).
Proof. intros S T x. unfold okp. rewrite in_app_iff. tauto. Qed.

Theorem ptranslate_expr_positions : forall e,
  Forall (fun x => In (snd x) (positions_of e)) (ptranslate_expr e).
Proof.
  intros e. eapply Forall_impl; [|exact (proj1 ptr_positions_all e)].
  intros x Hx. apply okp_positions. exact Hx.
Qed.

(* (B) every op of a statement carries the position of a node / token of THAT statement *)
Theorem ptranslate_positions_from_statement : forall s,
  Forall (fun x => In (snd x) (positions_of_stmt s)) (ptranslate_stmt s).
Proof.
  intros s. eapply Forall_impl; [|exact (proj2 (proj2 ptr_positions_all) s)].
  intros x Hx. apply okp_positions. exact Hx.
Qed.

(* (B), finer: a position of a node of the file's parser, or of a node the template parser made for one of the
   `@{...}` expressions of the statement *)
Theorem ptranslate_positions_src_or_template : forall s,
  Forall (fun x => In (snd x) (src_positions_of_stmt s) \/ In (snd x) (tpl_positions_of_stmt s)) (ptranslate_stmt s).
Proof. exact (proj2 (proj2 ptr_positions_all)). Qed.

(* (D) *)
Theorem ptranslate_app : forall p1 p2, ptranslate (p1 ++ p2) = ptranslate p1 ++ ptranslate p2.
Proof. intros. apply flat_map_app. Qed.

Corollary ptranslate_cons : forall s p, ptranslate (s :: p) = ptranslate_stmt s ++ ptranslate p.
Proof. reflexivity. Qed.

(* the op list of a program is the concatenation of the op lists of its statements, and every op of it
   carries a position of the statement it belongs to *)
Theorem ptranslate_positions_program : forall p,
  Forall (fun x => exists s, In s p /\ In x (ptranslate_stmt s) /\ In (snd x) (positions_of_stmt s)) (ptranslate p).
Proof.
  intros p. apply Forall_forall. intros x Hx. unfold ptranslate in Hx. apply in_flat_map in Hx.
  destruct Hx as [s [Hs Hxs]]. exists s. split; [exact Hs|]. split; [exact Hxs|].
  exact (proj1 (Forall_forall _ _) (ptranslate_positions_from_statement s) x Hxs).
Qed.

(* (C) *)
Theorem ops_point_into_their_statement : forall s lo hi, stmt_in_span s lo hi ->
  Forall (fun x => (lo <= line (snd x) <= hi)%N) (ptranslate_stmt s).
Proof.
  intros s lo hi Hspan. eapply Forall_impl; [|apply (ptranslate_positions_from_statement s)].
  intros x H. exact (proj1 (Forall_forall _ _) Hspan (snd x) H).
Qed.

(* ------------------------------------------------------------------------------------------------ *)
(* (E) renaming the positions of the AST renames the positions of the ops, and nothing else *)

Definition mp (f : pos -> pos) (c : pops) : pops := map (fun x => (fst x, f (snd x))) c.
#[local] Arguments mp : simpl never.

Lemma mp_nil : forall f, mp f [] = [].
Proof. reflexivity. Qed.
Lemma mp_app : forall f a c, mp f (a ++ c) = mp f a ++ mp f c.
Proof. intros; apply map_app. Qed.
Lemma mp_cons : forall f i p c, mp f ((i, p) :: c) = (i, f p) :: mp f c.
Proof. reflexivity. Qed.
Lemma mp_length : forall f c, List.length (mp f c) = List.length c.
Proof. intros; apply map_length. Qed.
Lemma mp_flat_map : forall (A : Type) f (h : A -> pops) (l : list A),
  mp f (flat_map h l) = flat_map (fun a => mp f (h a)) l.
Proof. intros. unfold mp. apply map_flat_map. Qed.

Lemma pos_of_map_pos : forall f g e, pos_of (map_pos f g e) = f (pos_of e).
Proof. destruct e; reflexivity. Qed.

Lemma mp_ext_okp : forall S T f g c,
  Forall (okp S T) c -> (forall q, In q (S ++ T) -> g q = f q) -> mp g c = mp f c.
Proof.
  intros S T f g c H Hg. unfold mp. apply map_ext_Forall. eapply Forall_impl; [|exact H].
  intros [i q] Hq. simpl. f_equal. apply Hg. apply in_or_app. exact Hq.
Qed.

Definition PE (e : pexpr) : Prop :=
  forall f g, (forall q, In q (tpl_positions_of e) -> g q = f q) -> ptr (map_pos f g e) = mp f (ptr e).
Definition RE (t : ptpart) : Prop := match t with PPExpr pe => PE pe | _ => True end.
Definition QE (s : pstmt) : Prop :=
  forall f g, (forall q, In q (tpl_positions_of_stmt s) -> g q = f q) ->
              ptr_stmt (map_pos_stmt f g s) = mp f (ptr_stmt s).

Lemma mp_pfields : forall f g fs, Pfields PE fs ->
  (forall q, In q (flat_map tplf fs) -> g q = f q) ->
  pfields ptr (map_pos_fields f g fs) = mp f (pfields ptr fs).
Proof.
  intros f g fs H. unfold pfields, map_pos_fields. induction H as [|[[kp k] e] fs He Hfs IH]; intros Hg; simpl in *.
  - reflexivity.
  - rewrite mp_cons, !mp_app, mp_cons, mp_nil.
    rewrite (He f g) by (intros q Hq; apply Hg; apply in_or_app; now left).
    rewrite IH by (intros q Hq; apply Hg; apply in_or_app; now right). reflexivity.
Qed.

Lemma mp_pelems : forall f g es, Forall PE es ->
  (forall q, In q (flat_map tpl_positions_of es) -> g q = f q) ->
  pelems ptr (map (map_pos f g) es) = mp f (pelems ptr es).
Proof.
  intros f g es H. unfold pelems. induction H as [|e es He Hes IH]; intros Hg; simpl in *.
  - reflexivity.
  - rewrite !mp_app, mp_cons, mp_nil. rewrite pos_of_map_pos.
    rewrite (He f g) by (intros q Hq; apply Hg; apply in_or_app; now left).
    rewrite IH by (intros q Hq; apply Hg; apply in_or_app; now right). reflexivity.
Qed.

Lemma mp_pargs : forall f g es, Forall PE es ->
  (forall q, In q (flat_map tpl_positions_of es) -> g q = f q) ->
  pargs ptr (map (map_pos f g) es) = mp f (pargs ptr es).
Proof.
  intros f g es H. unfold pargs. induction H as [|e es He Hes IH]; intros Hg; simpl in *.
  - reflexivity.
  - rewrite mp_app.
    rewrite (He f g) by (intros q Hq; apply Hg; apply in_or_app; now left).
    rewrite IH by (intros q Hq; apply Hg; apply in_or_app; now right). reflexivity.
Qed.

Lemma mp_pcopy_code : forall f p c, pcopy_code (f p) (mp f c) = mp f (pcopy_code p c).
Proof. intros. unfold pcopy_code. now rewrite !mp_cons, mp_app. Qed.

Definition mp_arm (f : pos -> pos) (a : pos * bytes * pops * pos) : pos * bytes * pops * pos :=
  let '(kp, k, c, ep) := a in (f kp, k, mp f c, f ep).

Lemma mp_psel_arms : forall f p arms d,
  psel_arms (f p) (map (mp_arm f) arms) (mp f d) = mp f (psel_arms p arms d).
Proof.
  intros f p arms d. induction arms as [|[[[kp k] c] ep] arms IH]; simpl.
  - now rewrite mp_cons.
  - rewrite !mp_cons, mp_app, mp_cons, IH, !mp_length. reflexivity.
Qed.

Lemma mp_parms : forall f g arms, Pfields PE arms ->
  (forall q, In q (flat_map tplf arms) -> g q = f q) ->
  parms ptr (map_pos_fields f g arms) = map (mp_arm f) (parms ptr arms).
Proof.
  intros f g arms H. unfold parms, map_pos_fields. induction H as [|[[kp k] e] fs He Hfs IH]; intros Hg; simpl in *.
  - reflexivity.
  - rewrite pos_of_map_pos.
    rewrite (He f g) by (intros q Hq; apply Hg; apply in_or_app; now left).
    rewrite IH by (intros q Hq; apply Hg; apply in_or_app; now right). reflexivity.
Qed.

Lemma mp_pjoin_parts : forall f pe pa codes,
  pjoin_parts (f pe) (f pa) (map (mp f) codes) = mp f (pjoin_parts pe pa codes).
Proof.
  intros f pe pa [|c cs]; unfold pjoin_parts; simpl; [reflexivity|].
  rewrite mp_app, mp_flat_map, flat_map_map. f_equal. apply flat_map_ext_Forall.
  apply Forall_forall. intros a _. now rewrite mp_app.
Qed.

Lemma mp_plist_parts : forall f g p parts args,
  plist_parts (f p) (map (map_pos_part g) parts) (map (mp f) args) = map (mp f) (plist_parts p parts args).
Proof.
  intros f g p parts. induction parts as [|t ps IH]; intros args; simpl; [reflexivity|].
  destruct t as [s| |pe]; simpl.
  - now rewrite IH.
  - destruct args as [|a args']; simpl.
    + now rewrite <- (IH []).
    + now rewrite IH, mp_app.
  - now rewrite IH.
Qed.

Lemma pcount_holes_map_pos : forall g parts, pcount_holes (map (map_pos_part g) parts) = pcount_holes parts.
Proof.
  unfold pcount_holes. induction parts as [|t ps IH]; simpl; [reflexivity|].
  destruct t; simpl; now rewrite ?IH.
Qed.

Lemma mp_ppart_codes : forall f g p parts, Forall RE parts ->
  (forall q, In q (flat_map tpl_part_positions parts) -> g q = f q) ->
  ppart_codes ptr (f p) (map (map_pos_part g) parts) = map (mp f) (ppart_codes ptr p parts).
Proof.
  intros f g p parts H. unfold ppart_codes. induction H as [|t ps Ht Hps IH]; intros Hg; simpl in *; [reflexivity|].
  rewrite IH by (intros q Hq; apply Hg; apply in_or_app; now right). f_equal.
  destruct t as [s| |pe]; simpl in *; try reflexivity.
  rewrite mp_app. f_equal.
  rewrite (Ht g g) by reflexivity.
  apply (mp_ext_okp (src_positions_of pe) (tpl_positions_of pe)).
  - exact (proj1 ptr_positions_all pe).
  - intros q Hq. apply Hg. apply in_or_app. now left.
Qed.

Ltac mp_norm := repeat (rewrite mp_app || rewrite mp_cons || rewrite mp_nil).
(* the side condition of an induction hypothesis: the renamings agree on the template positions of a part *)
Ltac sideE :=
  let q := fresh "q" in let Hq := fresh "Hq" in
  intros q Hq;
  match goal with Hg : forall q0, In q0 _ -> _ = _ |- _ => apply Hg end;
  in_solve.
Ltac useE :=
  repeat match goal with
         | IH : PE ?x |- context [ptr (map_pos ?f ?g ?x)] => rewrite (IH f g) by sideE
         end.
Ltac solveE := simpl; rewrite ?pos_of_map_pos, ?map_length; useE; rewrite ?mp_length; mp_norm; reflexivity.

Lemma ptr_map_pos_all : (forall e, PE e) /\ (forall t, RE t) /\ (forall s, QE s).
Proof.
  apply pexpr_mutind.
  - intros p f g Hg. reflexivity.
  - intros p v f g Hg. reflexivity.
  - intros p z f g Hg. reflexivity.
  - intros p bits f g Hg. reflexivity.
  - intros p s f g Hg. reflexivity.
  - intros p x f g Hg. reflexivity.
  - intros p fs IHfs f g Hg. simpl in *. fold (map_pos_fields f g fs). rewrite (mp_pfields f g fs IHfs Hg). reflexivity.
  - intros p es IHes f g Hg. simpl in *. rewrite (mp_pelems f g es IHes Hg). reflexivity.
  - intros p o l r IHl IHr IHdeep f g Hg. simpl in Hg.
    destruct o; try solve [solveE].
    + (* IN *)
      assert (Hgen : ptr (map_pos f g r) ++ ptr (map_pos f g l) ++ [(IExist, f p)]
                     = mp f (ptr r ++ ptr l ++ [(IExist, p)])) by (useE; mp_norm; reflexivity).
      destruct l; try exact Hgen.
      clear Hgen. solveE.
    + (* DOT *)
      assert (Hgen : ptr (map_pos f g l) ++ ptr (map_pos f g r) ++ [(IIndex, f p)]
                     = mp f (ptr l ++ ptr r ++ [(IIndex, p)])) by (useE; mp_norm; reflexivity).
      destruct r; try exact Hgen; clear Hgen.
      * solveE.
      * destruct IHdeep as [IHsel IHfs]. clear IHr. simpl in Hg.
        assert (Hfs : pfields ptr (map_pos_fields f g fs) = mp f (pfields ptr fs))
          by (apply (mp_pfields f g fs IHfs); sideE).
        destruct r; try reflexivity; simpl; fold (map_pos_fields f g fs); rewrite Hfs; useE; mp_norm;
          rewrite mp_pcopy_code; reflexivity.
      * destruct IHdeep as [IHfn IHargs]. clear IHr. simpl in Hg.
        assert (Hargs : pargs ptr (map (map_pos f g) args) = mp f (pargs ptr args))
          by (apply (mp_pargs f g args IHargs); sideE).
        destruct r; try reflexivity; simpl; rewrite Hargs, map_length; useE; mp_norm; reflexivity.
  - intros p e IHe f g Hg. simpl in Hg. solveE.
  - intros p e IHe f g Hg. simpl in Hg. solveE.
  - intros p t fs IHt IHfs f g Hg. simpl in Hg. simpl. fold (map_pos_fields f g fs).
    rewrite (mp_pfields f g fs IHfs) by sideE. useE. mp_norm. rewrite mp_pcopy_code. reflexivity.
  - intros p st stp en IHst IHstp IHen f g Hg. destruct stp as [s|]; simpl in IHstp, Hg; solveE.
  - (* format, list form *)
    intros p parts args IHparts IHargs f g Hg. simpl in Hg. simpl.
    fold (map_pos_part g). rewrite pcount_holes_map_pos, map_length.
    destruct (negb (Nat.eqb (pcount_holes parts) (List.length args))); [reflexivity|].
    destruct parts as [|t parts']; [reflexivity|].
    change (map (map_pos_part g) (t :: parts')) with (map_pos_part g t :: map (map_pos_part g) parts').
    cbv iota.
    change (map_pos_part g t :: map (map_pos_part g) parts') with (map (map_pos_part g) (t :: parts')).
    rewrite <- mp_pjoin_parts, <- (mp_plist_parts f g), !map_rev. f_equal. f_equal. f_equal.
    rewrite !map_map. apply map_ext_Forall.
    apply Forall_forall. intros a Ha. pose proof (proj1 (Forall_forall _ _) IHargs a Ha) as IHa.
    apply IHa. intros q Hq. apply Hg. apply in_flat_map. exists a. now split.
  - (* format, single form *)
    intros p tpl parts arg IHparts IHarg f g Hg. simpl in Hg. simpl. fold (map_pos_part g).
    rewrite pos_of_map_pos. rewrite (mp_ppart_codes f g p parts IHparts) by sideE.
    rewrite <- map_rev, mp_pjoin_parts. useE.
    rewrite !app_length. simpl. rewrite !app_length, !mp_length. mp_norm. reflexivity.
  - intros p fn args IHfn IHargs f g Hg. simpl in Hg. simpl.
    rewrite (mp_pargs f g args IHargs) by sideE. rewrite pos_of_map_pos, map_length. useE. mp_norm. reflexivity.
  - intros p ct e IHe f g Hg. simpl in Hg. solveE.
  - (* func *)
    intros p ps body IHbody f g Hg. simpl in Hg. simpl. useE. rewrite mp_length. mp_norm.
    rewrite flat_map_map, mp_flat_map. reflexivity.
  - (* select *)
    intros p ve dflt arms IHve IHdflt IHarms f g Hg. simpl in Hg. simpl. fold (map_pos_fields f g arms).
    rewrite (mp_parms f g arms IHarms) by sideE. rewrite pos_of_map_pos. mp_norm.
    rewrite <- mp_psel_arms. useE.
    destruct dflt as [de|]; simpl in IHdflt, Hg |- *; useE; reflexivity.
  - intros p fe te IHf IHt f g Hg. simpl in Hg. solveE.
  - intros p fe te IHf IHt f g Hg. simpl in Hg. solveE.
  - intros p fe ae te IHf IHa IHt f g Hg. simpl in Hg. solveE.
  - (* module *)
    intros p ps out body IHps IHout IHbody f g Hg.
    assert (Hbody : flat_map ptr_stmt (map (map_pos_stmt f g) body) = mp f (flat_map ptr_stmt body)).
    { rewrite flat_map_map, mp_flat_map. apply flat_map_ext_Forall.
      apply Forall_forall. intros s Hs. pose proof (proj1 (Forall_forall _ _) IHbody s Hs) as IHs.
      apply IHs. intros q Hq. apply Hg. simpl. apply in_or_app. right. apply in_or_app. right.
      apply in_flat_map. exists s. now split. }
    destruct out as [oe|]; simpl in IHout, Hg |- *; fold (map_pos_fields f g ps);
      rewrite (mp_pfields f g ps IHps) by sideE; rewrite Hbody, ?pos_of_map_pos; useE;
      rewrite !app_length, !mp_length; mp_norm; reflexivity.
  - intros p e IHe f g Hg. simpl in Hg. solveE.
  - intros p e IHe f g Hg. simpl in Hg. solveE.
  - intros p pp path f g Hg. reflexivity.
  - intros p tp typ pp path f g Hg. reflexivity.
  - intros p tp typ e IHe f g Hg. simpl in Hg. solveE.
  - intros s. exact I.
  - exact I.
  - intros e IHe. exact IHe.
  - intros p np x e IHe f g Hg. simpl in Hg. solveE.
  - intros e IHe f g Hg. simpl in Hg. solveE.
  - intros p e IHe f g Hg. simpl in Hg. solveE.
  - intros p tp typ e IHe f g Hg. simpl in Hg. solveE.
Qed.

Theorem ptranslate_expr_map_pos : forall f g e,
  (forall q, In q (tpl_positions_of e) -> g q = f q) ->
  ptranslate_expr (map_pos f g e) = map (fun x => (fst x, f (snd x))) (ptranslate_expr e).
Proof. intros f g e. exact (proj1 ptr_map_pos_all e f g). Qed.

Theorem ptranslate_stmt_map_pos : forall f g s,
  (forall q, In q (tpl_positions_of_stmt s) -> g q = f q) ->
  ptranslate_stmt (map_pos_stmt f g s) = map (fun x => (fst x, f (snd x))) (ptranslate_stmt s).
Proof. intros f g s. exact (proj2 (proj2 ptr_map_pos_all) s f g). Qed.

(* (E), general form: [f] on the positions of the file, [g] on the template-relative positions *)
Theorem ptranslate_map_pos : forall f g p,
  (forall q, In q (flat_map tpl_positions_of_stmt p) -> g q = f q) ->
  ptranslate (map (map_pos_stmt f g) p) = map (fun x => (fst x, f (snd x))) (ptranslate p).
Proof.
  intros f g p Hg. unfold ptranslate. rewrite flat_map_map, map_flat_map. apply flat_map_ext_Forall.
  apply Forall_forall. intros s Hs. apply ptranslate_stmt_map_pos.
  intros q Hq. apply Hg. apply in_flat_map. exists s. now split.
Qed.

Corollary ptranslate_map_pos_uniform : forall f p,
  ptranslate (map (map_pos_stmt f f) p) = map (fun x => (fst x, f (snd x))) (ptranslate p).
Proof. intros f p. apply ptranslate_map_pos. reflexivity. Qed.

(* (E) k more lines in front of a program move the position of every op down by exactly k lines, keep every
   column and change nothing else *)
Theorem ptranslate_shift : forall k p,
  ptranslate (map (shift_stmt k) p) = map (fun x => (fst x, shift_pos k (snd x))) (ptranslate p).
Proof. intros k p. unfold shift_stmt. apply ptranslate_map_pos_uniform. Qed.

Corollary ptranslate_shift_lines : forall k p,
  map (fun x => line (snd x)) (ptranslate (map (shift_stmt k) p)) = map (fun x => (line (snd x) + k)%N) (ptranslate p)
  /\ map (fun x => col (snd x)) (ptranslate (map (shift_stmt k) p)) = map (fun x => col (snd x)) (ptranslate p)
  /\ map fst (ptranslate (map (shift_stmt k) p)) = map fst (ptranslate p).
Proof. intros k p. rewrite ptranslate_shift, !map_map. repeat split. Qed.

(* erasing forgets any renaming of positions *)
Definition PM (e : pexpr) : Prop := forall f g, erase (map_pos f g e) = erase e.
Definition RM (t : ptpart) : Prop := forall g, erase_part (map_pos_part g t) = erase_part t.
Definition QM (s : pstmt) : Prop := forall f g, erase_stmt (map_pos_stmt f g s) = erase_stmt s.

Lemma erase_map_pos_fields : forall f g fs, Pfields PM fs -> erase_fields (map_pos_fields f g fs) = erase_fields fs.
Proof.
  intros f g fs H. unfold erase_fields, map_pos_fields. rewrite map_map. apply map_ext_Forall.
  eapply Forall_impl; [|exact H]. intros [[kp k] e] He. simpl in *. now rewrite (He f g).
Qed.

Lemma erase_map_pos_list : forall f g es, Forall PM es -> map erase (map (map_pos f g) es) = map erase es.
Proof.
  intros f g es H. rewrite map_map. apply map_ext_Forall. eapply Forall_impl; [|exact H].
  intros e He. apply He.
Qed.

Lemma erase_map_pos_parts : forall g parts, Forall RM parts ->
  map erase_part (map (map_pos_part g) parts) = map erase_part parts.
Proof.
  intros g parts H. rewrite map_map. apply map_ext_Forall. eapply Forall_impl; [|exact H].
  intros t Ht. apply Ht.
Qed.

Lemma erase_map_pos_all : (forall e, PM e) /\ (forall t, RM t) /\ (forall s, QM s).
Proof.
  apply pexpr_mutind; unfold PM, QM.
  - reflexivity.
  - reflexivity.
  - reflexivity.
  - reflexivity.
  - reflexivity.
  - reflexivity.
  - intros p fs IHfs f g. simpl. f_equal. exact (erase_map_pos_fields f g fs IHfs).
  - intros p es IHes f g. simpl. f_equal. exact (erase_map_pos_list f g es IHes).
  - intros p o l r IHl IHr _ f g. simpl. now rewrite IHl, IHr.
  - intros p e IHe f g. simpl. now rewrite IHe.
  - intros p e IHe f g. simpl. now rewrite IHe.
  - intros p t fs IHt IHfs f g. simpl. rewrite IHt. f_equal. exact (erase_map_pos_fields f g fs IHfs).
  - intros p st stp en IHst IHstp IHen f g. simpl. rewrite IHst, IHen.
    destruct stp as [s|]; simpl in *; now rewrite ?IHstp.
  - intros p parts args IHparts IHargs f g. simpl. f_equal.
    + exact (erase_map_pos_parts g parts IHparts).
    + exact (erase_map_pos_list f g args IHargs).
  - intros p tpl parts arg IHparts IHarg f g. simpl. rewrite IHarg. f_equal. exact (erase_map_pos_parts g parts IHparts).
  - intros p fn args IHfn IHargs f g. simpl. rewrite IHfn. f_equal. exact (erase_map_pos_list f g args IHargs).
  - intros p ct e IHe f g. simpl. now rewrite IHe.
  - intros p ps body IHbody f g. simpl. rewrite IHbody, map_map. reflexivity.
  - intros p ve dflt arms IHve IHdflt IHarms f g. simpl. rewrite IHve. f_equal.
    + destruct dflt as [de|]; simpl in *; now rewrite ?IHdflt.
    + exact (erase_map_pos_fields f g arms IHarms).
  - intros p fe te IHf IHt f g. simpl. now rewrite IHf, IHt.
  - intros p fe te IHf IHt f g. simpl. now rewrite IHf, IHt.
  - intros p fe ae te IHf IHa IHt f g. simpl. now rewrite IHf, IHa, IHt.
  - intros p ps out body IHps IHout IHbody f g. simpl. f_equal.
    + exact (erase_map_pos_fields f g ps IHps).
    + destruct out as [oe|]; simpl in *; now rewrite ?IHout.
    + rewrite map_map. apply map_ext_Forall. eapply Forall_impl; [|exact IHbody]. intros s Hs. apply Hs.
  - intros p e IHe f g. simpl. now rewrite IHe.
  - intros p e IHe f g. simpl. now rewrite IHe.
  - reflexivity.
  - reflexivity.
  - intros p tp typ e IHe f g. simpl. now rewrite IHe.
  - intros s g. reflexivity.
  - intros g. reflexivity.
  - intros e IHe g. simpl. now rewrite IHe.
  - intros p np x e IHe f g. simpl. now rewrite IHe.
  - intros e IHe f g. simpl. now rewrite IHe.
  - intros p e IHe f g. simpl. now rewrite IHe.
  - intros p tp typ e IHe f g. simpl. now rewrite IHe.
Qed.

Theorem erase_map_pos_stmt : forall f g s, erase_stmt (map_pos_stmt f g s) = erase_stmt s.
Proof. intros f g s. exact (proj2 (proj2 erase_map_pos_all) s f g). Qed.

(* whatever the program contains, moving it down changes no op *)
Corollary ptranslate_shift_ops : forall k p, map fst (ptranslate (map (shift_stmt k) p)) = map fst (ptranslate p).
Proof.
  intros k p. rewrite !ptranslate_erase. f_equal. rewrite map_map. apply map_ext_Forall.
  apply Forall_forall. intros s _. apply erase_map_pos_stmt.
Qed.

(* ------------------------------------------------------------------------------------------------ *)
(* (F) function and module bodies: the body is translated inline, right after the Func / Module op, and its ops
   carry positions of the DEFINING statement (the primary position of a fault raised while the body runs lies in
   the statement that defines the function; the call site is what the error chain reports as VIA) *)

Corollary func_body_ops_carry_positions_of_the_defining_statement : forall p np name fp ps body,
  let s := PSLet p np name (PEFunc fp ps body) in
  ptranslate_stmt s =
    (ISym name, np) :: (IInitList, fp)
      :: flat_map (fun q => [(ISym (snd q), fst q); (IElement, fst q)]) ps
      ++ (IFunc (S (List.length (ptranslate_expr body))), fp) :: ptranslate_expr body ++ [(IReturn, fp); (IBind, p)]
  /\ Forall (fun x => In (snd x) (positions_of_stmt s)) (ptranslate_expr body)
  /\ (forall lo hi, stmt_in_span s lo hi -> Forall (fun x => (lo <= line (snd x) <= hi)%N) (ptranslate_expr body)).
Proof.
  intros p np name fp ps body s.
  assert (Hbody : Forall (fun x => In (snd x) (positions_of_stmt s)) (ptranslate_expr body)).
  { eapply Forall_impl; [|exact (ptranslate_expr_positions body)].
    intros x Hx. unfold positions_of in Hx. unfold s, positions_of_stmt. simpl.
    rewrite !in_app_iff in *. tauto. }
  split; [|split].
  - unfold s, ptranslate_stmt, ptranslate_expr. simpl. repeat (rewrite <- app_assoc; simpl). reflexivity.
  - exact Hbody.
  - intros lo hi Hspan. eapply Forall_impl; [|exact Hbody].
    intros x Hx. exact (proj1 (Forall_forall _ _) Hspan (snd x) Hx).
Qed.

Corollary module_body_ops_carry_positions_of_the_defining_statement : forall p np name mp0 ps out body,
  let s := PSLet p np name (PEModule mp0 ps out body) in
  (exists pre, ptranslate_stmt s =
     pre ++ (IModule (S (List.length (ptranslate body) + 1)), mp0) :: (IBind, mp0)
         :: ptranslate body ++ [(IReturn, mp0); (IBind, p)])
  /\ Forall (fun x => In (snd x) (positions_of_stmt s)) (ptranslate body)
  /\ (forall lo hi, stmt_in_span s lo hi -> Forall (fun x => (lo <= line (snd x) <= hi)%N) (ptranslate body)).
Proof.
  intros p np name mp0 ps out body s.
  assert (Hbody : Forall (fun x => In (snd x) (positions_of_stmt s)) (ptranslate body)).
  { apply Forall_forall. intros x Hx. unfold ptranslate in Hx. apply in_flat_map in Hx. destruct Hx as [st [Hst Hx]].
    pose proof (proj1 (Forall_forall _ _) (ptranslate_positions_src_or_template st) x Hx) as H.
    unfold s, positions_of_stmt. simpl. rewrite !in_app_iff. destruct H as [H|H].
    - assert (Hin : In (snd x) (flat_map src_positions_of_stmt body)) by (apply in_flat_map; exists st; now split).
      tauto.
    - assert (Hin : In (snd x) (flat_map tpl_positions_of_stmt body)) by (apply in_flat_map; exists st; now split).
      tauto. }
  split; [|split].
  - exists ((ISym name, np) :: (IInitTuple, mp0) :: pfields ptr ps ++
            match out with
            | Some oe => (IInitThunk (S (List.length (ptr oe))), pos_of oe) :: ptr oe ++ [(IReturn, pos_of oe)]
            | None => []
            end).
    unfold s, ptranslate_stmt, ptranslate. simpl. rewrite app_length. simpl.
    repeat (rewrite <- app_assoc; simpl). reflexivity.
  - exact Hbody.
  - intros lo hi Hspan. eapply Forall_impl; [|exact Hbody].
    intros x Hx. exact (proj1 (Forall_forall _ _) Hspan (snd x) Hx).
Qed.
