(* (B), invariant form, and (C) locality, from the one-step invariant of PVm_Inv.v.
   Part 1 (every frame, U = positions of the ops of the code):
     pvm_run_inv                        the state stays made of positions of the code (+ the dummy inside values)
     pvm_state_positions_from_code      the bindings of a finished program
     pvm_error_positions_by_kind        primary position: an op position, or -- only KReservedArg / KFieldType -- the dummy
     pvm_dummy_only_in_nested_kinds     the implementation's dummy 0:0
   Part 2 (a frame running inside the index range [lo, hi) of one statement, X = positions of that statement):
     pc_step                            where one step can move the instruction pointer
     closed_frame_local                 a frame whose code ends in a Return inside the range (function / module body,
                                        NewScope): its errors are local to the range
     until_local, pvm_locality          the frame that executes the statement at depth 0: an error it reports before
                                        leaving the range has its primary position in the statement (no VIA) or the
                                        outermost VIA entry in the statement
     pvm_locality_translated            the same for ptranslate (p1 ++ [s] ++ p2)
   The side condition [scoped] is a decidable property of the CODE (scopedb; PVm_Scoped.v proves it for every translated
   program).  Until /repo commit 5138c88 a second condition "no module has an out-expression" was needed (findings F1, F2);
   the two former counterexamples are now positive examples at the end, next to the one remaining _refuted lemma. *)
From Ucg Require Import pos.PTranslate_Lemmas pos.PVm pos.PVm_Erase pos.PVm_Map pos.PVm_Lemmas pos.PVm_Inv.

(* ------------------------------------------------------------------------------------------------ *)
(* the frame that executes a statement at depth 0: run until the instruction pointer reaches [hi] *)
Section Until.
  Variable fo : float_ops.
  Variable PC : pops.
  Variable strict_ : bool.
  Variable envv : list (bytes * bytes).
  Variable envpos : pos.
  Variable hi : nat.
  Notation runf := (pvm_run fo PC strict_ envv envpos).

  Fixpoint pvm_run_until (fuel : nat) (st : pstate fo) : pout (pstate fo) :=
    match fuel with
    | O => PFuel
    | S f =>
      if Nat.eqb (ppc st) hi then POk st
      else match nth_error PC (ppc st) with
           | None => POk st
           | Some (IReturn, _) => POk st
           | Some (i, p) => pdo st' <- pexec_instr fo PC strict_ envv envpos (runf f) i p st; pvm_run_until f st'
           end
    end.

  (* the run of the frame is the run until [hi], continued from there *)
  Lemma run_splits_at : forall fuel st e q via,
    runf fuel st = PErr e q via ->
    pvm_run_until fuel st = PErr e q via
    \/ exists st' fuel', pvm_run_until fuel st = POk st' /\ ppc st' = hi /\ runf fuel' st' = PErr e q via.
  Proof.
    intros fuel. induction fuel as [|f IH]; intros st e q via H; simpl in *; [discriminate|].
    destruct (Nat.eqb (ppc st) hi) eqn:Eh.
    - right. exists st, (S f). split; [reflexivity|]. split; [apply Nat.eqb_eq; exact Eh|exact H].
    - destruct (nth_error PC (ppc st)) as [[i p]|]; [|discriminate].
      destruct i; try discriminate;
        (destruct (pexec_instr fo PC strict_ envv envpos (runf f) _ p st) as [st1|e1 q1 via1| | |]; simpl in *;
         try discriminate; [exact (IH st1 e q via H)|left; exact H]).
  Qed.
End Until.

(* ------------------------------------------------------------------------------------------------ *)
(* Part 1 *)
Section Uniform.
  Variable fo : float_ops.
  Variable PC : pops.
  Variable strict_ : bool.
  Variable envv : list (bytes * bytes).
  Variable envpos : pos.

  Definition Ucode (q : pos) : Prop := In q (map snd PC).
  Definition Ncode (q : pos) : Prop := In q (map snd PC) \/ (q = envpos /\ envv <> []).
  Lemma Ucode_Ncode : forall q, Ucode q -> Ncode q.
  Proof. intros q H. left. exact H. Qed.
  Lemma Ncode_env : envv <> [] -> Ncode envpos.
  Proof. intros H. right. split; [reflexivity|exact H]. Qed.

  Notation stokU := (stok fo Ncode Ucode).
  Notation outU := (out_ok Ucode Ncode Ucode).

  Theorem pvm_run_inv : forall fuel st,
    stokU st -> outU stokU (pvm_run fo PC strict_ envv envpos fuel st).
  Proof.
    intros fuel. induction fuel as [|f IH]; intros st Hst; simpl; [exact I|].
    destruct (nth_error PC (ppc st)) as [[i p]|] eqn:E; [|exact Hst].
    assert (Hp : Ucode p) by (apply nth_error_In in E; apply in_map_iff; exists (i, p); split; [reflexivity|exact E]).
    assert (Hstep : outU stokU (pexec_instr fo PC strict_ envv envpos (pvm_run fo PC strict_ envv envpos f) i p st)).
    { apply (pexec_instr_ok fo Ucode Ncode Ucode_Ncode Ucode (fun q H => H)
                            PC strict_ envv envpos Ncode_env (pvm_run fo PC strict_ envv envpos f) IH i p st Hst Hp).
      intros j _. apply IH. destruct Hst as [_ [Hb Hf]]. split; [constructor|split; assumption]. }
    destruct i; try exact Hst;
      (eapply out_ok_bind; [exact Hstep|]; intros st' _ Hst'; apply IH; exact Hst').
  Qed.

  Theorem until_inv : forall hi fuel st,
    stokU st -> outU stokU (pvm_run_until fo PC strict_ envv envpos hi fuel st).
  Proof.
    intros hi fuel. induction fuel as [|f IH]; intros st Hst; simpl; [exact I|].
    destruct (Nat.eqb (ppc st) hi); [exact Hst|].
    destruct (nth_error PC (ppc st)) as [[i p]|] eqn:E; [|exact Hst].
    assert (Hp : Ucode p) by (apply nth_error_In in E; apply in_map_iff; exists (i, p); split; [reflexivity|exact E]).
    assert (Hstep : outU stokU (pexec_instr fo PC strict_ envv envpos (pvm_run fo PC strict_ envv envpos f) i p st)).
    { apply (pexec_instr_ok fo Ucode Ncode Ucode_Ncode Ucode (fun q H => H)
                            PC strict_ envv envpos Ncode_env (pvm_run fo PC strict_ envv envpos f) (pvm_run_inv f) i p st Hst Hp).
      intros j _. apply pvm_run_inv. destruct Hst as [_ [Hb Hf]]. split; [constructor|split; assumption]. }
    destruct i; try exact Hst;
      (eapply out_ok_bind; [exact Hstep|]; intros st' _ Hst'; apply IH; exact Hst').
  Qed.

  Lemma init_ok : stokU (pinit_state fo).
  Proof. split; [constructor|split; constructor]. Qed.
End Uniform.

(* the invariant the run of a whole program keeps: every position in the final bindings (top level and inside the
   values) is the position of an op of the program, or -- inside values only -- the dummy of the `env` tuple *)
Theorem pvm_state_positions_from_code : forall fo ep fuel envv strict_ code t,
  pvm_prog_at fo ep fuel envv strict_ code = POk t ->
  Forall (fun kv => vok fo (Ncode code envv ep) (fst (snd kv)) /\ Ncode code envv ep (snd (snd kv))) t.
Proof.
  intros fo ep fuel envv strict_ code t H. unfold pvm_prog_at in H.
  pose proof (pvm_run_inv fo code strict_ envv ep fuel (pinit_state fo) (init_ok fo code envv ep)) as Hinv.
  destruct (pvm_run fo code strict_ envv ep fuel (pinit_state fo)) as [st| | | |]; simpl in H; try discriminate.
  inversion H; subst. exact (proj1 (proj2 Hinv)).
Qed.

(* which errors can carry the dummy: only those that read a position stored INSIDE a value *)
Theorem pvm_error_positions_by_kind : forall fo ep fuel envv strict_ code e q via,
  pvm_prog_at fo ep fuel envv strict_ code = PErr e q via ->
  (In q (map snd code) \/ ((e = KReservedArg \/ e = KFieldType) /\ q = ep /\ envv <> []))
  /\ Forall (fun v => In v (map snd code)) via.
Proof.
  intros fo ep fuel envv strict_ code e q via H. unfold pvm_prog_at in H.
  pose proof (pvm_run_inv fo code strict_ envv ep fuel (pinit_state fo) (init_ok fo code envv ep)) as Hinv.
  destruct (pvm_run fo code strict_ envv ep fuel (pinit_state fo)) as [st|e' q' via'| | |]; simpl in H; try discriminate.
  inversion H; subst. simpl in Hinv.
  assert (Hq : qok (Ucode code) (Ncode code envv ep) (Ucode code) e q)
    by (destruct via; simpl in Hinv; [exact Hinv|exact (proj1 Hinv)]).
  assert (Hv : Forall (Ucode code) via) by (destruct via; simpl in Hinv; [constructor|exact (proj1 (proj2 Hinv))]).
  split; [|exact Hv].
  destruct Hq as [Hu|[[Hk [Hn|Hn]]|[_ Hu]]]; [left; exact Hu|left; exact Hn|right; split; [exact Hk|exact Hn]|left; exact Hu].
Qed.

(* the implementation (dummy 0:0; no op of a parsed program is at line 0): a reported 0:0 means an error of kind
   KReservedArg (a parameter of a callback that is a reserved word, bound to a field of `env`) or KFieldType (a field
   of a tuple that came out of `env` used as an override); no VIA entry is ever 0:0 *)
Theorem pvm_dummy_only_in_nested_kinds : forall fo fuel envv strict_ code e q via,
  ~ In pos0 (map snd code) ->
  pvm_prog fo fuel envv strict_ code = PErr e q via ->
  (q = pos0 -> (e = KReservedArg \/ e = KFieldType) /\ envv <> []) /\ ~ In pos0 via.
Proof.
  intros fo fuel envv strict_ code e q via Hno H. rewrite pvm_prog_is_at_pos0 in H.
  destruct (pvm_error_positions_by_kind fo pos0 fuel envv strict_ code e q via H) as [Hq Hv]. split.
  - intros Heq. subst q. destruct Hq as [Hin|[Hk [_ He]]]; [contradiction|split; assumption].
  - intros Hin. exact (Hno (proj1 (Forall_forall _ _) Hv pos0 Hin)).
Qed.

(* ------------------------------------------------------------------------------------------------ *)
(* Part 2 *)
Definition jump_of (i : instr) : option nat :=
  match i with
  | IJump j | IJumpIfTrue j | IJumpIfFalse j | ISelectJump j | IAnd j | IOr j
  | IInitThunk j | IModule j | IFunc j | INewScope j => Some j
  | _ => None
  end.
(* the ops whose operand is the length of a body that a nested frame runs and that ends in a Return *)
Definition frame_of (i : instr) : option nat :=
  match i with IModule j | IFunc j | INewScope j => Some j | _ => None end.

Section PcStep.
  Variable fo : float_ops.
  Variable PC : pops.
  Variable strict_ : bool.
  Variable envv : list (bytes * bytes).
  Variable envpos : pos.
  Variable run : pstate fo -> pout (pstate fo).

  Definition pc_ok (i : instr) (st st' : pstate fo) : Prop :=
    ppc st' = S (ppc st) \/ exists j, jump_of i = Some j /\ ppc st' = S (ppc st + j).

  Ltac pinv H :=
    repeat (simpl in H;
            match type of H with
            | pbind ?r _ = POk _ =>
              let a := fresh "a" in let E := fresh "E" in destruct r as [a| | | |] eqn:E; simpl in H; try discriminate H
            | (match ?x with _ => _ end) = POk _ => destruct x eqn:?; try discriminate H
            | (if ?c then _ else _) = POk _ => destruct c eqn:?; try discriminate H
            end).
  Ltac pfin H :=
    first [ discriminate H
          | unfold ppush_next, pjump, pnext, pwith_stk, pwith_pc in H;
            repeat match type of H with (if ?c then _ else _) = _ => destruct c end;
            try discriminate H; inversion H; subst; clear H; unfold pc_ok; simpl;
            first [left; reflexivity | right; eexists; split; reflexivity] ].

  Lemma pc_step : forall i p st st',
    i <> IReturn -> pexec_instr fo PC strict_ envv envpos run i p st = POk st' -> pc_ok i st st'.
  Proof.
    intros i p st st' Hnr H. unfold pexec_instr in H.
    destruct i; try (contradiction Hnr; reflexivity);
      unfold p_op_fcall, p_op_new_scope, p_op_copy, p_op_runtime, p_hook_map, p_hook_filter, p_hook_reduce in H;
      pinv H; pfin H.
  Qed.
End PcStep.

Section Region.
  Variable fo : float_ops.
  Variable PC : pops.
  Variable strict_ : bool.
  Variable envv : list (bytes * bytes).
  Variable envpos : pos.
  Variables lo hi : nat.
  Variable Rs : list pos.                 (* the positions of the statement *)

  (* the ops of the range carry positions of the statement *)
  Hypothesis Hops : forall i x p, lo <= i < hi -> nth_error PC i = Some (x, p) -> In p Rs.
  (* no op of the range jumps out of the range; a body that a nested frame runs ends in a Return and no op of the body
     jumps past that Return *)
  Definition scoped : Prop :=
    hi <= List.length PC
    /\ (forall i x p j, lo <= i < hi -> nth_error PC i = Some (x, p) -> jump_of x = Some j -> S (i + j) <= hi)
    /\ (forall i0 x0 p0 j0, lo <= i0 < hi -> nth_error PC i0 = Some (x0, p0) -> frame_of x0 = Some j0 ->
          (exists p', nth_error PC (i0 + j0) = Some (IReturn, p'))
          /\ forall i x p j, i0 < i < i0 + j0 -> nth_error PC i = Some (x, p) -> jump_of x = Some j -> S (i + j) <= i0 + j0).
  Hypothesis Hscoped : scoped.

  Definition Xs (q : pos) : Prop := In q Rs /\ Ucode PC q.
  Notation U := (Ucode PC).
  Notation N := (Ncode PC envv envpos).
  Notation stokX := (stok fo N Xs).
  Notation stokU := (stok fo N U).
  Notation outX := (out_ok U N Xs).
  Notation runf := (pvm_run fo PC strict_ envv envpos).

  Lemma Xs_U : forall q, Xs q -> U q.
  Proof. intros q [_ H]. exact H. Qed.

  Lemma HrunU : forall f st0, stokU st0 -> out_ok U N U stokU (runf f st0).
  Proof.
    intros f st0 H. exact (pvm_run_inv fo PC strict_ envv envpos f st0 H).
  Qed.

  Lemma op_in_Xs : forall i x p, lo <= i < hi -> nth_error PC i = Some (x, p) -> Xs p.
  Proof.
    intros i x p Hi E. split; [exact (Hops i x p Hi E)|].
    apply nth_error_In in E. apply in_map_iff. exists (x, p). split; [reflexivity|exact E].
  Qed.

  (* one step of a frame of the range, given that frames started by NewScope ops of the range are local *)
  Lemma region_step : forall f i p st,
    lo <= ppc st < hi -> nth_error PC (ppc st) = Some (i, p) -> stokX st ->
    (forall j, i = INewScope j ->
               outX stokX (runf f {| ppc := S (ppc st); pstk := []; psyms := psyms st; pselfs := pselfs st |})) ->
    outX stokX (pexec_instr fo PC strict_ envv envpos (runf f) i p st).
  Proof.
    intros f i p st Hpc E Hst Hscope.
    exact (pexec_instr_ok fo U N (Ucode_Ncode PC envv envpos) Xs Xs_U
                          PC strict_ envv envpos (Ncode_env PC envv envpos) (runf f) (HrunU f) i p st Hst
                          (op_in_Xs _ _ _ Hpc E) Hscope).
  Qed.

  (* a frame whose code is [a, b] with a Return at b, inside the range *)
  Definition closed (a b : nat) : Prop :=
    lo <= a /\ b < hi
    /\ (exists p', nth_error PC b = Some (IReturn, p'))
    /\ forall i x p j, a <= i < b -> nth_error PC i = Some (x, p) -> jump_of x = Some j -> S (i + j) <= b.

  Lemma closed_sub : forall i0 x0 p0 j0,
    lo <= i0 < hi -> nth_error PC i0 = Some (x0, p0) -> frame_of x0 = Some j0 -> closed (S i0) (i0 + j0) /\ S i0 <= i0 + j0.
  Proof.
    intros i0 x0 p0 j0 Hi E Hf. destruct Hscoped as [_ [H1 H2]].
    destruct (H2 i0 x0 p0 j0 Hi E Hf) as [[p' Hret] Hin].
    assert (Hj : jump_of x0 = Some j0) by (destruct x0; simpl in Hf; try discriminate; exact Hf).
    pose proof (H1 i0 x0 p0 j0 Hi E Hj) as Hle.
    assert (Hpos : S i0 <= i0 + j0).
    { destruct j0 as [|j0]; [|lia]. rewrite Nat.add_0_r in Hret. rewrite E in Hret. inversion Hret; subst.
      simpl in Hf. discriminate. }
    split; [|exact Hpos]. split; [lia|]. split; [lia|]. split; [exists p'; exact Hret|].
    intros i x p j Hi' E' Hj'. apply (Hin i x p j); [lia|exact E'|exact Hj'].
  Qed.

  Theorem closed_frame_local : forall fuel a b st,
    closed a b -> a <= ppc st <= b -> stokX st -> outX stokX (runf fuel st).
  Proof.
    intros fuel. induction fuel as [|f IH]; intros a b st Hcl Hpc Hst; simpl; [exact I|].
    destruct Hcl as [Hlo [Hhi [[p' Hret] Hj]]].
    destruct (nth_error PC (ppc st)) as [[i p]|] eqn:E; [|exact Hst].
    destruct (Nat.eq_dec (ppc st) b) as [Heq|Hne].
    - rewrite Heq, Hret in E. inversion E; subst. exact Hst.
    - assert (Hin : lo <= ppc st < hi) by lia.
      assert (Hstep : outX stokX (pexec_instr fo PC strict_ envv envpos (runf f) i p st)).
      { apply region_step; [exact Hin|exact E|exact Hst|]. intros j Hi. subst i.
        destruct (closed_sub (ppc st) (INewScope j) p j Hin E eq_refl) as [Hcl' Hle].
        apply (IH (S (ppc st)) (ppc st + j)); [exact Hcl'|simpl; lia|].
        destruct Hst as [_ [Hb Hf]]. split; [constructor|split; assumption]. }
      destruct i; try exact Hst;
        (eapply out_ok_bind; [exact Hstep|]; intros st' Hex Hst';
         apply (IH a b); [repeat split; [exact Hlo|exact Hhi|exists p'; exact Hret|exact Hj]| |exact Hst'];
         match type of Hex with
         | pexec_instr _ _ _ _ _ _ ?i0 _ _ = _ =>
           let Hpc' := fresh "Hpc'" in
           assert (Hpc' : pc_ok fo i0 st st') by (apply (pc_step fo PC strict_ envv envpos (runf f) i0 p st st'); [discriminate|exact Hex]);
           destruct Hpc' as [Hn|[j' [Hj' Hn]]]; [lia|];
           pose proof (Hj (ppc st) i0 p j' ltac:(lia) E Hj'); lia
         end).
  Qed.

  Notation pvm_run_until := (pvm_run_until fo PC strict_ envv envpos hi).

  Theorem until_local : forall fuel st,
    lo <= ppc st <= hi -> stokX st ->
    outX (fun st' => stokX st' /\ lo <= ppc st' <= hi) (pvm_run_until fuel st).
  Proof.
    intros fuel. induction fuel as [|f IH]; intros st Hpc Hst; simpl; [exact I|].
    destruct (Nat.eqb (ppc st) hi) eqn:Eh; [split; assumption|]. apply Nat.eqb_neq in Eh.
    destruct (nth_error PC (ppc st)) as [[i p]|] eqn:E; [|split; assumption].
    assert (Hin : lo <= ppc st < hi) by lia.
    assert (Hstep : outX stokX (pexec_instr fo PC strict_ envv envpos (runf f) i p st)).
    { apply region_step; [exact Hin|exact E|exact Hst|]. intros j Hi. subst i.
      destruct (closed_sub (ppc st) (INewScope j) p j Hin E eq_refl) as [Hcl' Hle].
      apply (closed_frame_local f (S (ppc st)) (ppc st + j)); [exact Hcl'|simpl; lia|].
      destruct Hst as [_ [Hb Hf]]. split; [constructor|split; assumption]. }
    destruct Hscoped as [_ [H1 _]].
    destruct i; try (split; assumption);
      (eapply out_ok_bind; [exact Hstep|]; intros st' Hex Hst'; apply IH; [|exact Hst'];
       match type of Hex with
       | pexec_instr _ _ _ _ _ _ ?i0 _ _ = _ =>
         let Hpc' := fresh "Hpc'" in
         assert (Hpc' : pc_ok fo i0 st st') by (apply (pc_step fo PC strict_ envv envpos (runf f) i0 p st st'); [discriminate|exact Hex]);
         destruct Hpc' as [Hn|[j' [Hj' Hn]]]; [lia|];
         pose proof (H1 (ppc st) i0 p j' Hin E Hj'); lia
       end).
  Qed.

  (* (C) locality of the statement executing at depth 0 *)
  Theorem pvm_locality : forall fuel st e q via,
    lo <= ppc st <= hi -> stokX st ->
    runf fuel st = PErr e q via ->
    err_ok U N Xs e q via
    \/ exists st' fuel', pvm_run_until fuel st = POk st' /\ ppc st' = hi /\ stokX st' /\ runf fuel' st' = PErr e q via.
  Proof.
    intros fuel st e q via Hpc Hst H. pose proof (until_local fuel st Hpc Hst) as Hloc.
    destruct (run_splits_at fo PC strict_ envv envpos hi fuel st e q via H) as [Hu|[st' [fuel' [Hu [Hpc' Hr]]]]].
    - left. rewrite Hu in Hloc. exact Hloc.
    - right. exists st', fuel'. rewrite Hu in Hloc. simpl in Hloc. split; [exact Hu|]. split; [exact Hpc'|].
      split; [exact (proj1 Hloc)|exact Hr].
  Qed.
  (* a function DEFINED in the range: the frame of any call of it is local to the range (the error it hands to its
     caller has its primary position in the range and no VIA entry, or its outermost VIA entry in the range); the
     caller then appends the call site *)
  Theorem function_body_local : forall f ptr j pf bs snap s,
    lo <= ptr < hi -> nth_error PC ptr = Some (IFunc j, pf) ->
    Forall (eok fo N N) s -> Forall (bok fo N) snap ->
    outX (fun x : pentry fo * list (pentry fo) => eok fo N Xs (fst x) /\ snd x = skipn (List.length bs) s)
         (p_fcall_impl fo (runf f) ptr bs snap s).
  Proof.
    intros f ptr j pf bs snap s Hptr E Hs Hsnap. unfold p_fcall_impl.
    eapply out_ok_bind; [apply (p_bind_args_ok fo U N Xs bs s snap Hs Hsnap)|]. intros [s' t] _ [Hs' Ht]. simpl in Hs', Ht. simpl.
    destruct (closed_sub ptr (IFunc j) pf j Hptr E eq_refl) as [Hcl Hle].
    eapply out_ok_bind.
    - apply (closed_frame_local f (S ptr) (ptr + j)); [exact Hcl|simpl; lia|].
      split; [constructor|split; [exact Ht|constructor]].
    - intros fin _ [Hfs _]. eapply out_ok_bind; [apply (ppop_ok fo U N Xs Xs); exact Hfs|].
      intros [e rest] _ [He _]. simpl. split; [exact He|exact Hs'].
  Qed.
End Region.

(* ------------------------------------------------------------------------------------------------ *)
(* the side condition as an executable check *)
Definition is_return (c : pops) (i : nat) : bool :=
  match nth_error c i with Some (IReturn, _) => true | _ => false end.
Definition jump_within (c : pops) (bound i : nat) : bool :=
  match nth_error c i with
  | Some (x, _) => match jump_of x with Some j => Nat.leb (S (i + j)) bound | None => true end
  | None => true
  end.
Definition frame_okb (c : pops) (i0 : nat) : bool :=
  match nth_error c i0 with
  | Some (x0, _) =>
    match frame_of x0 with
    | Some j0 => is_return c (i0 + j0) && forallb (jump_within c (i0 + j0)) (seq (S i0) (j0 - 1))
    | None => true
    end
  | None => true
  end.
Definition scopedb (c : pops) (lo hi : nat) : bool :=
  Nat.leb hi (List.length c) && forallb (fun i => jump_within c hi i && frame_okb c i) (seq lo (hi - lo)).

Lemma scopedb_sound : forall c lo hi, scopedb c lo hi = true -> scoped c lo hi.
Proof.
  intros c lo hi H. unfold scopedb in H. apply andb_true_iff in H. destruct H as [Hlen Hall].
  apply Nat.leb_le in Hlen. pose proof (proj1 (forallb_forall _ _) Hall) as Hi.
  assert (Hrange : forall i, lo <= i < hi -> jump_within c hi i = true /\ frame_okb c i = true).
  { intros i Hr. apply andb_true_iff. apply Hi. apply in_seq. lia. }
  split; [exact Hlen|]. split.
  - intros i x p j Hr E Hj. destruct (Hrange i Hr) as [Hjw _]. unfold jump_within in Hjw. rewrite E, Hj in Hjw.
    apply Nat.leb_le in Hjw. exact Hjw.
  - intros i0 x0 p0 j0 Hr E Hf. destruct (Hrange i0 Hr) as [_ Hfo]. unfold frame_okb in Hfo. rewrite E, Hf in Hfo.
    apply andb_true_iff in Hfo. destruct Hfo as [Hret Hin]. split.
    + unfold is_return in Hret. destruct (nth_error c (i0 + j0)) as [[x' p']|]; [|discriminate].
      destruct x'; try discriminate. exists p'. reflexivity.
    + intros i x p j Hr' E' Hj'. assert (Hseq : In i (seq (S i0) (j0 - 1))) by (apply in_seq; lia).
      pose proof (proj1 (forallb_forall _ _) Hin i Hseq) as Hjw. unfold jump_within in Hjw. rewrite E', Hj' in Hjw.
      apply Nat.leb_le in Hjw. exact Hjw.
Qed.

(* ------------------------------------------------------------------------------------------------ *)
(* (C) for a translated program *)

(* what "local to statement s" says about an error *)
Definition stmt_err (s : pstmt) (e : ekind) (q : pos) (via : list pos) : Prop :=
  match via with
  | [] => In q (positions_of_stmt s)
          \/ e = KReservedArg \/ e = KFieldType      (* a position stored inside a value *)
          \/ e = KMapTuple \/ e = KMapStr            (* the position of a callback's result *)
  | _ :: _ => In (last via q) (positions_of_stmt s)  (* the outermost call site *)
  end.

Theorem pvm_locality_translated_prop : forall fo fuel envv strict_ (p1 p2 : pprog) (s : pstmt) e q via,
  let code := ptranslate (p1 ++ [s] ++ p2) in
  let lo := List.length (ptranslate p1) in
  let hi := lo + List.length (ptranslate_stmt s) in
  scoped code lo hi ->
  pvm_prog fo fuel envv strict_ code = PErr e q via ->
  (* the error surfaced before the run reached s *)
  pvm_run_until fo code strict_ envv pos0 lo fuel (pinit_state fo) = PErr e q via
  \/ exists st0 fuel0,
       (* the run reached the first op of s in state st0 *)
       pvm_run_until fo code strict_ envv pos0 lo fuel (pinit_state fo) = POk st0 /\ ppc st0 = lo /\
       pvm_run fo code strict_ envv pos0 fuel0 st0 = PErr e q via /\
       (pstk st0 = [] ->
          (* the error is local to s *)
          stmt_err s e q via
          \/ (* or s ran to its end and the error surfaced in a later statement *)
             exists st1 fuel1, pvm_run_until fo code strict_ envv pos0 hi fuel0 st0 = POk st1 /\ ppc st1 = hi
                               /\ pvm_run fo code strict_ envv pos0 fuel1 st1 = PErr e q via).
Proof.
  intros fo fuel envv strict_ p1 p2 s e q via code lo hi Hscoped Hrun.
  unfold pvm_prog in Hrun.
  destruct (pvm_run fo code strict_ envv pos0 fuel (pinit_state fo)) as [st|e' q' via'| | |] eqn:Er; simpl in Hrun; try discriminate.
  inversion Hrun; subst e' q' via'. clear Hrun.
  destruct (run_splits_at fo code strict_ envv pos0 lo fuel (pinit_state fo) e q via Er) as [Hb|[st0 [fuel0 [Hu [Hpc Hr]]]]];
    [left; exact Hb|right].
  exists st0, fuel0. split; [exact Hu|]. split; [exact Hpc|]. split; [exact Hr|]. intros Hempty.
  assert (Hops : forall i x p, lo <= i < hi -> nth_error code i = Some (x, p) -> In p (positions_of_stmt s)).
  { intros i x p [Hlo Hhi] E.
    assert (Hcode : code = ptranslate p1 ++ ptranslate_stmt s ++ ptranslate p2).
    { unfold code. rewrite !ptranslate_app. simpl. now rewrite app_nil_r. }
    rewrite Hcode, nth_error_app2 in E by exact Hlo. fold lo in E.
    assert (Hlt : i - lo < List.length (ptranslate_stmt s)) by (unfold hi in Hhi; lia).
    rewrite nth_error_app1 in E by exact Hlt. apply nth_error_In in E.
    exact (proj1 (Forall_forall _ _) (ptranslate_positions_from_statement s) (x, p) E). }
  assert (Hst0 : stok fo (Ncode code envv pos0) (Xs code (positions_of_stmt s)) st0).
  { pose proof (until_inv fo code strict_ envv pos0 lo fuel (pinit_state fo) (init_ok fo code envv pos0)) as Hinv.
    rewrite Hu in Hinv. simpl in Hinv. destruct Hinv as [_ [Hb Hf]]. split; [rewrite Hempty; constructor|split; assumption]. }
  assert (Hpc0 : lo <= ppc st0 <= hi) by (unfold hi; lia).
  destruct (pvm_locality fo code strict_ envv pos0 lo hi (positions_of_stmt s) Hops Hscoped fuel0 st0 e q via
                         Hpc0 Hst0 Hr) as [Hloc|[st1 [fuel1 [Hu1 [Hpc1 [_ Hr1]]]]]].
  - left. unfold stmt_err. destruct via as [|v via]; simpl in Hloc.
    + destruct Hloc as [[Hin _]|[[[Hk|Hk] _]|[[Hk|Hk] _]]]; [left; exact Hin|right; left; exact Hk|right; right; left; exact Hk
                                                             |right; right; right; left; exact Hk|right; right; right; right; exact Hk].
    + destruct Hloc as [_ [_ [Hin _]]]. exact Hin.
  - right. exists st1, fuel1. split; [exact Hu1|]. split; [exact Hpc1|exact Hr1].
Qed.

(* the same with the side conditions as executable checks *)
Theorem pvm_locality_translated : forall fo fuel envv strict_ (p1 p2 : pprog) (s : pstmt) e q via,
  let code := ptranslate (p1 ++ [s] ++ p2) in
  let lo := List.length (ptranslate p1) in
  let hi := lo + List.length (ptranslate_stmt s) in
  scopedb code lo hi = true ->
  pvm_prog fo fuel envv strict_ code = PErr e q via ->
  (* the error surfaced before the run reached s *)
  pvm_run_until fo code strict_ envv pos0 lo fuel (pinit_state fo) = PErr e q via
  \/ exists st0 fuel0,
       (* the run reached the first op of s in state st0 *)
       pvm_run_until fo code strict_ envv pos0 lo fuel (pinit_state fo) = POk st0 /\ ppc st0 = lo /\
       pvm_run fo code strict_ envv pos0 fuel0 st0 = PErr e q via /\
       (pstk st0 = [] ->
          (* the error is local to s *)
          stmt_err s e q via
          \/ (* or s ran to its end and the error surfaced in a later statement *)
             exists st1 fuel1, pvm_run_until fo code strict_ envv pos0 hi fuel0 st0 = POk st1 /\ ppc st1 = hi
                               /\ pvm_run fo code strict_ envv pos0 fuel1 st1 = PErr e q via).
Proof.
  intros fo fuel envv strict_ p1 p2 s e q via code lo hi Hsc.
  exact (pvm_locality_translated_prop fo fuel envv strict_ p1 p2 s e q via (scopedb_sound code lo hi Hsc)).
Qed.


(* the second half of (C): a function DEFINED by statement d (its Func op lies in the code of d).  Whatever calls it, the error
   its frame hands to the caller is local to d: primary position in d and no VIA entry, or the outermost VIA entry in d (the
   function called something else); the caller (op_fcall / map / filter / reduce) then appends ITS call site, which by
   pvm_locality_translated is what the diagnostic lists last.  [eok]/[bok] are the state invariant of pvm_run_inv. *)
Theorem function_body_local_translated_prop : forall fo envv strict_ (p1 p2 : pprog) (d : pstmt) f ptr j pf bs snap s e q via,
  let code := ptranslate (p1 ++ [d] ++ p2) in
  let lo := List.length (ptranslate p1) in
  let hi := lo + List.length (ptranslate_stmt d) in
  scoped code lo hi ->
  lo <= ptr < hi -> nth_error code ptr = Some (IFunc j, pf) ->
  Forall (eok fo (Ncode code envv pos0) (Ncode code envv pos0)) s -> Forall (bok fo (Ncode code envv pos0)) snap ->
  p_fcall_impl fo (pvm_run fo code strict_ envv pos0 f) ptr bs snap s = PErr e q via ->
  stmt_err d e q via.
Proof.
  intros fo envv strict_ p1 p2 d f ptr j pf bs snap s e q via code lo hi Hscoped Hptr E Hs Hsnap Hrun.
  assert (Hops : forall i x p, lo <= i < hi -> nth_error code i = Some (x, p) -> In p (positions_of_stmt d)).
  { intros i x p [Hlo Hhi] Ei.
    assert (Hcode : code = ptranslate p1 ++ ptranslate_stmt d ++ ptranslate p2).
    { unfold code. rewrite !ptranslate_app. simpl. now rewrite app_nil_r. }
    rewrite Hcode, nth_error_app2 in Ei by exact Hlo. fold lo in Ei.
    assert (Hlt : i - lo < List.length (ptranslate_stmt d)) by (unfold hi in Hhi; lia).
    rewrite nth_error_app1 in Ei by exact Hlt. apply nth_error_In in Ei.
    exact (proj1 (Forall_forall _ _) (ptranslate_positions_from_statement d) (x, p) Ei). }
  pose proof (function_body_local fo code strict_ envv pos0 lo hi (positions_of_stmt d) Hops Hscoped
                                  f ptr j pf bs snap s Hptr E Hs Hsnap) as Hloc.
  rewrite Hrun in Hloc. simpl in Hloc. unfold stmt_err. destruct via as [|v via]; simpl in Hloc.
  - destruct Hloc as [[Hin _]|[[[Hk|Hk] _]|[[Hk|Hk] _]]]; [left; exact Hin|right; left; exact Hk|right; right; left; exact Hk
                                                           |right; right; right; left; exact Hk|right; right; right; right; exact Hk].
  - destruct Hloc as [_ [_ [Hin _]]]. exact Hin.
Qed.

Theorem function_body_local_translated : forall fo envv strict_ (p1 p2 : pprog) (d : pstmt) f ptr j pf bs snap s e q via,
  let code := ptranslate (p1 ++ [d] ++ p2) in
  let lo := List.length (ptranslate p1) in
  let hi := lo + List.length (ptranslate_stmt d) in
  scopedb code lo hi = true ->
  lo <= ptr < hi -> nth_error code ptr = Some (IFunc j, pf) ->
  Forall (eok fo (Ncode code envv pos0) (Ncode code envv pos0)) s -> Forall (bok fo (Ncode code envv pos0)) snap ->
  p_fcall_impl fo (pvm_run fo code strict_ envv pos0 f) ptr bs snap s = PErr e q via ->
  stmt_err d e q via.
Proof.
  intros fo envv strict_ p1 p2 d f ptr j pf bs snap s e q via code lo hi Hsc.
  exact (function_body_local_translated_prop fo envv strict_ p1 p2 d f ptr j pf bs snap s e q via
                                             (scopedb_sound code lo hi Hsc)).
Qed.

(* ------------------------------------------------------------------------------------------------ *)
(* Open (stated, not proved; both are checked by the driver on every compared program: `MSIDE scoped=1 clean=1`):

   Lemma ptranslate_scoped_partial : forall (p1 p2 : pprog) (s : pstmt),
     let code := ptranslate (p1 ++ [s] ++ p2) in
     let lo := List.length (ptranslate p1) in
     scopedb code lo (lo + List.length (ptranslate_stmt s)) = true.
   (a structural induction over ptr: every jump operand is the length of a piece of code emitted right after the op,
    and every Func / Module / NewScope body ends with the Return the translator appends)

   Lemma statement_boundaries_clean_partial : forall fo fuel envv strict_ (p1 p2 : pprog) st0,
     pvm_run_until fo (ptranslate (p1 ++ p2)) strict_ envv pos0 (List.length (ptranslate p1)) fuel (pinit_state fo) = POk st0 ->
     ppc st0 = List.length (ptranslate p1) -> pstk st0 = [].
   (every statement leaves the value stack as it found it: a compile-correctness fact about translate, cf. vm/Compile_Correct.v)

   Locality of a MODULE body / out-expression as a callee frame: closed_frame_local applies with Rs := (position of the calling Cp op) ::
   positions_of_stmt d, because op_copy starts the module VM with two entries pushed at the caller's Cp position. *)

(* ------------------------------------------------------------------------------------------------ *)
(* what is false without the side conditions / exceptions: witnesses (the real translator's ops of the quoted programs;
   the implementation reports exactly these positions) *)
Local Open Scope string_scope.
(* let m = module{} => (v) {    let v = "s";  };  let ok = 1;  let r = 1 + m{}; *)
Definition wit_modres_code : pops :=
  [ (ISym (b "m"), (1, 5)%N);
    (IInitTuple, (1, 9)%N);
    (IInitThunk 2, (1, 22)%N);
    (IDeRef (b "v"), (1, 22)%N);
    (IReturn, (1, 22)%N);
    (IModule 5, (1, 9)%N);
    (IBind, (1, 9)%N);
    (ISym (b "v"), (2, 7)%N);
    (IVal (LStr (b "s")), (2, 11)%N);
    (IBind, (2, 7)%N);
    (IReturn, (1, 9)%N);
    (IBind, (1, 5)%N);
    (ISym (b "ok"), (4, 5)%N);
    (IVal (LInt (1)), (4, 10)%N);
    (IBind, (4, 5)%N);
    (ISym (b "r"), (5, 5)%N);
    (IDeRef (b "m"), (5, 13)%N);
    (IPushSelf, (5, 13)%N);
    (IInitTuple, (5, 13)%N);
    (ICp, (5, 13)%N);
    (IPopSelf, (5, 13)%N);
    (IVal (LInt (1)), (5, 9)%N);
    (IAdd, (5, 9)%N);
    (IBind, (5, 5)%N) ].
(* let m = module{a = 1} => (v + "x") {    let v = mod.a;  };  let ok = 1;  let r = m{}; *)
Definition wit_modout_code : pops :=
  [ (ISym (b "m"), (1, 5)%N);
    (IInitTuple, (1, 9)%N);
    (ISym (b "a"), (1, 16)%N);
    (IVal (LInt (1)), (1, 20)%N);
    (IField, (1, 16)%N);
    (IInitThunk 4, (1, 27)%N);
    (IVal (LStr (b "x")), (1, 31)%N);
    (IDeRef (b "v"), (1, 27)%N);
    (IAdd, (1, 27)%N);
    (IReturn, (1, 27)%N);
    (IModule 7, (1, 9)%N);
    (IBind, (1, 9)%N);
    (ISym (b "v"), (2, 7)%N);
    (IDeRef (b "mod"), (2, 11)%N);
    (IVal (LStr (b "a")), (2, 15)%N);
    (IIndex, (2, 11)%N);
    (IBind, (2, 7)%N);
    (IReturn, (1, 9)%N);
    (IBind, (1, 5)%N);
    (ISym (b "ok"), (4, 5)%N);
    (IVal (LInt (1)), (4, 10)%N);
    (IBind, (4, 5)%N);
    (ISym (b "r"), (5, 5)%N);
    (IDeRef (b "m"), (5, 9)%N);
    (IPushSelf, (5, 9)%N);
    (IInitTuple, (5, 9)%N);
    (ICp, (5, 9)%N);
    (IPopSelf, (5, 9)%N);
    (IBind, (5, 5)%N) ].
(* let f = func (c) => 1;  let ok = 2;  let x = map(f, "ab"); *)
Definition wit_mapstr_code : pops :=
  [ (ISym (b "f"), (1, 5)%N);
    (IInitList, (1, 9)%N);
    (ISym (b "c"), (1, 15)%N);
    (IElement, (1, 15)%N);
    (IFunc 2, (1, 9)%N);
    (IVal (LInt (1)), (1, 21)%N);
    (IReturn, (1, 9)%N);
    (IBind, (1, 5)%N);
    (ISym (b "ok"), (2, 5)%N);
    (IVal (LInt (2)), (2, 10)%N);
    (IBind, (2, 5)%N);
    (ISym (b "x"), (3, 5)%N);
    (IDeRef (b "f"), (3, 13)%N);
    (IVal (LStr (b "ab")), (3, 16)%N);
    (IRuntime HMap, (3, 9)%N);
    (IBind, (3, 5)%N) ].

Local Close Scope string_scope.

(* the frame of the statement with ops [lo, hi) starts with an empty stack, and before it leaves the range it reports an
   error without VIA entry whose primary position is not the position of any op of the range *)
Definition escapes_statement (fo : float_ops) (code : pops) (lo hi : nat) (e : ekind) (q : pos) : Prop :=
  exists st0,
    pvm_run_until fo code true [] pos0 lo 100 (pinit_state fo) = POk st0 /\ ppc st0 = lo /\ pstk st0 = []
    /\ pvm_run_until fo code true [] pos0 hi 100 st0 = PErr e q []
    /\ pvm_prog fo 100 [] true code = PErr e q []
    /\ ~ In q (map snd (firstn (hi - lo) (skipn lo code))).

Ltac escapes_by_computation :=
  intros fo; eexists; split; [vm_compute; reflexivity|]; split; [reflexivity|]; split; [reflexivity|];
  split; [vm_compute; reflexivity|]; split; [vm_compute; reflexivity|];
  vm_compute; intros Hin; repeat (destruct Hin as [Hin|Hin]; [discriminate Hin|]); exact Hin.

(* the positive counterpart: before leaving the range the frame reports an error whose primary position (no VIA entry) or
   outermost VIA entry is the position of an op of the range *)
Definition local_to_statement (fo : float_ops) (code : pops) (lo hi : nat) (e : ekind) (q : pos) (via : list pos) : Prop :=
  exists st0,
    pvm_run_until fo code true [] pos0 lo 100 (pinit_state fo) = POk st0 /\ ppc st0 = lo /\ pstk st0 = []
    /\ pvm_run_until fo code true [] pos0 hi 100 st0 = PErr e q via
    /\ pvm_prog fo 100 [] true code = PErr e q via
    /\ In (last via q) (map snd (firstn (hi - lo) (skipn lo code))).

Ltac local_by_computation :=
  intros fo; eexists; split; [vm_compute; reflexivity|]; split; [reflexivity|]; split; [reflexivity|];
  split; [vm_compute; reflexivity|]; split; [vm_compute; reflexivity|]; vm_compute; tauto.

(* former finding F1 (fixed in /repo 5138c88): the RESULT of a module with an out-expression used to keep the position of the
   out-expression (`1 + m{}` with a string result was reported at 1:22, inside the module definition, without VIA).
   Now the result stands at the position of the instantiation: 5:13, in statement 3 *)
Lemma locality_module_result_example : forall fo, local_to_statement fo wit_modres_code 15 24 KArith (5, 13)%N [].
Proof. local_by_computation. Qed.

(* former finding F2 (fixed in /repo 5138c88): an error raised INSIDE the out-expression of a module used to carry no VIA
   entry.  Now the instantiation `m{}` (5:9, statement 3) is listed; the primary position stays in the out-expression *)
Lemma locality_module_out_expression_example : forall fo,
  local_to_statement fo wit_modout_code 22 29 KArith (1, 31)%N [(5, 9)%N].
Proof. local_by_computation. Qed.

(* finding: "Map functions over string should return strings" (and the two errors about the result of a callback over a
   tuple) carry the position of the callback's RESULT, which lies in the function definition, without VIA; hence the
   exception for KMapTuple / KMapStr in stmt_err *)
Lemma locality_map_result_refuted : forall fo, escapes_statement fo wit_mapstr_code 11 16 KMapStr (1, 21)%N.
Proof. escapes_by_computation. Qed.
