(* The side condition [scoped] of the locality theorems holds for every translated program:
     ptranslate_scoped        the code of a statement of ptranslate (p1 ++ [s] ++ p2) is scoped in the whole code
   hence the final forms of (C) for source programs, without any condition on the program:
     pvm_locality_program, function_body_local_program. *)
From Ucg Require Import pos.PAst_Ind pos.PTranslate_Lemmas pos.PVm pos.PVm_Lemmas pos.PVm_Inv pos.PVm_Locality.

(* [scoped] for a piece of code on its own (indices relative to the piece) *)
Definition wfc (c : pops) : Prop :=
  (forall i x p j, nth_error c i = Some (x, p) -> jump_of x = Some j -> S (i + j) <= List.length c)
  /\ (forall i0 x0 p0 j0, nth_error c i0 = Some (x0, p0) -> frame_of x0 = Some j0 ->
        (exists p', nth_error c (i0 + j0) = Some (IReturn, p'))
        /\ forall i x p j, i0 < i < i0 + j0 -> nth_error c i = Some (x, p) -> jump_of x = Some j -> S (i + j) <= i0 + j0).

Lemma wfc_nil : wfc [].
Proof. split; intros i; destruct i; discriminate. Qed.

Lemma nth_error_lt : forall (A : Type) (l : list A) i x, nth_error l i = Some x -> i < List.length l.
Proof. intros A l i x H. apply nth_error_Some. rewrite H. discriminate. Qed.

Lemma wfc_app : forall a c, wfc a -> wfc c -> wfc (a ++ c).
Proof.
  intros a c [Ha1 Ha2] [Hc1 Hc2]. split.
  - intros i x p j E Hj. rewrite app_length. destruct (Nat.lt_ge_cases i (List.length a)) as [Hlt|Hge].
    + rewrite nth_error_app1 in E by exact Hlt. pose proof (Ha1 i x p j E Hj). lia.
    + rewrite nth_error_app2 in E by exact Hge. pose proof (Hc1 _ x p j E Hj). lia.
  - intros i0 x0 p0 j0 E Hf. destruct (Nat.lt_ge_cases i0 (List.length a)) as [Hlt|Hge].
    + rewrite nth_error_app1 in E by exact Hlt. destruct (Ha2 i0 x0 p0 j0 E Hf) as [[p' Hret] Hin].
      pose proof (nth_error_lt _ _ _ _ Hret) as Hr. split.
      * exists p'. rewrite nth_error_app1 by exact Hr. exact Hret.
      * intros i x p j Hi E' Hj. rewrite nth_error_app1 in E' by lia. exact (Hin i x p j Hi E' Hj).
    + rewrite nth_error_app2 in E by exact Hge. destruct (Hc2 _ x0 p0 j0 E Hf) as [[p' Hret] Hin]. split.
      * exists p'. rewrite nth_error_app2 by lia. replace (i0 + j0 - List.length a) with (i0 - List.length a + j0) by lia.
        exact Hret.
      * intros i x p j Hi E' Hj. rewrite nth_error_app2 in E' by lia.
        pose proof (Hin (i - List.length a) x p j ltac:(lia) E' Hj). lia.
Qed.

Lemma frame_is_jump : forall x j, frame_of x = Some j -> jump_of x = Some j.
Proof. intros x j H. destruct x; simpl in H; try discriminate; exact H. Qed.

Lemma wfc_one : forall x p, jump_of x = None -> wfc [(x, p)].
Proof.
  intros x p Hn. split.
  - intros i y q j E Hj. destruct i as [|i]; [|destruct i; discriminate]. inversion E; subst. rewrite Hn in Hj. discriminate.
  - intros i y q j E Hf. destruct i as [|i]; [|destruct i; discriminate]. inversion E; subst.
    rewrite (frame_is_jump _ _ Hf) in Hn. discriminate.
Qed.

Lemma wfc_cons_plain : forall x p c, jump_of x = None -> wfc c -> wfc ((x, p) :: c).
Proof. intros x p c Hn Hc. exact (wfc_app [(x, p)] c (wfc_one x p Hn) Hc). Qed.

(* a jump over at most the code that follows *)
Lemma wfc_cons_jump : forall x p j c, jump_of x = Some j -> frame_of x = None -> j <= List.length c -> wfc c -> wfc ((x, p) :: c).
Proof.
  intros x p j c Hj Hf Hle [Hc1 Hc2]. split.
  - intros i y q k E Hk. destruct i as [|i]; simpl in *.
    + inversion E; subst. rewrite Hj in Hk. inversion Hk; subst. lia.
    + pose proof (Hc1 i y q k E Hk). lia.
  - intros i0 y q k E Hk. destruct i0 as [|i0]; simpl in E.
    + inversion E; subst. rewrite Hf in Hk. discriminate.
    + destruct (Hc2 i0 y q k E Hk) as [[p' Hret] Hin]. split; [exists p'; exact Hret|].
      intros i z r m Hi E' Hm. destruct i as [|i]; [lia|]. simpl in E'. pose proof (Hin i z r m ltac:(lia) E' Hm). lia.
Qed.

(* a frame op, its body, the Return that ends the body *)
Lemma wfc_frame : forall x p p' inner,
  frame_of x = Some (S (List.length inner)) -> wfc inner -> wfc ((x, p) :: inner ++ [(IReturn, p')]).
Proof.
  intros x p p' inner Hf Hin. pose proof (frame_is_jump _ _ Hf) as Hj.
  assert (Hbody : wfc (inner ++ [(IReturn, p')])) by (apply wfc_app; [exact Hin|apply wfc_one; reflexivity]).
  destruct Hbody as [Hb1 Hb2]. destruct Hin as [Hi1 _]. split.
  - intros i y q k E Hk. simpl. rewrite app_length. simpl. destruct i as [|i]; simpl in E.
    + inversion E; subst. rewrite Hj in Hk. inversion Hk; subst. lia.
    + pose proof (Hb1 i y q k E Hk) as Hle. rewrite app_length in Hle. simpl in Hle. lia.
  - intros i0 y q k E Hk. destruct i0 as [|i0]; simpl in E.
    + inversion E; subst. rewrite Hf in Hk. inversion Hk; subst. split.
      * exists p'. simpl. rewrite nth_error_app2 by apply le_n. rewrite Nat.sub_diag. reflexivity.
      * intros i z r m Hi E' Hm. destruct i as [|i]; [lia|]. simpl in E'.
        rewrite nth_error_app1 in E' by lia. pose proof (Hi1 i z r m E' Hm). lia.
    + destruct (Hb2 i0 y q k E Hk) as [[p'' Hret] Hin']. split; [exists p''; exact Hret|].
      intros i z r m Hi E' Hm. destruct i as [|i]; [lia|]. simpl in E'. pose proof (Hin' i z r m ltac:(lia) E' Hm). lia.
Qed.

Lemma wfc_flat_map : forall (A : Type) (f : A -> pops) (l : list A), Forall (fun a => wfc (f a)) l -> wfc (flat_map f l).
Proof.
  intros A f l H. induction H as [|a l Ha Hl IH]; simpl; [exact wfc_nil|]. apply wfc_app; assumption.
Qed.

(* ---- the combinators of PTranslate.v ---- *)
Ltac stepW :=
  match goal with
  | |- wfc (_ ++ _) => apply wfc_app
  | |- wfc [] => exact wfc_nil
  | |- wfc ((_, _) :: _) => apply wfc_cons_plain; [reflexivity|]
  | H : wfc ?c |- wfc ?c => exact H
  end.
Ltac solveW := simpl; repeat stepW.

Lemma wfc_pfields : forall fs, Pfields (fun e => wfc (ptr e)) fs -> wfc (pfields ptr fs).
Proof.
  intros fs H. unfold pfields. apply wfc_flat_map. unfold Pfields in H. eapply Forall_impl; [|exact H].
  intros [[kp k] e] He. simpl in He. solveW.
Qed.

Lemma wfc_pelems : forall es, Forall (fun e => wfc (ptr e)) es -> wfc (pelems ptr es).
Proof.
  intros es H. unfold pelems. apply wfc_flat_map. eapply Forall_impl; [|exact H]. intros e He. simpl in He. solveW.
Qed.

Lemma wfc_pargs : forall es, Forall (fun e => wfc (ptr e)) es -> wfc (pargs ptr es).
Proof. intros es H. unfold pargs. apply wfc_flat_map. exact H. Qed.

Lemma wfc_psel_arms : forall p arms d,
  Forall (fun a : pos * bytes * pops * pos => wfc (snd (fst a))) arms -> wfc d -> wfc (psel_arms p arms d).
Proof.
  intros p arms d H Hd. induction H as [|[[[kp k] c] ep] arms Hc Harms IH]; simpl; [solveW|].
  simpl in Hc. apply wfc_cons_plain; [reflexivity|].
  eapply wfc_cons_jump; [reflexivity|reflexivity| |].
  - rewrite app_length. simpl. lia.
  - apply wfc_app; [exact Hc|]. eapply wfc_cons_jump; [reflexivity|reflexivity|apply le_n|exact IH].
Qed.

Lemma wfc_parms : forall arms, Pfields (fun e => wfc (ptr e)) arms ->
  Forall (fun a : pos * bytes * pops * pos => wfc (snd (fst a))) (parms ptr arms).
Proof.
  intros arms H. unfold parms. apply Forall_map_intro. unfold Pfields in H. eapply Forall_impl; [|exact H].
  intros [[kp k] e] He. exact He.
Qed.

Lemma wfc_pjoin_parts : forall pe pa codes, Forall wfc codes -> wfc (pjoin_parts pe pa codes).
Proof.
  intros pe pa codes H. unfold pjoin_parts. destruct H as [|c cs Hc Hcs]; [solveW|].
  apply wfc_app; [exact Hc|]. apply wfc_flat_map. eapply Forall_impl; [|exact Hcs]. intros c' Hc'. solveW.
Qed.

Lemma wfc_plist_parts : forall p parts args, Forall wfc args -> Forall wfc (plist_parts p parts args).
Proof.
  intros p parts. induction parts as [|t parts IH]; intros args Ha; simpl; [constructor|].
  destruct t.
  - constructor; [solveW|apply IH; exact Ha].
  - destruct Ha as [|a args' Ha0 Hargs]; constructor; try solveW; apply IH; [constructor|exact Hargs].
  - constructor; [solveW|apply IH; exact Ha].
Qed.

Lemma wfc_ppart_codes : forall p parts,
  Forall (fun t => match t with PPExpr pe => wfc (ptr pe) | _ => True end) parts -> Forall wfc (ppart_codes ptr p parts).
Proof.
  intros p parts H. unfold ppart_codes. apply Forall_map_intro. eapply Forall_impl; [|exact H].
  intros t Ht. destruct t; solveW.
Qed.

Definition PW (e : pexpr) : Prop := wfc (ptr e).
Definition RW (t : ptpart) : Prop := match t with PPExpr pe => wfc (ptr pe) | _ => True end.
Definition QW (s : pstmt) : Prop := wfc (ptr_stmt s).

Lemma wfc_pcopy_code : forall p flds, wfc flds -> wfc (pcopy_code p flds).
Proof. intros p flds H. unfold pcopy_code. solveW. Qed.

Lemma ptr_wfc_all : (forall e, PW e) /\ (forall t, RW t) /\ (forall s, QW s).
Proof.
  apply pexpr_mutind; unfold PW, QW.
  - intros p. solveW.
  - intros p v. solveW.
  - intros p z. solveW.
  - intros p bits. solveW.
  - intros p s. solveW.
  - intros p x. solveW.
  - intros p fs IHfs. solveW. exact (wfc_pfields fs IHfs).
  - intros p es IHes. solveW. exact (wfc_pelems es IHes).
  - intros p o l r IHl IHr IHdeep.
    destruct o; try solve [solveW].
    + (* AND *) simpl. apply wfc_app; [exact IHl|]. eapply wfc_cons_jump; [reflexivity|reflexivity|apply le_n|exact IHr].
    + (* OR *) simpl. apply wfc_app; [exact IHl|]. eapply wfc_cons_jump; [reflexivity|reflexivity|apply le_n|exact IHr].
    + (* IN *)
      assert (Hgen : wfc (ptr r ++ ptr l ++ [(IExist, p)])) by solveW.
      destruct l; try exact Hgen. clear Hgen. simpl.
      apply wfc_app; [exact IHr|]. apply wfc_cons_plain; [reflexivity|]. apply wfc_app; [|solveW].
      apply wfc_app; [exact IHr|].
      do 3 (apply wfc_cons_plain; [reflexivity|]).
      eapply wfc_cons_jump; [reflexivity|reflexivity|simpl; lia|].
      apply wfc_cons_plain; [reflexivity|].
      eapply wfc_cons_jump; [reflexivity|reflexivity|simpl; lia|]. solveW.
    + (* DOT *)
      assert (Hgen : wfc (ptr l ++ ptr r ++ [(IIndex, p)])) by solveW.
      destruct r; try exact Hgen; clear Hgen.
      * solveW.
      * destruct IHdeep as [IHsel IHfs]. clear IHr.
        destruct r; try solve [solveW]; unfold ptr; fold ptr; solveW; apply wfc_pcopy_code; exact (wfc_pfields fs IHfs).
      * destruct IHdeep as [IHfn IHargs]. clear IHr.
        destruct r; try solve [solveW]; solveW; exact (wfc_pargs args IHargs).
  - intros p e IHe. solveW.
  - intros p e IHe. solveW.
  - intros p t fs IHt IHfs. unfold ptr; fold ptr. apply wfc_app; [exact IHt|]. apply wfc_pcopy_code. exact (wfc_pfields fs IHfs).
  - intros p st stp en IHst IHstp IHen. destruct stp as [s|]; simpl in IHstp; solveW.
  - (* format, list form *)
    intros p parts args IHparts IHargs. simpl.
    destruct (negb (Nat.eqb (pcount_holes parts) (List.length args))); [solveW|].
    destruct parts as [|t parts']; [solveW|].
    apply wfc_pjoin_parts. apply wfc_plist_parts. apply Forall_rev. apply Forall_map_intro. exact IHargs.
  - (* format, single form *)
    intros p tpl parts arg IHparts IHarg. unfold ptr; fold ptr. cbv zeta.
    set (inner := (ISym (b "item"), pos_of arg) :: ptr arg ++ (IBindOver, pos_of arg)
                    :: pjoin_parts p (pos_of arg) (rev (ppart_codes ptr p parts))).
    assert (Hbody : (ISym (b "item"), pos_of arg) :: ptr arg ++ (IBindOver, pos_of arg)
                      :: pjoin_parts p (pos_of arg) (rev (ppart_codes ptr p parts)) ++ [(IReturn, pos_of arg)]
                    = inner ++ [(IReturn, pos_of arg)]).
    { unfold inner. simpl. rewrite <- app_assoc. reflexivity. }
    rewrite Hbody. apply wfc_frame.
    + rewrite app_length. simpl. rewrite Nat.add_1_r. reflexivity.
    + unfold inner. apply wfc_cons_plain; [reflexivity|]. apply wfc_app; [exact IHarg|].
      apply wfc_cons_plain; [reflexivity|]. apply wfc_pjoin_parts. apply Forall_rev. exact (wfc_ppart_codes p parts IHparts).
  - intros p fn args IHfn IHargs. solveW. exact (wfc_pargs args IHargs).
  - intros p ct e IHe. solveW.
  - (* func *)
    intros p ps body IHbody. unfold ptr; fold ptr. cbv zeta. apply wfc_cons_plain; [reflexivity|].
    apply wfc_app.
    + apply wfc_flat_map. apply Forall_forall. intros q _. solveW.
    + apply wfc_frame; [reflexivity|exact IHbody].
  - (* select *)
    intros p ve dflt arms IHve IHdflt IHarms. unfold ptr; fold ptr. cbv zeta. apply wfc_app; [exact IHve|].
    apply wfc_psel_arms; [exact (wfc_parms arms IHarms)|].
    destruct dflt as [de|]; simpl in IHdflt; solveW.
  - intros p fe te IHf IHt. solveW.
  - intros p fe te IHf IHt. solveW.
  - intros p fe ae te IHf IHa IHt. solveW.
  - (* module *)
    intros p ps out body IHps IHout IHbody. unfold ptr; fold ptr; fold ptr_stmt. cbv zeta.
    apply wfc_cons_plain; [reflexivity|]. apply wfc_app; [exact (wfc_pfields ps IHps)|]. apply wfc_app.
    + destruct out as [oe|]; [|exact wfc_nil]. simpl in IHout.
      eapply wfc_cons_jump; [reflexivity|reflexivity|rewrite app_length; simpl; lia|]. solveW.
    + set (inner := (IBind, p) :: flat_map ptr_stmt body).
      assert (Hbody : (IBind, p) :: flat_map ptr_stmt body ++ [(IReturn, p)] = inner ++ [(IReturn, p)]) by reflexivity.
      rewrite Hbody. apply wfc_frame.
      * rewrite app_length. simpl. rewrite Nat.add_1_r. reflexivity.
      * unfold inner. apply wfc_cons_plain; [reflexivity|]. apply wfc_flat_map. exact IHbody.
  - intros p e IHe. solveW.
  - intros p e IHe. solveW.
  - intros p pp path. solveW.
  - intros p tp typ pp path. solveW.
  - intros p tp typ e IHe. solveW.
  - intros s. exact I.
  - exact I.
  - intros e IHe. exact IHe.
  - intros p np x e IHe. solveW.
  - intros e IHe. solveW.
  - intros p e IHe. solveW.
  - intros p tp typ e IHe. solveW.
Qed.

Theorem ptranslate_stmt_wfc : forall s, wfc (ptranslate_stmt s).
Proof. exact (proj2 (proj2 ptr_wfc_all)). Qed.

(* a well scoped piece of code is scoped inside any code around it *)
Lemma wfc_scoped : forall A S B, wfc S -> scoped (A ++ S ++ B) (List.length A) (List.length A + List.length S).
Proof.
  intros A S B [H1 H2].
  assert (Hnth : forall i, List.length A <= i < List.length A + List.length S ->
                           nth_error (A ++ S ++ B) i = nth_error S (i - List.length A)).
  { intros i Hi. rewrite nth_error_app2 by lia. rewrite nth_error_app1 by lia. reflexivity. }
  split; [rewrite !app_length; lia|]. split.
  - intros i x p j Hi E Hj. rewrite Hnth in E by exact Hi. pose proof (H1 _ x p j E Hj). lia.
  - intros i0 x0 p0 j0 Hi E Hf. rewrite Hnth in E by exact Hi. destruct (H2 _ x0 p0 j0 E Hf) as [[p' Hret] Hin].
    pose proof (nth_error_lt _ _ _ _ Hret) as Hlt. split.
    + exists p'. rewrite Hnth by lia. replace (i0 + j0 - List.length A) with (i0 - List.length A + j0) by lia. exact Hret.
    + intros i x p j Hi' E' Hj. rewrite Hnth in E' by lia.
      pose proof (Hin (i - List.length A) x p j ltac:(lia) E' Hj). lia.
Qed.

Theorem ptranslate_scoped : forall (p1 p2 : pprog) (s : pstmt),
  let code := ptranslate (p1 ++ [s] ++ p2) in
  let lo := List.length (ptranslate p1) in
  scoped code lo (lo + List.length (ptranslate_stmt s)).
Proof.
  intros p1 p2 s code lo.
  assert (Hcode : code = ptranslate p1 ++ ptranslate_stmt s ++ ptranslate p2).
  { unfold code. rewrite !ptranslate_app. simpl. now rewrite app_nil_r. }
  rewrite Hcode. apply wfc_scoped. apply ptranslate_stmt_wfc.
Qed.

(* ------------------------------------------------------------------------------------------------ *)
(* (C), final form for source programs: no side condition on the program (since /repo 5138c88 modules with an out-expression
   are covered: PVm_Locality.locality_module_*_example). *)
Theorem pvm_locality_program : forall fo fuel envv strict_ (p1 p2 : pprog) (s : pstmt) e q via,
  let code := ptranslate (p1 ++ [s] ++ p2) in
  let lo := List.length (ptranslate p1) in
  let hi := lo + List.length (ptranslate_stmt s) in
  pvm_prog fo fuel envv strict_ code = PErr e q via ->
  (* the error surfaced before the run reached s *)
  pvm_run_until fo code strict_ envv pos0 lo fuel (pinit_state fo) = PErr e q via
  \/ exists st0 fuel0,
       (* the run reached the first op of s in state st0 *)
       pvm_run_until fo code strict_ envv pos0 lo fuel (pinit_state fo) = POk st0 /\ ppc st0 = lo /\
       pvm_run fo code strict_ envv pos0 fuel0 st0 = PErr e q via /\
       (pstk st0 = [] ->
          (* the error is local to s: primary position a node of s and no VIA entry, or the outermost VIA entry a node of s *)
          stmt_err s e q via
          \/ (* or s ran to its end and the error surfaced in a later statement *)
             exists st1 fuel1, pvm_run_until fo code strict_ envv pos0 hi fuel0 st0 = POk st1 /\ ppc st1 = hi
                               /\ pvm_run fo code strict_ envv pos0 fuel1 st1 = PErr e q via).
Proof.
  intros fo fuel envv strict_ p1 p2 s e q via code lo hi.
  exact (pvm_locality_translated_prop fo fuel envv strict_ p1 p2 s e q via (ptranslate_scoped p1 p2 s)).
Qed.

(* a function defined by statement d: the error the frame of any call of it hands to its caller is local to d *)
Theorem function_body_local_program : forall fo envv strict_ (p1 p2 : pprog) (d : pstmt) f ptr j pf bs snap s e q via,
  let code := ptranslate (p1 ++ [d] ++ p2) in
  let lo := List.length (ptranslate p1) in
  let hi := lo + List.length (ptranslate_stmt d) in
  lo <= ptr < hi -> nth_error code ptr = Some (IFunc j, pf) ->
  Forall (eok fo (Ncode code envv pos0) (Ncode code envv pos0)) s -> Forall (bok fo (Ncode code envv pos0)) snap ->
  p_fcall_impl fo (pvm_run fo code strict_ envv pos0 f) ptr bs snap s = PErr e q via ->
  stmt_err d e q via.
Proof.
  intros fo envv strict_ p1 p2 d f ptr j pf bs snap s e q via code lo hi.
  exact (function_body_local_translated_prop fo envv strict_ p1 p2 d f ptr j pf bs snap s e q via
                                             (ptranslate_scoped p1 p2 d)).
Qed.
