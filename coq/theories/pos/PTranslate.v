(* M-PTRANSLATE: src/build/opcode/translate.rs with the Position argument of every `ops.push(op, pos)`.
   Same structure as vm/Translate.v (which drops the positions); every clause names the push sites it
   mirrors.  [ITranslatorPanic] stands for unreachable!()/unwrap() as in vm/Translate.v; the position it is
   given is the one of the node being translated (the real translator emits nothing: it panics). *)
From Ucg Require Export vm.Translate pos.PAst.

Definition pop := (instr * pos)%type.
Definition pops := list pop.

Section Combinators.
  Variable tr : pexpr -> pops.

  (* Value::Tuple / translate_copy / module arguments:
       ops.push(Op::Sym(t.fragment), t.pos); translate_expr(e); ops.push(Op::Field, t.pos) *)
  Definition pfields (fs : list (pos * bytes * pexpr)) : pops :=
    flat_map (fun fl => let '(kp, k, e) := fl in (ISym k, kp) :: tr e ++ [(IField, kp)]) fs.

  (* Value::List: translate_expr(el); ops.push(Op::Element, el_pos) *)
  Definition pelems (es : list pexpr) : pops :=
    flat_map (fun e => tr e ++ [(IElement, pos_of e)]) es.

  (* call arguments *)
  Definition pargs (es : list pexpr) : pops := flat_map tr es.

  (* the select arms with their codes and the position of the Jump placeholder (val.pos()) *)
  Definition parms (arms : list (pos * bytes * pexpr)) : list (pos * bytes * pops * pos) :=
    map (fun fl => let '(kp, k, e) := fl in (kp, k, tr e, pos_of e)) arms.

  (* the template parts of the single-argument form: translate_template_part(def.pos, part, .., false) *)
  Definition ppart_codes (p : pos) (parts : list ptpart) : list pops :=
    map (fun t => match t with
                  | PPStr s => [(IVal (LStr s), p)]
                  | PPHole => [(ITranslatorPanic, p)]
                  | PPExpr pe => tr pe ++ [(IRender, p)]
                  end) parts.
End Combinators.

(* translate_copy(ops, flds, pos): PushSelf, InitTuple, fields, Cp, PopSelf all at [pos] *)
Definition pcopy_code (p : pos) (flds : pops) : pops :=
  (IPushSelf, p) :: (IInitTuple, p) :: flds ++ [(ICp, p); (IPopSelf, p)].

(* Expression::Select: Sym and the SelectJump placeholder at key.pos, the Jump placeholder at val.pos(),
   Pop at def.pos *)
Fixpoint psel_arms (p : pos) (arms : list (pos * bytes * pops * pos)) (dflt : pops) : pops :=
  match arms with
  | [] => (IPop, p) :: dflt
  | (kp, k, c, ep) :: arms' =>
    let rest := psel_arms p arms' dflt in
    (ISym k, kp) :: (ISelectJump (S (List.length c)), kp) :: c ++ (IJump (List.length rest), ep) :: rest
  end.

(* template parts, already reversed: the first one alone, every later one followed by Add at [pa];
   no part at all: the empty string at [pe] *)
Definition pjoin_parts (pe pa : pos) (codes : list pops) : pops :=
  match codes with
  | [] => [(IVal (LStr []), pe)]
  | c :: cs => c ++ flat_map (fun c => c ++ [(IAdd, pa)]) cs
  end.

(* the list form: translate_template_part(def.pos, part, elems, .., true) over the reversed parts *)
Fixpoint plist_parts (p : pos) (parts : list ptpart) (args : list pops) : list pops :=
  match parts with
  | [] => []
  | PPStr s :: ps => [(IVal (LStr s), p)] :: plist_parts p ps args
  | PPHole :: ps => match args with
                    | a :: args' => (a ++ [(IRender, p)]) :: plist_parts p ps args'
                    | [] => [(ITranslatorPanic, p)] :: plist_parts p ps []
                    end
  | PPExpr _ :: ps => [(ITranslatorPanic, p)] :: plist_parts p ps args
  end.

Definition pcount_holes (parts : list ptpart) : nat :=
  List.length (filter (fun t => match t with PPHole => true | _ => false end) parts).

Fixpoint ptr (e : pexpr) : pops :=
  match e with
  (* translate_value *)
  | PENull p => [(IVal LEmpty, p)]
  | PEBool p v => [(IVal (LBool v), p)]
  | PEInt p z => [(IVal (LInt z), p)]
  | PEFloat p bits => [(IVal (LFloat bits), p)]
  | PEStr p s => [(IVal (LStr s), p)]
  | PESym p x => [(IDeRef x, p)]
  | PETuple p fs => (IInitTuple, p) :: pfields ptr fs
  | PEList p es => (IInitList, p) :: pelems ptr es
  (* Expression::Grouped: the position of the group is only what pos() answers *)
  | PEGroup _ e1 => ptr e1
  | PENot p e1 => ptr e1 ++ [(INot, p)]
  | PEBin p o l r =>
    match o with
    | Add => ptr r ++ ptr l ++ [(IAdd, p)]
    | Sub => ptr r ++ ptr l ++ [(ISub, p)]
    | Mul => ptr r ++ ptr l ++ [(IMul, p)]
    | Div => ptr r ++ ptr l ++ [(IDiv, p)]
    | Mod => ptr r ++ ptr l ++ [(IMod, p)]
    | Equal => ptr r ++ ptr l ++ [(IEqual, p)]
    | GT => ptr r ++ ptr l ++ [(IGt, p)]
    | LT => ptr r ++ ptr l ++ [(ILt, p)]
    | GTEqual => ptr r ++ ptr l ++ [(IGtEq, p)]
    | LTEqual => ptr r ++ ptr l ++ [(ILtEq, p)]
    | NotEqual => ptr r ++ ptr l ++ [(IEqual, p); (INot, p)]
    | REMatch => ptr r ++ ptr l ++ [(IRuntime HRegex, p)]
    | NotREMatch => ptr r ++ ptr l ++ [(IRuntime HRegex, p); (INot, p)]
    | IS => ptr r ++ ptr l ++ [(ITyp, p); (IEqual, p)]
    | AND => let cr := ptr r in ptr l ++ (IAnd (List.length cr), p) :: cr
    | OR => let cr := ptr r in ptr l ++ (IOr (List.length cr), p) :: cr
    | IN =>
      match l with
      | PESym lp x =>
        (* the synthesized  select (r is "tuple", x) => { true = "x" }:  every node of it is given
           def.left.pos() except the `true` token, which gets def.right.pos() *)
        ptr r ++ ((IVal (LStr (b "tuple")), lp) :: ptr r ++
                  [(ITyp, lp); (IEqual, lp); (ISym (b "true"), pos_of r); (ISelectJump 2, pos_of r);
                   (IVal (LStr x), lp); (IJump 2, lp); (IPop, lp); (IDeRef x, lp)])
              ++ [(IExist, p)]
      | _ => ptr r ++ ptr l ++ [(IExist, p)]
      end
    | DOT =>
      match r with
      | PECopy cp sel fs =>
        (* the position of the DOT node itself is not used on this path *)
        match sel with
        | PESym sp k | PEStr sp k =>
          ptr l ++ (IVal (LStr k), sp) :: (IIndex, cp) :: pcopy_code cp (pfields ptr fs)
        | PEInt sp k =>
          ptr l ++ (IVal (LInt k), sp) :: (IIndex, cp) :: pcopy_code cp (pfields ptr fs)
        | _ => [(ITranslatorPanic, p)]
        end
      | PECall cp fn args =>
        let pre := pargs ptr args ++ (IVal (LInt (Z.of_nat (List.length args))), cp) :: ptr l in
        match fn with
        | PESym sp k | PEStr sp k => pre ++ [(IVal (LStr k), sp); (IIndex, p); (IFCall, sp)]
        | PEInt sp k => pre ++ [(IVal (LInt k), sp); (IIndex, p); (IFCall, sp)]
        | _ => [(ITranslatorPanic, p)]
        end
      | PESym sp k => ptr l ++ [(IVal (LStr k), sp); (IIndex, p)]
      | _ => ptr l ++ ptr r ++ [(IIndex, p)]
      end
    end
  | PECopy p t fs => ptr t ++ pcopy_code p (pfields ptr fs)
  | PERange p st stp en =>
    ptr en ++ (match stp with Some s => ptr s | None => [(IVal LEmpty, p)] end) ++ ptr st ++ [(IRuntime HRange, p)]
  | PEFormatL p parts args =>
    if negb (Nat.eqb (pcount_holes parts) (List.length args))
    then [(IVal (LStr (fmt_count_msg (pcount_holes parts) (List.length args))), p); (IBang, p)]
    else match parts with
         | [] => [(IVal (LStr []), p)]
         | _ => pjoin_parts p p (plist_parts p (rev parts) (rev (map ptr args)))
         end
  | PEFormatS p _ parts arg =>
    (* NewScope placeholder, Sym "item", BindOver, the Adds and Return at expr.pos(); the parts at def.pos *)
    let ap := pos_of arg in
    let body := (ISym (b "item"), ap) :: ptr arg ++ (IBindOver, ap)
                  :: pjoin_parts p ap (rev (ppart_codes ptr p parts)) ++ [(IReturn, ap)] in
    (INewScope (List.length body), ap) :: body
  | PECall p fn args =>
    pargs ptr args ++ (IVal (LInt (Z.of_nat (List.length args))), p) :: ptr fn ++ [(IFCall, pos_of fn)]
  | PECast p ct e1 => ptr e1 ++ [(ICast ct, p)]
  | PEFunc p ps body =>
    let cb := ptr body in
    (IInitList, p) :: flat_map (fun q => [(ISym (snd q), fst q); (IElement, fst q)]) ps
                   ++ (IFunc (S (List.length cb)), p) :: cb ++ [(IReturn, p)]
  | PESelect p ve dflt arms =>
    let d := match dflt with
             | Some de => ptr de
             | None => [(IVal (LStr no_default_msg), pos_of ve); (IBang, p)]
             end in
    ptr ve ++ psel_arms p (parms ptr arms) d
  | PEMap p fe te => ptr fe ++ ptr te ++ [(IRuntime HMap, p)]
  | PEFilter p fe te => ptr fe ++ ptr te ++ [(IRuntime HFilter, p)]
  | PEReduce p fe ae te => ptr fe ++ ptr ae ++ ptr te ++ [(IRuntime HReduce, p)]
  | PEModule p ps out body =>
    let thunk := match out with
                 | Some oe => let co := ptr oe in
                              (IInitThunk (S (List.length co)), pos_of oe) :: co ++ [(IReturn, pos_of oe)]
                 | None => []
                 end in
    let cbody := (IBind, p) :: flat_map ptr_stmt body ++ [(IReturn, p)] in
    (IInitTuple, p) :: pfields ptr ps ++ thunk ++ (IModule (List.length cbody), p) :: cbody
  | PEFail p e1 => ptr e1 ++ [(IVal (LStr user_defined_msg), pos_of e1); (IAdd, p); (IBang, p)]
  | PETrace p e1 => (IVal (LStr trace_text), p) :: ptr e1 ++ [(IRuntime HTrace, p)]
  | PEImport p pp path => [(IVal (LStr path), pp); (IRuntime HImport, p)]
  | PEInclude p tp typ pp path => [(IVal (LStr typ), tp); (IVal (LStr path), pp); (IRuntime HInclude, p)]
  | PEConvert p tp typ e1 => (IVal (LStr typ), tp) :: ptr e1 ++ [(IRuntime HConvert, p)]
  end
with ptr_stmt (s : pstmt) : pops :=
  match s with
  (* Sym at def.name.pos, Bind at def.pos *)
  | PSLet p np x e => (ISym x, np) :: ptr e ++ [(IBind, p)]
  (* Pop at expr.pos() *)
  | PSExpr e => ptr e ++ [(IPop, pos_of e)]
  | PSAssert p e => ptr e ++ [(IRuntime HAssert, p)]
  (* the type token at tok.pos, the hook at the statement's position *)
  | PSOut p tp typ e => (IVal (LStr typ), tp) :: ptr e ++ [(IRuntime HOut, p)]
  end.

Definition ptranslate_expr := ptr.
Definition ptranslate_stmt := ptr_stmt.
Definition ptranslate (p : pprog) : pops := flat_map ptr_stmt p.
