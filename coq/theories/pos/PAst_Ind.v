(* Induction principle for the nested mutual type pexpr / ptpart / pstmt (sub-expressions sit in lists,
   options and field triples).  For a binary node the principle also hands out the hypotheses for the
   components of a right operand that is a copy or a call (the DOT clauses of the translator look that deep). *)
From Ucg Require Export pos.PAst.

Section PexprInd.
  Variable P : pexpr -> Prop.
  Variable R : ptpart -> Prop.
  Variable Q : pstmt -> Prop.

  Definition Pfields (fs : list (pos * bytes * pexpr)) : Prop := Forall (fun fl => P (snd fl)) fs.
  Definition Popt (o : option pexpr) : Prop := match o with Some e => P e | None => True end.
  Definition Pdeep (e : pexpr) : Prop :=
    match e with
    | PECopy _ sel fs => P sel /\ Pfields fs
    | PECall _ fn args => P fn /\ Forall P args
    | _ => True
    end.

  Hypothesis HNull : forall p, P (PENull p).
  Hypothesis HBool : forall p v, P (PEBool p v).
  Hypothesis HInt : forall p z, P (PEInt p z).
  Hypothesis HFloat : forall p bits, P (PEFloat p bits).
  Hypothesis HStr : forall p s, P (PEStr p s).
  Hypothesis HSym : forall p x, P (PESym p x).
  Hypothesis HTuple : forall p fs, Pfields fs -> P (PETuple p fs).
  Hypothesis HList : forall p es, Forall P es -> P (PEList p es).
  Hypothesis HBin : forall p o l r, P l -> P r -> Pdeep r -> P (PEBin p o l r).
  Hypothesis HNot : forall p e, P e -> P (PENot p e).
  Hypothesis HGroup : forall p e, P e -> P (PEGroup p e).
  Hypothesis HCopy : forall p t fs, P t -> Pfields fs -> P (PECopy p t fs).
  Hypothesis HRange : forall p st stp en, P st -> Popt stp -> P en -> P (PERange p st stp en).
  Hypothesis HFormatL : forall p parts args, Forall R parts -> Forall P args -> P (PEFormatL p parts args).
  Hypothesis HFormatS : forall p tpl parts arg, Forall R parts -> P arg -> P (PEFormatS p tpl parts arg).
  Hypothesis HCall : forall p fn args, P fn -> Forall P args -> P (PECall p fn args).
  Hypothesis HCast : forall p ct e, P e -> P (PECast p ct e).
  Hypothesis HFunc : forall p ps body, P body -> P (PEFunc p ps body).
  Hypothesis HSelect : forall p ve dflt arms, P ve -> Popt dflt -> Pfields arms -> P (PESelect p ve dflt arms).
  Hypothesis HMap : forall p fe te, P fe -> P te -> P (PEMap p fe te).
  Hypothesis HFilter : forall p fe te, P fe -> P te -> P (PEFilter p fe te).
  Hypothesis HReduce : forall p fe ae te, P fe -> P ae -> P te -> P (PEReduce p fe ae te).
  Hypothesis HModule : forall p ps out body, Pfields ps -> Popt out -> Forall Q body -> P (PEModule p ps out body).
  Hypothesis HFail : forall p e, P e -> P (PEFail p e).
  Hypothesis HTrace : forall p e, P e -> P (PETrace p e).
  Hypothesis HImport : forall p pp path, P (PEImport p pp path).
  Hypothesis HInclude : forall p tp typ pp path, P (PEInclude p tp typ pp path).
  Hypothesis HConvert : forall p tp typ e, P e -> P (PEConvert p tp typ e).
  Hypothesis HPStr : forall s, R (PPStr s).
  Hypothesis HPHole : R PPHole.
  Hypothesis HPExpr : forall e, P e -> R (PPExpr e).
  Hypothesis HSLet : forall p np x e, P e -> Q (PSLet p np x e).
  Hypothesis HSExpr : forall e, P e -> Q (PSExpr e).
  Hypothesis HSAssert : forall p e, P e -> Q (PSAssert p e).
  Hypothesis HSOut : forall p tp typ e, P e -> Q (PSOut p tp typ e).

  Fixpoint pexpr_ind' (e : pexpr) : P e :=
    let list_ind := fix go (l : list pexpr) : Forall P l :=
        match l with [] => Forall_nil _ | x :: l' => Forall_cons x (pexpr_ind' x) (go l') end in
    let fields_ind := fix go (l : list (pos * bytes * pexpr)) : Pfields l :=
        match l with
        | [] => Forall_nil _
        | fl :: l' => Forall_cons fl (match fl as fl0 return P (snd fl0) with (_, x) => pexpr_ind' x end) (go l')
        end in
    let opt_ind := fun (o : option pexpr) =>
        match o as o0 return Popt o0 with Some x => pexpr_ind' x | None => I end in
    let parts_ind := fix go (l : list ptpart) : Forall R l :=
        match l with [] => Forall_nil _ | x :: l' => Forall_cons x (ptpart_ind' x) (go l') end in
    let stmts_ind := fix go (l : list pstmt) : Forall Q l :=
        match l with [] => Forall_nil _ | x :: l' => Forall_cons x (pstmt_ind' x) (go l') end in
    match e as e0 return P e0 with
    | PENull p => HNull p
    | PEBool p v => HBool p v
    | PEInt p z => HInt p z
    | PEFloat p bits => HFloat p bits
    | PEStr p s => HStr p s
    | PESym p x => HSym p x
    | PETuple p fs => HTuple p fs (fields_ind fs)
    | PEList p es => HList p es (list_ind es)
    | PEBin p o l r =>
      HBin p o l r (pexpr_ind' l) (pexpr_ind' r)
           (match r as r0 return Pdeep r0 with
            | PECopy _ sel fs => conj (pexpr_ind' sel) (fields_ind fs)
            | PECall _ fn args => conj (pexpr_ind' fn) (list_ind args)
            | _ => I
            end)
    | PENot p e1 => HNot p e1 (pexpr_ind' e1)
    | PEGroup p e1 => HGroup p e1 (pexpr_ind' e1)
    | PECopy p t fs => HCopy p t fs (pexpr_ind' t) (fields_ind fs)
    | PERange p st stp en => HRange p st stp en (pexpr_ind' st) (opt_ind stp) (pexpr_ind' en)
    | PEFormatL p parts args => HFormatL p parts args (parts_ind parts) (list_ind args)
    | PEFormatS p tpl parts arg => HFormatS p tpl parts arg (parts_ind parts) (pexpr_ind' arg)
    | PECall p fn args => HCall p fn args (pexpr_ind' fn) (list_ind args)
    | PECast p ct e1 => HCast p ct e1 (pexpr_ind' e1)
    | PEFunc p ps body => HFunc p ps body (pexpr_ind' body)
    | PESelect p ve dflt arms => HSelect p ve dflt arms (pexpr_ind' ve) (opt_ind dflt) (fields_ind arms)
    | PEMap p fe te => HMap p fe te (pexpr_ind' fe) (pexpr_ind' te)
    | PEFilter p fe te => HFilter p fe te (pexpr_ind' fe) (pexpr_ind' te)
    | PEReduce p fe ae te => HReduce p fe ae te (pexpr_ind' fe) (pexpr_ind' ae) (pexpr_ind' te)
    | PEModule p ps out body => HModule p ps out body (fields_ind ps) (opt_ind out) (stmts_ind body)
    | PEFail p e1 => HFail p e1 (pexpr_ind' e1)
    | PETrace p e1 => HTrace p e1 (pexpr_ind' e1)
    | PEImport p pp path => HImport p pp path
    | PEInclude p tp typ pp path => HInclude p tp typ pp path
    | PEConvert p tp typ e1 => HConvert p tp typ e1 (pexpr_ind' e1)
    end
  with ptpart_ind' (t : ptpart) : R t :=
    match t as t0 return R t0 with
    | PPStr s => HPStr s
    | PPHole => HPHole
    | PPExpr e => HPExpr e (pexpr_ind' e)
    end
  with pstmt_ind' (s : pstmt) : Q s :=
    match s as s0 return Q s0 with
    | PSLet p np x e => HSLet p np x e (pexpr_ind' e)
    | PSExpr e => HSExpr e (pexpr_ind' e)
    | PSAssert p e => HSAssert p e (pexpr_ind' e)
    | PSOut p tp typ e => HSOut p tp typ e (pexpr_ind' e)
    end.

  Theorem pexpr_mutind : (forall e, P e) /\ (forall t, R t) /\ (forall s, Q s).
  Proof. exact (conj pexpr_ind' (conj ptpart_ind' pstmt_ind')). Qed.
End PexprInd.
