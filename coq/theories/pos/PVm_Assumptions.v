(* Print Assumptions for every headline theorem about the positioned machine: each must answer
   "Closed under the global context". *)
From Ucg Require Import pos.PVm pos.PVm_Erase pos.PVm_Map pos.PVm_Lemmas.

(* (A) erasure *)
Print Assumptions pvm_run_erase.
Print Assumptions pvm_erase.
Print Assumptions pvm_erase_translated.
(* (N) naturality *)
Print Assumptions pvm_run_map.
Print Assumptions pvm_prog_at_map.
(* (D) shift *)
Print Assumptions pvm_shift_env.
Print Assumptions pvm_shift.
Print Assumptions pvm_shift_translated.
Print Assumptions pvm_shift_error.
Print Assumptions pvm_shift_env_refuted.
(* (B) provenance *)
Print Assumptions pvm_positions_from_code.
Print Assumptions pvm_positions_from_program.
Print Assumptions pvm_positions_from_program_no_env.
Print Assumptions pvm_error_lines_in_some_statement.
(* (C) blame index *)
Print Assumptions pvm_blame_index.
Print Assumptions pvm_blame_in_statement.
From Ucg Require Import pos.PVm_Inv pos.PVm_Locality.
(* the one-step invariant *)
Print Assumptions pexec_instr_ok.
(* (B) invariant form, the dummy position *)
Print Assumptions pvm_run_inv.
Print Assumptions until_inv.
Print Assumptions pvm_state_positions_from_code.
Print Assumptions pvm_error_positions_by_kind.
Print Assumptions pvm_dummy_only_in_nested_kinds.
(* (C) locality *)
Print Assumptions pc_step.
Print Assumptions run_splits_at.
Print Assumptions closed_frame_local.
Print Assumptions until_local.
Print Assumptions pvm_locality.
Print Assumptions function_body_local.
Print Assumptions scopedb_sound.
Print Assumptions pvm_locality_translated.
Print Assumptions function_body_local_translated.
Print Assumptions pvm_locality_translated_prop.
Print Assumptions function_body_local_translated_prop.
Print Assumptions locality_module_result_example.
Print Assumptions locality_module_out_expression_example.
Print Assumptions locality_map_result_refuted.
From Ucg Require Import pos.PVm_Scoped.
(* [scoped] holds for every translated program; (C) final form *)
Print Assumptions ptranslate_stmt_wfc.
Print Assumptions ptranslate_scoped.
Print Assumptions pvm_locality_program.
Print Assumptions function_body_local_program.
