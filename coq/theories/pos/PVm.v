(* M-PVM: the POSITIONED virtual machine: vm/Vm.v (model of src/build/opcode/vm.rs and of the hooks
   range/map/filter/reduce/trace/regex of runtime.rs) with every Position the implementation keeps:
     - the code is a list of (op, position) pairs (OpPointer.pos_map),
     - every stack entry and every entry of the self stack is a (value, position) pair,
     - every binding of a symbol table carries the position given to Stack::add,
     - a list value carries one position per element, a tuple value (and the argument tuple of a module)
       a (name position, value position) pair per field (Composite::List / Composite::Tuple pos lists),
     - the error outcome is [PErr kind pos via]: [pos] is the Position given to Error::new / with_pos at
       the failing site, [via] the call stack pushed by decorate_call! while the error unwinds, in the order
       Display prints the VIA lines (innermost call site first).
   [kind] names the failing site (it is not part of the implementation's Error; theorems use it to say which
   sites can report the dummy position).  The dummy Position::new(0, 0, 0) enters the machine in one place:
   the positions of the `env` tuple (environment.rs get_env_vars_tuple, vm.rs get_binding); it is the
   section variable [envpos], instantiated with [pos0] by [pvm_prog].
   Control structure, fuel and the unsupported hooks are exactly those of vm/Vm.v (PVm_Lemmas.pvm_erase).
   Values whose result carries no position (equality, rendering, type names, casts, scalar arithmetic,
   comparisons) are computed by the functions of vm/ on the erased operands. *)
From Ucg Require Export vm.Vm pos.PTranslate.

(* the failing sites *)
Inductive ekind :=
| KCast            (* do_cast: the conversions of convert.rs, "Cannot cast a .. to .." *)
| KNoBinding       (* get_binding: "No such binding" *)
| KArith           (* add/sub/mul/div/modulus: type mismatch, overflow, division by zero *)
| KReservedBind    (* binding_push from op_bind: ".. is a reserved word." *)
| KRebind          (* binding_push: "Binding .. already exists" *)
| KReservedArg     (* binding_push from fcall_impl *)
| KEqualType       (* op_equal *)
| KNotBool         (* op_not *)
| KCompare         (* op_gt / op_lt / op_gteq / op_lteq *)
| KFieldType       (* merge_field_into_tuple *)
| KIndex           (* op_index: "Invalid selector index" *)
| KExistRight | KExistLeft   (* op_exist *)
| KCopyTarget      (* op_copy: "Expected a Tuple or Module" *)
| KBang            (* op_bang: fail expressions, select without default, format argument count *)
| KCond            (* op_jump_if_true / op_jump_if_false *)
| KAndOr           (* op_and / op_or *)
| KModuleArg       (* op_module *)
| KFuncArgs        (* op_func *)
| KArity           (* op_fcall: too many / too few arguments *)
| KNotFunc         (* op_fcall: "Not a function!" *)
| KHookNotFunc     (* map / filter / reduce: "Not a function!!" *)
| KHookArity       (* check_callback_arity *)
| KMapTuple        (* map over a tuple: the callback's result *)
| KMapStr          (* map over a string: the callback's result *)
| KHookTarget      (* "You can only map/filter/reduce over lists, tuples, or strings" *)
| KRange           (* Builtins::range *)
| KRegex.          (* Builtins::regex: operand not a string *)

Inductive pout (A : Type) :=
| POk (a : A)
| PErr (k : ekind) (p : pos) (via : list pos)
| PBug | PUnsup | PFuel.
Arguments POk {A}. Arguments PErr {A}. Arguments PBug {A}. Arguments PUnsup {A}. Arguments PFuel {A}.

Definition pbind {A B} (r : pout A) (k : A -> pout B) : pout B :=
  match r with POk a => k a | PErr e p via => PErr e p via | PBug => PBug | PUnsup => PUnsup | PFuel => PFuel end.
Notation "'pdo' x <- r ; k" := (pbind r (fun x => k)) (at level 200, x pattern, r at level 100, k at level 200).

(* decorate_call!(pos => result): push_call_stack(pos) on an error *)
Definition decorate_call {A} (p : pos) (r : pout A) : pout A :=
  match r with PErr e q via => PErr e q (via ++ [p]) | _ => r end.

(* a position-free outcome of vm/ with the kind and position an error gets here *)
Definition pout_of {A} (k : ekind) (p : pos) (r : outcome A) : pout A :=
  match r with VOk a => POk a | VErr => PErr k p [] | VBug => PBug | VUnsup => PUnsup | VFuel => PFuel end.

(* Position::new(0, 0, 0) *)
Definition pos0 : pos := (0%N, 0%N).

Section PVal.
  Variable fo : float_ops.
  Notation wval := (wval fo).

  (* enum Value with the position lists of Composite and the positions of a scope snapshot *)
  Inductive pval :=
  | QSym (s : bytes)
  | QInt (z : Z) | QFloat (f : F fo) | QStr (s : bytes) | QBool (v : bool) | QEmpty
  | QList (l : list (pval * pos))
  | QTuple (fs : list (bytes * (pval * (pos * pos))))          (* name, value, (name pos, value pos) *)
  | QThunk (idx : nat)
  | QFunc (ptr : nat) (bindings : list bytes) (snap : list (bytes * (pval * pos)))
  | QMod (ptr : nat) (result_ptr : option nat) (flds : list (bytes * (pval * (pos * pos)))).

  Definition pentry := (pval * pos)%type.
  Definition pfield := (bytes * (pval * (pos * pos)))%type.
  Definition psymtab := list (bytes * (pval * pos)).

  (* forgetting positions *)
  Fixpoint erase_v (v : pval) : wval :=
    match v with
    | QSym s => WSym s | QInt z => WInt z | QFloat f => WFloat f | QStr s => WStr s | QBool c => WBool c
    | QEmpty => WEmpty
    | QList l => WList (map (fun e => erase_v (fst e)) l)
    | QTuple fs => WTuple (map (fun kv => (fst kv, erase_v (fst (snd kv)))) fs)
    | QThunk i => WThunk i
    | QFunc ptr bs snap => WFunc ptr bs (map (fun kv => (fst kv, erase_v (fst (snd kv)))) snap)
    | QMod ptr rp fs => WMod ptr rp (map (fun kv => (fst kv, erase_v (fst (snd kv)))) fs)
    end.
  Definition erase_entries (s : list pentry) : list wval := map (fun e => erase_v (fst e)) s.
  Definition erase_flds (fs : list pfield) : list (bytes * wval) := map (fun kv => (fst kv, erase_v (fst (snd kv)))) fs.
  Definition erase_syms (t : psymtab) : symtab fo := map (fun kv => (fst kv, erase_v (fst (snd kv)))) t.

  (* the scalar results of vm/ (casts, scalar arithmetic, comparisons) back as positioned values; they contain no
     position.  Composite results never occur at the use sites (PVm_Erase.vm_cast_scalar & co.). *)
  Definition inj (w : wval) : pval :=
    match w with
    | WSym s => QSym s | WInt z => QInt z | WFloat f => QFloat f | WStr s => QStr s | WBool c => QBool c
    | _ => QEmpty
    end.

  (* scope.rs with positions *)
  Fixpoint psym_get (x : bytes) (t : psymtab) : option pentry :=
    match t with
    | [] => None
    | (k, e) :: t' => if bytes_eqb x k then Some e else psym_get x t'
    end.
  Fixpoint psym_add (k : bytes) (e : pentry) (t : psymtab) : psymtab :=
    match t with
    | [] => [(k, e)]
    | (k', w) :: t' => if bytes_ltb k k' then (k, e) :: t
                       else if bytes_eqb k k' then (k, e) :: t'
                       else (k', w) :: psym_add k e t'
    end.
  Definition psym_bound (x : bytes) (t : psymtab) : bool :=
    match psym_get x t with Some _ => true | None => false end.

  Record pstate := { ppc : nat; pstk : list pentry; psyms : psymtab; pselfs : list pentry }.

  Definition plit_val (l : lit) : pval :=
    match l with
    | LInt z => QInt z | LFloat bits => QFloat (f_of_bits fo bits) | LStr s => QStr s
    | LBool v => QBool v | LEmpty => QEmpty
    end.

  Definition pcompatible (a c : pval) : bool := wcompatible (erase_v a) (erase_v c).

  (* merge_field_into_tuple(flds, pos_list, name, name_pos, value, val_pos): a type error carries val_pos; an
     existing field keeps its name position and takes the new value position *)
  Fixpoint p_merge_field (fs : list pfield) (k : bytes) (np : pos) (v : pval) (vp : pos) : pout (list pfield) :=
    match fs with
    | [] => POk [(k, (v, (np, vp)))]
    | (k', (w, (np', vp'))) :: fs' =>
      if bytes_eqb k' k then (if pcompatible w v then POk ((k', (v, (np', vp))) :: fs') else PErr KFieldType vp [])
      else pdo r <- p_merge_field fs' k np v vp; POk ((k', (w, (np', vp'))) :: r)
    end.
  (* the override loops of op_copy: name and value position from the override tuple's position list *)
  Fixpoint p_merge_fields (base ov : list pfield) : pout (list pfield) :=
    match ov with
    | [] => POk base
    | (k, (v, (np, vp))) :: ov' => pdo base' <- p_merge_field base k np v vp; p_merge_fields base' ov'
    end.
End PVal.

Arguments QSym {fo}. Arguments QInt {fo}. Arguments QStr {fo}. Arguments QBool {fo}. Arguments QEmpty {fo}.
Arguments QThunk {fo}. Arguments QFloat {fo}. Arguments QList {fo}. Arguments QTuple {fo}.
Arguments QFunc {fo}. Arguments QMod {fo}.
Arguments Build_pstate {fo}. Arguments ppc {fo}. Arguments pstk {fo}. Arguments psyms {fo}. Arguments pselfs {fo}.
Arguments erase_v {fo}. Arguments erase_entries {fo}. Arguments erase_flds {fo}. Arguments erase_syms {fo}.
Arguments inj {fo}. Arguments psym_get {fo}. Arguments psym_add {fo}. Arguments psym_bound {fo}.
Arguments pcompatible {fo}. Arguments p_merge_field {fo}. Arguments p_merge_fields {fo}.

Section PVm.
  Variable fo : float_ops.
  Variable PC : pops.                      (* the positioned code all pointers of this run refer to *)
  Variable strict_ : bool.
  Variable envv : list (bytes * bytes).
  Variable envpos : pos.                   (* the position of everything in the `env` tuple: pos0 *)

  Notation pval := (pval fo).
  Notation pentry := (pentry fo).
  Notation pfield := (pfield fo).
  Notation psymtab := (psymtab fo).
  Notation pstate := (pstate fo).

  Definition pwith_pc (st : pstate) (n : nat) : pstate :=
    {| ppc := n; pstk := pstk st; psyms := psyms st; pselfs := pselfs st |}.
  Definition pwith_stk (st : pstate) (s : list pentry) : pstate :=
    {| ppc := ppc st; pstk := s; psyms := psyms st; pselfs := pselfs st |}.
  Definition pnext (st : pstate) : pstate := pwith_pc st (S (ppc st)).
  Definition ppush_next (st : pstate) (s : list pentry) : pout pstate := POk (pnext (pwith_stk st s)).

  Definition pjump (st : pstate) (j : nat) : pout pstate :=
    if Nat.ltb (ppc st + j) (List.length PC) then POk (pwith_pc st (S (ppc st + j))) else PBug.

  Definition ppop (s : list pentry) : pout (pentry * list pentry) :=
    match s with e :: s' => POk (e, s') | [] => PBug end.

  (* add / sub / mul / div / modulus: every error carries the position of the SECOND popped operand *)
  Definition p_arith (o : instr) (l r : pval) (rp : pos) : pout pval :=
    match l, r with
    | QList x, QList y => match o with IAdd => POk (QList (x ++ y)) | _ => PErr KArith rp [] end
    | _, _ => pdo w <- pout_of KArith rp (vm_arith fo o (erase_v l) (erase_v r)); POk (inj w)
    end.

  (* the `env` tuple: every position in it is the dummy *)
  Definition env_tuple_p : pval := QTuple (map (fun '(k, v) => (k, (QStr v, (envpos, envpos)))) envv).

  (* get_binding (the binding's position is returned; op_deref drops it) *)
  Definition p_get_binding (st : pstate) (name : bytes) : option pentry :=
    if bytes_eqb name (b "self") then hd_error (pselfs st)
    else if bytes_eqb name (b "env") then
      match psym_get name (psyms st) with Some e => Some e | None => Some (env_tuple_p, envpos) end
    else psym_get name (psyms st).

  (* binding_push(name, val, strict, pos, name_pos) *)
  Definition p_binding_push (kres : ekind) (t : psymtab) (name : bytes) (v : pval) (strict_bind : bool)
             (p np : pos) : pout psymtab :=
    if vm_is_reserved name then PErr kres np []
    else if psym_bound name t && strict_bind then PErr KRebind p []
    else POk (psym_add name (v, p) t).

  Fixpoint pfld_get (k : bytes) (fs : list pfield) : option pval :=
    match fs with
    | [] => None
    | (k', (v, _)) :: fs' => if bytes_eqb k' k then Some v else pfld_get k fs'
    end.

  (* op_index(safe, pos): a found element is pushed with the position of the INDEX operand, the NULL of a safe
     miss with the op position, the error carries the op position *)
  Definition p_index (safe : bool) (left right : pval) (rp p : pos) : pout pentry :=
    let miss := if safe then POk (QEmpty, p) else PErr KIndex p [] in
    match right with
    | QInt i =>
      match left with
      | QList elems =>
        if Z.ltb i (Z.of_nat (List.length elems)) && Z.leb 0 i
        then match nth_error elems (Z.to_nat i) with Some e => POk (fst e, rp) | None => PBug end
        else miss
      | _ => miss
      end
    | QStr s =>
      match left with
      | QTuple flds => match pfld_get s flds with Some v => POk (v, rp) | None => miss end
      | _ => miss
      end
    | _ => miss
    end.

  (* op_exist *)
  Definition p_exist (left right : pval) (lp rp : pos) : pout pval :=
    match left with
    | QTuple flds =>
      match right with
      | QStr name => POk (QBool (match pfld_get name flds with Some _ => true | None => false end))
      | _ => PErr KExistRight rp []
      end
    | QList elems =>
      pdo r <- pout_of KExistLeft lp (list_has fo (erase_entries elems) (erase_v right)); POk (QBool r)
    | QStr s =>
      match right with
      | QStr part => POk (QBool (contains_sub s part))
      | _ => POk (QBool false)
      end
    | _ => PErr KExistLeft lp []
    end.

  (* Builtins::range: every element and the list at the hook's position *)
  Definition p_range (start step stop : pval) (p : pos) : pout pval :=
    let step := match step with QEmpty => QInt 1 | s => s end in
    match start, step, stop with
    | QInt a, QInt s, QInt z =>
      if Z.leb s 0 then PErr KRange p []
      else POk (QList (map (fun v => (match v with VInt _ n => QInt n | _ => QEmpty end, p))
                           (range_from fo (Z.to_nat (range_len a s z)) a s z)))
    | _, _, _ => PErr KRange p []
    end.

  Section Nested.
    Variable run : pstate -> pout pstate.

    (* fcall_impl: vm.binding_push(nm, val, false, &pos, &pos) with the position of the argument *)
    Fixpoint p_bind_args (names : list bytes) (s : list pentry) (t : psymtab) : pout (list pentry * psymtab) :=
      match names with
      | [] => POk (s, t)
      | nm :: names' =>
        match s with
        | [] => PBug
        | (v, vp) :: s' => pdo t' <- p_binding_push KReservedArg t nm v false vp vp; p_bind_args names' s' t'
        end
      end.

    (* the result is (value, position) of the callee's stack top *)
    Definition p_fcall_impl (ptr : nat) (bindings : list bytes) (snap : psymtab) (s : list pentry)
      : pout (pentry * list pentry) :=
      pdo (s', t) <- p_bind_args bindings s snap;
      pdo fin <- run {| ppc := S ptr; pstk := []; psyms := t; pselfs := [] |};
      pdo (e, _) <- ppop (pstk fin);
      POk (e, s').

    (* op_fcall(pos): arity errors and "Not a function" at the op; the call is decorated with the position
       of the FUNCTION VALUE on the stack; the result is pushed at the op position *)
    Definition p_op_fcall (st : pstate) (p : pos) : pout pstate :=
      pdo (fe, s1) <- ppop (pstk st);
      pdo (ae, s2) <- ppop s1;
      match fst fe with
      | QFunc ptr bindings snap =>
        pdo _ <- match fst ae with
                 | QInt n => let arity := Z.of_nat (List.length bindings) in
                             if Z.ltb arity n then PErr KArity p [] else if Z.ltb n arity then PErr KArity p []
                             else POk tt
                 | _ => POk tt
                 end;
        pdo (e, s3) <- decorate_call (snd fe) (p_fcall_impl ptr bindings snap s2);
        ppush_next st ((fst e, p) :: s3)
      | _ => PErr KNotFunc p []
      end.

    (* op_new_scope: not a call (nothing is added to the call stack); the result keeps its position *)
    Definition p_op_new_scope (st : pstate) (j : nat) : pout pstate :=
      pdo fin <- run {| ppc := S (ppc st); pstk := []; psyms := psyms st; pselfs := pselfs st |};
      pdo (e, _) <- ppop (pstk fin);
      pjump (pwith_stk st (e :: pstk st)) j.

    (* symbols_to_tuple: both positions of a field are the binding's position *)
    Definition p_symbols_to_tuple (t : psymtab) (include_mod : bool) : pval :=
      QTuple (map (fun '(k, (v, p)) => (k, (v, (p, p))))
                  (filter (fun '(k, _) => include_mod || negb (bytes_eqb k (b "mod"))) t)).

    (* op_copy(pos).  Module: `this` is merged with name position [pos] and the position of the override tuple
       as value position; the body and (since commit 5138c88) the out expression run under
       decorate_call!(pos => ..), and the value of the out expression is pushed at [pos], the position of the
       instantiation (its position on the module VM's stack is dropped) *)
    Definition p_op_copy (st : pstate) (p : pos) : pout pstate :=
      pdo (oe, s1) <- ppop (pstk st);
      pdo (te, s2) <- ppop s1;
      match fst oe with
      | QTuple overrides =>
        match fst te with
        | QTuple flds =>
          pdo flds' <- p_merge_fields flds overrides;
          ppush_next st ((QTuple flds', snd te) :: s2)
        | QMod ptr result_ptr flds =>
          pdo flds1 <- p_merge_fields flds overrides;
          pdo flds2 <- p_merge_field flds1 (b "this") p (fst te) (snd oe);
          pdo fin <- decorate_call p
                       (run {| ppc := S ptr; pstk := [(QTuple flds2, p); (QSym (b "mod"), p)]; psyms := [];
                               pselfs := pselfs st |});
          match result_ptr with
          | Some rp =>
            if Nat.ltb rp (List.length PC) then
              pdo fin2 <- decorate_call p (run (pwith_pc fin (S rp)));
              pdo (e, _) <- ppop (pstk fin2);
              ppush_next st ((fst e, p) :: s2)
            else PBug
          | None => ppush_next st ((p_symbols_to_tuple (psyms fin) false, p) :: s2)
          end
        | _ => PErr KCopyTarget p []
        end
      | _ => PBug
      end.

    (* check_callback_arity(f, n, what, &fptr_pos) *)
    Definition p_arity_ok (bindings : list bytes) (n : nat) (fp : pos) : pout unit :=
      if Nat.eqb (List.length bindings) n then POk tt else PErr KHookArity fp [].

    Section Callback.
      Variables (ptr : nat) (bindings : list bytes) (snap : psymtab).
      Variable hp : pos.                   (* the hook's position: decorate_call!(pos => fcall_impl ..) *)
      Definition p_call_with (args_rev : list pentry) (s : list pentry) : pout (pentry * list pentry) :=
        decorate_call hp (p_fcall_impl ptr bindings snap (args_rev ++ s)).

      (* map over a list: argument at the element's position, result element at the result's position *)
      Fixpoint p_map_list (elems : list pentry) (s : list pentry) : pout (list pentry * list pentry) :=
        match elems with
        | [] => POk ([], s)
        | e :: rest =>
          pdo (r, s1) <- p_call_with [e] s;
          pdo (rs, s2) <- p_map_list rest s1;
          POk (r :: rs, s2)
        end.
      (* map over a tuple: name at the name position, value at the value position; the errors about the
         result carry the result's position; a new field is (old name position, result position) *)
      Fixpoint p_map_tuple (flds : list pfield) (s : list pentry) : pout (list pfield * list pentry) :=
        match flds with
        | [] => POk ([], s)
        | (k, (v, (np, vp))) :: rest =>
          pdo (r, s1) <- p_call_with [(v, vp); (QStr k, np)] s;
          match fst r with
          | QList fval =>
            match fval with
            | [n; v'] =>
              match fst n with
              | QStr name => pdo (rs, s2) <- p_map_tuple rest s1; POk ((name, (fst v', (np, snd r))) :: rs, s2)
              | _ => PErr KMapTuple (snd r) []
              end
            | _ => PErr KMapTuple (snd r) []
            end
          | _ => p_map_tuple rest s1
          end
        end.
      (* map over a string: every character at the position of the string *)
      Fixpoint p_map_str (lp : pos) (chars : list bytes) (s : list pentry) : pout (bytes * list pentry) :=
        match chars with
        | [] => POk ([], s)
        | c :: rest =>
          pdo (r, s1) <- p_call_with [(QStr c, lp)] s;
          match fst r with
          | QStr t => pdo (rs, s2) <- p_map_str lp rest s1; POk (t ++ rs, s2)
          | _ => PErr KMapStr (snd r) []
          end
        end.

      Definition pkeeps (cond : pval) : bool := keeps fo (erase_v cond).
      Fixpoint p_filter_list (elems : list pentry) (s : list pentry) : pout (list pentry * list pentry) :=
        match elems with
        | [] => POk ([], s)
        | e :: rest =>
          pdo (r, s1) <- p_call_with [e] s;
          pdo (rs, s2) <- p_filter_list rest s1;
          POk (if pkeeps (fst r) then e :: rs else rs, s2)
        end.
      Fixpoint p_filter_tuple (flds : list pfield) (s : list pentry) : pout (list pfield * list pentry) :=
        match flds with
        | [] => POk ([], s)
        | (k, (v, (np, vp))) :: rest =>
          pdo (r, s1) <- p_call_with [(v, vp); (QStr k, np)] s;
          pdo (rs, s2) <- p_filter_tuple rest s1;
          POk (if pkeeps (fst r) then (k, (v, (np, vp))) :: rs else rs, s2)
        end.
      Fixpoint p_filter_str (lp : pos) (chars : list bytes) (s : list pentry) : pout (bytes * list pentry) :=
        match chars with
        | [] => POk ([], s)
        | c :: rest =>
          pdo (r, s1) <- p_call_with [(QStr c, lp)] s;
          pdo (rs, s2) <- p_filter_str lp rest s1;
          POk (if pkeeps (fst r) then c ++ rs else rs, s2)
        end.

      (* reduce: the accumulator travels with its position (the result position of the previous call) *)
      Fixpoint p_reduce_list (elems : list pentry) (acc : pentry) (s : list pentry) : pout (pentry * list pentry) :=
        match elems with
        | [] => POk (acc, s)
        | e :: rest => pdo (acc', s1) <- p_call_with [e; acc] s; p_reduce_list rest acc' s1
        end.
      Fixpoint p_reduce_tuple (flds : list pfield) (acc : pentry) (s : list pentry) : pout (pentry * list pentry) :=
        match flds with
        | [] => POk (acc, s)
        | (k, (v, (np, vp))) :: rest =>
          pdo (acc', s1) <- p_call_with [(v, vp); (QStr k, np); acc] s; p_reduce_tuple rest acc' s1
        end.
      Fixpoint p_reduce_str (lp : pos) (chars : list bytes) (acc : pentry) (s : list pentry)
        : pout (pentry * list pentry) :=
        match chars with
        | [] => POk (acc, s)
        | c :: rest => pdo (acc', s1) <- p_call_with [(QStr c, lp); acc] s; p_reduce_str lp rest acc' s1
        end.
    End Callback.

    (* Builtins::map(pos): "Not a function" and the arity error at the position of the function value; the
       mapped list is pushed at the position of the LIST operand, the mapped tuple / string at the hook *)
    Definition p_hook_map (st : pstate) (p : pos) : pout pstate :=
      match pstk st with
      | te :: fe :: s =>
        match fst fe with
        | QFunc ptr bindings snap =>
          match fst te with
          | QList elems =>
            pdo _ <- p_arity_ok bindings 1 (snd fe);
            pdo (rs, s') <- p_map_list ptr bindings snap p elems s; ppush_next st ((QList rs, snd te) :: s')
          | QTuple flds =>
            pdo _ <- p_arity_ok bindings 2 (snd fe);
            pdo (rs, s') <- p_map_tuple ptr bindings snap p flds s; ppush_next st ((QTuple rs, p) :: s')
          | QStr str =>
            pdo _ <- p_arity_ok bindings 1 (snd fe);
            pdo (rs, s') <- p_map_str ptr bindings snap p (snd te) (utf8_chars str) s;
            ppush_next st ((QStr rs, p) :: s')
          | _ => PErr KHookTarget p []
          end
        | _ => PErr KHookNotFunc (snd fe) []
        end
      | _ => PBug
      end.

    (* Builtins::filter(pos): every result at the hook's position *)
    Definition p_hook_filter (st : pstate) (p : pos) : pout pstate :=
      match pstk st with
      | te :: fe :: s =>
        match fst fe with
        | QFunc ptr bindings snap =>
          match fst te with
          | QList elems =>
            pdo _ <- p_arity_ok bindings 1 (snd fe);
            pdo (rs, s') <- p_filter_list ptr bindings snap p elems s; ppush_next st ((QList rs, p) :: s')
          | QTuple flds =>
            pdo _ <- p_arity_ok bindings 2 (snd fe);
            pdo (rs, s') <- p_filter_tuple ptr bindings snap p flds s; ppush_next st ((QTuple rs, p) :: s')
          | QStr str =>
            pdo _ <- p_arity_ok bindings 1 (snd fe);
            pdo (rs, s') <- p_filter_str ptr bindings snap p (snd te) (utf8_chars str) s;
            ppush_next st ((QStr rs, p) :: s')
          | _ => PErr KHookTarget p []
          end
        | _ => PErr KHookNotFunc (snd fe) []
        end
      | _ => PBug
      end.

    (* Builtins::reduce(pos): the final accumulator at the hook's position *)
    Definition p_hook_reduce (st : pstate) (p : pos) : pout pstate :=
      match pstk st with
      | te :: acc :: fe :: s =>
        match fst fe with
        | QFunc ptr bindings snap =>
          match fst te with
          | QList elems =>
            pdo _ <- p_arity_ok bindings 2 (snd fe);
            pdo (r, s') <- p_reduce_list ptr bindings snap p elems acc s; ppush_next st ((fst r, p) :: s')
          | QTuple flds =>
            pdo _ <- p_arity_ok bindings 3 (snd fe);
            pdo (r, s') <- p_reduce_tuple ptr bindings snap p flds acc s; ppush_next st ((fst r, p) :: s')
          | QStr str =>
            pdo _ <- p_arity_ok bindings 2 (snd fe);
            pdo (r, s') <- p_reduce_str ptr bindings snap p (snd te) (utf8_chars str) acc s;
            ppush_next st ((fst r, p) :: s')
          | _ => PErr KHookTarget p []
          end
        | _ => PErr KHookNotFunc (snd fe) []
        end
      | _ => PBug
      end.

    Definition p_op_runtime (h : hook) (st : pstate) (p : pos) : pout pstate :=
      match h with
      | HRange =>
        match pstk st with
        | start :: step :: stop :: s =>
          pdo v <- p_range (fst start) (fst step) (fst stop) p; ppush_next st ((v, p) :: s)
        | _ => PBug
        end
      | HTrace =>
        (* the traced value goes back with its own position *)
        match pstk st with
        | v :: e :: s => match fst e with QStr _ => ppush_next st (v :: s) | _ => PBug end
        | _ => PBug
        end
      | HMap => p_hook_map st p
      | HFilter => p_hook_filter st p
      | HReduce => p_hook_reduce st p
      | HRegex =>
        (* a non-string operand is reported at its own position *)
        match pstk st with
        | [] => PBug
        | l :: s1 =>
          match fst l with
          | QStr _ => match s1 with
                      | [] => PBug
                      | r :: _ => match fst r with QStr _ => PUnsup | _ => PErr KRegex (snd r) [] end
                      end
          | _ => PErr KRegex (snd l) []
          end
        end
      | HInclude | HImport | HOut | HAssert | HConvert => PUnsup
      end.

    (* one iteration of the dispatch loop for the op [i] with position [p] at index [ppc st] *)
    Definition pexec_instr (i : instr) (p : pos) (st : pstate) : pout pstate :=
      let s := pstk st in
      match i with
      | IVal l => ppush_next st ((plit_val fo l, p) :: s)
      | ICast t =>
        (* do_cast under decorate_error!(pos): result and every error at the operand's position *)
        pdo (e, s1) <- ppop s;
        pdo w <- pout_of KCast (snd e) (vm_cast fo t (erase_v (fst e)));
        ppush_next st ((inj w, snd e) :: s1)
      | ISym name => ppush_next st ((QSym name, p) :: s)
      | IDeRef name =>
        (* the value is pushed at the op position, "No such binding" carries the op position *)
        match p_get_binding st name with Some e => ppush_next st ((fst e, p) :: s) | None => PErr KNoBinding p [] end
      | IAdd | ISub | IMul | IDiv | IMod =>
        pdo (l, s1) <- ppop s; pdo (r, s2) <- ppop s1;
        pdo v <- p_arith i (fst l) (fst r) (snd r); ppush_next st ((v, p) :: s2)
      | IBind | IBindOver =>
        (* binding_push(name, val, strict, &val_pos, &name_pos) *)
        pdo (ve, s1) <- ppop s; pdo (ne, s2) <- ppop s1;
        match fst ne with
        | QSym nm =>
          pdo t <- p_binding_push KReservedBind (psyms st) nm (fst ve) (match i with IBind => true | _ => false end)
                                  (snd ve) (snd ne);
          POk {| ppc := S (ppc st); pstk := s2; psyms := t; pselfs := pselfs st |}
        | _ => PBug
        end
      | IEqual =>
        pdo (l, s1) <- ppop s; pdo (r, s2) <- ppop s1;
        if pcompatible (fst l) (fst r) then
          match weq (erase_v (fst l)) (erase_v (fst r)) with
          | Some q => ppush_next st ((QBool q, p) :: s2)
          | None => PUnsup
          end
        else PErr KEqualType p []
      | INot =>
        (* result and error at the operand's position *)
        pdo (e, s1) <- ppop s;
        match fst e with QBool x => ppush_next st ((QBool (negb x), snd e) :: s1) | _ => PErr KNotBool (snd e) [] end
      | IGt | ILt | IGtEq | ILtEq =>
        pdo (l, s1) <- ppop s; pdo (r, s2) <- ppop s1;
        pdo w <- pout_of KCompare p (vm_compare fo i (erase_v (fst l)) (erase_v (fst r)));
        ppush_next st ((inj w, p) :: s2)
      | IInitList => ppush_next st ((QList [], p) :: s)
      | IInitTuple => ppush_next st ((QTuple [], p) :: s)
      | IField =>
        (* the tuple keeps its position; the field gets (name position, value position) *)
        pdo (ve, s1) <- ppop s; pdo (ne, s2) <- ppop s1;
        match fst ne with
        | QSym name | QStr name =>
          pdo (te, s3) <- ppop s2;
          match fst te with
          | QTuple flds =>
            pdo flds' <- p_merge_field flds name (snd ne) (fst ve) (snd ve);
            ppush_next st ((QTuple flds', snd te) :: s3)
          | _ => PBug
          end
        | _ => PBug
        end
      | IElement =>
        pdo (ve, s1) <- ppop s; pdo (le, s2) <- ppop s1;
        match fst le with QList elems => ppush_next st ((QList (elems ++ [ve]), snd le) :: s2) | _ => PBug end
      | IIndex =>
        pdo (r, s1) <- ppop s; pdo (l, s2) <- ppop s1;
        pdo e <- p_index (negb strict_) (fst l) (fst r) (snd r) p; ppush_next st (e :: s2)
      | ISafeIndex =>
        pdo (r, s1) <- ppop s; pdo (l, s2) <- ppop s1;
        pdo e <- p_index true (fst l) (fst r) (snd r) p; ppush_next st (e :: s2)
      | IExist =>
        pdo (r, s1) <- ppop s; pdo (l, s2) <- ppop s1;
        pdo v <- p_exist (fst l) (fst r) (snd l) (snd r); ppush_next st ((v, p) :: s2)
      | ICp => p_op_copy st p
      | IBang =>
        (* Error::new(msg, err_pos): the position of the MESSAGE on the stack *)
        pdo (e, _) <- ppop s; match fst e with QStr _ => PErr KBang (snd e) [] | _ => PBug end
      | IInitThunk j => pjump (pwith_stk st ((QThunk (ppc st), p) :: s)) j
      | INoop => POk (pnext st)
      | IJump j => pjump st j
      | IJumpIfTrue j =>
        pdo (e, s1) <- ppop s;
        match fst e with
        | QBool c => if c then pjump (pwith_stk st s1) j else POk (pnext (pwith_stk st s1))
        | _ => PErr KCond (snd e) []
        end
      | IJumpIfFalse j =>
        pdo (e, s1) <- ppop s;
        match fst e with
        | QBool c => if c then POk (pnext (pwith_stk st s1)) else pjump (pwith_stk st s1) j
        | _ => PErr KCond (snd e) []
        end
      | ISelectJump j =>
        pdo (fe, s1) <- ppop s; pdo (se, s2) <- ppop s1;
        if select_matches fo (erase_v (fst fe)) (erase_v (fst se)) then POk (pnext (pwith_stk st s2))
        else pjump (pwith_stk st (se :: s2)) j
      | IAnd j =>
        (* the error carries the position of the condition *)
        pdo (e, s1) <- ppop s;
        match fst e with
        | QBool c => if c then POk (pnext (pwith_stk st s1)) else pjump (pwith_stk st (e :: s1)) j
        | _ => PErr KAndOr (snd e) []
        end
      | IOr j =>
        pdo (e, s1) <- ppop s;
        match fst e with
        | QBool c => if c then pjump (pwith_stk st (e :: s1)) j else POk (pnext (pwith_stk st s1))
        | _ => PErr KAndOr (snd e) []
        end
      | IModule j =>
        pdo (me, s1) <- ppop s;
        match fst me with
        | QTuple flds => pjump (pwith_stk st ((QMod (ppc st) None flds, p) :: s1)) j
        | QThunk tp =>
          pdo (te, s2) <- ppop s1;
          match fst te with
          | QTuple flds => pjump (pwith_stk st ((QMod (ppc st) (Some tp) flds, p) :: s2)) j
          | _ => PErr KModuleArg (snd te) []
          end
        | _ => PErr KModuleArg (snd me) []
        end
      | IFunc j =>
        pdo (le, s1) <- ppop s;
        match fst le with
        | QList elems =>
          pdo names <- (fix go (l : list pentry) : pout (list bytes) :=
                          match l with
                          | [] => POk []
                          | (QSym nm, _) :: l' => pdo r <- go l'; POk (nm :: r)
                          | _ :: _ => PErr KFuncArgs (snd le) []
                          end) elems;
          pjump (pwith_stk st ((QFunc (ppc st) (rev names) (psyms st), p) :: s1)) j
        | _ => PErr KFuncArgs (snd le) []
        end
      | IFCall => p_op_fcall st p
      | INewScope j => p_op_new_scope st j
      | IReturn => POk st
      | IPop => pdo (_, s1) <- ppop s; POk (pnext (pwith_stk st s1))
      | ITyp => pdo (e, s1) <- ppop s; ppush_next st ((QStr (wtyp (erase_v (fst e))), snd e) :: s1)
      | IRuntime h => p_op_runtime h st p
      | IRender =>
        pdo (e, s1) <- ppop s;
        match wrender (erase_v (fst e)) with Some t => ppush_next st ((QStr t, snd e) :: s1) | None => PUnsup end
      | IPushSelf =>
        pdo (e, s1) <- ppop s;
        POk {| ppc := S (ppc st); pstk := e :: s1; psyms := psyms st; pselfs := e :: pselfs st |}
      | IPopSelf =>
        POk {| ppc := S (ppc st); pstk := s; psyms := psyms st; pselfs := tl (pselfs st) |}
      | ITranslatorPanic => PBug
      end.
  End Nested.

  (* VM::run *)
  Fixpoint pvm_run (fuel : nat) (st : pstate) : pout pstate :=
    match fuel with
    | O => PFuel
    | S f =>
      match nth_error PC (ppc st) with
      | None => POk st
      | Some (IReturn, _) => POk st
      | Some (i, p) => pdo st' <- pexec_instr (pvm_run f) i p st; pvm_run f st'
      end
    end.

  Definition pinit_state : pstate := {| ppc := 0; pstk := []; psyms := []; pselfs := [] |}.
End PVm.

(* a whole program: the bindings (with their positions) after the run; the dummy position is Position::new(0,0,0) *)
Definition pvm_prog (fo : float_ops) (fuel : nat) (envv : list (bytes * bytes)) (strict_ : bool) (c : pops)
  : pout (list (bytes * (pval fo * pos))) :=
  pdo st <- pvm_run fo c strict_ envv pos0 fuel (pinit_state fo); POk (psyms st).
