(* M-PTEMPLATE: where the template parser puts the nodes of `@{...}` expressions.

   Model of the position tracking of ExpressionTemplate::parse / consume_expr (src/build/format.rs since
   commit aad375b) and of OffsetStrIter::new_with_offsets (src/iter.rs).  Executable definitions only.

   [tpl_scan p tpl]: for the template text [tpl] (the unescaped string) of a format expression at [p], the list
   of (index of the `@` in tpl, start position handed to consume_expr, text between the braces), in order.
   The scanner starts at the character after the opening quote (line p, col p + 1), adds one column per
   CHARACTER (a byte that is not a UTF-8 continuation byte), a line feed starts the next line at column 1;
   an unescaped backslash counts one column and escapes the next character; the expression text of an
   unescaped `@` starts two columns after the `@`.
   [place st r]: the position the tokenizer gives to relative position r (1-based line and column inside the
   brace text) when it runs with line offset (line st - 1) and column offset (col st - 1): the column offset
   is added on EVERY line of the text. *)
From Ucg Require Export pos.PAst.

Definition is_byte (n : N) (c : ascii) : bool := N.eqb (N_of_ascii c) n.
Definition is_at := is_byte 64.
Definition is_bsl := is_byte 92.
Definition is_lf := is_byte 10.
Definition is_lbrace := is_byte 123.
Definition is_rbrace := is_byte 125.
(* UTF-8 continuation byte 10xxxxxx: not the start of a character *)
Definition is_cont (c : ascii) : bool := (N.leb 128 (N_of_ascii c) && N.ltb (N_of_ascii c) 192)%bool.
Definition is_ascii (c : ascii) : bool := N.ltb (N_of_ascii c) 128.

Fixpoint count_lf (s : bytes) : N :=
  match s with
  | [] => 0
  | c :: s' => ((if is_lf c then 1 else 0) + count_lf s')%N
  end.

(* consume_expr: the text between the braces and what is left of the template.
     for c in iter { if c == '{' { n += 1; if n == 1 { continue } }  if c == '}' { n -= 1 }
                     if n == 0 { break }  result.push(c) } *)
Fixpoint consume (n : Z) (s : bytes) : bytes * bytes :=
  match s with
  | [] => ([], [])
  | c :: s' =>
    let n1 := if is_lbrace c then (n + 1)%Z else n in
    if (is_lbrace c && Z.eqb n1 1)%bool then consume n1 s'
    else
      let n2 := if is_rbrace c then (n1 - 1)%Z else n1 in
      if Z.eqb n2 0 then ([], s')
      else let '(t, r) := consume n2 s' in (c :: t, r)
  end.

(* the counters over the consumed `{...}` text:  '\n' => line += 1, col = 0;  any other char => col += 1 *)
Fixpoint adv_consumed (st : pos) (s : bytes) : pos :=
  match s with
  | [] => st
  | c :: s' =>
    adv_consumed (if is_lf c then (fst st + 1, 0) else if is_cont c then st else (fst st, snd st + 1))%N s'
  end.

Fixpoint scan (fuel : nat) (idx : nat) (st : pos) (esc : bool) (s : bytes) : list (nat * pos * bytes) :=
  match fuel with
  | O => []
  | S fuel' =>
    match s with
    | [] => []
    | c :: s' =>
      if (is_at c && negb esc)%bool then
        let '(text, rest) := consume 0 s' in
        let n := (List.length s' - List.length rest)%nat in
        let st' := adv_consumed st (firstn n s') in
        (idx, (fst st, snd st + 2)%N, text) :: scan fuel' (idx + 1 + n) (fst st', snd st' + 1)%N false rest
      else if (is_bsl c && negb esc)%bool then scan fuel' (S idx) (fst st, snd st + 1)%N true s'
      else if is_lf c then scan fuel' (S idx) (fst st + 1, 1)%N false s'
      else scan fuel' (S idx) (if is_cont c then st else (fst st, snd st + 1)%N) false s'
    end
  end.

Definition tpl_scan (p : pos) (tpl : bytes) : list (nat * pos * bytes) :=
  scan (S (List.length tpl)) 0 (fst p, snd p + 1)%N false tpl.

(* OffsetStrIter::new_with_offsets(text, line - 1, col - 1) *)
Definition place (st r : pos) : pos := (fst st - 1 + fst r, snd st - 1 + snd r)%N.

(* the position of a byte of a text that starts at [st], as the tokenizer of the FILE counts (one column per
   byte, a line feed starts the next line at column 1) *)
Fixpoint adv_file (st : pos) (s : bytes) : pos :=
  match s with
  | [] => st
  | c :: s' => adv_file (if is_lf c then (fst st + 1, 1) else (fst st, snd st + 1))%N s'
  end.

(* ---- the single-argument format expressions among the nodes of the file's parser (those inside template
   expressions are not listed: their nodes are nodes of the enclosing template expression) ---- *)
Definition fmt := (pos * bytes * list ptpart)%type.

Fixpoint formats_of (e : pexpr) : list fmt :=
  match e with
  | PENull _ | PEBool _ _ | PEInt _ _ | PEFloat _ _ | PEStr _ _ | PESym _ _ => []
  | PETuple _ fs => flat_map (fun fl => formats_of (snd fl)) fs
  | PEList _ es => flat_map formats_of es
  | PEBin _ _ l r => formats_of l ++ formats_of r
  | PENot _ e1 | PEGroup _ e1 | PECast _ _ e1 | PEFail _ e1 | PETrace _ e1 => formats_of e1
  | PECopy _ t fs => formats_of t ++ flat_map (fun fl => formats_of (snd fl)) fs
  | PERange _ st stp en =>
    formats_of st ++ (match stp with Some s => formats_of s | None => [] end) ++ formats_of en
  | PEFormatL _ _ args => flat_map formats_of args
  | PEFormatS p tpl parts arg => (p, tpl, parts) :: formats_of arg
  | PECall _ fn args => formats_of fn ++ flat_map formats_of args
  | PEFunc _ _ body => formats_of body
  | PESelect _ ve dflt arms =>
    formats_of ve ++ (match dflt with Some s => formats_of s | None => [] end)
               ++ flat_map (fun fl => formats_of (snd fl)) arms
  | PEMap _ fe te | PEFilter _ fe te => formats_of fe ++ formats_of te
  | PEReduce _ fe ae te => formats_of fe ++ formats_of ae ++ formats_of te
  | PEModule _ ps out body =>
    flat_map (fun fl => formats_of (snd fl)) ps ++ (match out with Some s => formats_of s | None => [] end)
             ++ flat_map formats_of_stmt body
  | PEImport _ _ _ | PEInclude _ _ _ _ _ => []
  | PEConvert _ _ _ e1 => formats_of e1
  end
with formats_of_stmt (s : pstmt) : list fmt :=
  match s with
  | PSLet _ _ _ e | PSExpr e | PSAssert _ e | PSOut _ _ _ e => formats_of e
  end.

Definition part_exprs (parts : list ptpart) : list pexpr :=
  flat_map (fun t => match t with PPExpr pe => [pe] | _ => [] end) parts.

(* ---- well placed template expressions ---- *)
(* every node of the i-th `@{...}` expression lies on the lines of its brace text: between the line of its start
   and that line plus the number of line feeds of the text *)
Definition expr_lines_okb (a : nat * pos * bytes) (pe : pexpr) : bool :=
  let '(_, st, text) := a in
  forallb (fun q => (N.leb (fst st) (line q) && N.leb (line q) (fst st + count_lf text))%bool) (positions_of pe).

Definition fmt_lines_okb (f : fmt) : bool :=
  let '(p, tpl, parts) := f in
  let starts := tpl_scan p tpl in
  let es := part_exprs parts in
  (Nat.eqb (List.length starts) (List.length es)
   && forallb (fun ae => expr_lines_okb (fst ae) (snd ae)) (combine starts es))%bool.

Definition tpl_placed_stmt (s : pstmt) : Prop := forallb fmt_lines_okb (formats_of_stmt s) = true.
Definition tpl_placedb (s : pstmt) : bool := forallb fmt_lines_okb (formats_of_stmt s).

(* sharper, executable only (used by the correspondence): the first node of every `@{...}` expression stands
   exactly where the scanner says - [place start] of the first byte of the brace text that is not white space *)
Definition is_ws_byte (c : ascii) : bool :=
  (is_byte 32 c || is_byte 9 c || is_byte 13 c || is_lf c)%bool.
Fixpoint skip_ws (st : pos) (s : bytes) : pos :=
  match s with
  | [] => st
  | c :: s' => if is_ws_byte c
               then skip_ws (if is_lf c then (fst st + 1, 1) else (fst st, snd st + 1))%N s'
               else st
  end.
Definition pos_leb (a c : pos) : bool := (N.ltb (fst a) (fst c) || (N.eqb (fst a) (fst c) && N.leb (snd a) (snd c)))%bool.
Definition pos_eqb (a c : pos) : bool := (N.eqb (fst a) (fst c) && N.eqb (snd a) (snd c))%bool.
Definition expr_start_okb (a : nat * pos * bytes) (pe : pexpr) : bool :=
  let '(_, st, text) := a in
  let first := place st (skip_ws (1, 1)%N text) in
  (existsb (pos_eqb first) (positions_of pe) && forallb (pos_leb first) (positions_of pe))%bool.
Definition fmt_starts_okb (f : fmt) : bool :=
  let '(p, tpl, parts) := f in
  let starts := tpl_scan p tpl in
  let es := part_exprs parts in
  (Nat.eqb (List.length starts) (List.length es)
   && forallb (fun ae => expr_start_okb (fst ae) (snd ae)) (combine starts es))%bool.
Definition tpl_startsb (s : pstmt) : bool := forallb fmt_starts_okb (formats_of_stmt s).

(* ---- the span of a statement in terms of what the parser of the file produced ---- *)
(* the nodes of the file's parser lie on lines lo..hi, and so does every template string: its first line is the
   line of the format expression, it has as many further lines as its text has line feeds *)
Definition src_in_span (s : pstmt) (lo hi : N) : Prop :=
  Forall (fun p => (lo <= line p <= hi)%N) (src_positions_of_stmt s)
  /\ Forall (fun f : fmt => let '(p, tpl, _) := f in (lo <= line p /\ line p + count_lf tpl <= hi)%N)
            (formats_of_stmt s).
