(* Naturality of the positioned machine in its positions: renaming every position of the code (and of the
   state, and the dummy position of the `env` tuple) by any function [f] renames the positions of the outcome
   by [f] and changes nothing else.  Headline: [pvm_run_map], [pvm_prog_map]; (D) shift and (B) provenance in
   PVm_Lemmas.v are corollaries. *)
From Ucg Require Import pos.PTranslate_Lemmas pos.PVm pos.PVm_Erase.

#[local] Arguments p_symbols_to_tuple : simpl never.

(* induction principle for the nested type pval *)
Section PvalInd.
  Variable fo : float_ops.
  Variable P : pval fo -> Prop.
  Hypothesis HSym : forall s, P (QSym s).
  Hypothesis HInt : forall z, P (QInt z).
  Hypothesis HFloat : forall x, P (QFloat x).
  Hypothesis HStr : forall s, P (QStr s).
  Hypothesis HBool : forall c, P (QBool c).
  Hypothesis HEmpty : P QEmpty.
  Hypothesis HList : forall l, Forall (fun e => P (fst e)) l -> P (QList l).
  Hypothesis HTuple : forall fs, Forall (fun kv => P (fst (snd kv))) fs -> P (QTuple fs).
  Hypothesis HThunk : forall i, P (QThunk i).
  Hypothesis HFunc : forall ptr bs snap, Forall (fun kv => P (fst (snd kv))) snap -> P (QFunc ptr bs snap).
  Hypothesis HMod : forall ptr rp fs, Forall (fun kv => P (fst (snd kv))) fs -> P (QMod ptr rp fs).

  Fixpoint pval_ind' (v : pval fo) : P v :=
    match v with
    | QSym s => HSym s | QInt z => HInt z | QFloat x => HFloat x | QStr s => HStr s | QBool c => HBool c
    | QEmpty => HEmpty | QThunk i => HThunk i
    | QList l =>
      HList l ((fix go (l : list (pval fo * pos)) : Forall (fun e => P (fst e)) l :=
                  match l with [] => Forall_nil _ | e :: l' => Forall_cons e (pval_ind' (fst e)) (go l') end) l)
    | QTuple fs =>
      HTuple fs ((fix go (l : list (bytes * (pval fo * (pos * pos)))) : Forall (fun kv => P (fst (snd kv))) l :=
                    match l with [] => Forall_nil _ | e :: l' => Forall_cons e (pval_ind' (fst (snd e))) (go l') end) fs)
    | QFunc ptr bs snap =>
      HFunc ptr bs snap
            ((fix go (l : list (bytes * (pval fo * pos))) : Forall (fun kv => P (fst (snd kv))) l :=
                match l with [] => Forall_nil _ | e :: l' => Forall_cons e (pval_ind' (fst (snd e))) (go l') end) snap)
    | QMod ptr rp fs =>
      HMod ptr rp fs
           ((fix go (l : list (bytes * (pval fo * (pos * pos)))) : Forall (fun kv => P (fst (snd kv))) l :=
               match l with [] => Forall_nil _ | e :: l' => Forall_cons e (pval_ind' (fst (snd e))) (go l') end) fs)
    end.
End PvalInd.

Section MapV.
  Variable fo : float_ops.
  Variable f : pos -> pos.
  Notation pval := (pval fo).
  Notation pentry := (pentry fo).
  Notation pfield := (pfield fo).
  Notation psymtab := (psymtab fo).
  Notation pstate := (pstate fo).

  Fixpoint map_v (v : pval) : pval :=
    match v with
    | QList l => QList (map (fun e => (map_v (fst e), f (snd e))) l)
    | QTuple fs => QTuple (map (fun kv => (fst kv, (map_v (fst (snd kv)), (f (fst (snd (snd kv))), f (snd (snd (snd kv))))))) fs)
    | QFunc ptr bs snap => QFunc ptr bs (map (fun kv => (fst kv, (map_v (fst (snd kv)), f (snd (snd kv))))) snap)
    | QMod ptr rp fs =>
      QMod ptr rp (map (fun kv => (fst kv, (map_v (fst (snd kv)), (f (fst (snd (snd kv))), f (snd (snd (snd kv))))))) fs)
    | QSym s => QSym s | QInt z => QInt z | QFloat x => QFloat x | QStr s => QStr s | QBool c => QBool c
    | QEmpty => QEmpty | QThunk i => QThunk i
    end.
  Definition map_e (e : pentry) : pentry := (map_v (fst e), f (snd e)).
  Definition map_entries (s : list pentry) : list pentry := map map_e s.
  Definition map_fld (kv : pfield) : pfield :=
    (fst kv, (map_v (fst (snd kv)), (f (fst (snd (snd kv))), f (snd (snd (snd kv)))))).
  Definition map_flds (fs : list pfield) : list pfield := map map_fld fs.
  Definition map_binding (kv : bytes * pentry) : bytes * pentry := (fst kv, map_e (snd kv)).
  Definition map_syms (t : psymtab) : psymtab := map map_binding t.
  Definition map_st (st : pstate) : pstate :=
    {| ppc := ppc st; pstk := map_entries (pstk st); psyms := map_syms (psyms st); pselfs := map_entries (pselfs st) |}.

  Definition map_out {A B : Type} (g : A -> B) (r : pout A) : pout B :=
    match r with
    | POk a => POk (g a) | PErr k p via => PErr k (f p) (map f via)
    | PBug => PBug | PUnsup => PUnsup | PFuel => PFuel
    end.

  Lemma map_out_bind : forall (A B A' B' : Type) (h : A -> A') (g : B -> B') (r : pout A) (k : A -> pout B)
      (r' : pout A') (k' : A' -> pout B'),
    map_out h r = r' ->
    (forall a, r = POk a -> map_out g (k a) = k' (h a)) ->
    map_out g (pbind r k) = pbind r' k'.
  Proof.
    intros A B A' B' h g r k r' k' Hr Hk. subst r'. destruct r as [a|e p via| | |]; simpl; try reflexivity.
    apply Hk. reflexivity.
  Qed.

  Lemma map_out_decorate : forall (A B : Type) (g : A -> B) p (r : pout A),
    map_out g (decorate_call p r) = decorate_call (f p) (map_out g r).
  Proof. intros A B g p r. destruct r; simpl; try reflexivity. now rewrite map_app. Qed.

  Lemma map_out_pout_of : forall (A : Type) k p (r : outcome A),
    map_out (fun a => a) (pout_of k p r) = pout_of k (f p) r.
  Proof. intros A k p r. destruct r; reflexivity. Qed.

  (* erasure does not see the renaming *)
  Lemma erase_map_v : forall v, erase_v (map_v v) = erase_v v.
  Proof.
    induction v as [s|z|x|s|c| |l IH|fs IH|i|ptr bs snap IH|ptr rp fs IH] using pval_ind'; simpl; try reflexivity.
    - f_equal. rewrite map_map. apply map_ext_Forall. eapply Forall_impl; [|exact IH]. intros e He. exact He.
    - f_equal. rewrite map_map. apply map_ext_Forall. eapply Forall_impl; [|exact IH]. intros e He. simpl. now rewrite He.
    - f_equal. rewrite map_map. apply map_ext_Forall. eapply Forall_impl; [|exact IH]. intros e He. simpl. now rewrite He.
    - f_equal. rewrite map_map. apply map_ext_Forall. eapply Forall_impl; [|exact IH]. intros e He. simpl. now rewrite He.
  Qed.

  Lemma erase_map_entries : forall s, erase_entries (map_entries s) = erase_entries s.
  Proof.
    intros s. unfold erase_entries, map_entries. rewrite map_map. apply map_ext. intros e. simpl. apply erase_map_v.
  Qed.

  Lemma map_v_inj : forall w : wval fo, map_v (inj w) = inj w.
  Proof. intros w. destruct w; reflexivity. Qed.

  Lemma map_entries_app : forall a c, map_entries (a ++ c) = map_entries a ++ map_entries c.
  Proof. intros a c. apply map_app. Qed.

  (* ---- stacks, symbol tables ---- *)
  Lemma ppop_map : forall s,
    map_out (fun x : pentry * list pentry => (map_e (fst x), map_entries (snd x))) (ppop fo s)
    = ppop fo (map_entries s).
  Proof. intros s. destruct s as [|e s']; reflexivity. Qed.

  Lemma psym_get_map : forall x (t : psymtab), psym_get x (map_syms t) = option_map map_e (psym_get x t).
  Proof.
    intros x t. induction t as [|[k e] t IH]; simpl; [reflexivity|].
    destruct (bytes_eqb x k); [reflexivity|exact IH].
  Qed.

  Lemma psym_add_map : forall k (e : pentry) (t : psymtab),
    map_syms (psym_add k e t) = psym_add k (map_e e) (map_syms t).
  Proof.
    intros k e t. induction t as [|[k' w] t IH]; simpl; [reflexivity|].
    destruct (bytes_ltb k k'); [reflexivity|]. destruct (bytes_eqb k k'); [reflexivity|].
    simpl. f_equal. exact IH.
  Qed.

  Lemma psym_bound_map : forall x (t : psymtab), psym_bound x (map_syms t) = psym_bound x t.
  Proof. intros x t. unfold psym_bound. rewrite psym_get_map. destruct (psym_get x t); reflexivity. Qed.

  Variable PC : pops.
  Variable strict_ : bool.
  Variable envv : list (bytes * bytes).
  Variable envpos : pos.
  (* the dummy position of the renamed run: [f envpos], or anything at all when there are no environment variables *)
  Variable envpos' : pos.
  Hypothesis Henv : env_tuple_p fo envv envpos' = env_tuple_p fo envv (f envpos).
  Notation C' := (mp f PC).

  Lemma env_tuple_map : map_v (env_tuple_p fo envv envpos) = env_tuple_p fo envv envpos'.
  Proof.
    rewrite Henv. unfold env_tuple_p. simpl. f_equal. rewrite map_map. apply map_ext. intros [k v]. reflexivity.
  Qed.

  (* op_deref only takes the value of the binding *)
  Lemma p_get_binding_map : forall st name,
    option_map (fun e : pentry => map_v (fst e)) (p_get_binding fo envv envpos st name)
    = option_map fst (p_get_binding fo envv envpos' (map_st st) name).
  Proof.
    intros st name. unfold p_get_binding.
    destruct (bytes_eqb name (b "self")).
    - simpl. destruct (pselfs st); reflexivity.
    - destruct (bytes_eqb name (b "env")).
      + cbn [psyms map_st]. rewrite psym_get_map. destruct (psym_get name (psyms st)); [reflexivity|].
        cbn [option_map fst]. now rewrite env_tuple_map.
      + cbn [psyms map_st]. rewrite psym_get_map. destruct (psym_get name (psyms st)); reflexivity.
  Qed.

  Lemma p_binding_push_map : forall kres t name v sb p np,
    map_out map_syms (p_binding_push fo kres t name v sb p np)
    = p_binding_push fo kres (map_syms t) name (map_v v) sb (f p) (f np).
  Proof.
    intros kres t name v sb p np. unfold p_binding_push.
    destruct (vm_is_reserved name); [reflexivity|]. rewrite psym_bound_map.
    destruct (psym_bound name t && sb); [reflexivity|]. simpl. now rewrite psym_add_map.
  Qed.

  Lemma pfld_get_map : forall k (fs : list pfield), pfld_get fo k (map_flds fs) = option_map map_v (pfld_get fo k fs).
  Proof.
    intros k fs. induction fs as [|[k' [v pp]] fs IH]; simpl; [reflexivity|].
    destruct (bytes_eqb k' k); [reflexivity|exact IH].
  Qed.

  Lemma p_index_map : forall safe l r rp p,
    map_out map_e (p_index fo safe l r rp p) = p_index fo safe (map_v l) (map_v r) (f rp) (f p).
  Proof.
    intros safe l r rp p. unfold p_index.
    assert (Hmiss : map_out map_e (if safe then POk (QEmpty, p) else PErr KIndex p [])
                    = (if safe then POk (QEmpty, f p) else PErr KIndex (f p) [])) by (destruct safe; reflexivity).
    destruct r; simpl; try exact Hmiss.
    - destruct l; simpl; try exact Hmiss.
      rewrite map_length.
      destruct (Z.ltb z (Z.of_nat (List.length l)) && Z.leb 0 z); [|exact Hmiss].
      rewrite nth_error_map. destruct (nth_error l (Z.to_nat z)); reflexivity.
    - destruct l; simpl; try exact Hmiss.
      fold (map_flds fs). fold map_fld. rewrite pfld_get_map. destruct (pfld_get fo s fs); [reflexivity|exact Hmiss].
  Qed.

  Lemma p_exist_map : forall l r lp rp,
    map_out map_v (p_exist fo l r lp rp) = p_exist fo (map_v l) (map_v r) (f lp) (f rp).
  Proof.
    intros l r lp rp. unfold p_exist. destruct l; simpl; try reflexivity.
    - destruct r; reflexivity.
    - fold map_e. fold (map_entries l). rewrite erase_map_entries, erase_map_v.
      destruct (list_has fo (erase_entries l) (erase_v r)); reflexivity.
    - destruct r; simpl; try reflexivity.
      fold map_fld. fold (map_flds fs). rewrite pfld_get_map. destruct (pfld_get fo s fs); reflexivity.
  Qed.

  Lemma p_range_map : forall a s z p,
    map_out map_v (p_range fo a s z p) = p_range fo (map_v a) (map_v s) (map_v z) (f p).
  Proof.
    intros a s z p. unfold p_range.
    destruct a; try (destruct s; destruct z; reflexivity).
    destruct s; destruct z; simpl; try reflexivity.
    - destruct (Z.leb z1 0); [reflexivity|]. simpl. f_equal. f_equal. rewrite map_map. apply map_ext.
      intros v. destruct v; reflexivity.
    - simpl. f_equal. f_equal. rewrite map_map. apply map_ext. intros v. destruct v; reflexivity.
  Qed.

  Lemma pcompatible_map : forall a c : pval, pcompatible (map_v a) (map_v c) = pcompatible a c.
  Proof. intros a c. unfold pcompatible. now rewrite !erase_map_v. Qed.

  Lemma p_merge_field_map : forall (fs : list pfield) k np v vp,
    map_out map_flds (p_merge_field fs k np v vp) = p_merge_field (map_flds fs) k (f np) (map_v v) (f vp).
  Proof.
    intros fs k np v vp. induction fs as [|[k' [w [np' vp']]] fs IH]; simpl; [reflexivity|].
    destruct (bytes_eqb k' k).
    - rewrite pcompatible_map. destruct (pcompatible w v); reflexivity.
    - eapply map_out_bind; [exact IH|]. intros a _. reflexivity.
  Qed.

  Lemma p_merge_fields_map : forall ov base : list pfield,
    map_out map_flds (p_merge_fields base ov) = p_merge_fields (map_flds base) (map_flds ov).
  Proof.
    intros ov. induction ov as [|[k [v [np vp]]] ov IH]; intros base; simpl; [reflexivity|].
    eapply map_out_bind; [apply p_merge_field_map|]. intros a _. apply IH.
  Qed.

  Lemma arith_map : forall o l r rp,
    map_out map_v (p_arith fo o l r rp) = p_arith fo o (map_v l) (map_v r) (f rp).
  Proof.
    intros o l r rp. unfold p_arith.
    assert (Hgen : map_out map_v (pdo w <- pout_of KArith rp (vm_arith fo o (erase_v l) (erase_v r)); POk (inj w))
                   = (pdo w <- pout_of KArith (f rp) (vm_arith fo o (erase_v (map_v l)) (erase_v (map_v r))); POk (inj w))).
    { rewrite !erase_map_v. destruct (vm_arith fo o (erase_v l) (erase_v r)) as [w| | | |]; simpl; try reflexivity.
      now rewrite map_v_inj. }
    destruct l; try exact Hgen.
    destruct r; try exact Hgen.
    destruct o; simpl; try reflexivity. f_equal. f_equal. apply map_app.
  Qed.

  Section Nested.
    Variable prun : pstate -> pout pstate.
    Variable prun' : pstate -> pout pstate.
    Hypothesis Hrun : forall st, map_out map_st (prun st) = prun' (map_st st).

    Lemma p_bind_args_map : forall names s t,
      map_out (fun x : list pentry * psymtab => (map_entries (fst x), map_syms (snd x))) (p_bind_args fo names s t)
      = p_bind_args fo names (map_entries s) (map_syms t).
    Proof.
      intros names. induction names as [|nm names IH]; intros s t; simpl; [reflexivity|].
      destruct s as [|[v vp] s']; simpl; [reflexivity|].
      eapply map_out_bind; [apply p_binding_push_map|]. intros t' _. apply IH.
    Qed.

    Lemma p_fcall_impl_map : forall ptr bs snap s,
      map_out (fun x : pentry * list pentry => (map_e (fst x), map_entries (snd x)))
              (p_fcall_impl fo prun ptr bs snap s)
      = p_fcall_impl fo prun' ptr bs (map_syms snap) (map_entries s).
    Proof.
      intros ptr bs snap s. unfold p_fcall_impl.
      eapply map_out_bind; [apply p_bind_args_map|]. intros [s' t] _. simpl.
      eapply map_out_bind; [apply Hrun|]. intros fin _. simpl.
      eapply map_out_bind; [apply ppop_map|]. intros [e rest] _. reflexivity.
    Qed.

    Lemma p_op_fcall_map : forall st p,
      map_out map_st (p_op_fcall fo prun st p) = p_op_fcall fo prun' (map_st st) (f p).
    Proof.
      intros st p. unfold p_op_fcall.
      eapply map_out_bind; [apply ppop_map|]. intros [[fv fp] s1] _. simpl.
      eapply map_out_bind; [apply ppop_map|]. intros [[a ap] s2] _. simpl.
      destruct fv; simpl; try reflexivity.
      eapply map_out_bind with (h := fun x : unit => x).
      - destruct a; simpl; try reflexivity.
        destruct (Z.ltb (Z.of_nat (List.length bindings)) z); [reflexivity|].
        destruct (Z.ltb z (Z.of_nat (List.length bindings))); reflexivity.
      - intros _ _.
        eapply map_out_bind.
        + rewrite map_out_decorate. f_equal. apply p_fcall_impl_map.
        + intros [[v vp] s3] _. reflexivity.
    Qed.

    Lemma pjump_map : forall st j, map_out map_st (pjump fo PC st j) = pjump fo C' (map_st st) j.
    Proof.
      intros st j. unfold pjump. rewrite mp_length. change (ppc (map_st st)) with (ppc st).
      destruct (Nat.ltb _ _); reflexivity.
    Qed.

    Lemma ppush_next_map : forall st s,
      map_out map_st (ppush_next fo st s) = ppush_next fo (map_st st) (map_entries s).
    Proof. reflexivity. Qed.

    Lemma p_op_new_scope_map : forall st j,
      map_out map_st (p_op_new_scope fo PC prun st j) = p_op_new_scope fo C' prun' (map_st st) j.
    Proof.
      intros st j. unfold p_op_new_scope.
      eapply map_out_bind; [apply Hrun|]. intros fin _. simpl.
      eapply map_out_bind; [apply ppop_map|]. intros [e rest] _. simpl.
      apply (pjump_map (pwith_stk fo st (e :: pstk st))).
    Qed.

    Lemma filter_syms_map : forall (keep : bytes -> bool) (t : psymtab),
      map map_fld (map (fun '(k, (v, p)) => (k, (v, (p, p)))) (filter (fun '(k, _) => keep k) t))
      = map (fun '(k, (v, p)) => (k, (v, (p, p)))) (filter (fun '(k, _) => keep k) (map_syms t)).
    Proof.
      intros keep t. induction t as [|[k [v p]] t IH]; simpl; [reflexivity|].
      destruct (keep k); simpl; [f_equal|]; exact IH.
    Qed.

    Lemma p_symbols_to_tuple_map : forall t im,
      map_v (p_symbols_to_tuple fo t im) = p_symbols_to_tuple fo (map_syms t) im.
    Proof.
      intros t im. unfold p_symbols_to_tuple. cbn [map_v]. f_equal.
      exact (filter_syms_map (fun k => im || negb (bytes_eqb k (b "mod"))) t).
    Qed.

    Lemma p_op_copy_map : forall st p,
      map_out map_st (p_op_copy fo PC prun st p) = p_op_copy fo C' prun' (map_st st) (f p).
    Proof.
      intros st p. unfold p_op_copy.
      eapply map_out_bind; [apply ppop_map|]. intros [[ov ovp] s1] _. simpl.
      eapply map_out_bind; [apply ppop_map|]. intros [[tg tgp] s2] _. simpl.
      destruct ov; simpl; try reflexivity.
      destruct tg; simpl; try reflexivity.
      - eapply map_out_bind; [apply p_merge_fields_map|]. intros flds' _. reflexivity.
      - eapply map_out_bind; [apply p_merge_fields_map|]. intros flds1 _.
        eapply map_out_bind; [apply (p_merge_field_map flds1 (b "this") p (QMod ptr result_ptr flds) ovp)|].
        intros flds2 _.
        eapply map_out_bind; [rewrite map_out_decorate; f_equal; apply Hrun|]. intros fin _.
        destruct result_ptr as [rp|].
        + rewrite mp_length. destruct (Nat.ltb _ _); [|reflexivity].
          eapply map_out_bind; [rewrite map_out_decorate; f_equal; apply Hrun|]. intros fin2 _.
          eapply map_out_bind; [apply ppop_map|]. intros [e rest] _. reflexivity.
        + rewrite ppush_next_map. unfold map_entries at 1. rewrite map_cons. unfold map_e at 1. cbn [fst snd].
          now rewrite p_symbols_to_tuple_map.
    Qed.

    Lemma p_arity_ok_map : forall bs n fp,
      map_out (fun x : unit => x) (p_arity_ok bs n fp) = p_arity_ok bs n (f fp).
    Proof. intros bs n fp. unfold p_arity_ok. destruct (Nat.eqb (List.length bs) n); reflexivity. Qed.

    Section Callback.
      Variables (ptr : nat) (bs : list bytes) (snap : psymtab) (hp : pos).

      Lemma p_call_with_map : forall args s,
        map_out (fun x : pentry * list pentry => (map_e (fst x), map_entries (snd x)))
                (p_call_with fo prun ptr bs snap hp args s)
        = p_call_with fo prun' ptr bs (map_syms snap) (f hp) (map_entries args) (map_entries s).
      Proof.
        intros args s. unfold p_call_with. rewrite map_out_decorate, <- map_entries_app. f_equal.
        apply p_fcall_impl_map.
      Qed.

      Lemma p_map_list_map : forall elems s,
        map_out (fun x : list pentry * list pentry => (map_entries (fst x), map_entries (snd x)))
                (p_map_list fo prun ptr bs snap hp elems s)
        = p_map_list fo prun' ptr bs (map_syms snap) (f hp) (map_entries elems) (map_entries s).
      Proof.
        intros elems. induction elems as [|e rest IH]; intros s; simpl; [reflexivity|].
        eapply map_out_bind; [apply (p_call_with_map [e] s)|]. intros [r s1] _. simpl.
        eapply map_out_bind; [apply IH|]. intros [rs s2] _. reflexivity.
      Qed.

      Lemma p_map_tuple_map : forall flds s,
        map_out (fun x : list pfield * list pentry => (map_flds (fst x), map_entries (snd x)))
                (p_map_tuple fo prun ptr bs snap hp flds s)
        = p_map_tuple fo prun' ptr bs (map_syms snap) (f hp) (map_flds flds) (map_entries s).
      Proof.
        intros flds. induction flds as [|[k [v [np vp]]] rest IH]; intros s; simpl; [reflexivity|].
        eapply map_out_bind; [apply (p_call_with_map [(v, vp); (QStr k, np)] s)|]. intros [[r rp] s1] _.
        simpl.
        destruct r; simpl; try apply IH.
        destruct l as [|[n np1] [|[v' vp1] [|x l]]]; simpl; try reflexivity.
        destruct n; simpl; try reflexivity.
        eapply map_out_bind; [apply IH|]. intros [rs s2] _. reflexivity.
      Qed.

      Lemma p_map_str_map : forall lp chars s,
        map_out (fun x : bytes * list pentry => (fst x, map_entries (snd x)))
                (p_map_str fo prun ptr bs snap hp lp chars s)
        = p_map_str fo prun' ptr bs (map_syms snap) (f hp) (f lp) chars (map_entries s).
      Proof.
        intros lp chars. induction chars as [|c rest IH]; intros s; simpl; [reflexivity|].
        eapply map_out_bind; [apply (p_call_with_map [(QStr c, lp)] s)|]. intros [[r rp] s1] _.
        simpl.
        destruct r; simpl; try reflexivity.
        eapply map_out_bind; [apply IH|]. intros [rs s2] _. reflexivity.
      Qed.

      Lemma pkeeps_map : forall v, pkeeps fo (map_v v) = pkeeps fo v.
      Proof. intros v. unfold pkeeps. now rewrite erase_map_v. Qed.

      Lemma p_filter_list_map : forall elems s,
        map_out (fun x : list pentry * list pentry => (map_entries (fst x), map_entries (snd x)))
                (p_filter_list fo prun ptr bs snap hp elems s)
        = p_filter_list fo prun' ptr bs (map_syms snap) (f hp) (map_entries elems) (map_entries s).
      Proof.
        intros elems. induction elems as [|e rest IH]; intros s; simpl; [reflexivity|].
        eapply map_out_bind; [apply (p_call_with_map [e] s)|]. intros [r s1] _. simpl.
        eapply map_out_bind; [apply IH|]. intros [rs s2] _. simpl. rewrite pkeeps_map.
        destruct (pkeeps fo (fst r)); reflexivity.
      Qed.

      Lemma p_filter_tuple_map : forall flds s,
        map_out (fun x : list pfield * list pentry => (map_flds (fst x), map_entries (snd x)))
                (p_filter_tuple fo prun ptr bs snap hp flds s)
        = p_filter_tuple fo prun' ptr bs (map_syms snap) (f hp) (map_flds flds) (map_entries s).
      Proof.
        intros flds. induction flds as [|[k [v [np vp]]] rest IH]; intros s; simpl; [reflexivity|].
        eapply map_out_bind; [apply (p_call_with_map [(v, vp); (QStr k, np)] s)|]. intros [r s1] _. simpl.
        eapply map_out_bind; [apply IH|]. intros [rs s2] _. simpl. rewrite pkeeps_map.
        destruct (pkeeps fo (fst r)); reflexivity.
      Qed.

      Lemma p_filter_str_map : forall lp chars s,
        map_out (fun x : bytes * list pentry => (fst x, map_entries (snd x)))
                (p_filter_str fo prun ptr bs snap hp lp chars s)
        = p_filter_str fo prun' ptr bs (map_syms snap) (f hp) (f lp) chars (map_entries s).
      Proof.
        intros lp chars. induction chars as [|c rest IH]; intros s; simpl; [reflexivity|].
        eapply map_out_bind; [apply (p_call_with_map [(QStr c, lp)] s)|]. intros [r s1] _. simpl.
        eapply map_out_bind; [apply IH|]. intros [rs s2] _. simpl. rewrite pkeeps_map.
        destruct (pkeeps fo (fst r)); reflexivity.
      Qed.

      Lemma p_reduce_list_map : forall elems acc s,
        map_out (fun x : pentry * list pentry => (map_e (fst x), map_entries (snd x)))
                (p_reduce_list fo prun ptr bs snap hp elems acc s)
        = p_reduce_list fo prun' ptr bs (map_syms snap) (f hp) (map_entries elems) (map_e acc) (map_entries s).
      Proof.
        intros elems. induction elems as [|e rest IH]; intros acc s; simpl; [reflexivity|].
        eapply map_out_bind; [apply (p_call_with_map [e; acc] s)|]. intros [acc' s1] _. simpl. apply IH.
      Qed.

      Lemma p_reduce_tuple_map : forall flds acc s,
        map_out (fun x : pentry * list pentry => (map_e (fst x), map_entries (snd x)))
                (p_reduce_tuple fo prun ptr bs snap hp flds acc s)
        = p_reduce_tuple fo prun' ptr bs (map_syms snap) (f hp) (map_flds flds) (map_e acc) (map_entries s).
      Proof.
        intros flds. induction flds as [|[k [v [np vp]]] rest IH]; intros acc s; simpl; [reflexivity|].
        eapply map_out_bind; [apply (p_call_with_map [(v, vp); (QStr k, np); acc] s)|]. intros [acc' s1] _. simpl.
        apply IH.
      Qed.

      Lemma p_reduce_str_map : forall lp chars acc s,
        map_out (fun x : pentry * list pentry => (map_e (fst x), map_entries (snd x)))
                (p_reduce_str fo prun ptr bs snap hp lp chars acc s)
        = p_reduce_str fo prun' ptr bs (map_syms snap) (f hp) (f lp) chars (map_e acc) (map_entries s).
      Proof.
        intros lp chars. induction chars as [|c rest IH]; intros acc s; simpl; [reflexivity|].
        eapply map_out_bind; [apply (p_call_with_map [(QStr c, lp); acc] s)|]. intros [acc' s1] _. simpl.
        apply IH.
      Qed.
    End Callback.

    Lemma p_hook_map_map : forall st p, map_out map_st (p_hook_map fo prun st p) = p_hook_map fo prun' (map_st st) (f p).
    Proof.
      intros st p. unfold p_hook_map. destruct st as [pc0 s syms0 selfs0]. simpl.
      destruct s as [|[t tp] [|[fv fp] s]]; simpl; try reflexivity.
      destruct fv; simpl; try reflexivity.
      destruct t; simpl; try reflexivity.
      - eapply map_out_bind; [apply p_arity_ok_map|]. intros _ _.
        eapply map_out_bind; [apply p_map_str_map|]. intros [rs s'] _. reflexivity.
      - eapply map_out_bind; [apply p_arity_ok_map|]. intros _ _.
        eapply map_out_bind; [apply p_map_list_map|]. intros [rs s'] _. reflexivity.
      - eapply map_out_bind; [apply p_arity_ok_map|]. intros _ _.
        eapply map_out_bind; [apply p_map_tuple_map|]. intros [rs s'] _. reflexivity.
    Qed.

    Lemma p_hook_filter_map : forall st p,
      map_out map_st (p_hook_filter fo prun st p) = p_hook_filter fo prun' (map_st st) (f p).
    Proof.
      intros st p. unfold p_hook_filter. destruct st as [pc0 s syms0 selfs0]. simpl.
      destruct s as [|[t tp] [|[fv fp] s]]; simpl; try reflexivity.
      destruct fv; simpl; try reflexivity.
      destruct t; simpl; try reflexivity.
      - eapply map_out_bind; [apply p_arity_ok_map|]. intros _ _.
        eapply map_out_bind; [apply p_filter_str_map|]. intros [rs s'] _. reflexivity.
      - eapply map_out_bind; [apply p_arity_ok_map|]. intros _ _.
        eapply map_out_bind; [apply p_filter_list_map|]. intros [rs s'] _. reflexivity.
      - eapply map_out_bind; [apply p_arity_ok_map|]. intros _ _.
        eapply map_out_bind; [apply p_filter_tuple_map|]. intros [rs s'] _. reflexivity.
    Qed.

    Lemma p_hook_reduce_map : forall st p,
      map_out map_st (p_hook_reduce fo prun st p) = p_hook_reduce fo prun' (map_st st) (f p).
    Proof.
      intros st p. unfold p_hook_reduce. destruct st as [pc0 s syms0 selfs0]. simpl.
      destruct s as [|[t tp] [|acc [|[fv fp] s]]]; simpl; try reflexivity.
      destruct fv; simpl; try reflexivity.
      destruct t; simpl; try reflexivity.
      - eapply map_out_bind; [apply p_arity_ok_map|]. intros _ _.
        eapply map_out_bind; [apply p_reduce_str_map|]. intros [r s'] _. reflexivity.
      - eapply map_out_bind; [apply p_arity_ok_map|]. intros _ _.
        eapply map_out_bind; [apply p_reduce_list_map|]. intros [r s'] _. reflexivity.
      - eapply map_out_bind; [apply p_arity_ok_map|]. intros _ _.
        eapply map_out_bind; [apply p_reduce_tuple_map|]. intros [r s'] _. reflexivity.
    Qed.

    Lemma p_op_runtime_map : forall h st p,
      map_out map_st (p_op_runtime fo prun h st p) = p_op_runtime fo prun' h (map_st st) (f p).
    Proof.
      intros h st p. destruct h; simpl; try reflexivity.
      - apply p_hook_map_map.
      - apply p_hook_filter_map.
      - apply p_hook_reduce_map.
      - destruct st as [pc0 s syms0 selfs0]. simpl.
        destruct s as [|[l lp] s]; simpl; [reflexivity|].
        destruct l; simpl; try reflexivity.
        destruct s as [|[r rp] s]; simpl; [reflexivity|]. destruct r; reflexivity.
      - destruct st as [pc0 s syms0 selfs0]. simpl.
        destruct s as [|[a ap] [|[st1 sp] [|[z zp] s]]]; simpl; try reflexivity.
        eapply map_out_bind; [apply p_range_map|]. intros v _. reflexivity.
      - destruct st as [pc0 s syms0 selfs0]. simpl.
        destruct s as [|[v vp] [|[e ep] s]]; simpl; try reflexivity. destruct e; reflexivity.
    Qed.

    Lemma pexec_instr_map : forall i p st,
      map_out map_st (pexec_instr fo PC strict_ envv envpos prun i p st)
      = pexec_instr fo C' strict_ envv envpos' prun' i (f p) (map_st st).
    Proof.
      intros i p st. unfold pexec_instr.
      destruct i.
      - (* IBind *)
        eapply map_out_bind; [apply ppop_map|]. intros [[v vp] s1] _. simpl.
        eapply map_out_bind; [apply ppop_map|]. intros [[n np] s2] _. simpl.
        destruct n; simpl; try reflexivity.
        eapply map_out_bind; [apply p_binding_push_map|]. intros t _. reflexivity.
      - (* IBindOver *)
        eapply map_out_bind; [apply ppop_map|]. intros [[v vp] s1] _. simpl.
        eapply map_out_bind; [apply ppop_map|]. intros [[n np] s2] _. simpl.
        destruct n; simpl; try reflexivity.
        eapply map_out_bind; [apply p_binding_push_map|]. intros t _. reflexivity.
      - (* IPop *)
        eapply map_out_bind; [apply ppop_map|]. intros [e s1] _. reflexivity.
      - (* INewScope *) apply p_op_new_scope_map.
      - (* IAdd *)
        eapply map_out_bind; [apply ppop_map|]. intros [[l lp] s1] _. simpl.
        eapply map_out_bind; [apply ppop_map|]. intros [[r rp] s2] _. simpl.
        eapply map_out_bind; [apply arith_map|]. intros v _. reflexivity.
      - eapply map_out_bind; [apply ppop_map|]. intros [[l lp] s1] _. simpl.
        eapply map_out_bind; [apply ppop_map|]. intros [[r rp] s2] _. simpl.
        eapply map_out_bind; [apply arith_map|]. intros v _. reflexivity.
      - eapply map_out_bind; [apply ppop_map|]. intros [[l lp] s1] _. simpl.
        eapply map_out_bind; [apply ppop_map|]. intros [[r rp] s2] _. simpl.
        eapply map_out_bind; [apply arith_map|]. intros v _. reflexivity.
      - eapply map_out_bind; [apply ppop_map|]. intros [[l lp] s1] _. simpl.
        eapply map_out_bind; [apply ppop_map|]. intros [[r rp] s2] _. simpl.
        eapply map_out_bind; [apply arith_map|]. intros v _. reflexivity.
      - eapply map_out_bind; [apply ppop_map|]. intros [[l lp] s1] _. simpl.
        eapply map_out_bind; [apply ppop_map|]. intros [[r rp] s2] _. simpl.
        eapply map_out_bind; [apply arith_map|]. intros v _. reflexivity.
      - (* IEqual *)
        eapply map_out_bind; [apply ppop_map|]. intros [[l lp] s1] _. simpl.
        eapply map_out_bind; [apply ppop_map|]. intros [[r rp] s2] _. simpl.
        rewrite pcompatible_map, !erase_map_v.
        destruct (pcompatible l r); [|reflexivity].
        destruct (weq (erase_v l) (erase_v r)); reflexivity.
      - (* IGt *)
        eapply map_out_bind; [apply ppop_map|]. intros [[l lp] s1] _. simpl.
        eapply map_out_bind; [apply ppop_map|]. intros [[r rp] s2] _. simpl.
        rewrite !erase_map_v.
        eapply map_out_bind; [apply map_out_pout_of|]. intros w _.
        rewrite ppush_next_map. unfold map_entries at 1. rewrite map_cons. unfold map_e at 1. cbn [fst snd].
        now rewrite map_v_inj.
      - eapply map_out_bind; [apply ppop_map|]. intros [[l lp] s1] _. simpl.
        eapply map_out_bind; [apply ppop_map|]. intros [[r rp] s2] _. simpl.
        rewrite !erase_map_v.
        eapply map_out_bind; [apply map_out_pout_of|]. intros w _.
        rewrite ppush_next_map. unfold map_entries at 1. rewrite map_cons. unfold map_e at 1. cbn [fst snd].
        now rewrite map_v_inj.
      - eapply map_out_bind; [apply ppop_map|]. intros [[l lp] s1] _. simpl.
        eapply map_out_bind; [apply ppop_map|]. intros [[r rp] s2] _. simpl.
        rewrite !erase_map_v.
        eapply map_out_bind; [apply map_out_pout_of|]. intros w _.
        rewrite ppush_next_map. unfold map_entries at 1. rewrite map_cons. unfold map_e at 1. cbn [fst snd].
        now rewrite map_v_inj.
      - eapply map_out_bind; [apply ppop_map|]. intros [[l lp] s1] _. simpl.
        eapply map_out_bind; [apply ppop_map|]. intros [[r rp] s2] _. simpl.
        rewrite !erase_map_v.
        eapply map_out_bind; [apply map_out_pout_of|]. intros w _.
        rewrite ppush_next_map. unfold map_entries at 1. rewrite map_cons. unfold map_e at 1. cbn [fst snd].
        now rewrite map_v_inj.
      - (* INot *)
        eapply map_out_bind; [apply ppop_map|]. intros [[v vp] s1] _. simpl.
        destruct v; reflexivity.
      - (* IVal *) destruct l; reflexivity.
      - (* ICast *)
        eapply map_out_bind; [apply ppop_map|]. intros [[v vp] s1] _. simpl.
        rewrite erase_map_v.
        eapply map_out_bind; [apply map_out_pout_of|]. intros w _.
        rewrite ppush_next_map. unfold map_entries at 1. rewrite map_cons. unfold map_e at 1. cbn [fst snd].
        now rewrite map_v_inj.
      - (* ISym *) reflexivity.
      - (* IDeRef *)
        pose proof (p_get_binding_map st s) as Hb.
        destruct (p_get_binding fo envv envpos st s) as [[v vp]|];
          destruct (p_get_binding fo envv envpos' (map_st st) s) as [[v' vp']|]; simpl in Hb; try discriminate.
        * inversion Hb as [Hv]. reflexivity.
        * reflexivity.
      - (* IInitTuple *) reflexivity.
      - (* IField *)
        eapply map_out_bind; [apply ppop_map|]. intros [[v vp] s1] _. simpl.
        eapply map_out_bind; [apply ppop_map|]. intros [[n np] s2] _. simpl.
        destruct n; simpl; try reflexivity.
        + eapply map_out_bind; [apply ppop_map|]. intros [[t tp] s3] _. simpl.
          destruct t; simpl; try reflexivity.
          eapply map_out_bind; [apply p_merge_field_map|]. intros flds' _. reflexivity.
        + eapply map_out_bind; [apply ppop_map|]. intros [[t tp] s3] _. simpl.
          destruct t; simpl; try reflexivity.
          eapply map_out_bind; [apply p_merge_field_map|]. intros flds' _. reflexivity.
      - (* IInitList *) reflexivity.
      - (* IElement *)
        eapply map_out_bind; [apply ppop_map|]. intros [[v vp] s1] _. simpl.
        eapply map_out_bind; [apply ppop_map|]. intros [[l lp] s2] _. simpl.
        destruct l; simpl; try reflexivity.
        unfold ppush_next, pnext, pwith_stk, pwith_pc, map_st. simpl. unfold map_e at 1. simpl.
        now rewrite map_app.
      - (* ICp *) apply p_op_copy_map.
      - (* IBang *)
        eapply map_out_bind; [apply ppop_map|]. intros [[v vp] s1] _. simpl.
        destruct v; reflexivity.
      - (* IJump *) apply pjump_map.
      - (* IJumpIfTrue *)
        eapply map_out_bind; [apply ppop_map|]. intros [[v vp] s1] _. simpl.
        destruct v; simpl; try reflexivity.
        destruct v; [apply (pjump_map (pwith_stk fo st s1))|reflexivity].
      - (* IJumpIfFalse *)
        eapply map_out_bind; [apply ppop_map|]. intros [[v vp] s1] _. simpl.
        destruct v; simpl; try reflexivity.
        destruct v; [reflexivity|apply (pjump_map (pwith_stk fo st s1))].
      - (* ISelectJump *)
        eapply map_out_bind; [apply ppop_map|]. intros [[fv fp] s1] _. simpl.
        eapply map_out_bind; [apply ppop_map|]. intros [[se sp] s2] _. simpl.
        rewrite !erase_map_v.
        destruct (select_matches fo (erase_v fv) (erase_v se)); [reflexivity|].
        apply (pjump_map (pwith_stk fo st ((se, sp) :: s2))).
      - (* IAnd *)
        eapply map_out_bind; [apply ppop_map|]. intros [[v vp] s1] _. simpl.
        destruct v; simpl; try reflexivity.
        destruct v; [reflexivity|apply (pjump_map (pwith_stk fo st ((QBool false, vp) :: s1)))].
      - (* IOr *)
        eapply map_out_bind; [apply ppop_map|]. intros [[v vp] s1] _. simpl.
        destruct v; simpl; try reflexivity.
        destruct v; [apply (pjump_map (pwith_stk fo st ((QBool true, vp) :: s1)))|reflexivity].
      - (* IIndex *)
        eapply map_out_bind; [apply ppop_map|]. intros [[r rp] s1] _. simpl.
        eapply map_out_bind; [apply ppop_map|]. intros [[l lp] s2] _. simpl.
        eapply map_out_bind; [apply p_index_map|]. intros e _. reflexivity.
      - (* ISafeIndex *)
        eapply map_out_bind; [apply ppop_map|]. intros [[r rp] s1] _. simpl.
        eapply map_out_bind; [apply ppop_map|]. intros [[l lp] s2] _. simpl.
        eapply map_out_bind; [apply p_index_map|]. intros e _. reflexivity.
      - (* IExist *)
        eapply map_out_bind; [apply ppop_map|]. intros [[r rp] s1] _. simpl.
        eapply map_out_bind; [apply ppop_map|]. intros [[l lp] s2] _. simpl.
        eapply map_out_bind; [apply p_exist_map|]. intros v _. reflexivity.
      - (* INoop *) reflexivity.
      - (* IInitThunk *) apply (pjump_map (pwith_stk fo st ((QThunk (ppc st), p) :: pstk st))).
      - (* IModule *)
        eapply map_out_bind; [apply ppop_map|]. intros [[m mp0] s1] _. simpl.
        destruct m; simpl; try reflexivity.
        + apply (pjump_map (pwith_stk fo st ((QMod (ppc st) None fs, p) :: s1))).
        + eapply map_out_bind; [apply ppop_map|]. intros [[t tp] s2] _. simpl.
          destruct t; simpl; try reflexivity.
          apply (pjump_map (pwith_stk fo st ((QMod (ppc st) (Some idx) fs, p) :: s2))).
      - (* IFunc *)
        eapply map_out_bind; [apply ppop_map|]. intros [[l lp] s1] _. simpl.
        destruct l; simpl; try reflexivity.
        eapply map_out_bind with (h := fun x : list bytes => x).
        + induction l as [|[v vp] l IH]; simpl; [reflexivity|].
          destruct v; simpl; try reflexivity.
          eapply map_out_bind; [exact IH|]. intros r _. reflexivity.
        + intros names _. apply (pjump_map (pwith_stk fo st ((QFunc (ppc st) (rev names) (psyms st), p) :: s1))).
      - (* IReturn *) reflexivity.
      - (* IFCall *) apply p_op_fcall_map.
      - (* ITyp *)
        eapply map_out_bind; [apply ppop_map|]. intros [[v vp] s1] _. simpl. rewrite erase_map_v. reflexivity.
      - (* IRuntime *) apply p_op_runtime_map.
      - (* IRender *)
        eapply map_out_bind; [apply ppop_map|]. intros [[v vp] s1] _. simpl. rewrite erase_map_v.
        destruct (wrender (erase_v v)); reflexivity.
      - (* IPushSelf *)
        eapply map_out_bind; [apply ppop_map|]. intros [[v vp] s1] _. reflexivity.
      - (* IPopSelf *)
        unfold map_st; simpl. f_equal. f_equal. destruct (pselfs st); reflexivity.
      - (* ITranslatorPanic *) reflexivity.
    Qed.
  End Nested.

  Theorem pvm_run_map : forall fuel st,
    map_out map_st (pvm_run fo PC strict_ envv envpos fuel st)
    = pvm_run fo (mp f PC) strict_ envv envpos' fuel (map_st st).
  Proof.
    intros fuel. induction fuel as [|n IH]; intros st; simpl; [reflexivity|].
    unfold mp at 1. rewrite nth_error_map. change (ppc (map_st st)) with (ppc st). unfold PTranslate.pop.
    destruct (nth_error _ _) as [[i p]|]; simpl; [|reflexivity].
    destruct i; try reflexivity;
      (eapply map_out_bind; [apply pexec_instr_map; exact IH|]; intros st' _; apply IH).
  Qed.
End MapV.

Arguments map_v {fo}. Arguments map_e {fo}. Arguments map_st {fo}. Arguments map_syms {fo}. Arguments map_entries {fo}.
Arguments map_flds {fo}.
