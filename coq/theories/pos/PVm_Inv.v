(* The invariant behind (B) and (C): where the positions in the machine state come from.
   Three classes of positions, X <= U <= N:
     X  positions allowed on the value stack of the frame under consideration (and for the ops it executes),
     U  positions allowed on the value stack of any frame (the positions of the ops of the code),
     N  positions allowed INSIDE values and on bindings / the self stack (U plus the dummy of the `env` tuple).
   (Since /repo commit 5138c88 a module's out-expression hands its result back at the position of the instantiation, so
   no position of another frame ever reaches a frame's stack.)
   One step of the machine preserves "the state is made of such positions" and an error it raises satisfies
   [err_ok]:  without VIA entries the primary position is in X, except for the kinds that read a position stored
   inside a value (KReservedArg, KFieldType: N) or report a callback's result (KMapTuple, KMapStr: U);  with VIA
   entries the outermost one (the call site in THIS frame) is in X, everything else in U. *)
From Ucg Require Import pos.PTranslate_Lemmas pos.PVm pos.PVm_Erase pos.PVm_Map.

#[local] Arguments p_symbols_to_tuple : simpl never.

Section Inv.
  Variable fo : float_ops.
  Notation pval := (pval fo).
  Notation pentry := (pentry fo).
  Notation pfield := (pfield fo).
  Notation psymtab := (psymtab fo).
  Notation pstate := (pstate fo).

  Variables U N : pos -> Prop.
  Hypothesis HUN : forall q, U q -> N q.

  (* every position inside the value is in N *)
  Fixpoint vok (v : pval) : Prop :=
    match v with
    | QList l =>
      (fix go (l : list (pval * pos)) : Prop :=
         match l with [] => True | e :: l' => (vok (fst e) /\ N (snd e)) /\ go l' end) l
    | QTuple fs =>
      (fix go (l : list (bytes * (pval * (pos * pos)))) : Prop :=
         match l with
         | [] => True
         | kv :: l' => (vok (fst (snd kv)) /\ N (fst (snd (snd kv))) /\ N (snd (snd (snd kv)))) /\ go l'
         end) fs
    | QFunc _ _ snap =>
      (fix go (l : list (bytes * (pval * pos))) : Prop :=
         match l with [] => True | kv :: l' => (vok (fst (snd kv)) /\ N (snd (snd kv))) /\ go l' end) snap
    | QMod _ _ fs =>
      (fix go (l : list (bytes * (pval * (pos * pos)))) : Prop :=
         match l with
         | [] => True
         | kv :: l' => (vok (fst (snd kv)) /\ N (fst (snd (snd kv))) /\ N (snd (snd (snd kv)))) /\ go l'
         end) fs
    | _ => True
    end.

  Definition eok (X : pos -> Prop) (e : pentry) : Prop := vok (fst e) /\ X (snd e).
  Definition fok (kv : pfield) : Prop := vok (fst (snd kv)) /\ N (fst (snd (snd kv))) /\ N (snd (snd (snd kv))).
  Definition bok (kv : bytes * pentry) : Prop := eok N (snd kv).

  Lemma vok_list : forall l, vok (QList l) <-> Forall (eok N) l.
  Proof.
    intros l. simpl. induction l as [|e l IH]; [split; intros _; [constructor|exact I]|].
    split.
    - intros [He Hl]. constructor; [exact He|apply IH; exact Hl].
    - intros H. inversion H as [|x y He Hl]. split; [exact He|apply IH; exact Hl].
  Qed.
  Lemma flds_ok : forall fs : list pfield,
    (fix go (l : list (bytes * (pval * (pos * pos)))) : Prop :=
       match l with
       | [] => True
       | kv :: l' => (vok (fst (snd kv)) /\ N (fst (snd (snd kv))) /\ N (snd (snd (snd kv)))) /\ go l'
       end) fs <-> Forall fok fs.
  Proof.
    intros fs. induction fs as [|e l IH]; [split; intros _; [constructor|exact I]|].
    split.
    - intros [He Hl]. constructor; [exact He|apply IH; exact Hl].
    - intros H. inversion H as [|x y He Hl]. split; [exact He|apply IH; exact Hl].
  Qed.
  Lemma vok_tuple : forall fs, vok (QTuple fs) <-> Forall fok fs.
  Proof. intros fs. exact (flds_ok fs). Qed.
  Lemma vok_mod : forall ptr rp fs, vok (QMod ptr rp fs) <-> Forall fok fs.
  Proof. intros ptr rp fs. exact (flds_ok fs). Qed.
  Lemma vok_func : forall ptr bs snap, vok (QFunc ptr bs snap) <-> Forall bok snap.
  Proof.
    intros ptr bs snap. simpl. induction snap as [|e l IH]; [split; intros _; [constructor|exact I]|].
    split.
    - intros [He Hl]. constructor; [exact He|apply IH; exact Hl].
    - intros H. inversion H as [|x y He Hl]. split; [exact He|apply IH; exact Hl].
  Qed.
  #[local] Opaque vok.
  Lemma vok_scalar : forall v, match v with QList _ | QTuple _ | QFunc _ _ _ | QMod _ _ _ => False | _ => True end -> vok v.
  Proof. Transparent vok. intros v H. destruct v; simpl; try exact I; contradiction. Opaque vok. Qed.
  Lemma vok_inj : forall w : wval fo, vok (inj w).
  Proof. intros w. apply vok_scalar. destruct w; exact I. Qed.

  Definition stok (X : pos -> Prop) (st : pstate) : Prop :=
    Forall (eok X) (pstk st) /\ Forall bok (psyms st) /\ Forall (eok N) (pselfs st).

  Definition nested_kind (e : ekind) : Prop := e = KReservedArg \/ e = KFieldType.
  Definition result_kind (e : ekind) : Prop := e = KMapTuple \/ e = KMapStr.
  Definition qok (X : pos -> Prop) (e : ekind) (q : pos) : Prop :=
    X q \/ (nested_kind e /\ N q) \/ (result_kind e /\ U q).
  Definition err_ok (X : pos -> Prop) (e : ekind) (q : pos) (via : list pos) : Prop :=
    match via with
    | [] => qok X e q
    | _ :: _ => qok U e q /\ Forall U via /\ X (last via q)
    end.
  Definition out_ok (X : pos -> Prop) {A : Type} (P : A -> Prop) (r : pout A) : Prop :=
    match r with POk a => P a | PErr e q via => err_ok X e q via | _ => True end.

  Lemma out_ok_bind : forall (X : pos -> Prop) (A B : Type) (PA : A -> Prop) (PB : B -> Prop) (r : pout A) (k : A -> pout B),
    out_ok X PA r -> (forall a, r = POk a -> PA a -> out_ok X PB (k a)) -> out_ok X PB (pbind r k).
  Proof.
    intros X A B PA PB r k Hr Hk. destruct r as [a|e q via| | |]; simpl; try exact I; [|exact Hr].
    apply Hk; [reflexivity|exact Hr].
  Qed.

  Lemma out_ok_weaken : forall (X : pos -> Prop) (A : Type) (P P' : A -> Prop) (r : pout A),
    (forall a, P a -> P' a) -> out_ok X P r -> out_ok X P' r.
  Proof. intros X A P P' r H Hr. destruct r; simpl in *; try exact I; [apply H; exact Hr|exact Hr]. Qed.

  Lemma qok_mono : forall (X Y : pos -> Prop) e q, (forall p, X p -> Y p) -> qok X e q -> qok Y e q.
  Proof. intros X Y e q H [Hx|Hr]; [left; apply H; exact Hx|right; exact Hr]. Qed.

  Lemma err_ok_mono : forall (X Y : pos -> Prop) e q via, (forall p, X p -> Y p) -> err_ok X e q via -> err_ok Y e q via.
  Proof.
    intros X Y e q via H He. destruct via as [|v via]; simpl in *; [exact (qok_mono X Y e q H He)|].
    destruct He as [Hq [Hv Hl]]. split; [exact Hq|]. split; [exact Hv|]. apply H. exact Hl.
  Qed.

  Lemma out_ok_mono : forall (X Y : pos -> Prop) (A : Type) (P : A -> Prop) (r : pout A),
    (forall p, X p -> Y p) -> out_ok X P r -> out_ok Y P r.
  Proof.
    intros X Y A P r H Hr. destruct r as [a|e q via| | |]; simpl in *; try exact I; [exact Hr|].
    exact (err_ok_mono X Y e q via H Hr).
  Qed.

  Lemma err_ok_nonempty : forall (X : pos -> Prop) e q via,
    via <> [] -> qok U e q /\ Forall U via /\ X (last via q) -> err_ok X e q via.
  Proof. intros X e q via Hne H. destruct via as [|v via]; [contradiction|exact H]. Qed.

  (* decorate_call!(fp => result of a callee frame): the call site becomes the outermost VIA entry *)
  Lemma out_ok_decorate : forall (X : pos -> Prop) (A : Type) (P : A -> Prop) fp (r : pout A),
    (forall p, X p -> U p) -> X fp -> out_ok U P r -> out_ok X P (decorate_call fp r).
  Proof.
    intros X A P fp r HXU Hfp Hr. destruct r as [a|e q via| | |]; simpl in *; try exact I; [exact Hr|].
    assert (Hq : qok U e q) by (destruct via; simpl in Hr; [exact Hr|exact (proj1 Hr)]).
    assert (Hv : Forall U via) by (destruct via; simpl in Hr; [constructor|exact (proj1 (proj2 Hr))]).
    apply err_ok_nonempty; [destruct via; discriminate|].
    split; [exact Hq|]. split.
    - apply Forall_app. split; [exact Hv|constructor; [apply HXU; exact Hfp|constructor]].
    - rewrite last_last. exact Hfp.
  Qed.

  Lemma out_ok_pout_of : forall (X : pos -> Prop) (A : Type) (P : A -> Prop) k p (r : outcome A),
    X p -> (forall a, r = VOk a -> P a) -> out_ok X P (pout_of k p r).
  Proof.
    intros X A P k p r Hp H. destruct r; simpl; try exact I; [apply H; reflexivity|left; exact Hp].
  Qed.

  (* ---- the frame class X ---- *)
  Variable X : pos -> Prop.
  Hypothesis HXU : forall q, X q -> U q.
  Lemma HXN : forall q, X q -> N q.
  Proof. intros q H. apply HUN, HXU, H. Qed.

  Lemma eok_XN : forall e, eok X e -> eok N e.
  Proof. intros e [Hv Hp]. split; [exact Hv|apply HXN; exact Hp]. Qed.
  Lemma eok_UN : forall e, eok U e -> eok N e.
  Proof. intros e [Hv Hp]. split; [exact Hv|apply HUN; exact Hp]. Qed.
  Lemma eok_XU : forall e, eok X e -> eok U e.
  Proof. intros e [Hv Hp]. split; [exact Hv|apply HXU; exact Hp]. Qed.

  Lemma ppop_ok : forall (Y Z : pos -> Prop) s,
    Forall (eok Y) s -> out_ok Z (fun x : pentry * list pentry => eok Y (fst x) /\ Forall (eok Y) (snd x)) (ppop fo s).
  Proof.
    intros Y Z s H. destruct s as [|e s']; simpl; [exact I|]. inversion H as [|x y He Hs]. split; assumption.
  Qed.

  Lemma psym_get_ok : forall x (t : psymtab) e, Forall bok t -> psym_get x t = Some e -> eok N e.
  Proof.
    intros x t e Ht. induction t as [|[k e0] t IH]; simpl; [discriminate|].
    inversion Ht as [|y z Hb Ht']. destruct (bytes_eqb x k); [intros Heq; inversion Heq; subst; exact Hb|apply IH; exact Ht'].
  Qed.

  Lemma psym_add_ok : forall k (e : pentry) (t : psymtab), eok N e -> Forall bok t -> Forall bok (psym_add k e t).
  Proof.
    intros k e t He Ht. induction t as [|[k' w] t IH]; simpl; [constructor; [exact He|constructor]|].
    inversion Ht as [|y z Hb Ht'].
    destruct (bytes_ltb k k'); [constructor; [exact He|exact Ht]|].
    destruct (bytes_eqb k k'); [constructor; [exact He|exact Ht']|].
    constructor; [exact Hb|apply IH; exact Ht'].
  Qed.

  Variable PC : pops.
  Variable strict_ : bool.
  Variable envv : list (bytes * bytes).
  Variable envpos : pos.
  Hypothesis Henv : envv <> [] -> N envpos.

  Lemma env_tuple_ok : vok (env_tuple_p fo envv envpos).
  Proof.
    unfold env_tuple_p. apply vok_tuple. destruct envv as [|kv l] eqn:E; [constructor|].
    assert (Hn : N envpos) by (apply Henv; discriminate). rewrite <- E. clear E.
    induction envv as [|[k v] t IH]; simpl; constructor; [|exact IH].
    unfold fok. simpl. split; [apply vok_scalar; exact I|split; exact Hn].
  Qed.

  Lemma p_get_binding_ok : forall st name e,
    stok X st -> p_get_binding fo envv envpos st name = Some e -> vok (fst e).
  Proof.
    intros st name e [Hs [Hb Hf]] H. unfold p_get_binding in H.
    destruct (bytes_eqb name (b "self")).
    - destruct (pselfs st) as [|e0 l]; simpl in H; [discriminate|]. inversion H; subst.
      inversion Hf as [|y z He _]. exact (proj1 He).
    - destruct (bytes_eqb name (b "env")).
      + destruct (psym_get name (psyms st)) as [e0|] eqn:E.
        * inversion H; subst. exact (proj1 (psym_get_ok _ _ _ Hb E)).
        * inversion H; subst. simpl. exact env_tuple_ok.
      + exact (proj1 (psym_get_ok _ _ _ Hb H)).
  Qed.

  (* binding_push from op_bind: both positions come from the stack *)
  Lemma p_binding_push_ok : forall t name v sb p np,
    Forall bok t -> vok v -> X p -> X np ->
    out_ok X (Forall bok) (p_binding_push fo KReservedBind t name v sb p np).
  Proof.
    intros t name v sb p np Ht Hv Hp Hnp. unfold p_binding_push.
    destruct (vm_is_reserved name); [left; exact Hnp|].
    destruct (psym_bound name t && sb); [left; exact Hp|].
    simpl. apply psym_add_ok; [split; [exact Hv|apply HXN; exact Hp]|exact Ht].
  Qed.

  (* binding_push from fcall_impl: the position is the argument's, which may come from inside a value *)
  Lemma p_binding_push_arg_ok : forall (Z : pos -> Prop) t name v vp,
    Forall bok t -> vok v -> N vp ->
    out_ok Z (Forall bok) (p_binding_push fo KReservedArg t name v false vp vp).
  Proof.
    intros Z t name v vp Ht Hv Hp. unfold p_binding_push.
    destruct (vm_is_reserved name); [right; left; split; [left; reflexivity|exact Hp]|].
    rewrite andb_false_r. simpl. apply psym_add_ok; [split; assumption|exact Ht].
  Qed.

  Lemma pfld_get_ok : forall k (fs : list pfield) v, Forall fok fs -> pfld_get fo k fs = Some v -> vok v.
  Proof.
    intros k fs v Hfs. induction fs as [|[k' [w pp]] fs IH]; simpl; [discriminate|].
    inversion Hfs as [|y z Hf Hfs']. destruct (bytes_eqb k' k); [intros Hsome; inversion Hsome; subst; exact (proj1 Hf)|apply IH; exact Hfs'].
  Qed.

  Lemma p_index_ok : forall safe l r rp p,
    vok l -> X rp -> X p -> out_ok X (eok X) (p_index fo safe l r rp p).
  Proof.
    intros safe l r rp p Hl Hrp Hp. unfold p_index.
    assert (Hmiss : out_ok X (eok X) (if safe then POk (QEmpty, p) else PErr KIndex p [])).
    { destruct safe; simpl; [split; [apply vok_scalar; exact I|exact Hp]|left; exact Hp]. }
    destruct r; try exact Hmiss.
    - destruct l; try exact Hmiss.
      destruct (Z.ltb z (Z.of_nat (List.length l)) && Z.leb 0 z); [|exact Hmiss].
      destruct (nth_error l (Z.to_nat z)) as [e|] eqn:E; simpl; [|exact I].
      apply nth_error_In in E. apply vok_list in Hl.
      split; [exact (proj1 (proj1 (Forall_forall _ _) Hl e E))|exact Hrp].
    - destruct l; try exact Hmiss.
      destruct (pfld_get fo s fs) as [v|] eqn:E; [|exact Hmiss]. simpl.
      split; [exact (pfld_get_ok _ _ _ (proj1 (vok_tuple fs) Hl) E)|exact Hrp].
  Qed.

  Lemma p_exist_ok : forall l r lp rp, X lp -> X rp -> out_ok X vok (p_exist fo l r lp rp).
  Proof.
    intros l r lp rp Hlp Hrp. unfold p_exist.
    destruct l; try (left; exact Hlp).
    - destruct r; simpl; apply vok_scalar; exact I.
    - eapply out_ok_bind; [apply (out_ok_pout_of X bool (fun _ => True)); [exact Hlp|intros; exact I]|].
      intros a _ _. simpl. apply vok_scalar; exact I.
    - destruct r; try (left; exact Hrp). simpl. apply vok_scalar; exact I.
  Qed.

  Lemma p_range_ok : forall a s z p, X p -> out_ok X vok (p_range fo a s z p).
  Proof.
    intros a s z p Hp. unfold p_range.
    assert (Herr : out_ok X vok (PErr KRange p [])) by (left; exact Hp).
    assert (Hlist : forall n a0 s0 z0, vok (QList (map (fun v : value fo => (match v with VInt _ n1 => QInt n1 | _ => QEmpty end, p))
                                                       (range_from fo n a0 s0 z0)))).
    { intros n a0 s0 z0. apply vok_list. apply Forall_forall. intros e He. apply in_map_iff in He.
      destruct He as [v [Hv _]]. subst e. split; [destruct v; apply vok_scalar; exact I|apply HXN; exact Hp]. }
    destruct a; try (destruct s; destruct z; exact Herr).
    destruct s; destruct z; try exact Herr.
    - destruct (Z.leb z1 0); [exact Herr|]. simpl. apply Hlist.
    - simpl. apply Hlist.
  Qed.

  Lemma p_merge_field_ok : forall (Z : pos -> Prop) (fs : list pfield) k np v vp,
    Forall fok fs -> vok v -> N np -> N vp -> out_ok Z (Forall fok) (p_merge_field fs k np v vp).
  Proof.
    intros Z fs k np v vp Hfs Hv Hnp Hvp. induction fs as [|[k' [w [np' vp']]] fs IH]; simpl.
    - constructor; [|constructor]. unfold fok. simpl. split; [exact Hv|split; assumption].
    - inversion Hfs as [|y z Hf Hfs']. destruct (bytes_eqb k' k).
      + destruct (pcompatible w v); simpl.
        * constructor; [|exact Hfs']. unfold fok in *. simpl in *. split; [exact Hv|split; [exact (proj1 (proj2 Hf))|exact Hvp]].
        * right; left. split; [right; reflexivity|exact Hvp].
      + eapply out_ok_bind; [apply IH; exact Hfs'|]. intros a _ Ha. simpl. constructor; [exact Hf|exact Ha].
  Qed.

  Lemma p_merge_fields_ok : forall (Z : pos -> Prop) (ov base : list pfield),
    Forall fok base -> Forall fok ov -> out_ok Z (Forall fok) (p_merge_fields base ov).
  Proof.
    intros Z ov. induction ov as [|[k [v [np vp]]] ov IH]; intros base Hb Ho; simpl; [exact Hb|].
    inversion Ho as [|y z Hf Ho']. unfold fok in Hf. simpl in Hf. destruct Hf as [Hv [Hnp Hvp]].
    eapply out_ok_bind; [apply p_merge_field_ok; assumption|]. intros a _ Ha. apply IH; assumption.
  Qed.

  Lemma arith_ok : forall o l r rp, vok l -> vok r -> X rp -> out_ok X vok (p_arith fo o l r rp).
  Proof.
    intros o l r rp Hl Hr Hrp. unfold p_arith.
    assert (Hgen : out_ok X vok (pdo w <- pout_of KArith rp (vm_arith fo o (erase_v l) (erase_v r)); POk (inj w))).
    { eapply out_ok_bind; [apply (out_ok_pout_of X _ (fun _ => True)); [exact Hrp|intros; exact I]|].
      intros a _ _. simpl. apply vok_inj. }
    destruct l; try exact Hgen. destruct r; try exact Hgen.
    destruct o; try (left; exact Hrp). simpl. apply vok_list. apply Forall_app.
    split; [exact (proj1 (vok_list _) Hl)|exact (proj1 (vok_list _) Hr)].
  Qed.

  Lemma Forall_skipn : forall (A : Type) (P : A -> Prop) n (l : list A), Forall P l -> Forall P (skipn n l).
  Proof.
    intros A P n. induction n as [|n IH]; intros l H; [exact H|]. destruct l as [|x l]; [constructor|].
    simpl. apply IH. inversion H; assumption.
  Qed.

  (* ---- nested runs ---- *)
  Section Nested.
    Variable run : pstate -> pout pstate.
    (* every frame: positions of the code *)
    Hypothesis HrunU : forall st0, stok U st0 -> out_ok U (stok U) (run st0).

    Lemma p_bind_args_ok : forall (Z : pos -> Prop) names s t,
      Forall (eok N) s -> Forall bok t ->
      out_ok Z (fun x : list pentry * psymtab => fst x = skipn (List.length names) s /\ Forall bok (snd x))
             (p_bind_args fo names s t).
    Proof.
      intros Z names. induction names as [|nm names IH]; intros s t Hs Ht; simpl; [split; [reflexivity|exact Ht]|].
      destruct s as [|[v vp] s']; simpl; [exact I|]. inversion Hs as [|y z [Hv Hp] Hs'].
      eapply out_ok_bind; [apply p_binding_push_arg_ok; assumption|]. intros t' _ Ht'. apply IH; assumption.
    Qed.

    Lemma p_fcall_impl_ok : forall ptr bs snap s,
      Forall (eok N) s -> Forall bok snap ->
      out_ok U (fun x : pentry * list pentry => eok U (fst x) /\ snd x = skipn (List.length bs) s)
             (p_fcall_impl fo run ptr bs snap s).
    Proof.
      intros ptr bs snap s Hs Hsnap. unfold p_fcall_impl.
      eapply out_ok_bind; [apply p_bind_args_ok; assumption|]. intros [s' t] _ [Hs' Ht]. simpl in Hs', Ht. simpl.
      eapply out_ok_bind.
      - apply HrunU. split; [constructor|split; [exact Ht|constructor]].
      - intros fin _ [Hfs _]. eapply out_ok_bind; [apply (ppop_ok U U); exact Hfs|].
        intros [e rest] _ [He _]. simpl. split; [exact He|exact Hs'].
    Qed.

    Lemma pwith_stk_ok : forall (Y : pos -> Prop) st s, stok Y st -> Forall (eok Y) s -> stok Y (pwith_stk fo st s).
    Proof. intros Y st s [_ [Hb Hf]] Hs. split; [exact Hs|split; assumption]. Qed.
    Lemma pnext_ok : forall (Y : pos -> Prop) st, stok Y st -> stok Y (pnext fo st).
    Proof. intros Y st H. exact H. Qed.
    Lemma ppush_next_ok : forall st s, stok X st -> Forall (eok X) s -> out_ok X (stok X) (ppush_next fo st s).
    Proof. intros st s Hst Hs. simpl. exact (pwith_stk_ok X st s Hst Hs). Qed.
    Lemma pjump_ok : forall st j, stok X st -> out_ok X (stok X) (pjump fo PC st j).
    Proof. intros st j H. unfold pjump. destruct (Nat.ltb _ _); simpl; [exact H|exact I]. Qed.

    Lemma p_op_fcall_ok : forall st p, stok X st -> X p -> out_ok X (stok X) (p_op_fcall fo run st p).
    Proof.
      intros st p Hst Hp. unfold p_op_fcall.
      eapply out_ok_bind; [apply (ppop_ok X X); exact (proj1 Hst)|]. intros [[f fp] s1] _ [[Hf Hfp] Hs1]. simpl in *.
      eapply out_ok_bind; [apply (ppop_ok X X); exact Hs1|]. intros [[a ap] s2] _ [_ Hs2]. simpl in *.
      destruct f; try (left; exact Hp).
      eapply out_ok_bind with (PA := fun _ : unit => True).
      - destruct a; try exact I. destruct (Z.ltb _ _); [left; exact Hp|]. destruct (Z.ltb _ _); [left; exact Hp|exact I].
      - intros u _ _. eapply out_ok_bind.
        + apply out_ok_decorate; [exact HXU|exact Hfp|]. apply p_fcall_impl_ok.
          * eapply Forall_impl; [|exact Hs2]. exact eok_XN.
          * exact (proj1 (vok_func _ _ _) Hf).
        + intros [[v vp] s3] _ [[Hv _] Hs3]. simpl in *. apply ppush_next_ok; [exact Hst|].
          constructor; [split; [exact Hv|exact Hp]|]. subst s3. apply Forall_skipn. exact Hs2.
    Qed.

    Lemma p_symbols_to_tuple_ok : forall t im, Forall bok t -> vok (p_symbols_to_tuple fo t im).
    Proof.
      intros t im Ht. unfold p_symbols_to_tuple. apply vok_tuple. apply Forall_forall. intros kv Hkv.
      apply in_map_iff in Hkv. destruct Hkv as [[k [v p]] [Heq Hin]]. subst kv. apply filter_In in Hin.
      destruct Hin as [Hin _]. pose proof (proj1 (Forall_forall _ _) Ht _ Hin) as [Hv Hp].
      unfold fok. simpl in *. split; [exact Hv|split; exact Hp].
    Qed.

    Lemma p_op_copy_ok : forall st p, stok X st -> X p -> out_ok X (stok X) (p_op_copy fo PC run st p).
    Proof.
      intros st p Hst Hp. unfold p_op_copy.
      eapply out_ok_bind; [apply (ppop_ok X X); exact (proj1 Hst)|]. intros [[ov ovp] s1] _ [[Hov Hovp] Hs1]. simpl in *.
      eapply out_ok_bind; [apply (ppop_ok X X); exact Hs1|]. intros [[tg tgp] s2] _ [[Htg Htgp] Hs2]. simpl in *.
      destruct ov; try exact I. apply vok_tuple in Hov.
      destruct tg; try (left; exact Hp).
      - eapply out_ok_bind; [apply p_merge_fields_ok; [exact (proj1 (vok_tuple _) Htg)|exact Hov]|].
        intros flds' _ Hf. apply ppush_next_ok; [exact Hst|]. constructor; [|exact Hs2].
        split; [apply vok_tuple; exact Hf|exact Htgp].
      - pose proof (proj1 (vok_mod _ _ _) Htg) as Hflds.
        eapply out_ok_bind; [apply p_merge_fields_ok; [exact Hflds|exact Hov]|]. intros flds1 _ Hf1.
        eapply out_ok_bind; [apply p_merge_field_ok; [exact Hf1|exact Htg|apply HXN; exact Hp|apply HXN; exact Hovp]|].
        intros flds2 _ Hf2.
        eapply out_ok_bind.
        + apply out_ok_decorate; [exact HXU|exact Hp|]. apply HrunU.
          split; [|split; [constructor|exact (proj2 (proj2 Hst))]]. simpl.
          constructor; [split; [apply vok_tuple; exact Hf2|apply HXU; exact Hp]|].
          constructor; [split; [apply vok_scalar; exact I|apply HXU; exact Hp]|constructor].
        + intros fin _ Hfin. destruct result_ptr as [rp|].
          * destruct (Nat.ltb _ _); [|exact I].
            eapply out_ok_bind; [apply out_ok_decorate; [exact HXU|exact Hp|]; apply HrunU; exact Hfin|].
            intros fin2 _ Hfin2. eapply out_ok_bind; [apply (ppop_ok U X); exact (proj1 Hfin2)|].
            intros [e rest] _ [[Hev Hep] _]. simpl in *. apply ppush_next_ok; [exact Hst|].
            constructor; [split; [exact Hev|exact Hp]|exact Hs2].
          * apply ppush_next_ok; [exact Hst|]. constructor; [|exact Hs2].
            split; [apply p_symbols_to_tuple_ok; exact (proj1 (proj2 Hfin))|exact Hp].
    Qed.

    Lemma p_arity_ok_ok : forall bs n fp, X fp ->
      out_ok X (fun _ : unit => List.length bs = n) (p_arity_ok bs n fp).
    Proof.
      intros bs n fp Hfp. unfold p_arity_ok. destruct (Nat.eqb (List.length bs) n) eqn:E; simpl; [|left; exact Hfp].
      apply Nat.eqb_eq. exact E.
    Qed.

    Section Callback.
      Variables (ptr : nat) (bs : list bytes) (snap : psymtab) (hp : pos).
      Hypothesis Hsnap : Forall bok snap.
      Hypothesis Hhp : X hp.

      (* the callee pops exactly its parameters: with the right number of arguments the stack below is untouched *)
      Lemma p_call_with_ok : forall args s,
        List.length args = List.length bs -> Forall (eok N) args -> Forall (eok X) s ->
        out_ok X (fun x : pentry * list pentry => eok U (fst x) /\ snd x = s) (p_call_with fo run ptr bs snap hp args s).
      Proof.
        intros args s Hlen Hargs Hs. unfold p_call_with.
        apply out_ok_decorate; [exact HXU|exact Hhp|].
        eapply out_ok_weaken; [|apply p_fcall_impl_ok; [|exact Hsnap]].
        - intros [e s'] [He Hs']. simpl in *. split; [exact He|]. subst s'.
          rewrite <- Hlen, skipn_app, skipn_all, Nat.sub_diag. reflexivity.
        - apply Forall_app. split; [exact Hargs|]. eapply Forall_impl; [|exact Hs]. exact eok_XN.
      Qed.

      Lemma p_map_list_ok : forall elems s,
        List.length bs = 1 -> Forall (eok N) elems -> Forall (eok X) s ->
        out_ok X (fun x : list pentry * list pentry => Forall (eok N) (fst x) /\ snd x = s)
               (p_map_list fo run ptr bs snap hp elems s).
      Proof.
        intros elems s Hlen. induction elems as [|e rest IH]; intros He Hs; simpl; [split; [constructor|reflexivity]|].
        inversion He as [|y z He0 Hrest].
        eapply out_ok_bind; [apply (p_call_with_ok [e] s); [now rewrite Hlen|constructor; [exact He0|constructor]|exact Hs]|].
        intros [r s1] _ [Hr Hs1]. simpl in *. subst s1.
        eapply out_ok_bind; [apply IH; assumption|]. intros [rs s2] _ [Hrs Hs2]. simpl in *.
        split; [constructor; [apply eok_UN; exact Hr|exact Hrs]|exact Hs2].
      Qed.

      Lemma p_map_tuple_ok : forall flds s,
        List.length bs = 2 -> Forall fok flds -> Forall (eok X) s ->
        out_ok X (fun x : list pfield * list pentry => Forall fok (fst x) /\ snd x = s)
               (p_map_tuple fo run ptr bs snap hp flds s).
      Proof.
        intros flds s Hlen. induction flds as [|[k [v [np vp]]] rest IH]; intros Hf Hs; simpl;
          [split; [constructor|reflexivity]|].
        inversion Hf as [|y z Hf0 Hrest]. unfold fok in Hf0. simpl in Hf0. destruct Hf0 as [Hv [Hnp Hvp]].
        eapply out_ok_bind.
        - apply (p_call_with_ok [(v, vp); (QStr k, np)] s); [now rewrite Hlen| |exact Hs].
          constructor; [split; assumption|]. constructor; [split; [apply vok_scalar; exact I|exact Hnp]|constructor].
        - intros [[r rp] s1] _ [[Hr Hrp] Hs1]. simpl in *. subst s1.
          destruct r; try (apply IH; assumption).
          assert (Hbad : out_ok X (fun x : list pfield * list pentry => Forall fok (fst x) /\ snd x = s)
                                (PErr KMapTuple rp [])).
          { right; right. split; [left; reflexivity|exact Hrp]. }
          destruct l as [|[n np1] [|[v' vp1] [|x l]]]; try exact Hbad.
          destruct n; try exact Hbad.
          eapply out_ok_bind; [apply IH; assumption|]. intros [rs s2] _ [Hrs Hs2]. simpl in *.
          split; [|exact Hs2]. constructor; [|exact Hrs]. unfold fok. simpl.
          apply vok_list in Hr. inversion Hr as [|y1 z1 _ Hr']. inversion Hr' as [|y2 z2 [Hv' _] _]. simpl in Hv'.
          split; [exact Hv'|split; [exact Hnp|apply HUN; exact Hrp]].
      Qed.

      Lemma p_map_str_ok : forall lp chars s,
        List.length bs = 1 -> N lp -> Forall (eok X) s ->
        out_ok X (fun x : bytes * list pentry => snd x = s) (p_map_str fo run ptr bs snap hp lp chars s).
      Proof.
        intros lp chars s Hlen Hlp Hs. induction chars as [|c rest IH]; simpl; [reflexivity|].
        eapply out_ok_bind.
        - apply (p_call_with_ok [(QStr c, lp)] s); [now rewrite Hlen| |exact Hs].
          constructor; [split; [apply vok_scalar; exact I|exact Hlp]|constructor].
        - intros [[r rp] s1] _ [[Hr Hrp] Hs1]. simpl in *. subst s1.
          destruct r; try (right; right; split; [right; reflexivity|exact Hrp]).
          eapply out_ok_bind; [exact IH|]. intros [rs s2] _ Hs2. exact Hs2.
      Qed.

      Lemma p_filter_list_ok : forall elems s,
        List.length bs = 1 -> Forall (eok N) elems -> Forall (eok X) s ->
        out_ok X (fun x : list pentry * list pentry => Forall (eok N) (fst x) /\ snd x = s)
               (p_filter_list fo run ptr bs snap hp elems s).
      Proof.
        intros elems s Hlen. induction elems as [|e rest IH]; intros He Hs; simpl; [split; [constructor|reflexivity]|].
        inversion He as [|y z He0 Hrest].
        eapply out_ok_bind; [apply (p_call_with_ok [e] s); [now rewrite Hlen|constructor; [exact He0|constructor]|exact Hs]|].
        intros [r s1] _ [Hr Hs1]. simpl in *. subst s1.
        eapply out_ok_bind; [apply IH; assumption|]. intros [rs s2] _ [Hrs Hs2]. simpl in *.
        split; [|exact Hs2]. destruct (pkeeps fo (fst r)); [constructor; assumption|exact Hrs].
      Qed.

      Lemma p_filter_tuple_ok : forall flds s,
        List.length bs = 2 -> Forall fok flds -> Forall (eok X) s ->
        out_ok X (fun x : list pfield * list pentry => Forall fok (fst x) /\ snd x = s)
               (p_filter_tuple fo run ptr bs snap hp flds s).
      Proof.
        intros flds s Hlen. induction flds as [|[k [v [np vp]]] rest IH]; intros Hf Hs; simpl;
          [split; [constructor|reflexivity]|].
        inversion Hf as [|y z Hf0 Hrest]. pose proof Hf0 as Hf0'. unfold fok in Hf0. simpl in Hf0. destruct Hf0 as [Hv [Hnp Hvp]].
        eapply out_ok_bind.
        - apply (p_call_with_ok [(v, vp); (QStr k, np)] s); [now rewrite Hlen| |exact Hs].
          constructor; [split; assumption|]. constructor; [split; [apply vok_scalar; exact I|exact Hnp]|constructor].
        - intros [r s1] _ [Hr Hs1]. simpl in *. subst s1.
          eapply out_ok_bind; [apply IH; assumption|]. intros [rs s2] _ [Hrs Hs2]. simpl in *.
          split; [|exact Hs2]. destruct (pkeeps fo (fst r)); [constructor; assumption|exact Hrs].
      Qed.

      Lemma p_filter_str_ok : forall lp chars s,
        List.length bs = 1 -> N lp -> Forall (eok X) s ->
        out_ok X (fun x : bytes * list pentry => snd x = s) (p_filter_str fo run ptr bs snap hp lp chars s).
      Proof.
        intros lp chars s Hlen Hlp Hs. induction chars as [|c rest IH]; simpl; [reflexivity|].
        eapply out_ok_bind.
        - apply (p_call_with_ok [(QStr c, lp)] s); [now rewrite Hlen| |exact Hs].
          constructor; [split; [apply vok_scalar; exact I|exact Hlp]|constructor].
        - intros [r s1] _ [Hr Hs1]. simpl in *. subst s1.
          eapply out_ok_bind; [exact IH|]. intros [rs s2] _ Hs2. exact Hs2.
      Qed.

      Lemma p_reduce_list_ok : forall elems acc s,
        List.length bs = 2 -> Forall (eok N) elems -> eok N acc -> Forall (eok X) s ->
        out_ok X (fun x : pentry * list pentry => eok N (fst x) /\ snd x = s)
               (p_reduce_list fo run ptr bs snap hp elems acc s).
      Proof.
        intros elems acc s Hlen. revert acc. induction elems as [|e rest IH]; intros acc He Hacc Hs; simpl;
          [split; [exact Hacc|reflexivity]|].
        inversion He as [|y z He0 Hrest].
        eapply out_ok_bind.
        - apply (p_call_with_ok [e; acc] s); [now rewrite Hlen| |exact Hs].
          constructor; [exact He0|constructor; [exact Hacc|constructor]].
        - intros [acc' s1] _ [Hr Hs1]. simpl in *. subst s1. apply IH; [exact Hrest|apply eok_UN; exact Hr|exact Hs].
      Qed.

      Lemma p_reduce_tuple_ok : forall flds acc s,
        List.length bs = 3 -> Forall fok flds -> eok N acc -> Forall (eok X) s ->
        out_ok X (fun x : pentry * list pentry => eok N (fst x) /\ snd x = s)
               (p_reduce_tuple fo run ptr bs snap hp flds acc s).
      Proof.
        intros flds acc s Hlen. revert acc. induction flds as [|[k [v [np vp]]] rest IH]; intros acc Hf Hacc Hs; simpl;
          [split; [exact Hacc|reflexivity]|].
        inversion Hf as [|y z Hf0 Hrest]. unfold fok in Hf0. simpl in Hf0. destruct Hf0 as [Hv [Hnp Hvp]].
        eapply out_ok_bind.
        - apply (p_call_with_ok [(v, vp); (QStr k, np); acc] s); [now rewrite Hlen| |exact Hs].
          constructor; [split; assumption|].
          constructor; [split; [apply vok_scalar; exact I|exact Hnp]|constructor; [exact Hacc|constructor]].
        - intros [acc' s1] _ [Hr Hs1]. simpl in *. subst s1. apply IH; [exact Hrest|apply eok_UN; exact Hr|exact Hs].
      Qed.

      Lemma p_reduce_str_ok : forall lp chars acc s,
        List.length bs = 2 -> N lp -> eok N acc -> Forall (eok X) s ->
        out_ok X (fun x : pentry * list pentry => eok N (fst x) /\ snd x = s)
               (p_reduce_str fo run ptr bs snap hp lp chars acc s).
      Proof.
        intros lp chars acc s Hlen Hlp. revert acc. induction chars as [|c rest IH]; intros acc Hacc Hs; simpl;
          [split; [exact Hacc|reflexivity]|].
        eapply out_ok_bind.
        - apply (p_call_with_ok [(QStr c, lp); acc] s); [now rewrite Hlen| |exact Hs].
          constructor; [split; [apply vok_scalar; exact I|exact Hlp]|constructor; [exact Hacc|constructor]].
        - intros [acc' s1] _ [Hr Hs1]. simpl in *. subst s1. apply IH; [apply eok_UN; exact Hr|exact Hs].
      Qed.
    End Callback.

    Lemma p_hook_map_ok : forall st p, stok X st -> X p -> out_ok X (stok X) (p_hook_map fo run st p).
    Proof.
      intros st p Hst Hp. unfold p_hook_map. destruct Hst as [Hs [Hb Hf]].
      destruct (pstk st) as [|[t tp] [|[f fp] s]] eqn:Es; try exact I.
      inversion Hs as [|y1 z1 [Ht Htp] Hs1]. inversion Hs1 as [|y2 z2 [Hfv Hfp] Hs2]. simpl in *.
      assert (Hst : stok X st) by (split; [rewrite Es; exact Hs|split; assumption]).
      destruct f; try (left; exact Hfp). pose proof (proj1 (vok_func _ _ _) Hfv) as Hsnap.
      destruct t; try (left; exact Hp).
      - eapply out_ok_bind; [apply p_arity_ok_ok; exact Hfp|]. intros u _ Hlen.
        eapply out_ok_bind; [apply p_map_str_ok; [exact Hsnap|exact Hp|exact Hlen|apply HXN; exact Htp|exact Hs2]|].
        intros [rs s'] _ Hs'. simpl in Hs'. subst s'. apply ppush_next_ok; [exact Hst|].
        constructor; [split; [apply vok_scalar; exact I|exact Hp]|exact Hs2].
      - eapply out_ok_bind; [apply p_arity_ok_ok; exact Hfp|]. intros u _ Hlen.
        eapply out_ok_bind; [apply p_map_list_ok; [exact Hsnap|exact Hp|exact Hlen|exact (proj1 (vok_list _) Ht)|exact Hs2]|].
        intros [rs s'] _ [Hrs Hs']. simpl in *. subst s'. apply ppush_next_ok; [exact Hst|].
        constructor; [split; [apply vok_list; exact Hrs|exact Htp]|exact Hs2].
      - eapply out_ok_bind; [apply p_arity_ok_ok; exact Hfp|]. intros u _ Hlen.
        eapply out_ok_bind; [apply p_map_tuple_ok; [exact Hsnap|exact Hp|exact Hlen|exact (proj1 (vok_tuple _) Ht)|exact Hs2]|].
        intros [rs s'] _ [Hrs Hs']. simpl in *. subst s'. apply ppush_next_ok; [exact Hst|].
        constructor; [split; [apply vok_tuple; exact Hrs|exact Hp]|exact Hs2].
    Qed.

    Lemma p_hook_filter_ok : forall st p, stok X st -> X p -> out_ok X (stok X) (p_hook_filter fo run st p).
    Proof.
      intros st p Hst Hp. unfold p_hook_filter. destruct Hst as [Hs [Hb Hf]].
      destruct (pstk st) as [|[t tp] [|[f fp] s]] eqn:Es; try exact I.
      inversion Hs as [|y1 z1 [Ht Htp] Hs1]. inversion Hs1 as [|y2 z2 [Hfv Hfp] Hs2]. simpl in *.
      assert (Hst : stok X st) by (split; [rewrite Es; exact Hs|split; assumption]).
      destruct f; try (left; exact Hfp). pose proof (proj1 (vok_func _ _ _) Hfv) as Hsnap.
      destruct t; try (left; exact Hp).
      - eapply out_ok_bind; [apply p_arity_ok_ok; exact Hfp|]. intros u _ Hlen.
        eapply out_ok_bind; [apply p_filter_str_ok; [exact Hsnap|exact Hp|exact Hlen|apply HXN; exact Htp|exact Hs2]|].
        intros [rs s'] _ Hs'. simpl in Hs'. subst s'. apply ppush_next_ok; [exact Hst|].
        constructor; [split; [apply vok_scalar; exact I|exact Hp]|exact Hs2].
      - eapply out_ok_bind; [apply p_arity_ok_ok; exact Hfp|]. intros u _ Hlen.
        eapply out_ok_bind; [apply p_filter_list_ok; [exact Hsnap|exact Hp|exact Hlen|exact (proj1 (vok_list _) Ht)|exact Hs2]|].
        intros [rs s'] _ [Hrs Hs']. simpl in *. subst s'. apply ppush_next_ok; [exact Hst|].
        constructor; [split; [apply vok_list; exact Hrs|exact Hp]|exact Hs2].
      - eapply out_ok_bind; [apply p_arity_ok_ok; exact Hfp|]. intros u _ Hlen.
        eapply out_ok_bind; [apply p_filter_tuple_ok; [exact Hsnap|exact Hp|exact Hlen|exact (proj1 (vok_tuple _) Ht)|exact Hs2]|].
        intros [rs s'] _ [Hrs Hs']. simpl in *. subst s'. apply ppush_next_ok; [exact Hst|].
        constructor; [split; [apply vok_tuple; exact Hrs|exact Hp]|exact Hs2].
    Qed.

    Lemma p_hook_reduce_ok : forall st p, stok X st -> X p -> out_ok X (stok X) (p_hook_reduce fo run st p).
    Proof.
      intros st p Hst Hp. unfold p_hook_reduce. destruct Hst as [Hs [Hb Hf]].
      destruct (pstk st) as [|[t tp] [|acc [|[f fp] s]]] eqn:Es; try exact I.
      inversion Hs as [|y1 z1 [Ht Htp] Hs1]. inversion Hs1 as [|y2 z2 Hacc Hs2]. inversion Hs2 as [|y3 z3 [Hfv Hfp] Hs3].
      simpl in *.
      assert (Hst : stok X st) by (split; [rewrite Es; exact Hs|split; assumption]).
      destruct f; try (left; exact Hfp). pose proof (proj1 (vok_func _ _ _) Hfv) as Hsnap.
      destruct t; try (left; exact Hp).
      - eapply out_ok_bind; [apply p_arity_ok_ok; exact Hfp|]. intros u _ Hlen.
        eapply out_ok_bind;
          [apply p_reduce_str_ok; [exact Hsnap|exact Hp|exact Hlen|apply HXN; exact Htp|apply eok_XN; exact Hacc|exact Hs3]|].
        intros [r s'] _ [Hr Hs']. simpl in *. subst s'. apply ppush_next_ok; [exact Hst|].
        constructor; [split; [exact (proj1 Hr)|exact Hp]|exact Hs3].
      - eapply out_ok_bind; [apply p_arity_ok_ok; exact Hfp|]. intros u _ Hlen.
        eapply out_ok_bind;
          [apply p_reduce_list_ok; [exact Hsnap|exact Hp|exact Hlen|exact (proj1 (vok_list _) Ht)|apply eok_XN; exact Hacc|exact Hs3]|].
        intros [r s'] _ [Hr Hs']. simpl in *. subst s'. apply ppush_next_ok; [exact Hst|].
        constructor; [split; [exact (proj1 Hr)|exact Hp]|exact Hs3].
      - eapply out_ok_bind; [apply p_arity_ok_ok; exact Hfp|]. intros u _ Hlen.
        eapply out_ok_bind;
          [apply p_reduce_tuple_ok; [exact Hsnap|exact Hp|exact Hlen|exact (proj1 (vok_tuple _) Ht)|apply eok_XN; exact Hacc|exact Hs3]|].
        intros [r s'] _ [Hr Hs']. simpl in *. subst s'. apply ppush_next_ok; [exact Hst|].
        constructor; [split; [exact (proj1 Hr)|exact Hp]|exact Hs3].
    Qed.

    Lemma p_op_runtime_ok : forall h st p, stok X st -> X p -> out_ok X (stok X) (p_op_runtime fo run h st p).
    Proof.
      intros h st p Hst Hp. destruct h; try exact I.
      - apply p_hook_map_ok; assumption.
      - apply p_hook_filter_ok; assumption.
      - apply p_hook_reduce_ok; assumption.
      - simpl. destruct Hst as [Hs _]. destruct (pstk st) as [|[l lp] s]; [exact I|].
        inversion Hs as [|y1 z1 [_ Hlp] Hs1]. simpl in *.
        destruct l; try (left; exact Hlp). destruct s as [|[r rp] s]; [exact I|].
        inversion Hs1 as [|y2 z2 [_ Hrp] _]. simpl in *. destruct r; try (left; exact Hrp). exact I.
      - simpl. pose proof Hst as [Hs _]. destruct (pstk st) as [|a [|s1 [|z s]]]; try exact I.
        inversion Hs as [|y1 z1 _ Hs1]. inversion Hs1 as [|y2 z2 _ Hs2]. inversion Hs2 as [|y3 z3 _ Hs3].
        eapply out_ok_bind; [apply p_range_ok; exact Hp|]. intros v _ Hv. apply ppush_next_ok; [exact Hst|].
        constructor; [split; [exact Hv|exact Hp]|exact Hs3].
      - simpl. pose proof Hst as [Hs _]. destruct (pstk st) as [|v [|e s]]; try exact I.
        inversion Hs as [|y1 z1 Hv Hs1]. inversion Hs1 as [|y2 z2 _ Hs2].
        destruct (fst e); try exact I. apply ppush_next_ok; [exact Hst|]. constructor; assumption.
    Qed.

    (* one step.  [Hscope]: the nested frame of a NewScope op belongs to this frame's class *)
    Lemma pexec_instr_ok : forall i p st,
      stok X st -> X p ->
      (forall j, i = INewScope j ->
                 out_ok X (stok X) (run {| ppc := S (ppc st); pstk := []; psyms := psyms st; pselfs := pselfs st |})) ->
      out_ok X (stok X) (pexec_instr fo PC strict_ envv envpos run i p st).
    Proof.
      intros i p st Hst Hp Hscope. pose proof Hst as [Hs [Hb Hf]]. unfold pexec_instr.
      assert (Hpop1 : forall (B : Type) (PB : B -> Prop) (k : pentry * list pentry -> pout B),
                 (forall e s1, eok X e -> Forall (eok X) s1 -> out_ok X PB (k (e, s1))) ->
                 out_ok X PB (pbind (ppop fo (pstk st)) k)).
      { intros B PB k Hk. eapply out_ok_bind; [apply (ppop_ok X X); exact Hs|]. intros [e s1] _ [He Hs1]. apply Hk; assumption. }
      assert (Hpop : forall (B : Type) (PB : B -> Prop) s (k : pentry * list pentry -> pout B),
                 Forall (eok X) s ->
                 (forall e s1, eok X e -> Forall (eok X) s1 -> out_ok X PB (k (e, s1))) ->
                 out_ok X PB (pbind (ppop fo s) k)).
      { intros B PB s k Hs0 Hk. eapply out_ok_bind; [apply (ppop_ok X X); exact Hs0|]. intros [e s1] _ [He Hs1]. apply Hk; assumption. }
      assert (Hscal : forall v : pval, match v with QList _ | QTuple _ | QFunc _ _ _ | QMod _ _ _ => False | _ => True end -> vok v)
        by exact vok_scalar.
      destruct i.
      - (* IBind *)
        apply Hpop1. intros [v vp] s1 [Hv Hvp] Hs1. apply Hpop; [exact Hs1|]. intros [n np] s2 [Hn Hnp] Hs2. simpl in *.
        destruct n; try exact I.
        eapply out_ok_bind; [apply p_binding_push_ok; assumption|]. intros t _ Ht. simpl. split; [exact Hs2|split; assumption].
      - (* IBindOver *)
        apply Hpop1. intros [v vp] s1 [Hv Hvp] Hs1. apply Hpop; [exact Hs1|]. intros [n np] s2 [Hn Hnp] Hs2. simpl in *.
        destruct n; try exact I.
        eapply out_ok_bind; [apply p_binding_push_ok; assumption|]. intros t _ Ht. simpl. split; [exact Hs2|split; assumption].
      - (* IPop *)
        apply Hpop1. intros e s1 _ Hs1. simpl. exact (pwith_stk_ok X st s1 Hst Hs1).
      - (* INewScope *)
        unfold p_op_new_scope. eapply out_ok_bind; [exact (Hscope j eq_refl)|]. intros fin _ Hfin.
        eapply out_ok_bind; [apply (ppop_ok X X); exact (proj1 Hfin)|]. intros [e rest] _ [He _]. simpl in He. simpl.
        apply pjump_ok. apply pwith_stk_ok; [exact Hst|]. constructor; assumption.
      - (* IAdd *)
        apply Hpop1. intros [l lp] s1 [Hl _] Hs1. apply Hpop; [exact Hs1|]. intros [r rp] s2 [Hr Hrp] Hs2. simpl in *.
        eapply out_ok_bind; [apply arith_ok; assumption|]. intros v _ Hv. apply ppush_next_ok; [exact Hst|].
        constructor; [split; assumption|exact Hs2].
      - apply Hpop1. intros [l lp] s1 [Hl _] Hs1. apply Hpop; [exact Hs1|]. intros [r rp] s2 [Hr Hrp] Hs2. simpl in *.
        eapply out_ok_bind; [apply arith_ok; assumption|]. intros v _ Hv. apply ppush_next_ok; [exact Hst|].
        constructor; [split; assumption|exact Hs2].
      - apply Hpop1. intros [l lp] s1 [Hl _] Hs1. apply Hpop; [exact Hs1|]. intros [r rp] s2 [Hr Hrp] Hs2. simpl in *.
        eapply out_ok_bind; [apply arith_ok; assumption|]. intros v _ Hv. apply ppush_next_ok; [exact Hst|].
        constructor; [split; assumption|exact Hs2].
      - apply Hpop1. intros [l lp] s1 [Hl _] Hs1. apply Hpop; [exact Hs1|]. intros [r rp] s2 [Hr Hrp] Hs2. simpl in *.
        eapply out_ok_bind; [apply arith_ok; assumption|]. intros v _ Hv. apply ppush_next_ok; [exact Hst|].
        constructor; [split; assumption|exact Hs2].
      - apply Hpop1. intros [l lp] s1 [Hl _] Hs1. apply Hpop; [exact Hs1|]. intros [r rp] s2 [Hr Hrp] Hs2. simpl in *.
        eapply out_ok_bind; [apply arith_ok; assumption|]. intros v _ Hv. apply ppush_next_ok; [exact Hst|].
        constructor; [split; assumption|exact Hs2].
      - (* IEqual *)
        apply Hpop1. intros [l lp] s1 _ Hs1. apply Hpop; [exact Hs1|]. intros [r rp] s2 _ Hs2. simpl in *.
        destruct (pcompatible l r); [|left; exact Hp].
        destruct (weq (erase_v l) (erase_v r)); [|exact I]. apply ppush_next_ok; [exact Hst|].
        constructor; [split; [apply Hscal; exact I|exact Hp]|exact Hs2].
      - (* IGt *)
        apply Hpop1. intros [l lp] s1 _ Hs1. apply Hpop; [exact Hs1|]. intros [r rp] s2 _ Hs2. simpl in *.
        eapply out_ok_bind; [apply (out_ok_pout_of X _ (fun _ => True)); [exact Hp|intros; exact I]|]. intros w _ _.
        apply ppush_next_ok; [exact Hst|]. constructor; [split; [apply vok_inj|exact Hp]|exact Hs2].
      - apply Hpop1. intros [l lp] s1 _ Hs1. apply Hpop; [exact Hs1|]. intros [r rp] s2 _ Hs2. simpl in *.
        eapply out_ok_bind; [apply (out_ok_pout_of X _ (fun _ => True)); [exact Hp|intros; exact I]|]. intros w _ _.
        apply ppush_next_ok; [exact Hst|]. constructor; [split; [apply vok_inj|exact Hp]|exact Hs2].
      - apply Hpop1. intros [l lp] s1 _ Hs1. apply Hpop; [exact Hs1|]. intros [r rp] s2 _ Hs2. simpl in *.
        eapply out_ok_bind; [apply (out_ok_pout_of X _ (fun _ => True)); [exact Hp|intros; exact I]|]. intros w _ _.
        apply ppush_next_ok; [exact Hst|]. constructor; [split; [apply vok_inj|exact Hp]|exact Hs2].
      - apply Hpop1. intros [l lp] s1 _ Hs1. apply Hpop; [exact Hs1|]. intros [r rp] s2 _ Hs2. simpl in *.
        eapply out_ok_bind; [apply (out_ok_pout_of X _ (fun _ => True)); [exact Hp|intros; exact I]|]. intros w _ _.
        apply ppush_next_ok; [exact Hst|]. constructor; [split; [apply vok_inj|exact Hp]|exact Hs2].
      - (* INot *)
        apply Hpop1. intros [v vp] s1 [_ Hvp] Hs1. simpl in *. destruct v; try (left; exact Hvp).
        apply ppush_next_ok; [exact Hst|]. constructor; [split; [apply Hscal; exact I|exact Hvp]|exact Hs1].
      - (* IVal *)
        apply ppush_next_ok; [exact Hst|]. constructor; [split; [destruct l; apply Hscal; exact I|exact Hp]|exact Hs].
      - (* ICast *)
        apply Hpop1. intros [v vp] s1 [_ Hvp] Hs1. simpl in *.
        eapply out_ok_bind; [apply (out_ok_pout_of X _ (fun _ => True)); [exact Hvp|intros; exact I]|]. intros w _ _.
        apply ppush_next_ok; [exact Hst|]. constructor; [split; [apply vok_inj|exact Hvp]|exact Hs1].
      - (* ISym *)
        apply ppush_next_ok; [exact Hst|]. constructor; [split; [apply Hscal; exact I|exact Hp]|exact Hs].
      - (* IDeRef *)
        destruct (p_get_binding fo envv envpos st s) as [e|] eqn:E; [|left; exact Hp].
        apply ppush_next_ok; [exact Hst|]. constructor; [split; [exact (p_get_binding_ok st s e Hst E)|exact Hp]|exact Hs].
      - (* IInitTuple *)
        apply ppush_next_ok; [exact Hst|]. constructor; [split; [apply vok_tuple; constructor|exact Hp]|exact Hs].
      - (* IField *)
        apply Hpop1. intros [v vp] s1 [Hv Hvp] Hs1. apply Hpop; [exact Hs1|]. intros [n np] s2 [_ Hnp] Hs2. simpl in *.
        destruct n; try exact I.
        + apply Hpop; [exact Hs2|]. intros [t tp] s3 [Ht Htp] Hs3. simpl in *. destruct t; try exact I.
          eapply out_ok_bind; [apply p_merge_field_ok; [exact (proj1 (vok_tuple _) Ht)|exact Hv|apply HXN; exact Hnp|apply HXN; exact Hvp]|].
          intros flds' _ Hf'. apply ppush_next_ok; [exact Hst|]. constructor; [split; [apply vok_tuple; exact Hf'|exact Htp]|exact Hs3].
        + apply Hpop; [exact Hs2|]. intros [t tp] s3 [Ht Htp] Hs3. simpl in *. destruct t; try exact I.
          eapply out_ok_bind; [apply p_merge_field_ok; [exact (proj1 (vok_tuple _) Ht)|exact Hv|apply HXN; exact Hnp|apply HXN; exact Hvp]|].
          intros flds' _ Hf'. apply ppush_next_ok; [exact Hst|]. constructor; [split; [apply vok_tuple; exact Hf'|exact Htp]|exact Hs3].
      - (* IInitList *)
        apply ppush_next_ok; [exact Hst|]. constructor; [split; [apply vok_list; constructor|exact Hp]|exact Hs].
      - (* IElement *)
        apply Hpop1. intros ve s1 Hve Hs1. apply Hpop; [exact Hs1|]. intros [l lp] s2 [Hl Hlp] Hs2. simpl in *.
        destruct l; try exact I. apply ppush_next_ok; [exact Hst|]. constructor; [|exact Hs2]. split; [|exact Hlp].
        apply vok_list. apply Forall_app. split; [exact (proj1 (vok_list _) Hl)|constructor; [apply eok_XN; exact Hve|constructor]].
      - (* ICp *) apply p_op_copy_ok; assumption.
      - (* IBang *)
        apply Hpop1. intros [v vp] s1 [_ Hvp] _. simpl in *. destruct v; try exact I. left. exact Hvp.
      - (* IJump *) apply pjump_ok. exact Hst.
      - (* IJumpIfTrue *)
        apply Hpop1. intros [v vp] s1 [_ Hvp] Hs1. simpl in *. destruct v; try (left; exact Hvp).
        destruct v; [apply pjump_ok|simpl]; exact (pwith_stk_ok X st s1 Hst Hs1).
      - (* IJumpIfFalse *)
        apply Hpop1. intros [v vp] s1 [_ Hvp] Hs1. simpl in *. destruct v; try (left; exact Hvp).
        destruct v; [simpl|apply pjump_ok]; exact (pwith_stk_ok X st s1 Hst Hs1).
      - (* ISelectJump *)
        apply Hpop1. intros fe s1 _ Hs1. apply Hpop; [exact Hs1|]. intros se s2 Hse Hs2.
        destruct (select_matches fo _ _); [simpl; exact (pwith_stk_ok X st s2 Hst Hs2)|].
        apply pjump_ok. apply pwith_stk_ok; [exact Hst|]. constructor; assumption.
      - (* IAnd *)
        apply Hpop1. intros [v vp] s1 [Hv Hvp] Hs1. simpl in *. destruct v; try (left; exact Hvp).
        destruct v; [simpl; exact (pwith_stk_ok X st s1 Hst Hs1)|].
        apply pjump_ok. apply pwith_stk_ok; [exact Hst|]. constructor; [split; assumption|exact Hs1].
      - (* IOr *)
        apply Hpop1. intros [v vp] s1 [Hv Hvp] Hs1. simpl in *. destruct v; try (left; exact Hvp).
        destruct v; [|simpl; exact (pwith_stk_ok X st s1 Hst Hs1)].
        apply pjump_ok. apply pwith_stk_ok; [exact Hst|]. constructor; [split; assumption|exact Hs1].
      - (* IIndex *)
        apply Hpop1. intros [r rp] s1 [_ Hrp] Hs1. apply Hpop; [exact Hs1|]. intros [l lp] s2 [Hl _] Hs2. simpl in *.
        eapply out_ok_bind; [apply p_index_ok; assumption|]. intros e _ He. apply ppush_next_ok; [exact Hst|]. constructor; assumption.
      - (* ISafeIndex *)
        apply Hpop1. intros [r rp] s1 [_ Hrp] Hs1. apply Hpop; [exact Hs1|]. intros [l lp] s2 [Hl _] Hs2. simpl in *.
        eapply out_ok_bind; [apply p_index_ok; assumption|]. intros e _ He. apply ppush_next_ok; [exact Hst|]. constructor; assumption.
      - (* IExist *)
        apply Hpop1. intros [r rp] s1 [_ Hrp] Hs1. apply Hpop; [exact Hs1|]. intros [l lp] s2 [_ Hlp] Hs2. simpl in *.
        eapply out_ok_bind; [apply p_exist_ok; assumption|]. intros v _ Hv. apply ppush_next_ok; [exact Hst|].
        constructor; [split; assumption|exact Hs2].
      - (* INoop *) exact Hst.
      - (* IInitThunk: a thunk enters the state *)
        apply pjump_ok. apply pwith_stk_ok; [exact Hst|]. constructor; [|exact Hs].
        split; [apply Hscal; exact I|exact Hp].
      - (* IModule *)
        apply Hpop1. intros [m mp0] s1 [Hm Hmp] Hs1. simpl in *. destruct m; try (left; exact Hmp).
        + apply pjump_ok. apply pwith_stk_ok; [exact Hst|]. constructor; [|exact Hs1]. split; [|exact Hp].
          apply vok_mod. exact (proj1 (vok_tuple _) Hm).
        + apply Hpop; [exact Hs1|]. intros [t tp] s2 [Ht Htp] Hs2. simpl in *. destruct t; try (left; exact Htp).
          apply pjump_ok. apply pwith_stk_ok; [exact Hst|]. constructor; [|exact Hs2]. split; [|exact Hp].
          apply vok_mod. exact (proj1 (vok_tuple _) Ht).
      - (* IFunc *)
        apply Hpop1. intros [l lp] s1 [_ Hlp] Hs1. simpl in *. destruct l; try (left; exact Hlp).
        eapply out_ok_bind with (PA := fun _ : list bytes => True).
        + induction l as [|[v vp] l IH]; simpl; [exact I|]. destruct v; try (left; exact Hlp).
          eapply out_ok_bind; [exact IH|]. intros r _ _. exact I.
        + intros names _ _. apply pjump_ok. apply pwith_stk_ok; [exact Hst|]. constructor; [|exact Hs1].
          split; [apply vok_func; exact Hb|exact Hp].
      - (* IReturn *) exact Hst.
      - (* IFCall *) apply p_op_fcall_ok; assumption.
      - (* ITyp *)
        apply Hpop1. intros [v vp] s1 [_ Hvp] Hs1. simpl in *. apply ppush_next_ok; [exact Hst|].
        constructor; [split; [apply Hscal; exact I|exact Hvp]|exact Hs1].
      - (* IRuntime *) apply p_op_runtime_ok; assumption.
      - (* IRender *)
        apply Hpop1. intros [v vp] s1 [_ Hvp] Hs1. simpl in *. destruct (wrender (erase_v v)); [|exact I].
        apply ppush_next_ok; [exact Hst|]. constructor; [split; [apply Hscal; exact I|exact Hvp]|exact Hs1].
      - (* IPushSelf *)
        apply Hpop1. intros e s1 He Hs1. simpl. split; [constructor; assumption|split; [exact Hb|]].
        simpl. constructor; [apply eok_XN; exact He|exact Hf].
      - (* IPopSelf *)
        simpl. split; [exact Hs|split; [exact Hb|]]. simpl. destruct (pselfs st) as [|e l]; [constructor|].
        simpl. inversion Hf; assumption.
      - (* ITranslatorPanic *) exact I.
    Qed.
  End Nested.
End Inv.
